import LeptosModel.Model.Router
/-!
# C14 — the router matches exactly the paths its route table declares

Property theorems about `Model/Router`.  `k : Ver`: `.cur` is the code as it is (after the repairs
fix-c14-1..5), `.old` the code before them (regression witnesses only), `.aligned` the segment-aligned
variant that only serves to state the decidable input class `SegmentAligned`.

* `C14_partition` (+ `_nested`, `C14_nested_complete`): matched ++ remaining = path — full, every segment
  kind, arbitrarily nested tuples, all three versions; nested routes under `hasOptWithChildren = false`
  (witness `C14_partition_nested_fallback_witness` shows the hypothesis is needed).
* `C14_params_are_segments` (+ `_opt`, `_noslash`, `C14_segHead_is_first_token`): full.
* `C14_static_is_whole_segment` (fix-c14-1): a static segment matches iff the first path segment *is* its text.
* `C14_expand_optionals`: the worklist = the recursive spec, 2^k entries, no optional left — full.
* `C14_match_iff_flat_full`: the full statement; still refuted (`C14_match_iff_flat_full_false`, by the
  optional-parent witness F-C14-5); one witness per remaining known-finding class (F-C14-2/5/6/10).
* regression witnesses for the repaired findings F-C14-1/3/4/7/8/9: what `.old` did, what `.cur` does, and
  that the oracle now accepts (`Holds`).
* `C14_match_iff_flat_partial` (+ `_holds`): proved for single leaf routes whose segments are plain
  statics and params (`SimpleN`) and for EVERY request path — the hypothesis `SegmentAligned`, needed for
  the code before fix-c14-1/2, is gone.  Route: `pass_simple` (one pass of the tuple loop = the segment-wise
  matcher `simpleMatch`), `leaf_simple`, `patternTokens_simple` (the `to_axum_path` pattern of such a route is
  one token per segment), `simple_eq_lenient` (`simpleMatch` = token matcher with the trailing-slash
  tolerance).
* `C14_match_iff_flat_partial_general` (PROVED, was OPEN): the same over arbitrary well-formed route
  tables without optional params (nested routes, sibling lists, nested tuples, static / param /
  wildcard-last, `""` and `"/"` segments, base) on every path with `SegmentAligned`; and
  `C14_aligned_variant_holds`: the aligned variant satisfies the full statement on such tables.  Route:
  `C14_tuple_nesting_flattens` (a segment tree = the flat list of its atoms, `seqTest`), `atom_aligned` /
  `seq_aligned` (atoms at a segment boundary = `atomSpec`), `nested_aligned` / `children_aligned` /
  `route_aligned` (route trees = the first registered flat route that accepts, `firstG` / `firstDefT`),
  `gmatch_eq_tmatch`, `tmatch_eq_lenient`, `patternTokens_wf` (the flat side over tokens),
  `strict_imp_gmatch` / `gmatch_imp_lenient` (strict table match ⊆ router-side acceptance ⊆ lenient table
  match), `table_first` / `table_none`, `judge_aligned`.
* `C14_match_iff_flat_optional_free` — UNCONDITIONAL: well-formed tables without optional params and without
  `"/"` segments satisfy the full statement on every request path (`C14_aligned_without_slash_segments`: there the
  router never leaves the segment grid); `C14_slash_parent_exact`: on optional-free tables every failure needs a
  `"/"` segment in the table and a path with `¬SegmentAligned` — the class `slash-parent` (F-C14-2) is exact there.
* **tables WITH optional params, stage 1** — `C14_match_iff_flat_optional_leaves`: well-formed tables whose
  optional params occur only in leaf routes, at most one per route, not inside an inner tuple (hypotheses =
  the negated class predicates `anyOptWithChildren`, `anyMultiOpt`, `anyInnerOptTuple` of the driver), on every path
  with `SegmentAligned`: `Holds`.  Route: `passFields_append`, `pass_noopt`, `tuple_one_opt` (the back-off loop
  with one optional field), `one_opt_test` (segment tree = `optSeqRP` of its atoms), `optSeq_aligned`,
  `no_leftover_after_shift` (slash counting: if the pass with the optional leaves something over, the variant
  without it cannot accept either), `gmatchO_eq_expansions` (a one-optional leaf = the first accepting of its
  two registered expansions), `nested_aligned1`, `route_aligned1`, `judge_of_table`.
* stage 1b — `C14_match_iff_flat_optional_leaves_no_slash`: the same without `SegmentAligned` when the table has no
  `"/"` static segment (`C14_aligned_without_slash_segments_opt`), and `C14_failure_in_known_class`: on a well-formed
  table every failing request path has `anyOptWithChildren ∨ anyMultiOpt ∨ anyInnerOptTuple ∨ (a "/" segment ∧
  ¬SegmentAligned)` — exactly the predicates `classify` files failures under (`C14_classify_sound`).
* **stage 2 — the final form** `C14_match_iff_flat_optional`: for every well-formed table and request path with
  `anyOptParent d.tops = false`, `anyMultiOpt d.tops = false`, `anyInnerOptTuple d.tops = false` and `SegmentAligned d path`
  — the four predicates `classify` uses, `anyOptParent` now in its exact form (an optional param NEXT TO A MANDATORY
  SEGMENT in a route with children; a parent that IS one optional param, `/:lang?` → …, is covered) — `Holds`.
  `C14_match_iff_flat_optional_no_slash` (no `SegmentAligned` needed without `"/"` segments) and
  `C14_failure_in_class` (every failure on a well-formed table lies in one of the four classes).  Route: `Route.ro`
  (the registered routes in the order the router tries them), `nested_aligned2` (incl. the optional-parent fallback),
  `ro_mem` (same routes as the table), `judge_of_table2` (the oracle does not depend on the order within a definition).
* **stage 3** `C14_match_iff_flat_optional_blocks`: as stage 2, and a leaf route may carry ANY number of optional params
  forming one block of direct fields; the class `optional-backoff-order` shrinks to `anySplitOpt` (optionals of a leaf
  separated by a mandatory segment, or ≥ 2 optionals in a route with children) — this is the predicate `classify` uses.
  Route: `block_test`, `soft_vs_strict`, `no_leftover_general`, `block_eq_prefix` (the back-off = the first accepting
  PREFIX expansion), `prefix_mem_expand` / `expand_shape` / `gmatch_shape` (every registered expansion of a block has the
  shape of a prefix expansion), `nested_aligned3`, `ro3_sub` / `ro3_shape`, `judge_of_table3`.
  `C14_match_iff_flat_optional_blocks_no_slash` (no `SegmentAligned` needed without `"/"` segments) and
  `C14_failure_in_class_exact`: every failure on a well-formed table lies in `anyOptParent ∨ anySplitOpt ∨
  anyInnerOptTuple ∨ ("/" segment ∧ ¬SegmentAligned)` — exactly the predicates of `classify` (`C14_classify_sound`).
* stage 3 (first part) — `tuple_opt_block`: the tuple loop over `LA ++ OB ++ LB` with a block `OB` of optional
  fields is `blockRP`: the back-off includes the first `inc` optionals for `inc = m, m-1, …, 0`, i.e. only PREFIXES of
  the block are ever tried — the exact mechanism behind F-C14-6, in every version of the code.
* `C14_build_then_match_nested` (nested routes of any depth, one child per level, every version of the code,
  via `seq_build` / `build_nested`) and `C14_build_then_match_table` (whole tables with siblings and base: the
  built path is matched by that definition or an earlier accepting one).
* `C14_first_match_wins`: sibling lists — the first matching definition in declaration order wins, in
  every version of the code.
* `C14_build_then_match`: full for `SimpleF` segment lists.
* `C14_ssr_mode_path_independent`, `C14_ssr_mode_is_first_strictest` (`.ssr_mode(..)` on routes at every
  level, `RouteM` / `genM`): the generated table's segment lists are those of the mode-free tree and every
  entry's methods are `{Get}` whatever the modes; an entry's mode is the first strictest mode of its chain
  (ancestor kept on ties, two `Static` included), its regeneration fns are the chain's in order.
-/
namespace Leptos.Router

mutual
/-- a route with children whose own segments contain an optional param (every such route; the
known-finding class `optional-parent`, `Route.hasOptParent`, only has those that also contain a
mandatory segment) -/
def Route.hasOptWithChildren : Route → Bool
  | .mk segs children => (!children.isEmpty && segs.optional) || anyOptWithChildren children
def anyOptWithChildren : List Route → Bool
  | [] => false
  | c :: cs => c.hasOptWithChildren || anyOptWithChildren cs
end

/-! ## bytes and slices -/


theorem utf8Size_pos' (c : Char) : 0 < c.utf8Size := Char.utf8Size_pos c

theorem bytes_append (a b : Path) : bytes (a ++ b) = bytes a + bytes b := by
  induction a with
  | nil => simp [bytes]
  | cons c cs ih => simp [bytes, ih]; omega

/-- `split_at` returns the two halves of the string -/
theorem splitBytes_append : ∀ (p : Path) (n : Nat) (a b : Path), splitBytes p n = some (a, b) → a ++ b = p := by
  intro p
  induction p with
  | nil =>
    intro n a b h
    cases n with
    | zero => simp [splitBytes] at h; obtain ⟨rfl, rfl⟩ := h; rfl
    | succ n => simp [splitBytes] at h
  | cons c cs ih =>
    intro n a b h
    cases n with
    | zero => simp [splitBytes] at h; obtain ⟨rfl, rfl⟩ := h; rfl
    | succ n =>
      simp only [splitBytes] at h
      split at h
      · split at h
        · next a' b' heq =>
          simp at h; obtain ⟨rfl, rfl⟩ := h
          simp [ih _ _ _ heq]
        · simp at h
      · simp at h

theorem splitBytes_len : ∀ (p : Path) (n : Nat) (a b : Path), splitBytes p n = some (a, b) → bytes a = n := by
  intro p
  induction p with
  | nil =>
    intro n a b h
    cases n with
    | zero => simp [splitBytes] at h; obtain ⟨rfl, rfl⟩ := h; rfl
    | succ n => simp [splitBytes] at h
  | cons c cs ih =>
    intro n a b h
    cases n with
    | zero => simp [splitBytes] at h; obtain ⟨rfl, rfl⟩ := h; rfl
    | succ n =>
      simp only [splitBytes] at h
      split at h
      · next hle =>
        split at h
        · next a' b' heq =>
          simp at h; obtain ⟨rfl, rfl⟩ := h
          have := ih _ _ _ heq
          simp [bytes, this]; omega
        · simp at h
      · simp at h

/-- splitting at the byte length of a prefix succeeds and returns that prefix -/
theorem splitBytes_bytes (a b : Path) : splitBytes (a ++ b) (bytes a) = some (a, b) := by
  induction a with
  | nil => cases b <;> simp [bytes, splitBytes]
  | cons c cs ih =>
    have hp := Char.utf8Size_pos c
    obtain ⟨m, hm⟩ : ∃ m, bytes (c :: cs) = m + 1 := ⟨c.utf8Size + bytes cs - 1, by simp [bytes]; omega⟩
    rw [hm]
    simp only [List.cons_append, splitBytes]
    have h1 : c.utf8Size ≤ m + 1 := by simp [bytes] at hm; omega
    have h2 : m + 1 - c.utf8Size = bytes cs := by simp [bytes] at hm; omega
    simp [h1, h2, ih]


/-! ## partition: segments and tuples -/


theorem staticTest_partition (fx : Bool) (s path : Path) (m : PM) (h : staticTest fx s path = .some m) :
    m.matched ++ m.remaining = path := by
  unfold staticTest at h
  simp only at h
  split at h
  · simp at h
  · split at h
    · simp at h
    · next a b heq =>
      split at h
      · simp at h; subst h; exact splitBytes_append _ _ _ _ heq
      · simp at h

theorem paramTest_partition (fx : Bool) (n path : Path) (m : PM) (h : paramTest fx n path = .some m) :
    m.matched ++ m.remaining = path := by
  unfold paramTest at h
  simp only at h
  split at h
  · simp at h
  · split at h
    · next a b v heq _ => simp at h; subst h; exact splitBytes_append _ _ _ _ heq
    · simp at h

theorem optTest_partition (fx : Bool) (n path : Path) (m : PM) (h : optTest fx n path = .some m) :
    m.matched ++ m.remaining = path := by
  unfold optTest at h
  simp only at h
  generalize (if (paramScan fx path).fst = 1 ∧ startsSlash path = true then 0 else (paramScan fx path).fst) = ml at h
  split at h
  · simp at h
  · next a b heq =>
    split at h
    · split at h
      · simp at h; subst h; exact splitBytes_append _ _ _ _ heq
      · simp at h
    · simp at h; subst h; exact splitBytes_append _ _ _ _ heq

theorem splatTest_partition (fx : Bool) (n path : Path) (m : PM) (h : splatTest fx n path = .some m) :
    m.matched ++ m.remaining = path := by
  unfold splatTest at h
  simp only at h
  split at h
  · next a b v heq _ => simp at h; subst h; exact splitBytes_append _ _ _ _ heq
  · simp at h

theorem backoff_done (f : Nat → Pass) : ∀ n r ml p, backoff f n = .done r ml p → ∃ i, f i = .done r ml p := by
  intro n
  induction n with
  | zero => intro r ml p h; exact ⟨0, h⟩
  | succ n ih =>
    intro r ml p h
    simp only [backoff] at h
    split at h
    · exact ih _ _ _ h
    · exact ⟨n + 1, h⟩

mutual
theorem test_partition (k : Ver) : ∀ (s : Seg) (path : Path) (m : PM), s.test k path = .some m →
    m.matched ++ m.remaining = path
  | .st s, path, m, h => by
    simp only [Seg.test] at h; split at h
    · exact staticTest_partition _ _ _ _ h
    · simp at h
  | .param n, path, m, h => by
    simp only [Seg.test] at h; split at h
    · exact paramTest_partition _ _ _ _ h
    · simp at h
  | .opt n, path, m, h => by
    simp only [Seg.test] at h; split at h
    · exact optTest_partition _ _ _ _ h
    · simp at h
  | .splat n, path, m, h => by
    simp only [Seg.test] at h; split at h
    · exact splatTest_partition _ _ _ _ h
    · simp at h
  | .tup [], path, m, h => by
    simp only [Seg.test] at h; simp at h; subst h; rfl
  | .tup [a], path, m, h => by
    simp only [Seg.test] at h
    split at h
    · next m' hm' =>
      split at h
      · next pre post hs =>
        simp at h; subst h
        have ih := test_partition k a path m' hm'
        have h1 := splitBytes_bytes m'.matched m'.remaining
        rw [ih] at h1
        rw [hs] at h1
        simp at h1
        simp [h1.1, ih]
      · simp at h
    · simp at h
    · simp at h
  | .tup (a :: b :: l), path, m, h => by
    simp only [Seg.test] at h
    split at h
    · next r ml p hb =>
      obtain ⟨inc, hinc⟩ := backoff_done _ _ _ _ _ hb
      obtain ⟨c, hc1, hc2⟩ := pass_inv k (a :: b :: l) true inc 0 path 0 [] path [] r ml p (by simp) (by simp [bytes]) hinc
      split at h
      · next pre post hs =>
        simp at h; subst h
        have h1 := splitBytes_bytes c r
        rw [hc1, hc2, hs] at h1
        simp at h1
        simp [h1.1, hc1]
      · simp at h
    · simp at h
    · simp at h
theorem pass_inv (k : Ver) : ∀ (l : List Seg) (first : Bool) (inc nth : Nat) (r0 : Path) (ml0 : Nat) (p0 : Params)
    (path c0 r : Path) (ml : Nat) (p : Params),
    c0 ++ r0 = path → bytes c0 = ml0 → passFields k l first inc nth r0 ml0 p0 = .done r ml p →
    ∃ c, c ++ r = path ∧ bytes c = ml
  | [], first, inc, nth, r0, ml0, p0, path, c0, r, ml, p, h1, h2, h => by
    simp only [passFields] at h
    simp at h
    obtain ⟨rfl, rfl, rfl⟩ := h
    exact ⟨c0, h1, h2⟩
  | ty :: tys, first, inc, nth, r0, ml0, p0, path, c0, r, ml, p, h1, h2, h => by
    simp only [passFields] at h
    generalize (if ty.optional = true then nth + 1 else nth) = nth' at h
    split at h
    · cases hm : ty.test k r0 with
      | panic => rw [hm] at h; simp at h
      | none => rw [hm] at h; simp only at h; repeat' split at h
                all_goals simp at h
      | some m =>
        rw [hm] at h; simp only at h
        have hp := test_partition k ty r0 m hm
        refine pass_inv k tys false inc _ m.remaining _ _ path (c0 ++ m.matched) r ml p ?_ ?_ h
        · rw [List.append_assoc, hp, h1]
        · rw [bytes_append, h2]
    · exact pass_inv k tys false inc _ r0 ml0 p0 path c0 r ml p h1 h2 h
end


/-! ## partition: nested routes -/


/-- the matched strings of all nesting levels, concatenated -/
def chainCat (m : NMatch) : Path := (m.chain.map (·.2)).flatten

theorem finish_some (pos : Nat) (matched : Path) (params : Params) (inner : Option NMatch) (remaining : Path)
    (m : NMatch) (rem : Path) (h : finish pos matched params inner remaining = .some m rem) :
    rem = remaining ∧ complete rem = true ∧
      chainCat m = matched ++ (match inner with | some i => chainCat i | none => []) := by
  unfold finish at h
  split at h
  · next hc =>
    split at h
    · simp at h; obtain ⟨rfl, rfl⟩ := h; simp [chainCat, hc]
    · simp at h; obtain ⟨rfl, rfl⟩ := h; simp [chainCat, hc]
  · simp at h

mutual
theorem nested_partition (k : Ver) : ∀ (r : Route) (pos : Nat) (path : Path) (m : NMatch) (rem : Path),
    r.hasOptWithChildren = false → matchNested k r pos path = .some m rem → chainCat m ++ rem = path
  | .mk segs children, pos, path, m, rem, hno, h => by
    simp only [Route.hasOptWithChildren, Bool.or_eq_false_iff, Bool.and_eq_false_iff] at hno
    simp only [matchNested] at h
    cases hs : segs.test k path with
    | panic => rw [hs] at h; simp at h
    | none => rw [hs] at h; simp at h
    | some pm =>
      rw [hs] at h; simp only at h
      have hp := test_partition k segs path pm hs
      split at h
      · obtain ⟨rfl, _, hc⟩ := finish_some _ _ _ _ _ _ _ h
        simp [hc, hp]
      · next hne =>
        cases hc : matchChildren k children 0 pm.remaining with
        | panic => rw [hc] at h; simp at h
        | some inner rem' =>
          rw [hc] at h; simp only at h
          obtain ⟨rfl, _, hcc⟩ := finish_some _ _ _ _ _ _ _ h
          have ih := children_partition k children 0 pm.remaining inner rem hno.2 hc
          simp only at hcc
          rw [hcc, List.append_assoc, ih, hp]
        | none =>
          rw [hc] at h; simp only at h
          have hopt : segs.optional = false := by
            rcases hno.1 with h1 | h1
            · simp [hne] at h1
            · exact h1
          simp [hopt] at h
theorem children_partition (k : Ver) : ∀ (cs : List Route) (i : Nat) (path : Path) (m : NMatch) (rem : Path),
    anyOptWithChildren cs = false → matchChildren k cs i path = .some m rem → chainCat m ++ rem = path
  | [], i, path, m, rem, hno, h => by simp [matchChildren] at h
  | c :: cs, i, path, m, rem, hno, h => by
    simp only [anyOptWithChildren, Bool.or_eq_false_iff] at hno
    simp only [matchChildren] at h
    cases hc : matchNested k c i path with
    | panic => rw [hc] at h; simp at h
    | some m' rem' =>
      rw [hc] at h; simp at h; obtain ⟨rfl, rfl⟩ := h
      exact nested_partition k c i path _ _ hno.1 hc
    | none =>
      rw [hc] at h; simp only at h
      exact children_partition k cs (i + 1) path m rem hno.2 h
end

theorem stripPrefix_append (s rest : Path) : stripPrefix s (s ++ rest) = some rest := by
  induction s with
  | nil => cases rest <;> simp [stripPrefix]
  | cons c s ih => simp [stripPrefix, ih]

theorem stripPrefix_some (s : Path) : ∀ t rest, stripPrefix s t = some rest → t = s ++ rest := by
  induction s with
  | nil => intro t rest h; cases t <;> simp [stripPrefix] at h <;> simp [h]
  | cons c s ih =>
    intro t rest h
    cases t with
    | nil => simp [stripPrefix] at h
    | cons d t =>
      simp only [stripPrefix] at h
      split at h
      · next hcd => subst hcd; simp [ih t rest h]
      · simp at h

/-! ## params are segments -/

theorem slash_size : ('/' : Char).utf8Size = 1 := by decide

/-- the first `/`-separated segment of a string, and what follows it -/
def segHead (p : Path) : Path := p.takeWhile (· ≠ '/')
def segTail (p : Path) : Path := p.dropWhile (· ≠ '/')

theorem segHead_append_segTail (p : Path) : segHead p ++ segTail p = p := by
  simp [segHead, segTail, List.takeWhile_append_dropWhile]

theorem scanSeg_eq (p : Path) : scanSeg p = bytes (segHead p) := by
  induction p with
  | nil => simp [scanSeg, segHead, bytes]
  | cons c cs ih =>
    by_cases hc : c = '/'
    · simp [scanSeg, segHead, hc, bytes]
    · simp [scanSeg, segHead, hc, bytes]; simpa [segHead] using ih

theorem bytes_eq_zero {p : Path} (h : bytes p = 0) : p = [] := by
  cases p with
  | nil => rfl
  | cons c cs => have := Char.utf8Size_pos c; simp [bytes] at h; omega

theorem splitSlash_head (p : Path) : (splitSlash p).head? = some (segHead p) := by
  induction p with
  | nil => simp [splitSlash, segHead]
  | cons c cs ih =>
    simp only [splitSlash]
    cases hs : splitSlash cs with
    | nil => simp [hs] at ih
    | cons h t =>
      simp [hs] at ih
      by_cases hc : c = '/'
      · simp [hc, segHead]
      · simp [hc, segHead, ih]

/-- complete description of `ParamSegment::test` on a path that starts with `/` (old and new code) -/
theorem paramTest_slash (fx : Bool) (n p : Path) :
    paramTest fx n ('/' :: p) =
      if segHead p = [] then .none else .some ⟨'/' :: segHead p, segTail p, [(n, segHead p)]⟩ := by
  have hb : bytes ('/' :: segHead p) = 1 + scanSeg p := by
    simp [bytes, scanSeg_eq]; decide
  have h1 : splitBytes ('/' :: p) (1 + scanSeg p) = some ('/' :: segHead p, segTail p) := by
    have := splitBytes_bytes ('/' :: segHead p) (segTail p)
    rw [hb] at this
    simpa [segHead_append_segTail] using this
  have h2 : sliceBytes ('/' :: p) 1 (scanSeg p + 1) = some (segHead p) := by
    unfold sliceBytes
    have h3 : splitBytes ('/' :: p) 1 = some (['/'], p) := by
      have := splitBytes_bytes ['/'] p
      simpa [bytes, slash_size] using this
    have h4 : splitBytes p (scanSeg p) = some (segHead p, segTail p) := by
      have := splitBytes_bytes (segHead p) (segTail p)
      rw [segHead_append_segTail, ← scanSeg_eq] at this
      exact this
    simp [h3, h4]
  unfold paramTest
  simp only [paramScan, if_true, startsSlash]
  by_cases he : segHead p = []
  · have : scanSeg p = 0 := by simp [scanSeg_eq, he, bytes]
    simp [he, this]
  · have : scanSeg p ≠ 0 := by
      intro h0; rw [scanSeg_eq] at h0; exact he (bytes_eq_zero h0)
    simp [he, h1, h2]
    omega

/-- complete description of `OptionalParamSegment::test` on a path that starts with `/` -/
theorem optTest_slash (fx : Bool) (n p : Path) :
    optTest fx n ('/' :: p) =
      if segHead p = [] then .some ⟨[], '/' :: p, []⟩
      else .some ⟨'/' :: segHead p, segTail p, [(n, segHead p)]⟩ := by
  have hb : bytes ('/' :: segHead p) = 1 + scanSeg p := by
    simp [bytes, scanSeg_eq]; decide
  have h1 : splitBytes ('/' :: p) (1 + scanSeg p) = some ('/' :: segHead p, segTail p) := by
    have := splitBytes_bytes ('/' :: segHead p) (segTail p)
    rw [hb] at this
    simpa [segHead_append_segTail] using this
  have h2 : sliceBytes ('/' :: p) 1 (scanSeg p + 1) = some (segHead p) := by
    unfold sliceBytes
    have h3 : splitBytes ('/' :: p) 1 = some (['/'], p) := by
      have := splitBytes_bytes ['/'] p
      simpa [bytes, slash_size] using this
    have h4 : splitBytes p (scanSeg p) = some (segHead p, segTail p) := by
      have := splitBytes_bytes (segHead p) (segTail p)
      rw [segHead_append_segTail, ← scanSeg_eq] at this
      exact this
    simp [h3, h4]
  unfold optTest
  simp only [paramScan, if_true, startsSlash]
  by_cases he : segHead p = []
  · have : scanSeg p = 0 := by simp [scanSeg_eq, he, bytes]
    simp [he, this, splitBytes]
  · have h0 : scanSeg p ≠ 0 := by
      intro h0; rw [scanSeg_eq] at h0; exact he (bytes_eq_zero h0)
    simp [he, h0, h1, h2]

/-- fix-c14-2: a param segment on a path *without* a leading slash takes the first segment whole
(it used to drop the first character, and could slice inside a multi-byte character) -/
theorem paramTest_noslash (n p : Path) (hp : startsSlash p = false) (hne : segHead p ≠ []) :
    paramTest true n p = .some ⟨segHead p, segTail p, [(n, segHead p)]⟩ := by
  cases p with
  | nil => simp [segHead] at hne
  | cons c t =>
    have hc : c ≠ '/' := by simpa [startsSlash] using hp
    have h4 : splitBytes (c :: t) (scanSeg (c :: t)) = some (segHead (c :: t), segTail (c :: t)) := by
      have := splitBytes_bytes (segHead (c :: t)) (segTail (c :: t))
      rw [segHead_append_segTail, ← scanSeg_eq] at this
      exact this
    have h0 : scanSeg (c :: t) ≠ 0 := by
      intro h0; rw [scanSeg_eq] at h0; exact hne (bytes_eq_zero h0)
    unfold paramTest
    simp only [paramScan, hc, if_false, if_true]
    simp [h0, startsSlash, hc, sliceBytes, splitBytes, h4]

theorem segTail_aligned (t : Path) : segTail t = [] ∨ startsSlash (segTail t) = true := by
  induction t with
  | nil => left; rfl
  | cons c t ih =>
    by_cases hc : c = '/'
    · right; simp [segTail, hc, startsSlash]
    · simpa [segTail, hc] using ih

theorem segHead_append (v rest : Path) (hv : '/' ∉ v) (hr : rest = [] ∨ startsSlash rest = true) :
    segHead (v ++ rest) = v ∧ segTail (v ++ rest) = rest := by
  induction v with
  | nil =>
    rcases hr with rfl | hr
    · simp [segHead, segTail]
    · cases rest with
      | nil => simp [segHead, segTail]
      | cons c r => simp [startsSlash] at hr; subst hr; simp [segHead, segTail]
  | cons c v ih =>
    have hc : c ≠ '/' := by intro h; apply hv; simp [h]
    have hv' : '/' ∉ v := by intro h; apply hv; simp [h]
    have := ih hv'
    simp [segHead, segTail, hc] at this ⊢
    exact this

theorem segHead_eq_iff (s t : Path) (hs : '/' ∉ s) :
    segHead t = s ↔ ∃ rest, t = s ++ rest ∧ (rest = [] ∨ startsSlash rest = true) ∧ segTail t = rest := by
  constructor
  · intro h
    refine ⟨segTail t, ?_, ?_, rfl⟩
    · rw [← h]; exact (segHead_append_segTail t).symm
    · exact segTail_aligned t
  · rintro ⟨rest, rfl, hr, _⟩
    exact (segHead_append s rest hs hr).1

/-! ## static segments -/

/-- a static text as `path!` produces it: non-empty, no `/` -/
def Plain (s : Path) : Prop := s ≠ [] ∧ '/' ∉ s
instance (s : Path) : Decidable (Plain s) := by unfold Plain; exact inferInstance

/-- `rest` begins at a segment boundary -/
def Aligned (rest : Path) : Prop := rest = [] ∨ startsSlash rest = true
instance (r : Path) : Decidable (Aligned r) := by unfold Aligned; exact inferInstance

/-- the loop accepts when the segment's text is a prefix of what is left and — only with
`strict` (fix-c14-1) — the prefix ends at a segment boundary.  Without `strict` it does not look at the
character after the prefix: that was F-C14-1. -/
theorem staticLoop_prefix (strict : Bool) (s rest : Path) (hs : '/' ∉ s) (hm : Bool) (ml : Nat) :
    staticLoop strict s (s ++ rest) hm ml =
      if strict = true ∧ ¬ Aligned rest then none else some (hm || !s.isEmpty, ml + bytes s) := by
  induction s generalizing hm ml with
  | nil =>
    cases rest with
    | nil => simp [staticLoop, bytes, Aligned]
    | cons c r =>
      by_cases hc : c = '/'
      · simp [staticLoop, bytes, Aligned, startsSlash, hc]
      · simp [staticLoop, bytes, Aligned, startsSlash, hc]
  | cons n s ih =>
    have hn : n ≠ '/' := by intro h; apply hs; simp [h]
    have hs' : '/' ∉ s := by intro h; apply hs; simp [h]
    simp only [List.cons_append, staticLoop, hn, if_false, if_true]
    rw [ih hs']
    split <;> simp [bytes] <;> omega

theorem staticLoop_some (strict : Bool) (s : Path) : ∀ (t : Path) (hm : Bool) (ml : Nat) (r : Bool × Nat),
    staticLoop strict s t hm ml = some r → ∃ rest, t = s ++ rest ∧ '/' ∉ s := by
  induction s with
  | nil => intro t hm ml r _; exact ⟨t, rfl, by simp⟩
  | cons n s ih =>
    intro t hm ml r h
    cases t with
    | nil => simp [staticLoop] at h
    | cons c t =>
      simp only [staticLoop] at h
      split at h
      · simp at h
      · next hc =>
        split at h
        · next hcn =>
          obtain ⟨rest, h1, h2⟩ := ih _ _ _ _ h
          subst hcn
          refine ⟨rest, by simp [h1], ?_⟩
          intro hmem
          simp at hmem
          rcases hmem with h3 | h3
          · exact hc h3.symm
          · exact h2 h3
        · simp at h

theorem plain_facts {s : Path} (hs : Plain s) :
    s.head? ≠ some '/' ∧ s.isEmpty = false ∧ (s == ['/']) = false := by
  obtain ⟨hne, hns⟩ := hs
  refine ⟨?_, ?_, ?_⟩
  · cases s with
    | nil => simp
    | cons c s => simp; intro h; apply hns; simp [h]
  · cases s <;> simp at hne ⊢
  · cases s with
    | nil => simp
    | cons c s =>
      have : c ≠ '/' := by intro h; apply hns; simp [h]
      cases s <;> simp [this]

/-- `StaticSegment(s).test("/" ++ s ++ rest)`: before fix-c14-1 (`fx = false`) a match for every
`rest`; now only when `rest` starts a new segment -/
theorem staticTest_slash (fx : Bool) (s rest : Path) (hs : Plain s) :
    staticTest fx s ('/' :: s ++ rest) =
      if fx = true ∧ ¬ Aligned rest then .none else .some ⟨'/' :: s, rest, []⟩ := by
  obtain ⟨hh, he, hs2⟩ := plain_facts hs
  have h3 := splitBytes_bytes ('/' :: s) rest
  simp only [bytes, slash_size, List.cons_append] at h3
  unfold staticTest
  simp only [he, hs2, hh, List.cons_append, if_true, Bool.or_self, Bool.not_false, Bool.and_true,
    Bool.false_eq_true, or_self, if_false]
  rw [staticLoop_prefix fx s rest hs.2]
  by_cases hc : fx = true ∧ ¬ Aligned rest
  · simp [hc]
  · simp [hc, h3, he]

/-- and only then (for a path that starts with `/`) -/
theorem staticTest_slash_cases (fx : Bool) (s t : Path) (hs : Plain s) :
    staticTest fx s ('/' :: t) =
      match stripPrefix s t with
      | some rest => if fx = true ∧ ¬ Aligned rest then .none else .some ⟨'/' :: s, rest, []⟩
      | none => .none := by
  cases hp : stripPrefix s t with
  | some rest =>
    have := stripPrefix_some s t rest hp
    subst this
    simpa using staticTest_slash fx s rest hs
  | none =>
    simp only
    obtain ⟨hh, he, hs2⟩ := plain_facts hs
    cases hl : staticLoop (fx && true) s t false 1 with
    | none =>
      unfold staticTest
      simp [he, hh, hs2]
      simp at hl
      simp [hl]
    | some r =>
      obtain ⟨rest, h1, _⟩ := staticLoop_some _ s t _ _ _ hl
      subst h1
      simp [stripPrefix_append] at hp

theorem staticTest_nil (fx : Bool) (s : Path) (hs : Plain s) : staticTest fx s [] = .none := by
  obtain ⟨hne, hns⟩ := hs
  cases s with
  | nil => simp at hne
  | cons c s =>
    unfold staticTest
    cases s <;> simp [staticLoop]

/-! ## expand_optionals -/


theorem firstOpt_none {l : List FSeg} (h : firstOpt l = none) : countOptF l = 0 ∧ expandSpec l = [l] := by
  induction l with
  | nil => simp [countOptF, expandSpec]
  | cons s rest ih =>
    cases s with
    | opt n => simp [firstOpt] at h
    | st t =>
      simp only [firstOpt] at h
      cases hr : firstOpt rest with
      | some x => obtain ⟨a, n, b⟩ := x; simp [hr] at h
      | none => have := ih hr; simp [countOptF, FSeg.isOpt, expandSpec, this]
    | param t =>
      simp only [firstOpt] at h
      cases hr : firstOpt rest with
      | some x => obtain ⟨a, n, b⟩ := x; simp [hr] at h
      | none => have := ih hr; simp [countOptF, FSeg.isOpt, expandSpec, this]
    | splat t =>
      simp only [firstOpt] at h
      cases hr : firstOpt rest with
      | some x => obtain ⟨a, n, b⟩ := x; simp [hr] at h
      | none => have := ih hr; simp [countOptF, FSeg.isOpt, expandSpec, this]

theorem firstOpt_some {l a b : List FSeg} {n : List Char} (h : firstOpt l = some (a, n, b)) :
    countOptF l = countOptF b + 1 ∧ countOptF (a ++ .param n :: b) = countOptF b ∧ countOptF (a ++ b) = countOptF b ∧
    expandSpec l = expandSpec (a ++ .param n :: b) ++ expandSpec (a ++ b) := by
  induction l generalizing a with
  | nil => simp [firstOpt] at h
  | cons s rest ih =>
    cases s with
    | opt m =>
      simp [firstOpt] at h
      obtain ⟨rfl, rfl, rfl⟩ := h
      simp [countOptF, FSeg.isOpt, expandSpec]; omega
    | st t =>
      simp only [firstOpt] at h
      cases hr : firstOpt rest with
      | none => simp [hr] at h
      | some x =>
        obtain ⟨a', n', b'⟩ := x
        simp [hr] at h
        obtain ⟨rfl, rfl, rfl⟩ := h
        have := ih hr
        simp [countOptF, FSeg.isOpt, expandSpec, this]
    | param t =>
      simp only [firstOpt] at h
      cases hr : firstOpt rest with
      | none => simp [hr] at h
      | some x =>
        obtain ⟨a', n', b'⟩ := x
        simp [hr] at h
        obtain ⟨rfl, rfl, rfl⟩ := h
        have := ih hr
        simp [countOptF, FSeg.isOpt, expandSpec, this]
    | splat t =>
      simp only [firstOpt] at h
      cases hr : firstOpt rest with
      | none => simp [hr] at h
      | some x =>
        obtain ⟨a', n', b'⟩ := x
        simp [hr] at h
        obtain ⟨rfl, rfl, rfl⟩ := h
        have := ih hr
        simp [countOptF, FSeg.isOpt, expandSpec, this]

/-- number of `pop`s the worklist needs for one entry -/
def pops (l : List FSeg) : Nat := 2 ^ (countOptF l + 1) - 1

def popsAll : List (List FSeg) → Nat
  | [] => 0
  | l :: ls => pops l + popsAll ls

theorem pops_pos (l : List FSeg) : 0 < pops l := by
  unfold pops
  have : 2 ≤ 2 ^ (countOptF l + 1) := by
    calc 2 = 2 ^ 1 := rfl
      _ ≤ 2 ^ (countOptF l + 1) := Nat.pow_le_pow_right (by decide) (by omega)
  omega

/-- the worklist computes the recursive specification, given enough fuel -/
theorem expandLoop_eq : ∀ (fuel : Nat) (stack checked : List (List FSeg)), popsAll stack ≤ fuel →
    expandLoop fuel stack checked = checked ++ stack.flatMap expandSpec := by
  intro fuel
  induction fuel with
  | zero =>
    intro stack checked h
    cases stack with
    | nil => simp [expandLoop]
    | cons t s => have := pops_pos t; simp [popsAll] at h; omega
  | succ f ih =>
    intro stack checked h
    cases stack with
    | nil => simp [expandLoop]
    | cons top stack =>
      simp only [expandLoop]
      cases ho : firstOpt top with
      | none =>
        obtain ⟨h0, hs⟩ := firstOpt_none ho
        have hp : pops top = 1 := by simp [pops, h0]
        simp only
        rw [ih stack (checked ++ [top]) (by simp [popsAll, hp] at h; omega)]
        simp [hs]
      | some x =>
        obtain ⟨a, n, b⟩ := x
        obtain ⟨h1, h2, h3, hs⟩ := firstOpt_some ho
        simp only
        have hpow : 2 ^ (countOptF b + 1 + 1) = 2 * 2 ^ (countOptF b + 1) := by
          rw [Nat.pow_succ]; omega
        have hge : 1 ≤ 2 ^ (countOptF b + 1) := Nat.one_le_two_pow
        rw [ih _ checked (by
          simp only [popsAll, pops, h1, h2, h3] at h ⊢
          omega)]
        simp [hs]

theorem expandSpec_length (l : List FSeg) : (expandSpec l).length = 2 ^ countOptF l := by
  induction l with
  | nil => simp [expandSpec, countOptF]
  | cons s rest ih =>
    cases s with
    | opt n =>
      have : 2 ^ (1 + countOptF rest) = 2 * 2 ^ countOptF rest := by rw [Nat.add_comm, Nat.pow_succ]; omega
      simp [expandSpec, countOptF, FSeg.isOpt, ih, this]; omega
    | st t => simp [expandSpec, countOptF, FSeg.isOpt, ih]
    | param t => simp [expandSpec, countOptF, FSeg.isOpt, ih]
    | splat t => simp [expandSpec, countOptF, FSeg.isOpt, ih]

theorem expandSpec_noOpt (l : List FSeg) : ∀ r ∈ expandSpec l, ∀ s ∈ r, s.isOpt = false := by
  induction l with
  | nil => simp [expandSpec]
  | cons s rest ih =>
    intro r hr x hx
    cases s with
    | opt n =>
      simp only [expandSpec, List.mem_append, List.mem_map] at hr
      rcases hr with ⟨r', hr', rfl⟩ | hr
      · simp at hx
        rcases hx with rfl | hx
        · rfl
        · exact ih r' hr' x hx
      · exact ih r hr x hx
    | st t =>
      simp only [expandSpec, List.mem_map] at hr
      obtain ⟨r', hr', rfl⟩ := hr
      simp at hx
      rcases hx with rfl | hx
      · rfl
      · exact ih r' hr' x hx
    | param t =>
      simp only [expandSpec, List.mem_map] at hr
      obtain ⟨r', hr', rfl⟩ := hr
      simp at hx
      rcases hx with rfl | hx
      · rfl
      · exact ih r' hr' x hx
    | splat t =>
      simp only [expandSpec, List.mem_map] at hr
      obtain ⟨r', hr', rfl⟩ := hr
      simp at hx
      rcases hx with rfl | hx
      · rfl
      · exact ih r' hr' x hx

theorem expandOptionals_eq_spec (l : List FSeg) : expandOptionals l = expandSpec l := by
  unfold expandOptionals
  rw [expandLoop_eq _ _ _ (by simp [popsAll, pops])]
  simp


/-! ## build then match -/


def toSeg : FSeg → Seg
  | .st s => .st s
  | .param n => .param n
  | .opt n => .opt n
  | .splat n => .splat n

/-- a registered segment of the simple sub-class: plain static text or a param -/
def SimpleF : FSeg → Prop
  | .st s => Plain s
  | .param _ => True
  | _ => False

instance : DecidablePred SimpleF := fun f => by cases f <;> unfold SimpleF <;> exact inferInstance

/-- a parameter value as it occurs in a path: non-empty, no `/` -/
def GoodVal (v : Path) : Prop := v ≠ [] ∧ '/' ∉ v
instance (v : Path) : Decidable (GoodVal v) := by unfold GoodVal; exact inferInstance

def paramNames : List FSeg → List (List Char)
  | [] => []
  | .param n :: r => n :: paramNames r
  | .splat n :: r => n :: paramNames r
  | _ :: r => paramNames r

theorem plain_not_startsSlash {s : Path} (h : '/' ∉ s) : startsSlash s = false := by
  cases s with
  | nil => rfl
  | cons c s => simp [startsSlash]; intro hc; apply h; simp [hc]

theorem toSeg_optional {f : FSeg} (h : SimpleF f) : (toSeg f).optional = false := by
  cases f <;> simp [SimpleF] at h <;> simp [toSeg, Seg.optional]

theorem build_starts : ∀ (fs : List FSeg) (vals : List Path) (path : Path), (∀ f ∈ fs, SimpleF f) →
    (∀ v ∈ vals, GoodVal v) → buildPath fs vals = some path → path = [] ∨ startsSlash path = true := by
  intro fs
  cases fs with
  | nil => intro vals path _ _ h; simp [buildPath] at h; exact Or.inl h
  | cons f fs =>
    intro vals path hs hv h
    have hf := hs f (by simp)
    cases f with
    | st s =>
      obtain ⟨hne, hns⟩ : Plain s := hf
      simp only [buildPath] at h
      cases hb : buildPath fs vals with
      | none => simp [hb] at h
      | some p' =>
        have he : s.isEmpty = false := by cases s <;> simp at hne ⊢
        simp [hb, plain_not_startsSlash hns, he] at h
        subst h; right; simp [startsSlash]
    | param n =>
      cases vals with
      | nil => simp [buildPath] at h
      | cons v vals =>
        obtain ⟨_, hvs⟩ := hv v (by simp)
        simp only [buildPath] at h
        cases hb : buildPath fs vals with
        | none => simp [hb] at h
        | some p' =>
          simp [hb, plain_not_startsSlash hvs] at h
          subst h; right; simp [startsSlash]
    | opt n => simp [SimpleF] at hf
    | splat n => simp [SimpleF] at hf

/-- one pass of the tuple loop over a built path consumes it completely and yields the values -/
theorem pass_build (k : Ver) : ∀ (fs : List FSeg) (vals : List Path) (path : Path), (∀ f ∈ fs, SimpleF f) →
    (∀ v ∈ vals, GoodVal v) → buildPath fs vals = some path → vals.length = (paramNames fs).length →
    ∀ (first : Bool) (nth ml : Nat) (p : Params),
      passFields k (fs.map toSeg) first 0 nth path ml p = .done [] (ml + bytes path) (p ++ (paramNames fs).zip vals) := by
  intro fs
  induction fs with
  | nil =>
    intro vals path _ _ h hl first nth ml p
    simp [buildPath] at h; subst h
    simp [passFields, bytes, paramNames]
  | cons f fs ih =>
    intro vals path hs hv h hl first nth ml p
    have hf := hs f (by simp)
    have hs' : ∀ f ∈ fs, SimpleF f := fun x hx => hs x (by simp [hx])
    cases f with
    | st s =>
      have hpl : Plain s := hf
      obtain ⟨hne, hns⟩ := hpl
      simp only [buildPath] at h
      cases hb : buildPath fs vals with
      | none => simp [hb] at h
      | some p' =>
        have he : s.isEmpty = false := by cases s <;> simp at hne ⊢
        simp [hb, plain_not_startsSlash hns, he] at h
        subst h
        have hal : Aligned p' := build_starts fs vals p' hs' hv hb
        have hst := staticTest_slash k.fixed s p' ⟨hne, hns⟩
        simp only [List.cons_append, hal, not_true_eq_false, and_false, if_false] at hst
        simp only [List.map_cons, toSeg, passFields, Seg.optional, Bool.false_eq_true, if_false, Bool.not_false,
          Bool.true_or, if_true, Seg.test, startOk, startsSlash, decide_true, Bool.or_true, hst]
        rw [ih vals p' hs' hv hb (by simpa [paramNames] using hl)]
        simp [bytes, bytes_append, slash_size, paramNames]; omega
    | param n =>
      cases vals with
      | nil => simp [buildPath] at h
      | cons v vals =>
        obtain ⟨hvne, hvs⟩ := hv v (by simp)
        have hv' : ∀ x ∈ vals, GoodVal x := fun x hx => hv x (by simp [hx])
        simp only [buildPath] at h
        cases hb : buildPath fs vals with
        | none => simp [hb] at h
        | some p' =>
          simp [hb, plain_not_startsSlash hvs] at h
          subst h
          obtain ⟨h1, h2⟩ := segHead_append v p' hvs (build_starts fs vals p' hs' hv' hb)
          have hpt := paramTest_slash k.fixed n (v ++ p')
          simp only [h1, h2, hvne, if_false] at hpt
          simp only [List.map_cons, toSeg, passFields, Seg.optional, Bool.false_eq_true, if_false, Bool.not_false,
            Bool.true_or, if_true, Seg.test, startOk, startsSlash, decide_true, Bool.or_true, hpt]
          rw [ih vals p' hs' hv' hb (by simpa [paramNames] using hl)]
          simp [bytes, bytes_append, slash_size, paramNames]; omega
    | opt n => simp [SimpleF] at hf
    | splat n => simp [SimpleF] at hf


theorem countOpt_simple (fs : List FSeg) (hs : ∀ f ∈ fs, SimpleF f) : countOpt (fs.map toSeg) = 0 := by
  induction fs with
  | nil => rfl
  | cons f fs ih =>
    have := toSeg_optional (hs f (by simp))
    simp [countOpt, this, ih (fun x hx => hs x (by simp [hx]))]

/-- the whole tuple test on a built path -/
theorem tup_build (k : Ver) (fs : List FSeg) (vals : List Path) (path : Path) (hs : ∀ f ∈ fs, SimpleF f)
    (hv : ∀ v ∈ vals, GoodVal v) (hb : buildPath fs vals = some path) (hl : vals.length = (paramNames fs).length) :
    (Seg.tup (fs.map toSeg)).test k path = .some ⟨path, [], (paramNames fs).zip vals⟩ := by
  have hp := pass_build k fs vals path hs hv hb hl true 0 0 []
  match fs, hs, hb, hl, hp with
  | [], _, hb, _, _ =>
    simp [buildPath] at hb; subst hb
    simp [Seg.test, paramNames]
  | [f], hs, hb, hl, hp =>
    have ho := toSeg_optional (hs f (by simp))
    simp only [List.map_cons, List.map_nil, passFields, ho, Bool.not_false, Bool.true_or, if_true,
      Bool.false_eq_true, if_false] at hp
    simp only [List.map_cons, List.map_nil, Seg.test]
    cases ht : (toSeg f).test k path with
    | panic => simp [ht] at hp
    | none => simp [ht] at hp
    | some m =>
      simp [ht] at hp
      obtain ⟨h1, h2, h3⟩ := hp
      have hpart := test_partition k _ _ _ ht
      rw [h1, List.append_nil] at hpart
      have := splitBytes_bytes path []
      simp only [List.append_nil] at this
      simp [hpart, this, h1, h3]
  | f :: g :: fs, hs, hb, hl, hp =>
    have hc := countOpt_simple (f :: g :: fs) hs
    simp only [List.map_cons] at hc hp
    simp only [List.map_cons, Seg.test, hc, backoff, hp]
    have := splitBytes_bytes path []
    simp only [List.append_nil, Nat.zero_add] at this ⊢
    simp [this]

/-- the route table of a single leaf route with the given registered segments -/
def leafDefs (fs : List FSeg) : Defs := ⟨none, [.mk (.tup (fs.map toSeg)) []]⟩

theorem C14_build_then_match (fs : List FSeg) (vals : List Path) (path : Path) (hs : ∀ f ∈ fs, SimpleF f)
    (hv : ∀ v ∈ vals, GoodVal v) (hb : buildPath fs vals = some path) (hl : vals.length = (paramNames fs).length) :
    matchRoute .cur (leafDefs fs) path = .some ⟨[(0, path)], (paramNames fs).zip vals⟩ := by
  have ht := tup_build .cur fs vals path hs hv hb hl
  simp [matchRoute, leafDefs, stripBase, matchChildren, matchNested, ht, finish, complete]


/-! ## property theorems -/

/-- **partition** — every segment kind and every (nested) tuple of segments: a successful `test`
splits the path into `matched ++ remaining` (the code as it is, the old code, the aligned variant). -/
theorem C14_partition (k : Ver) (s : Seg) (path : Path) (m : PM) (h : s.test k path = .some m) :
    m.matched ++ m.remaining = path := test_partition k s path m h

/-- **partition, nested routes**: without an optional param in a parent route the matched strings
of all nesting levels concatenate to the consumed prefix. -/
theorem C14_partition_nested (k : Ver) (r : Route) (pos : Nat) (path : Path) (m : NMatch) (rem : Path)
    (hno : r.hasOptWithChildren = false) (h : matchNested k r pos path = .some m rem) :
    chainCat m ++ rem = path := nested_partition k r pos path m rem hno h

/-- … and the remaining is one of the two the router accepts -/
theorem C14_nested_complete (k : Ver) (d : Defs) (path : Path) (m : NMatch)
    (h : matchRoute k d path = .some m) : ∃ p rem, stripBase k d.base path = some p ∧
      matchChildren k d.tops 0 p = .some m rem ∧ complete rem = true := by
  unfold matchRoute at h
  cases hb : stripBase k d.base path with
  | none => simp [hb] at h
  | some p =>
    simp only [hb] at h
    cases hc : matchChildren k d.tops 0 p with
    | panic => simp [hc] at h
    | none => simp [hc] at h
    | some m' rem =>
      simp only [hc] at h
      split at h
      · next hcomp => simp at h; subst h; exact ⟨p, rem, rfl, hc, hcomp⟩
      · simp at h

def optParentDefs : Defs := ⟨none, [.mk (.opt ['a']) [.mk (.st ['b']) []]]⟩

/-- the hypothesis of `C14_partition_nested` is needed: with an optional parent the fallback
re-matches the children against the whole path, and the parent keeps its first `matched`:
for `/:a?` → `/b` and `/b` the two levels report `"/b"` and `"/b"`. -/
theorem C14_partition_nested_fallback_witness :
    matchRoute .cur optParentDefs ['/', 'b'] = .some ⟨[(0, ['/', 'b']), (0, ['/', 'b'])], []⟩ := by decide

/-- **params are segments** — `ParamSegment` on a path that starts with `/`: it matches iff the first
`/`-separated segment is non-empty, and then value = that segment, matched = `/` ++ segment. -/
theorem C14_params_are_segments (n p : Path) :
    paramTest true n ('/' :: p) =
      if segHead p = [] then .none else .some ⟨'/' :: segHead p, segTail p, [(n, segHead p)]⟩ :=
  paramTest_slash true n p

theorem C14_params_are_segments_opt (n p : Path) :
    optTest true n ('/' :: p) =
      if segHead p = [] then .some ⟨[], '/' :: p, []⟩
      else .some ⟨'/' :: segHead p, segTail p, [(n, segHead p)]⟩ := optTest_slash true n p

/-- … and (since fix-c14-2) also on a path without a leading slash, e.g. below a `"/"` parent -/
theorem C14_params_are_segments_noslash (n p : Path) (hp : startsSlash p = false) (hne : segHead p ≠ []) :
    paramTest true n p = .some ⟨segHead p, segTail p, [(n, segHead p)]⟩ := paramTest_noslash n p hp hne

/-- `segHead` is the first token of the `/`-split the flat matcher uses -/
theorem C14_segHead_is_first_token (p : Path) : (splitSlash p).head? = some (segHead p) := splitSlash_head p

/-- **static segments end at a segment boundary** (fix-c14-1; for the `path!` kind of text):
`StaticSegment(s)` on `/…` matches iff the first segment of the path *is* `s`. -/
theorem C14_static_is_whole_segment (s t : Path) (hs : Plain s) :
    staticTest true s ('/' :: t) =
      if segHead t = s then .some ⟨'/' :: s, segTail t, []⟩ else .none := by
  rw [staticTest_slash_cases true s t hs]
  cases hp : stripPrefix s t with
  | none =>
    have : segHead t ≠ s := by
      intro h
      obtain ⟨rest, h1, _, _⟩ := (segHead_eq_iff s t hs.2).1 h
      subst h1; simp [stripPrefix_append] at hp
    simp [this]
  | some rest =>
    have ht := stripPrefix_some s t rest hp
    subst ht
    by_cases hal : Aligned rest
    · obtain ⟨h1, h2⟩ := segHead_append s rest hs.2 hal
      simp [hal, h1, h2]
    · have : segHead (s ++ rest) ≠ s := by
        intro h
        obtain ⟨rest', h3, h4, _⟩ := (segHead_eq_iff s _ hs.2).1 h
        have : rest' = rest := by simpa using h3.symm
        subst this
        exact hal h4
      simp [hal, this]

/-- **expand_optionals** — the worklist (with its fuel) computes the recursive specification:
exactly `2^k` routes for `k` optionals, in the order param-variant first, none with an optional left. -/
theorem C14_expand_optionals (l : List FSeg) :
    expandOptionals l = expandSpec l ∧ (expandOptionals l).length = 2 ^ countOptF l ∧
      ∀ r ∈ expandOptionals l, ∀ s ∈ r, s.isOpt = false := by
  rw [expandOptionals_eq_spec]
  exact ⟨rfl, expandSpec_length l, expandSpec_noOpt l⟩

/-! ### well-formed route definitions (decidable; what the generator produces) -/

/-- atoms of well-formed routes: plain static text (as `path!` produces it), the two text-less
statics `""` and `"/"`, params and wildcards with usable names (non-empty, no `/`) -/
def WfA : FSeg → Prop
  | .st s => Plain s ∨ s = [] ∨ s = ['/']
  | .param n => Plain n
  | .splat n => Plain n
  | .opt _ => False

instance : DecidablePred WfA := fun f => by cases f <;> unfold WfA <;> exact inferInstance

/-- … optional params included -/
def WfAO : FSeg → Prop
  | .opt n => Plain n
  | f => WfA f

instance : DecidablePred WfAO := fun f => by cases f <;> unfold WfAO <;> exact inferInstance

/-- a wildcard only as the last segment -/
def splatLast : List FSeg → Bool
  | [] => true
  | [_] => true
  | .splat _ :: _ :: _ => false
  | _ :: r => splatLast r

def noSplat : List FSeg → Bool
  | [] => true
  | .splat _ :: _ => false
  | _ :: r => noSplat r

mutual
def Route.wf : Route → Bool
  | .mk segs children =>
    segs.gen.all (fun f => decide (WfAO f)) &&
    (if children.isEmpty then splatLast segs.gen else noSplat segs.gen) && wfList children
def wfList : List Route → Bool
  | [] => true
  | c :: cs => c.wf && wfList cs
end

def baseOk : Option Path → Bool
  | none => true
  | some [] => true
  | some (c :: s) => c = '/' && decide (Plain s)

/-- `WellFormed`: well-formed atoms (`WfAO`), a wildcard only as the last segment of a leaf, base `""` or `/x` -/
def Defs.wf (d : Defs) : Bool := baseOk d.base && wfList d.tops && !d.tops.isEmpty

/-- the property on one input: the oracle `judge` accepts what the router does -/
def Holds (d : Defs) (path : Path) : Prop := judge d path (matchRoute .cur d path) = none

instance (d : Defs) (path : Path) : Decidable (Holds d path) := by unfold Holds; exact inferInstance

/-- the same for the router before the repairs (regression witnesses) -/
def HoldsOld (d : Defs) (path : Path) : Prop := judge d path (matchRoute .old d path) = none

instance (d : Defs) (path : Path) : Decidable (HoldsOld d path) := by unfold HoldsOld; exact inferInstance

/-- **match ⇔ flat, full statement**: for every well-formed route table and every request path
(starting with `/`): a registered flat route accepts the path ⇒ the router matches; the router matches
⇒ a registered flat route *of the winning definition* accepts the path (one trailing `/` tolerated) with
the same parameter values, and no earlier definition has a registered route accepting the path; the
router does not panic.  (`judge` spells this out.) -/
def C14_match_iff_flat_full : Prop :=
  ∀ (d : Defs) (path : Path), d.wf = true → startsSlash path = true → Holds d path

/-- reading of `Holds` for the two non-panic outcomes -/
theorem C14_holds_none (d : Defs) (path : Path) (hm : matchRoute .cur d path = .none) (h : Holds d path) :
    firstStrict (expandedPerDef d) path 0 = none := by
  unfold Holds at h; rw [hm] at h; simp only [judge] at h
  cases hf : firstStrict (expandedPerDef d) path 0 with
  | none => rfl
  | some i => simp [hf] at h

theorem C14_holds_not_panic (d : Defs) (path : Path) (h : Holds d path) : matchRoute .cur d path ≠ .panic := by
  intro hp; unfold Holds at h; rw [hp] at h; simp [judge] at h

/-! ### refutation witnesses of the full statement on the code as it is (design-level findings that
stay known: F-C14-2/5/6/10; each replayed on the real router: corpus/C14/witnesses.ops) -/

def optParent : Defs := ⟨none, [.mk (.tup [.st ['a'], .opt ['r']]) [.mk (.st ['b']) []]]⟩

/-- F-C14-5: an optional param in a parent route: `/a/b` is registered (`[a, b]`) and never matched -/
theorem C14_optional_parent_witness :
    matchRoute .cur optParent ['/', 'a', '/', 'b'] = .none ∧
    flatMatchStrict [.st ['a'], .st ['b']] ['/', 'a', '/', 'b'] = some [] ∧
    (expandedPerDef optParent) = [[[.st ['a'], .param ['r'], .st ['b']], [.st ['a'], .st ['b']]]] ∧
    judge optParent ['/', 'a', '/', 'b'] .none = some .flatOnly ∧
    classify optParent ['/', 'a', '/', 'b'] .flatOnly = .optionalParent ∧ optParent.wf = true := by decide

theorem C14_match_iff_flat_full_false : ¬ C14_match_iff_flat_full := by
  intro h
  have := h optParent ['/', 'a', '/', 'b'] (by decide) (by decide)
  revert this; decide

def slashParent : Defs := ⟨none, [.mk (.st ['/']) [.mk (.st ['a']) []]]⟩
def slashParam : Defs := ⟨none, [.mk (.st ['/']) [.mk (.param ['i', 'd']) []]]⟩

/-- F-C14-2: parent `"/"` with a child: the router matches `/a` (and `//a`), the registered pattern
is `//a`; since fix-c14-2 the same holds for a param child (`/aé` gives `id = "aé"`, it used to panic) -/
theorem C14_slash_parent_witness :
    matchRoute .cur slashParent ['/', 'a'] = .some ⟨[(0, ['/']), (0, ['a'])], []⟩ ∧
    patternTokens [.st ['/'], .st ['a']] = some [.lit [], .lit ['a']] ∧
    judge slashParent ['/', 'a'] (matchRoute .cur slashParent ['/', 'a']) = some .routerOnly ∧
    Holds slashParent ['/', '/', 'a'] ∧
    classify slashParent ['/', 'a'] .routerOnly = .slashParent ∧ slashParent.wf = true ∧
    matchRoute .cur slashParam ['/', 'a', 'é'] = .some ⟨[(0, ['/']), (0, ['a', 'é'])], [(['i', 'd'], ['a', 'é'])]⟩ ∧
    classify slashParam ['/', 'a', 'é'] .routerOnly = .slashParent := by decide

def optOrder : Defs := ⟨none, [.mk (.tup [.opt ['a'], .st ['b'], .opt ['c']]) []]⟩

/-- F-C14-6: two optionals in one tuple: `/b/x` is registered (`[b, :c]`) and never matched -/
theorem C14_optional_backoff_order_witness :
    matchRoute .cur optOrder ['/', 'b', '/', 'x'] = .none ∧
    flatMatchStrict [.st ['b'], .param ['c']] ['/', 'b', '/', 'x'] = some [(['c'], ['x'])] ∧
    judge optOrder ['/', 'b', '/', 'x'] .none = some .flatOnly ∧
    classify optOrder ['/', 'b', '/', 'x'] .flatOnly = .optionalBackoffOrder ∧ optOrder.wf = true := by decide

def optInner : Defs :=
  ⟨none, [.mk (.tup [.tup [.opt ['a'], .st ['b']], .st ['c'], .st ['b']]) []]⟩

/-- F-C14-10: an inner tuple with an optional is skipped as a whole by the outer back-off: `/c/b`
matches `((:a?, b), c, b)` although the registered routes are `[:a, b, c, b]` and `[b, c, b]` -/
theorem C14_nested_optional_tuple_witness :
    matchRoute .cur optInner ['/', 'c', '/', 'b'] = .some ⟨[(0, ['/', 'c', '/', 'b'])], []⟩ ∧
    judge optInner ['/', 'c', '/', 'b'] (matchRoute .cur optInner ['/', 'c', '/', 'b']) = some .routerOnly ∧
    classify optInner ['/', 'c', '/', 'b'] .routerOnly = .nestedOptionalTuple ∧ optInner.wf = true := by decide

/-! ### regression witnesses: what the router did before the repairs (`.old`) and does now (`.cur`) -/

def fooBar : Defs := ⟨none, [.mk (.st ['f', 'o', 'o']) [.mk (.st ['b', 'a', 'r']) []]]⟩
def pFoobar : Path := ['/', 'f', 'o', 'o', 'b', 'a', 'r']

/-- F-C14-1 (repaired by fix-c14-1): `/foobar` used to be matched by `/foo` → `/bar`, while the table
has the single route `[foo, bar]`, which does not accept it; now it is not matched -/
theorem C14_static_prefix_witness :
    matchRoute .old fooBar pFoobar = .some ⟨[(0, ['/', 'f', 'o', 'o']), (0, ['b', 'a', 'r'])], []⟩ ∧
    flatRoutes fooBar = [[.st ['f', 'o', 'o'], .st ['b', 'a', 'r']]] ∧
    flatMatch [.st ['f', 'o', 'o'], .st ['b', 'a', 'r']] pFoobar = none ∧
    judge fooBar pFoobar (matchRoute .old fooBar pFoobar) = some .routerOnly ∧
    matchRoute .cur fooBar pFoobar = .none ∧ Holds fooBar pFoobar ∧ fooBar.wf = true := by decide

/-- the same through a tuple -/
theorem C14_static_prefix_tuple_witness :
    (Seg.tup [.st ['f', 'o', 'o'], .st ['b', 'a', 'r']]).test .old pFoobar = .some ⟨pFoobar, [], []⟩ ∧
    (Seg.tup [.st ['f', 'o', 'o'], .st ['b', 'a', 'r']]).test .cur pFoobar = .none := by decide

def staticParam : Defs := ⟨none, [.mk (.tup [.st ['a'], .param ['i', 'd']]) []]⟩

/-- F-C14-3 (repaired by fix-c14-1 and fix-c14-2): a param segment tested in the middle of a path
segment used to slice inside a multi-byte character: `/aéa` with `(a, :id)`, `/aé` with `"/"` → `:id`,
`ParamSegment::test("éa")`; none of them panics any more -/
theorem C14_unaligned_panic_witness :
    matchRoute .old staticParam ['/', 'a', 'é', 'a'] = .panic ∧
    matchRoute .old slashParam ['/', 'a', 'é'] = .panic ∧
    paramTest false ['i', 'd'] ['é', 'a'] = .panic ∧
    paramTest false ['i', 'd'] ['f', 'o', 'o'] = .some ⟨['f', 'o'], ['o'], [(['i', 'd'], ['f', 'o'])]⟩ ∧
    matchRoute .cur staticParam ['/', 'a', 'é', 'a'] = .none ∧ Holds staticParam ['/', 'a', 'é', 'a'] ∧
    matchRoute .cur slashParam ['/', 'a', 'é'] ≠ .panic ∧
    paramTest true ['i', 'd'] ['é', 'a'] = .some ⟨['é', 'a'], [], [(['i', 'd'], ['é', 'a'])]⟩ ∧
    paramTest true ['i', 'd'] ['f', 'o', 'o'] = .some ⟨['f', 'o', 'o'], [], [(['i', 'd'], ['f', 'o', 'o'])]⟩ := by
  decide

def baseAB : Defs := ⟨some ['/', 'a'], [.mk (.st ['b']) []]⟩

/-- F-C14-4 (repaired by fix-c14-3): with a base starting with `/` all leading slashes of the path
were trimmed (`//a/b` matched) and the base could end inside a segment (`/ab` matched) -/
theorem C14_base_slashes_witness :
    matchRoute .old baseAB ['/', '/', 'a', '/', 'b'] = .some ⟨[(0, ['/', 'b'])], []⟩ ∧
    judge baseAB ['/', '/', 'a', '/', 'b'] (matchRoute .old baseAB ['/', '/', 'a', '/', 'b']) = some .routerOnly ∧
    matchRoute .old baseAB ['/', 'a', 'b'] = .some ⟨[(0, ['b'])], []⟩ ∧
    matchRoute .cur baseAB ['/', '/', 'a', '/', 'b'] = .none ∧ Holds baseAB ['/', '/', 'a', '/', 'b'] ∧
    matchRoute .cur baseAB ['/', 'a', 'b'] = .none ∧ Holds baseAB ['/', 'a', 'b'] ∧
    matchRoute .cur baseAB ['/', 'a', '/', 'b'] = .some ⟨[(0, ['/', 'b'])], []⟩ ∧ baseAB.wf = true := by decide

def optParams : Defs := ⟨none, [.mk (.opt ['a']) [.mk (.st ['b']) [.mk (.st ['c']) []]]]⟩

/-- F-C14-7 (repaired by fix-c14-5): the optional fallback re-parsed the parent's params on the wrong
string: `/b/c` yielded `a = "b"` for `/:a?` → `/b` → `/c`; now no `a` -/
theorem C14_optional_fallback_params_witness :
    matchRoute .old optParams ['/', 'b', '/', 'c'] =
      .some ⟨[(0, ['/', 'b']), (0, ['/', 'b']), (0, ['/', 'c'])], [(['a'], ['b'])]⟩ ∧
    judge optParams ['/', 'b', '/', 'c'] (matchRoute .old optParams ['/', 'b', '/', 'c']) = some .params ∧
    matchRoute .cur optParams ['/', 'b', '/', 'c'] =
      .some ⟨[(0, ['/', 'b']), (0, ['/', 'b']), (0, ['/', 'c'])], []⟩ ∧
    Holds optParams ['/', 'b', '/', 'c'] ∧ optParams.wf = true := by decide

def optOver : Defs :=
  ⟨none, [.mk (.tup [.param ['p'], .opt ['o']]) [.mk (.st ['x']) [.mk (.opt ['q']) []]]]⟩

/-- F-C14-9 (repaired by fix-c14-5): the optional fallback with a mandatory param in the parent
consumed the path twice: `/x/a` matched `/:p/:o?` → `/x` → `/:q?`; now it does not -/
theorem C14_optional_fallback_overmatch_witness :
    matchRoute .old optOver ['/', 'x', '/', 'a'] =
      .some ⟨[(0, ['/', 'x', '/', 'a']), (0, ['/', 'x']), (0, ['/', 'a'])],
        [(['p'], ['x']), (['o'], ['a']), (['q'], ['a'])]⟩ ∧
    judge optOver ['/', 'x', '/', 'a'] (matchRoute .old optOver ['/', 'x', '/', 'a']) = some .routerOnly ∧
    matchRoute .cur optOver ['/', 'x', '/', 'a'] = .none ∧ Holds optOver ['/', 'x', '/', 'a'] ∧
    optOver.wf = true := by decide

def optUnwrap : Defs := ⟨none, [.mk (.tup [.st ['a'], .opt ['r']]) [.mk (.st ['a']) []]]⟩

/-- F-C14-8 (repaired by fix-c14-4): the optional fallback unwrapped `None`: `/a` panicked for
`/a/:r?` → `/a` (ASCII only, well-formed); now it is a non-match, as the table says -/
theorem C14_optional_fallback_unwrap_witness :
    matchRoute .old optUnwrap ['/', 'a'] = .panic ∧
    matchRoute .cur optUnwrap ['/', 'a'] = .none ∧ Holds optUnwrap ['/', 'a'] ∧ optUnwrap.wf = true := by decide

/-! ### the partial theorem -/

mutual
def Route.noOptional : Route → Bool
  | .mk segs children => !segs.optional && noOptionalList children
def noOptionalList : List Route → Bool
  | [] => true
  | c :: cs => c.noOptional && noOptionalList cs
end

/-! ## the partial theorem, proved for the simple sub-class -/

/-- segment-wise matcher for the simple sub-class, on characters: every segment consumes `/` + one
whole `/`-separated token; at the end nothing or a single `/` may be left -/
def simpleMatch : List FSeg → Path → Option Params
  | [], r => if complete r then some [] else none
  | _ :: _, [] => none
  | f :: fs, c :: t =>
    if c = '/' then
      match f with
      | .st s => if segHead t = s then simpleMatch fs (segTail t) else none
      | .param n => if segHead t = [] then none else (simpleMatch fs (segTail t)).map ((n, segHead t) :: ·)
      | _ => none
    else none

/-- what a pass of the tuple loop amounts to for a leaf route -/
def passOut : Pass → Out Params
  | .done r _ p => if complete r then .some p else .none
  | .panic => .panic
  | _ => .none

def liftP (p : Params) : Option Params → Out Params
  | some q => .some (p ++ q)
  | none => .none

theorem paramTest_nil (fx : Bool) (n : Path) : paramTest fx n [] = .none := by
  simp [paramTest, paramScan]

/-- **core of the partial theorem**: one pass of the tuple loop of the repaired code (`k.fixed`) over
simple segments, started at a segment boundary, is the segment-wise matcher -/
theorem pass_simple (k : Ver) (hk : k.fixed = true) : ∀ (fs : List FSeg), (∀ f ∈ fs, SimpleF f) →
    ∀ (first : Bool) (nth : Nat) (r : Path) (ml : Nat) (p : Params), Aligned r →
      passOut (passFields k (fs.map toSeg) first 0 nth r ml p) = liftP p (simpleMatch fs r) := by
  intro fs
  induction fs with
  | nil =>
    intro _ first nth r ml p _
    simp only [List.map_nil, passFields, passOut, simpleMatch]
    split <;> simp [liftP]
  | cons f fs ih =>
    intro hs first nth r ml p hr
    have hf := hs f (by simp)
    have hs' : ∀ f ∈ fs, SimpleF f := fun x hx => hs x (by simp [hx])
    cases r with
    | nil =>
      cases f with
      | st s =>
        simp [passFields, toSeg, Seg.optional, Seg.test, startOk, staticTest_nil _ s hf, simpleMatch, liftP]
        cases first <;> simp [passOut]
      | param n =>
        simp [passFields, toSeg, Seg.optional, Seg.test, startOk, paramTest_nil, simpleMatch, liftP]
        cases first <;> simp [passOut]
      | opt n => simp [SimpleF] at hf
      | splat n => simp [SimpleF] at hf
    | cons c t =>
      have hc : c = '/' := by
        rcases hr with h | h
        · simp at h
        · simpa [startsSlash] using h
      subst hc
      cases f with
      | st s =>
        have hpl : Plain s := hf
        have hst := C14_static_is_whole_segment s t hpl
        simp only [List.map_cons, toSeg, passFields, Seg.optional, Bool.false_eq_true, if_false, Bool.not_false,
          Bool.true_or, if_true, Seg.test, startOk, startsSlash, decide_true, Bool.or_true, hk, hst, simpleMatch]
        by_cases he : segHead t = s
        · simp only [he, if_true, List.append_nil]
          rw [ih hs' _ _ _ _ _ (segTail_aligned t)]
        · simp [he, liftP]
          cases first <;> simp [passOut]
      | param n =>
        simp only [List.map_cons, toSeg, passFields, Seg.optional, Bool.false_eq_true, if_false, Bool.not_false,
          Bool.true_or, if_true, Seg.test, startOk, startsSlash, decide_true, Bool.or_true,
          paramTest_slash, simpleMatch]
        by_cases he : segHead t = []
        · simp [he, liftP]
          cases first <;> simp [passOut]
        · simp only [he, if_false]
          rw [ih hs' _ _ _ _ _ (segTail_aligned t)]
          cases simpleMatch fs (segTail t) <;> simp [liftP]
      | opt n => simp [SimpleF] at hf
      | splat n => simp [SimpleF] at hf

/-- the tuple test of an optional-free, non-empty segment list is one pass with `include_optionals = 0` -/
theorem tup_pass (k : Ver) (fs : List FSeg) (hs : ∀ f ∈ fs, SimpleF f) (hne : fs ≠ []) (path : Path) :
    (Seg.tup (fs.map toSeg)).test k path =
      match passFields k (fs.map toSeg) true 0 0 path 0 [] with
      | .done r ml p =>
        (match splitBytes path ml with
         | some (pre, _) => .some ⟨pre, r, p⟩
         | none => .panic)
      | .panic => .panic
      | _ => .none := by
  match fs, hs, hne with
  | [f], hs, _ =>
    have ho := toSeg_optional (hs f (by simp))
    simp only [List.map_cons, List.map_nil, Seg.test, passFields, ho, Bool.not_false, Bool.true_or, if_true,
      Bool.false_eq_true, if_false]
    cases (toSeg f).test k path <;> simp
    cases splitBytes path (bytes _) <;> rfl
  | f :: g :: fs, hs, _ =>
    have hc := countOpt_simple (f :: g :: fs) hs
    simp only [List.map_cons] at hc
    simp only [List.map_cons, Seg.test, hc, backoff]
    cases passFields k (toSeg f :: toSeg g :: List.map toSeg fs) true 0 0 path 0 [] <;> rfl

/-- **router ≡ segment-wise matcher** on the simple sub-class (aligned variant): never a panic; a match
exactly when `simpleMatch` accepts, with the same params, as definition 0 -/
theorem leaf_simple (k : Ver) (hk : k.fixed = true) (fs : List FSeg) (hs : ∀ f ∈ fs, SimpleF f) (hne : fs ≠ [])
    (path : Path) (hp : startsSlash path = true) :
    ∃ mt, matchRoute k (leafDefs fs) path =
      match simpleMatch fs path with
      | some q => .some ⟨[(0, mt)], q⟩
      | none => .none := by
  have hps := pass_simple k hk fs hs true 0 path 0 [] (Or.inr hp)
  have htp := tup_pass k fs hs hne path
  cases hpf : passFields k (fs.map toSeg) true 0 0 path 0 [] with
  | done r ml p =>
    obtain ⟨c, hc1, hc2⟩ := pass_inv k (fs.map toSeg) true 0 0 path 0 [] path [] r ml p (by simp) (by simp [bytes]) hpf
    have hsp : splitBytes path ml = some (c, r) := by
      have := splitBytes_bytes c r
      rw [hc1, hc2] at this; exact this
    rw [hpf] at htp hps
    simp only [hsp] at htp
    simp only [passOut] at hps
    refine ⟨c, ?_⟩
    by_cases hcomp : complete r = true
    · simp only [hcomp, if_true] at hps
      cases hsm : simpleMatch fs path with
      | none => simp [hsm, liftP] at hps
      | some q =>
        simp [hsm, liftP] at hps
        subst hps
        simp [matchRoute, leafDefs, stripBase, matchChildren, matchNested, htp, finish, hcomp]
    · simp only [hcomp] at hps
      cases hsm : simpleMatch fs path with
      | some q => simp [hsm, liftP] at hps
      | none => simp [matchRoute, leafDefs, stripBase, matchChildren, matchNested, htp, finish, hcomp]
  | panic =>
    rw [hpf] at hps
    cases hsm : simpleMatch fs path <;> simp [hsm, liftP, passOut] at hps
  | fail =>
    rw [hpf] at htp hps
    cases hsm : simpleMatch fs path with
    | some q => simp [hsm, liftP, passOut] at hps
    | none => exact ⟨[], by simp [matchRoute, leafDefs, stripBase, matchChildren, matchNested, htp]⟩
  | retry =>
    rw [hpf] at htp hps
    cases hsm : simpleMatch fs path with
    | some q => simp [hsm, liftP, passOut] at hps
    | none => exact ⟨[], by simp [matchRoute, leafDefs, stripBase, matchChildren, matchNested, htp]⟩





/-! ### the registered pattern of a simple route -/

def tokOf : FSeg → Tok
  | .st s => .lit s
  | .param n => .par n
  | .opt _ => .bad
  | .splat n => .spl n

/-- simple segment with a usable parameter name (non-empty, no `/`) -/
def SimpleN : FSeg → Prop
  | .st s => Plain s
  | .param n => Plain n
  | _ => False

instance : DecidablePred SimpleN := fun f => by cases f <;> unfold SimpleN <;> exact inferInstance

theorem SimpleN.simple {f : FSeg} (h : SimpleN f) : SimpleF f := by
  cases f <;> simp [SimpleN] at h <;> simp [SimpleF, h]

def bodyP : FSeg → List PChar
  | .st s => s.map PChar.lit
  | .param n => [PChar.par n]
  | .splat n => [PChar.spl n]
  | .opt _ => []

theorem joinAxum_cons (f : FSeg) (fs : List FSeg) (h : SimpleN f) :
    joinAxum (f :: fs) = PChar.lit '/' :: (bodyP f ++ joinAxum fs) := by
  cases f with
  | st s =>
    obtain ⟨hne, hns⟩ : Plain s := h
    have he : s.isEmpty = false := by cases s <;> simp at hne ⊢
    simp [joinAxum, FSeg.raw, he, plain_not_startsSlash hns, bodyP]
  | param n =>
    obtain ⟨hne, hns⟩ : Plain n := h
    have he : n.isEmpty = false := by cases n <;> simp at hne ⊢
    simp [joinAxum, FSeg.raw, he, plain_not_startsSlash hns, bodyP]
  | opt n => simp [SimpleN] at h
  | splat n => simp [SimpleN] at h

theorem splitP_ne (l : List PChar) : splitP l ≠ [] := by
  cases l with
  | nil => simp [splitP]
  | cons c cs =>
    simp only [splitP]
    cases splitP cs with
    | nil => simp
    | cons h t => by_cases hc : c = PChar.lit '/' <;> simp [hc]

theorem splitP_free (l : List PChar) (h : PChar.lit '/' ∉ l) : splitP l = [l] := by
  induction l with
  | nil => simp [splitP]
  | cons c cs ih =>
    have hc : c ≠ PChar.lit '/' := by intro e; apply h; simp [e]
    have hcs : PChar.lit '/' ∉ cs := by intro e; apply h; simp [e]
    simp [splitP, ih hcs, hc]

theorem splitP_append_sep (l r : List PChar) (h : PChar.lit '/' ∉ l) :
    splitP (l ++ PChar.lit '/' :: r) = l :: splitP r := by
  induction l with
  | nil =>
    simp only [List.nil_append, splitP]
    cases hs : splitP r with
    | nil => exact absurd hs (splitP_ne r)
    | cons a b => simp
  | cons c cs ih =>
    have hc : c ≠ PChar.lit '/' := by intro e; apply h; simp [e]
    have hcs : PChar.lit '/' ∉ cs := by intro e; apply h; simp [e]
    simp [splitP, ih hcs, hc]

theorem bodyP_free (f : FSeg) (h : SimpleN f) : PChar.lit '/' ∉ bodyP f := by
  cases f with
  | st s =>
    obtain ⟨_, hns⟩ : Plain s := h
    simp [bodyP]; exact hns
  | param n => simp [bodyP]
  | opt n => simp [SimpleN] at h
  | splat n => simp [SimpleN] at h

theorem litsOf_map (s : Path) : litsOf (s.map PChar.lit) = some s := by
  induction s with
  | nil => rfl
  | cons c s ih => simp [litsOf, ih]

theorem toTok_body (f : FSeg) (h : SimpleN f) : toTok (bodyP f) = tokOf f := by
  cases f with
  | st s =>
    obtain ⟨hne, _⟩ : Plain s := h
    cases s with
    | nil => simp at hne
    | cons c r =>
      cases r with
      | nil => simp [bodyP, toTok, litsOf, tokOf]
      | cons d r => simp [bodyP, toTok, litsOf, litsOf_map, tokOf]
  | param n => simp [bodyP, toTok, tokOf]
  | opt n => simp [SimpleN] at h
  | splat n => simp [SimpleN] at h

theorem splitP_join (f : FSeg) (fs : List FSeg) (hf : SimpleN f) (hs : ∀ g ∈ fs, SimpleN g) :
    splitP (bodyP f ++ joinAxum fs) = (f :: fs).map bodyP := by
  induction fs generalizing f with
  | nil => simp [joinAxum, splitP_free _ (bodyP_free f hf)]
  | cons g fs ih =>
    rw [joinAxum_cons g fs (hs g (by simp)), splitP_append_sep _ _ (bodyP_free f hf),
      ih g (hs g (by simp)) (fun x hx => hs x (by simp [hx]))]
    simp

/-- the registered pattern of a simple route is its segments, one token each -/
theorem patternTokens_simple (fs : List FSeg) (hs : ∀ g ∈ fs, SimpleN g) (hne : fs ≠ []) :
    patternTokens fs = some (fs.map tokOf) := by
  cases fs with
  | nil => simp at hne
  | cons f fs =>
    have hf := hs f (by simp)
    have hs' : ∀ g ∈ fs, SimpleN g := fun x hx => hs x (by simp [hx])
    unfold patternTokens
    rw [joinAxum_cons f fs hf]
    simp only [if_true]
    rw [splitP_join f fs hf hs']
    congr 1
    simp only [List.map_map]
    apply List.map_congr_left
    intro g hg
    exact toTok_body g (hs g hg)







/-! ### segment-wise matcher = token matcher -/

def orE {α : Type} : Option α → Option α → Option α
  | some a, _ => some a
  | none, b => b

def checkTok (f : FSeg) (h : Path) (X : Option Params) : Option Params :=
  match f with
  | .st s => if s = h then X else none
  | .param n => if h.isEmpty then none else X.map ((n, h) :: ·)
  | _ => none

theorem check_none (f : FSeg) (h : Path) : checkTok f h none = none := by
  cases f <;> simp [checkTok]

theorem check_orE (f : FSeg) (h : Path) (A B : Option Params) :
    checkTok f h (orE A B) = orE (checkTok f h A) (checkTok f h B) := by
  cases f with
  | st s => by_cases e : s = h <;> simp [checkTok, e, orE]
  | param n => cases hh : h.isEmpty <;> cases A <;> simp [checkTok, hh, orE]
  | opt n => simp [checkTok, orE]
  | splat n => simp [checkTok, orE]

theorem sm_cons (f : FSeg) (fs : List FSeg) (t : Path) (hf : SimpleN f) :
    simpleMatch (f :: fs) ('/' :: t) = checkTok f (segHead t) (simpleMatch fs (segTail t)) := by
  cases f with
  | st s => simp [simpleMatch, checkTok, eq_comm]
  | param n =>
    simp only [simpleMatch, checkTok, if_true]
    cases hh : segHead t <;> simp
  | opt n => simp [SimpleN] at hf
  | splat n => simp [SimpleN] at hf

theorem tm_cons (f : FSeg) (toks : List Tok) (h : Path) (ts : List Path) (hf : SimpleN f) :
    tokMatch (tokOf f :: toks) (h :: ts) = checkTok f h (tokMatch toks ts) := by
  cases f with
  | st s => simp [tokOf, tokMatch, checkTok]
  | param n => simp [tokOf, tokMatch, checkTok]
  | opt n => simp [SimpleN] at hf
  | splat n => simp [SimpleN] at hf

theorem tm_cons_nil (f : FSeg) (toks : List Tok) (hf : SimpleN f) : tokMatch (tokOf f :: toks) [] = none := by
  cases f with
  | st s => simp [tokOf, tokMatch]
  | param n => simp [tokOf, tokMatch]
  | opt n => simp [SimpleN] at hf
  | splat n => simp [SimpleN] at hf

theorem tm_nil (ts : List Path) : tokMatch [] ts = if ts = [] then some [] else none := by
  cases ts <;> simp [tokMatch]

theorem splitSlash_ne (l : Path) : splitSlash l ≠ [] := by
  cases l with
  | nil => simp [splitSlash]
  | cons c cs =>
    simp only [splitSlash]
    cases splitSlash cs with
    | nil => simp
    | cons h t => by_cases hc : c = '/' <;> simp [hc]

theorem splitSlash_unfold (t : Path) :
    splitSlash t = match segTail t with
      | [] => [segHead t]
      | _ :: r => segHead t :: splitSlash r := by
  induction t with
  | nil => simp [splitSlash, segHead, segTail]
  | cons c t ih =>
    by_cases hc : c = '/'
    · subst hc
      simp only [splitSlash, segHead, segTail]
      cases hs : splitSlash t with
      | nil => exact absurd hs (splitSlash_ne t)
      | cons a b => simp [hs]
    · simp only [splitSlash]
      cases hs : splitSlash t with
      | nil => exact absurd hs (splitSlash_ne t)
      | cons a b =>
        rw [hs] at ih
        have h1 : segHead (c :: t) = c :: segHead t := by simp [segHead, hc]
        have h2 : segTail (c :: t) = segTail t := by simp [segTail, hc]
        rw [h1, h2]
        cases hst : segTail t with
        | nil => rw [hst] at ih; simp at ih; simp [hc, ih]
        | cons d r => rw [hst] at ih; simp at ih; simp [hc, ih]

theorem endsSlash_cons (c : Char) (t : Path) : endsSlash (c :: t) = if t.isEmpty then decide (c = '/') else endsSlash t := by
  cases t <;> simp [endsSlash]

theorem endsSlash_of_segTail_nil (t : Path) (h : segTail t = []) : endsSlash t = false := by
  induction t with
  | nil => rfl
  | cons c t ih =>
    by_cases hc : c = '/'
    · simp [segTail, hc] at h
    · have h2 : segTail t = [] := by simpa [segTail, hc] using h
      rw [endsSlash_cons]
      cases t with
      | nil => simp [hc]
      | cons d t => simp; exact ih h2

theorem endsSlash_of_segTail_cons (t : Path) (c : Char) (r : Path) (h : segTail t = c :: r) :
    endsSlash t = (r.isEmpty || endsSlash r) := by
  induction t with
  | nil => simp [segTail] at h
  | cons d t ih =>
    by_cases hd : d = '/'
    · subst hd
      simp [segTail] at h
      obtain ⟨_, rfl⟩ := h
      rw [endsSlash_cons]
      cases t <;> simp
    · have h2 : segTail t = c :: r := by simpa [segTail, hd] using h
      rw [endsSlash_cons]
      cases t with
      | nil => simp [segTail] at h2
      | cons e t => simp; exact ih h2

theorem dropLast_ne_of_endsSlash (r : Path) (h : endsSlash r = true) : (splitSlash r).dropLast ≠ [] := by
  cases hst : segTail r with
  | nil => rw [endsSlash_of_segTail_nil r hst] at h; simp at h
  | cons c r' =>
    rw [splitSlash_unfold, hst]
    simp only
    rw [List.dropLast_cons_of_ne_nil (splitSlash_ne r')]
    simp

theorem complete_slash (r : Path) : complete ('/' :: r) = r.isEmpty := by
  cases r <;> simp [complete]

/-- strict match, or the same without the last token when the path ends in `/` (the shape of `flatMatch`) -/
def lenient (toks : List Tok) (t : Path) : Option Params :=
  orE (tokMatch toks (splitSlash t))
    (if t.isEmpty = false ∧ endsSlash t = true then tokMatch toks (splitSlash t).dropLast else none)

theorem simple_eq_lenient : ∀ (fs : List FSeg), (∀ g ∈ fs, SimpleN g) → fs ≠ [] → ∀ t : Path,
    simpleMatch fs ('/' :: t) = lenient (fs.map tokOf) t := by
  intro fs
  induction fs with
  | nil => intro _ h; exact absurd rfl h
  | cons f fs ih =>
    intro hs _ t
    have hf := hs f (by simp)
    have hs' : ∀ g ∈ fs, SimpleN g := fun x hx => hs x (by simp [hx])
    rw [sm_cons f fs t hf]
    unfold lenient
    rw [splitSlash_unfold t]
    cases hst : segTail t with
    | nil =>
      simp only [endsSlash_of_segTail_nil t hst, Bool.false_eq_true, and_false, if_false, List.map_cons]
      rw [tm_cons f _ _ _ hf]
      cases fs with
      | nil => simp [simpleMatch, complete, tokMatch, orE]; cases checkTok f (segHead t) (some []) <;> rfl
      | cons g fs' =>
        simp only [List.map_cons]
        rw [tm_cons_nil g _ (hs' g (by simp))]
        simp [simpleMatch, check_none, orE]
    | cons c r =>
      have hc : c = '/' := by
        have := segTail_aligned t
        rw [hst] at this
        simpa [startsSlash] using this
      subst hc
      have htne : t.isEmpty = false := by
        cases t with
        | nil => simp [segTail] at hst
        | cons _ _ => rfl
      simp only [htne, endsSlash_of_segTail_cons t '/' r hst, true_and, List.map_cons,
        List.dropLast_cons_of_ne_nil (splitSlash_ne r)]
      rw [tm_cons f _ _ _ hf, tm_cons f _ _ _ hf]
      cases fs with
      | nil =>
        simp only [List.map_nil, simpleMatch, complete_slash, tm_nil]
        have hne := splitSlash_ne r
        simp only [hne, if_false, check_none]
        cases r with
        | nil => simp [splitSlash, orE]
        | cons d r' =>
          simp only [List.isEmpty_cons, Bool.false_or, Bool.false_eq_true, if_false, check_none]
          cases he : endsSlash (d :: r') with
          | false => simp [orE]
          | true =>
            have := dropLast_ne_of_endsSlash (d :: r') he
            simp [this, check_none, orE]
      | cons g fs' =>
        rw [ih hs' (by simp) r]
        unfold lenient
        rw [check_orE]
        congr 1
        cases r with
        | nil =>
          simp only [List.isEmpty_nil, Bool.true_or, if_true, splitSlash, List.dropLast_singleton, List.map_cons]
          rw [tm_cons_nil g _ (hs' g (by simp))]
          simp [check_none]
        | cons d r' =>
          simp only [List.isEmpty_cons, Bool.false_or, true_and]
          cases endsSlash (d :: r') <;> simp [check_none]









theorem flatMatch_lenient (fs : List FSeg) (hs : ∀ g ∈ fs, SimpleN g) (hne : fs ≠ []) (t : Path) :
    flatMatch fs ('/' :: t) = lenient (fs.map tokOf) t := by
  unfold flatMatch flatMatchStrict flatMatchTrim lenient
  rw [patternTokens_simple fs hs hne]
  simp only [if_true, true_and]
  cases tokMatch (fs.map tokOf) (splitSlash t) with
  | some p => simp [orE]
  | none =>
    simp only [orE]
    cases t.isEmpty <;> cases endsSlash t <;> simp

theorem gen_toSeg (fs : List FSeg) : genSegs (fs.map toSeg) = fs := by
  induction fs with
  | nil => rfl
  | cons f fs ih => cases f <;> simp [genSegs, toSeg, Seg.gen, ih]

theorem simple_noOpt (fs : List FSeg) (hs : ∀ g ∈ fs, SimpleN g) : firstOpt fs = none := by
  induction fs with
  | nil => rfl
  | cons f fs ih =>
    have hf := hs f (by simp)
    have := ih (fun x hx => hs x (by simp [hx]))
    cases f <;> simp [SimpleN] at hf <;> simp [firstOpt, this]

theorem expandedPerDef_leaf (fs : List FSeg) (hs : ∀ g ∈ fs, SimpleN g) :
    expandedPerDef (leafDefs fs) = [[fs]] := by
  have h1 := (firstOpt_none (simple_noOpt fs hs)).2
  simp [expandedPerDef, leafDefs, Route.gen, Seg.gen, gen_toSeg, withBase, expandOptionals_eq_spec, h1]

/-- **match ⇔ flat, partial (proved) — now without `SegmentAligned`**: for single leaf routes whose
segments are plain statics and params and for *every* request path, the router (after fix-c14-1/2) does
not panic, matches exactly when the registered flat route accepts the path (one trailing `/`
tolerated), and yields the params the flat route yields.  (For the code before fix-c14-1 this needed the
hypothesis `SegmentAligned`; `C14_static_prefix_witness` and `C14_unaligned_panic_witness` are the inputs
that violated it.) -/
theorem C14_match_iff_flat_partial (fs : List FSeg) (hs : ∀ g ∈ fs, SimpleN g) (hne : fs ≠ []) (path : Path)
    (hp : startsSlash path = true) :
    ∃ mt, matchRoute .cur (leafDefs fs) path =
      match flatMatch fs path with
      | some q => .some ⟨[(0, mt)], q⟩
      | none => .none := by
  obtain ⟨mt, hmt⟩ := leaf_simple .cur rfl fs (fun f hf => (hs f hf).simple) hne path hp
  refine ⟨mt, ?_⟩
  rw [hmt]
  cases path with
  | nil => simp [startsSlash] at hp
  | cons c t =>
    simp [startsSlash] at hp
    subst hp
    rw [flatMatch_lenient fs hs hne t, simple_eq_lenient fs hs hne t]

/-- … hence the property's oracle accepts (`Holds`, the body of the full statement) -/
theorem C14_match_iff_flat_partial_holds (fs : List FSeg) (hs : ∀ g ∈ fs, SimpleN g) (hne : fs ≠ []) (path : Path)
    (hp : startsSlash path = true) : Holds (leafDefs fs) path := by
  obtain ⟨mt, hmt⟩ := C14_match_iff_flat_partial fs hs hne path hp
  unfold Holds
  rw [hmt]
  unfold judge
  simp only [expandedPerDef_leaf fs hs, firstStrict, anyStrict, List.any_cons, List.any_nil, Bool.or_false]
  unfold flatMatch at *
  cases hst : flatMatchStrict fs path with
  | some q =>
    simp [hst, lenientParams]
  | none =>
    simp only
    cases htr : flatMatchTrim fs path with
    | some q => simp [lenientParams, hst, htr]
    | none => simp

/-- the aligned variant agrees on this fragment as well (so `SegmentAligned` is no restriction here:
both sides accept exactly the paths `flatMatch` accepts, with its params) -/
theorem C14_simple_aligned_agrees (fs : List FSeg) (hs : ∀ g ∈ fs, SimpleN g) (hne : fs ≠ []) (path : Path)
    (hp : startsSlash path = true) :
    ∃ mt, matchRoute .aligned (leafDefs fs) path =
      match flatMatch fs path with
      | some q => .some ⟨[(0, mt)], q⟩
      | none => .none := by
  obtain ⟨mt, hmt⟩ := leaf_simple .aligned rfl fs (fun f hf => (hs f hf).simple) hne path hp
  refine ⟨mt, ?_⟩
  rw [hmt]
  cases path with
  | nil => simp [startsSlash] at hp
  | cons c t =>
    simp [startsSlash] at hp
    subst hp
    rw [flatMatch_lenient fs hs hne t, simple_eq_lenient fs hs hne t]

/-! # the general partial theorem: optional-free route trees -/


/-! ## tuple nesting flattens -/

/-- the segments of a flat list tested one after the other (what a tuple without optionals does) -/
def seqTest (k : Ver) : List FSeg → Path → Out PM
  | [], path => .some ⟨[], path, []⟩
  | f :: fs, path =>
    match (toSeg f).test k path with
    | .panic => .panic
    | .none => .none
    | .some m =>
      match seqTest k fs m.remaining with
      | .some m' => .some ⟨m.matched ++ m'.matched, m'.remaining, m.params ++ m'.params⟩
      | .none => .none
      | .panic => .panic

theorem seqTest_append (k : Ver) (a b : List FSeg) (path : Path) :
    seqTest k (a ++ b) path =
      match seqTest k a path with
      | .some m =>
        (match seqTest k b m.remaining with
         | .some m' => .some ⟨m.matched ++ m'.matched, m'.remaining, m.params ++ m'.params⟩
         | .none => .none
         | .panic => .panic)
      | .none => .none
      | .panic => .panic := by
  induction a generalizing path with
  | nil =>
    simp only [List.nil_append, seqTest]
    cases seqTest k b path <;> simp
  | cons f a ih =>
    simp only [List.cons_append, seqTest]
    cases (toSeg f).test k path with
    | panic => rfl
    | none => rfl
    | some m =>
      simp only [ih]
      cases seqTest k a m.remaining with
      | panic => rfl
      | none => rfl
      | some m1 =>
        simp only
        cases seqTest k b m1.remaining <;> simp [List.append_assoc]

theorem seqTest_partition (k : Ver) : ∀ (fs : List FSeg) (path : Path) (m : PM),
    seqTest k fs path = .some m → m.matched ++ m.remaining = path := by
  intro fs
  induction fs with
  | nil => intro path m h; simp [seqTest] at h; subst h; rfl
  | cons f fs ih =>
    intro path m h
    simp only [seqTest] at h
    cases ht : (toSeg f).test k path with
    | panic => simp [ht] at h
    | none => simp [ht] at h
    | some m1 =>
      simp only [ht] at h
      cases hs : seqTest k fs m1.remaining with
      | panic => simp [hs] at h
      | none => simp [hs] at h
      | some m2 =>
        simp [hs] at h; subst h
        have h1 := test_partition k _ _ _ ht
        have h2 := ih _ _ hs
        simp [List.append_assoc, h2, h1]

theorem countOpt_noOpt (l : List Seg) (h : anyOptional l = false) : countOpt l = 0 := by
  induction l with
  | nil => rfl
  | cons a r ih =>
    simp only [anyOptional, Bool.or_eq_false_iff] at h
    simp [countOpt, h.1, ih h.2]

theorem toSeg_gen_atom (k : Ver) (s : Seg) (path : Path) (f : FSeg) (hs : toSeg f = s) :
    seqTest k [f] path = s.test k path := by
  subst hs
  simp only [seqTest]
  cases (toSeg f).test k path <;> simp

mutual
theorem flatten_test (k : Ver) : ∀ (s : Seg) (path : Path), s.optional = false →
    s.test k path = seqTest k s.gen path
  | .st s, path, _ => (toSeg_gen_atom k (.st s) path (.st s) rfl).symm
  | .param n, path, _ => (toSeg_gen_atom k (.param n) path (.param n) rfl).symm
  | .opt n, path, h => by simp [Seg.optional] at h
  | .splat n, path, _ => (toSeg_gen_atom k (.splat n) path (.splat n) rfl).symm
  | .tup [], path, _ => by simp [Seg.test, Seg.gen, genSegs, seqTest]
  | .tup [a], path, h => by
    have ha : a.optional = false := by simpa [Seg.optional, anyOptional] using h
    have ih := flatten_test k a path ha
    simp only [Seg.test, Seg.gen, genSegs, List.append_nil]
    rw [ih]
    cases hs : seqTest k a.gen path with
    | panic => rfl
    | none => rfl
    | some m =>
      have hp := seqTest_partition k _ _ _ hs
      have := splitBytes_bytes m.matched m.remaining
      rw [hp] at this
      simp [this]
  | .tup (a :: b :: l), path, h => by
    have hl : anyOptional (a :: b :: l) = false := by simpa [Seg.optional] using h
    have hp := flatten_pass k (a :: b :: l) true 0 path 0 [] hl
    simp only [Seg.test, countOpt_noOpt _ hl, backoff, hp, Seg.gen]
    cases hs : seqTest k (genSegs (a :: b :: l)) path with
    | panic => rfl
    | none => rfl
    | some m =>
      have hpt := seqTest_partition k _ _ _ hs
      have := splitBytes_bytes m.matched m.remaining
      rw [hpt] at this
      simp [this]
theorem flatten_pass (k : Ver) : ∀ (l : List Seg) (first : Bool) (nth : Nat) (r : Path) (ml : Nat) (p : Params),
    anyOptional l = false →
    passFields k l first 0 nth r ml p =
      match seqTest k (genSegs l) r with
      | .some m => .done m.remaining (ml + bytes m.matched) (p ++ m.params)
      | .none => .fail
      | .panic => .panic
  | [], first, nth, r, ml, p, _ => by simp [passFields, genSegs, seqTest, bytes]
  | ty :: tys, first, nth, r, ml, p, h => by
    simp only [anyOptional, Bool.or_eq_false_iff] at h
    have iht := flatten_test k ty r h.1
    simp only [passFields, h.1, Bool.false_eq_true, if_false, Bool.not_false, Bool.true_or, if_true, genSegs,
      seqTest_append, iht]
    cases hs : seqTest k ty.gen r with
    | panic => rfl
    | none => cases first <;> rfl
    | some m =>
      simp only
      rw [flatten_pass k tys false nth m.remaining _ _ h.2]
      cases seqTest k (genSegs tys) m.remaining <;> simp [bytes_append, Nat.add_assoc]
end

/-- **arbitrary tuple nesting has no effect on matching** (for segments without optional params):
a segment tree behaves like the flat list of its atoms, in all three versions of the code. -/
theorem C14_tuple_nesting_flattens (k : Ver) (s : Seg) (path : Path) (h : s.optional = false) :
    s.test k path = seqTest k s.gen path := flatten_test k s path h

/-- in particular two optional-free segment trees with the same atoms match alike -/
theorem C14_same_atoms_same_match (k : Ver) (s t : Seg) (path : Path) (hs : s.optional = false)
    (ht : t.optional = false) (h : s.gen = t.gen) : s.test k path = t.test k path := by
  rw [flatten_test k s path hs, flatten_test k t path ht, h]


/-! ## the atoms of a well-formed route, in the aligned variant -/

/-- what an atom consumes at a segment boundary: `(remaining, params)` -/
def atomSpec : FSeg → Path → Option (Path × Params)
  | .st s, [] => if s = [] then some ([], []) else none
  | .st s, c :: t =>
    if c = '/' then
      (if s = [] then some (c :: t, [])
       else if s = ['/'] then some (t, [])
       else if segHead t = s then some (segTail t, []) else none)
    else none
  | .param _, [] => none
  | .param n, c :: t => if c = '/' ∧ segHead t ≠ [] then some (segTail t, [(n, segHead t)]) else none
  | .splat n, [] => some ([], [(n, [])])
  | .splat n, c :: t => if c = '/' then some ([], [(n, t)]) else none
  | .opt _, _ => none

/-- forget `matched` -/
def Out.rp : Out PM → Out (Path × Params)
  | .some m => .some (m.remaining, m.params)
  | .none => .none
  | .panic => .panic

def ofOpt {α : Type} : Option α → Out α
  | some a => .some a
  | none => .none

theorem splatTest_slash (n t : Path) : splatTest true n ('/' :: t) = .some ⟨'/' :: t, [], [(n, t)]⟩ := by
  have h1 : splitBytes ('/' :: t) (1 + bytes t) = some ('/' :: t, []) := by
    have := splitBytes_bytes ('/' :: t) []
    simpa [bytes, slash_size] using this
  have h2 : sliceBytes ('/' :: t) 1 (bytes t + 1) = some t := by
    unfold sliceBytes
    have h3 : splitBytes ('/' :: t) 1 = some (['/'], t) := by
      have := splitBytes_bytes ['/'] t
      simpa [bytes, slash_size] using this
    have h4 : splitBytes t (bytes t) = some (t, []) := by
      have := splitBytes_bytes t []
      simpa using this
    simp [h3, h4]
  unfold splatTest
  simp [splatScan, h1, h2]

theorem splatTest_nil (fx : Bool) (n : Path) : splatTest fx n [] = .some ⟨[], [], [(n, [])]⟩ := by
  simp [splatTest, splatScan, splitBytes, sliceBytes]

theorem staticTest_empty (fx : Bool) (path : Path) (h : Aligned path) :
    staticTest fx [] path = .some ⟨[], path, []⟩ := by
  cases path with
  | nil => simp [staticTest, staticLoop, splitBytes]
  | cons c t =>
    have hc : c = '/' := by
      rcases h with h | h
      · simp at h
      · simpa [startsSlash] using h
    subst hc
    unfold staticTest
    cases t <;> simp [staticLoop, splitBytes]

theorem staticTest_slashseg (fx : Bool) (t : Path) :
    staticTest fx ['/'] ('/' :: t) = .some ⟨['/'], t, []⟩ := by
  have h1 : splitBytes ('/' :: t) 1 = some (['/'], t) := by
    have := splitBytes_bytes ['/'] t
    simpa [bytes, slash_size] using this
  unfold staticTest
  cases t <;> simp [staticLoop, h1]

theorem staticTest_slashseg_nil (fx : Bool) : staticTest fx ['/'] [] = .none := by
  simp [staticTest, staticLoop]

theorem startOk_aligned (path : Path) : startOk .aligned path = decide (Aligned path) := by
  cases path with
  | nil => simp [startOk, Aligned]
  | cons c t => simp [startOk, Aligned, startsSlash]

/-- every atom of a well-formed route, in the aligned variant, is `atomSpec` (and never panics) -/
theorem atom_aligned (f : FSeg) (hw : WfA f) (path : Path) :
    ((toSeg f).test .aligned path).rp = ofOpt (atomSpec f path) := by
  cases path with
  | nil =>
    cases f with
    | st s =>
      rcases hw with hp | rfl | rfl
      · have : s ≠ [] := hp.1
        simp [toSeg, Seg.test, startOk, Ver.fixed, staticTest_nil _ s hp, atomSpec, this, Out.rp, ofOpt]
      · simp [toSeg, Seg.test, startOk, Ver.fixed, staticTest_empty _ [] (Or.inl rfl), atomSpec, Out.rp, ofOpt]
      · simp [toSeg, Seg.test, startOk, Ver.fixed, staticTest_slashseg_nil, atomSpec, Out.rp, ofOpt]
    | param n => simp [toSeg, Seg.test, startOk, Ver.fixed, paramTest_nil, atomSpec, Out.rp, ofOpt]
    | splat n => simp [toSeg, Seg.test, startOk, Ver.fixed, splatTest_nil, atomSpec, Out.rp, ofOpt]
    | opt n => simp [WfA] at hw
  | cons c t =>
    by_cases hc : c = '/'
    · subst hc
      cases f with
      | st s =>
        rcases hw with hp | rfl | rfl
        · have h1 : s ≠ [] := hp.1
          have h2 : s ≠ ['/'] := by intro h; rw [h] at hp; exact hp.2 (by simp)
          simp only [toSeg, Seg.test, startOk, startsSlash, decide_true, Bool.or_true, if_true, Ver.fixed,
            C14_static_is_whole_segment s t hp, atomSpec, h1, h2, if_false]
          by_cases he : segHead t = s <;> simp [he, Out.rp, ofOpt]
        · simp [toSeg, Seg.test, startOk, startsSlash, Ver.fixed,
            staticTest_empty _ ('/' :: t) (Or.inr rfl), atomSpec, Out.rp, ofOpt]
        · simp [toSeg, Seg.test, startOk, startsSlash, Ver.fixed, staticTest_slashseg, atomSpec, Out.rp, ofOpt]
      | param n =>
        simp only [toSeg, Seg.test, startOk, startsSlash, decide_true, Bool.or_true, if_true, Ver.fixed,
          paramTest_slash, atomSpec, true_and]
        by_cases he : segHead t = [] <;> simp [he, Out.rp, ofOpt]
      | splat n =>
        simp [toSeg, Seg.test, startOk, startsSlash, Ver.fixed, splatTest_slash, atomSpec, Out.rp, ofOpt]
      | opt n => simp [WfA] at hw
    · have hst : startOk .aligned (c :: t) = false := by simp [startOk, startsSlash, hc]
      cases f with
      | st s => simp [toSeg, Seg.test, hst, atomSpec, hc, Out.rp, ofOpt]
      | param n => simp [toSeg, Seg.test, hst, atomSpec, hc, Out.rp, ofOpt]
      | splat n => simp [toSeg, Seg.test, hst, atomSpec, hc, Out.rp, ofOpt]
      | opt n => simp [WfA] at hw

/-- the atoms of a flat list one after the other: `(remaining, params)` -/
def seqSpec : List FSeg → Path → Option (Path × Params)
  | [], path => some (path, [])
  | f :: fs, path =>
    match atomSpec f path with
    | none => none
    | some (r, ps) =>
      match seqSpec fs r with
      | none => none
      | some (r', ps') => some (r', ps ++ ps')

theorem seq_aligned : ∀ (fs : List FSeg), (∀ f ∈ fs, WfA f) → ∀ path : Path,
    (seqTest .aligned fs path).rp = ofOpt (seqSpec fs path) := by
  intro fs
  induction fs with
  | nil => intro _ path; simp [seqTest, seqSpec, Out.rp, ofOpt]
  | cons f fs ih =>
    intro hs path
    have ha := atom_aligned f (hs f (by simp)) path
    have ih' := ih (fun x hx => hs x (by simp [hx]))
    simp only [seqTest, seqSpec]
    cases ht : (toSeg f).test .aligned path with
    | panic => rw [ht] at ha; cases hsp : atomSpec f path <;> simp [hsp, Out.rp, ofOpt] at ha
    | none =>
      rw [ht] at ha
      cases hsp : atomSpec f path with
      | none => simp [Out.rp, ofOpt]
      | some x => simp [hsp, Out.rp, ofOpt] at ha
    | some m =>
      rw [ht] at ha
      cases hsp : atomSpec f path with
      | none => simp [hsp, Out.rp, ofOpt] at ha
      | some x =>
        obtain ⟨r, ps⟩ := x
        simp [hsp, Out.rp, ofOpt] at ha
        obtain ⟨h1, h2⟩ := ha
        have := ih' m.remaining
        simp only [h1] at this ⊢
        cases hq : seqTest .aligned fs r with
        | panic => rw [hq] at this; cases hs2 : seqSpec fs r <;> simp [hs2, Out.rp, ofOpt] at this
        | none =>
          rw [hq] at this
          cases hs2 : seqSpec fs r with
          | none => simp [Out.rp, ofOpt]
          | some y => simp [hs2, Out.rp, ofOpt] at this
        | some m2 =>
          rw [hq] at this
          cases hs2 : seqSpec fs r with
          | none => simp [hs2, Out.rp, ofOpt] at this
          | some y =>
            obtain ⟨r2, ps2⟩ := y
            simp [hs2, Out.rp, ofOpt] at this
            simp [Out.rp, ofOpt, this.1, this.2, h2]



/-! ## optional-free route trees in the aligned variant = first flat route that matches -/

theorem seqSpec_append (a b : List FSeg) (path : Path) :
    seqSpec (a ++ b) path =
      match seqSpec a path with
      | none => none
      | some (r, ps) =>
        match seqSpec b r with
        | none => none
        | some (r', ps') => some (r', ps ++ ps') := by
  induction a generalizing path with
  | nil =>
    simp only [List.nil_append, seqSpec]
    cases seqSpec b path with
    | none => rfl
    | some x => obtain ⟨r, ps⟩ := x; simp
  | cons f a ih =>
    simp only [List.cons_append, seqSpec]
    cases atomSpec f path with
    | none => rfl
    | some x =>
      obtain ⟨r, ps⟩ := x
      simp only [ih]
      cases seqSpec a r with
      | none => rfl
      | some y =>
        obtain ⟨r1, ps1⟩ := y
        simp only
        cases seqSpec b r1 with
        | none => rfl
        | some z => obtain ⟨r2, ps2⟩ := z; simp [List.append_assoc]

/-- a flat route accepts the path: all atoms in sequence, then nothing or one `/` left -/
def gmatch (f : List FSeg) (path : Path) : Option Params :=
  match seqSpec f path with
  | some (r, ps) => if complete r then some ps else none
  | none => none

def firstG : List (List FSeg) → Path → Option Params
  | [], _ => none
  | f :: fs, path =>
    match gmatch f path with
    | some ps => some ps
    | none => firstG fs path

/-- the first definition (index from `i`) one of whose flat routes accepts the path -/
def firstDef : List Route → Nat → Path → Option (Nat × Params)
  | [], _, _ => none
  | c :: cs, i, path =>
    match firstG c.gen path with
    | some ps => some (i, ps)
    | none => firstDef cs (i + 1) path

theorem gmatch_append (a b : List FSeg) (path : Path) :
    gmatch (a ++ b) path =
      match seqSpec a path with
      | none => none
      | some (r, ps) => (gmatch b r).map (ps ++ ·) := by
  unfold gmatch
  rw [seqSpec_append]
  cases seqSpec a path with
  | none => rfl
  | some x =>
    obtain ⟨r, ps⟩ := x
    simp only
    cases seqSpec b r with
    | none => rfl
    | some y =>
      obtain ⟨r1, ps1⟩ := y
      simp only
      split <;> simp

theorem firstG_prefix (a : List FSeg) (fs : List (List FSeg)) (path : Path) :
    firstG (prefixAll a fs) path =
      match seqSpec a path with
      | none => none
      | some (r, ps) => (firstG fs r).map (ps ++ ·) := by
  induction fs with
  | nil => simp only [prefixAll, firstG]; cases seqSpec a path with
    | none => rfl
    | some x => obtain ⟨r, ps⟩ := x; rfl
  | cons f fs ih =>
    simp only [prefixAll, firstG, gmatch_append, ih]
    cases seqSpec a path with
    | none => rfl
    | some x =>
      obtain ⟨r, ps⟩ := x
      simp only
      cases gmatch f r <;> simp

theorem firstG_append (a b : List (List FSeg)) (path : Path) :
    firstG (a ++ b) path = match firstG a path with | some ps => some ps | none => firstG b path := by
  induction a with
  | nil => rfl
  | cons f a ih =>
    simp only [List.cons_append, firstG, ih]
    cases gmatch f path <;> rfl

theorem firstG_genList (cs : List Route) (i : Nat) (path : Path) :
    firstG (genList cs) path = (firstDef cs i path).map (·.2) := by
  induction cs generalizing i with
  | nil => rfl
  | cons c cs ih =>
    simp only [genList, firstG_append, firstDef]
    cases firstG c.gen path with
    | some ps => rfl
    | none => exact ih (i + 1)

def nres : NOut → Out (Option Nat × Params)
  | .some m _ => .some (m.chain.head?.map (·.1), m.params)
  | .none => .none
  | .panic => .panic

theorem finish_complete (pos : Nat) (matched : Path) (params : Params) (inner : Option NMatch) (remaining : Path)
    (m : NMatch) (rem : Path) (h : finish pos matched params inner remaining = .some m rem) :
    rem = remaining ∧ complete rem = true := by
  have := finish_some pos matched params inner remaining m rem h
  exact ⟨this.1, this.2.1⟩

mutual
/-- what `match_nested` hands back as `remaining` is always `""` or `"/"` -/
theorem nested_rem_complete (k : Ver) : ∀ (r : Route) (pos : Nat) (path : Path) (m : NMatch) (rem : Path),
    matchNested k r pos path = .some m rem → complete rem = true
  | .mk segs children, pos, path, m, rem, h => by
    simp only [matchNested] at h
    cases hs : segs.test k path with
    | panic => rw [hs] at h; simp at h
    | none => rw [hs] at h; simp at h
    | some pm =>
      rw [hs] at h; simp only at h
      split at h
      · exact (finish_complete _ _ _ _ _ _ _ h).2
      · cases hc : matchChildren k children 0 pm.remaining with
        | panic => rw [hc] at h; simp at h
        | some inner rem' =>
          rw [hc] at h; simp only at h
          exact (finish_complete _ _ _ _ _ _ _ h).2
        | none =>
          rw [hc] at h; simp only at h
          split at h
          · cases hc2 : matchChildren k children 0 path with
            | panic => rw [hc2] at h; simp at h
            | none => rw [hc2] at h; simp at h
            | some inner rem' =>
              rw [hc2] at h; simp only at h
              cases hs2 : segs.test k (if k.fixed = true then [] else trimEnd (innerMatched inner ++ rem') path) with
              | some np => rw [hs2] at h; simp only at h; exact (finish_complete _ _ _ _ _ _ _ h).2
              | none => rw [hs2] at h; simp only at h; split at h <;> simp at h
              | panic => rw [hs2] at h; simp at h
          · simp at h
theorem children_rem_complete (k : Ver) : ∀ (cs : List Route) (i : Nat) (path : Path) (m : NMatch) (rem : Path),
    matchChildren k cs i path = .some m rem → complete rem = true
  | [], i, path, m, rem, h => by simp [matchChildren] at h
  | c :: cs, i, path, m, rem, h => by
    simp only [matchChildren] at h
    cases hc : matchNested k c i path with
    | panic => rw [hc] at h; simp at h
    | some m' rem' =>
      rw [hc] at h; simp at h; obtain ⟨rfl, rfl⟩ := h
      exact nested_rem_complete k c i path _ _ hc
    | none =>
      rw [hc] at h; simp only at h
      exact children_rem_complete k cs (i + 1) path m rem h
end

mutual
/-- optional-free routes whose atoms are well-formed -/
def Route.good : Route → Bool
  | .mk segs children => !segs.optional && segs.gen.all (fun f => decide (WfA f)) && goodList children
def goodList : List Route → Bool
  | [] => true
  | c :: cs => c.good && goodList cs
end

theorem finish_nres (pos : Nat) (matched : Path) (params : Params) (inner : Option NMatch) (rem : Path)
    (hc : complete rem = true) :
    nres (finish pos matched params inner rem) =
      .some (some pos, params ++ (match inner with | some i => i.params | none => [])) := by
  unfold finish
  cases inner <;> simp [hc, nres]

mutual
theorem nested_aligned : ∀ (r : Route), r.good = true → ∀ (pos : Nat) (path : Path),
    nres (matchNested .aligned r pos path) =
      match firstG r.gen path with
      | some ps => .some (some pos, ps)
      | none => .none
  | .mk segs children, hg, pos, path => by
    simp only [Route.good, Bool.and_eq_true, Bool.not_eq_true', List.all_eq_true, decide_eq_true_eq] at hg
    obtain ⟨⟨hopt, hwf⟩, hch⟩ := hg
    have hflat := flatten_test .aligned segs path hopt
    have hseq := seq_aligned segs.gen hwf path
    simp only [matchNested, Route.gen, hflat]
    cases hT : seqTest .aligned segs.gen path with
    | panic => rw [hT] at hseq; cases hsp : seqSpec segs.gen path <;> simp [hsp, Out.rp, ofOpt] at hseq
    | none =>
      rw [hT] at hseq
      cases hsp : seqSpec segs.gen path with
      | some x => simp [hsp, Out.rp, ofOpt] at hseq
      | none =>
        simp only [nres]
        by_cases hce : children.isEmpty = true
        · simp [hce, firstG, gmatch, hsp]
        · simp [hce, firstG_prefix, hsp]
    | some pm =>
      rw [hT] at hseq
      cases hsp : seqSpec segs.gen path with
      | none => simp [hsp, Out.rp, ofOpt] at hseq
      | some x =>
        obtain ⟨r, ps⟩ := x
        simp [hsp, Out.rp, ofOpt] at hseq
        obtain ⟨hr, hps⟩ := hseq
        simp only
        by_cases hce : children.isEmpty = true
        · simp only [hce, if_true, firstG, gmatch, hsp]
          unfold finish
          rw [hr, hps]
          by_cases hcomp : complete r = true <;> simp [hcomp, nres]
        · simp only [hce, Bool.false_eq_true, if_false, firstG_prefix, hsp, firstG_genList children 0]
          have ihc := children_aligned children hch 0 pm.remaining
          rw [hr] at ihc ⊢
          cases hmc : matchChildren .aligned children 0 r with
          | panic => rw [hmc] at ihc; cases hfd : firstDef children 0 r <;> simp [hfd, nres] at ihc
          | none =>
            rw [hmc] at ihc
            cases hfd : firstDef children 0 r with
            | some y => simp [hfd, nres] at ihc
            | none => simp [hopt, nres]
          | some inner rem =>
            rw [hmc] at ihc
            have hcomp := children_rem_complete .aligned children 0 r inner rem hmc
            cases hfd : firstDef children 0 r with
            | none => simp [hfd, nres] at ihc
            | some y =>
              obtain ⟨j, ps'⟩ := y
              simp [hfd, nres] at ihc
              simp only
              rw [finish_nres _ _ _ _ _ hcomp]
              simp [hps, ihc.2]
theorem children_aligned : ∀ (cs : List Route), goodList cs = true → ∀ (i : Nat) (path : Path),
    nres (matchChildren .aligned cs i path) =
      match firstDef cs i path with
      | some (j, ps) => .some (some j, ps)
      | none => .none
  | [], _, i, path => by simp [matchChildren, firstDef, nres]
  | c :: cs, hg, i, path => by
    simp only [goodList, Bool.and_eq_true] at hg
    have ih := nested_aligned c hg.1 i path
    simp only [matchChildren, firstDef]
    cases hm : matchNested .aligned c i path with
    | panic => rw [hm] at ih; cases hf : firstG c.gen path <;> simp [hf, nres] at ih
    | some m rem =>
      rw [hm] at ih
      cases hf : firstG c.gen path with
      | none => simp [hf, nres] at ih
      | some ps => simp [hf, nres] at ih; simp [nres, ih]
    | none =>
      rw [hm] at ih
      cases hf : firstG c.gen path with
      | some ps => simp [hf, nres] at ih
      | none => simp only; exact children_aligned cs hg.2 (i + 1) path
end



/-! ## the flat side: tokens of a well-formed flat route -/

/-- the token a segment contributes to the registered pattern (`""` contributes none, `"/"` an empty one) -/
def tokOfG : FSeg → Option Tok
  | .st s => if s = [] then none else if s = ['/'] then some (.lit []) else some (.lit s)
  | .param n => some (.par n)
  | .splat n => some (.spl n)
  | .opt _ => some .bad

def toksG : List FSeg → List Tok
  | [] => []
  | f :: fs => (match tokOfG f with | some t => [t] | none => []) ++ toksG fs

/-- segment-wise matcher on characters for a token list: every token consumes `/` + one whole
`/`-separated piece of the path, a wildcard the rest; at the end nothing or a single `/` may be left -/
def tmatch : List Tok → Path → Option Params
  | [], r => if complete r then some [] else none
  | .spl n :: _, [] => some [(n, [])]
  | .spl n :: _, c :: t => if c = '/' then some [(n, t)] else none
  | .lit _ :: _, [] => none
  | .lit s :: toks, c :: t => if c = '/' then (if s = segHead t then tmatch toks (segTail t) else none) else none
  | .par _ :: _, [] => none
  | .par n :: toks, c :: t =>
    if c = '/' then (if (segHead t).isEmpty then none else (tmatch toks (segTail t)).map ((n, segHead t) :: ·)) else none
  | .bad :: _, _ => none

theorem tmatch_unaligned (toks : List Tok) (r : Path) (h1 : r ≠ []) (h2 : startsSlash r = false) :
    tmatch toks r = none := by
  cases r with
  | nil => simp at h1
  | cons c t =>
    have hc : c ≠ '/' := by simpa [startsSlash] using h2
    cases toks with
    | nil => simp [tmatch, complete, hc]
    | cons tok toks => cases tok <;> simp [tmatch, hc]

theorem gmatch_unaligned (F : List FSeg) (r : Path) (h1 : r ≠ []) (h2 : startsSlash r = false) :
    gmatch F r = none := by
  cases r with
  | nil => simp at h1
  | cons c t =>
    have hc : c ≠ '/' := by simpa [startsSlash] using h2
    cases F with
    | nil => simp [gmatch, seqSpec, complete, hc]
    | cons f F => cases f <;> simp [gmatch, seqSpec, atomSpec, hc]

theorem gmatch_cons (f : FSeg) (F : List FSeg) (path : Path) :
    gmatch (f :: F) path = match atomSpec f path with
      | none => none
      | some (r, ps) => (gmatch F r).map (ps ++ ·) := by
  have := gmatch_append [f] F path
  simp only [List.singleton_append] at this
  rw [this]
  simp only [seqSpec]
  cases atomSpec f path with
  | none => rfl
  | some x => obtain ⟨r, ps⟩ := x; simp

theorem segHead_nil_iff (t : Path) : segHead t = [] ↔ Aligned t := by
  cases t with
  | nil => simp [segHead, Aligned]
  | cons c t =>
    by_cases hc : c = '/'
    · simp [segHead, Aligned, startsSlash, hc]
    · simp [segHead, Aligned, startsSlash, hc]

theorem segTail_of_aligned (t : Path) (h : Aligned t) : segTail t = t := by
  cases t with
  | nil => rfl
  | cons c t =>
    rcases h with h | h
    · simp at h
    · have : c = '/' := by simpa [startsSlash] using h
      simp [segTail, this]

/-- (F3) a well-formed flat route accepts a path iff its token list does, on characters -/
theorem gmatch_eq_tmatch : ∀ (F : List FSeg), (∀ f ∈ F, WfA f) → splatLast F = true → ∀ path : Path,
    gmatch F path = tmatch (toksG F) path := by
  intro F
  induction F with
  | nil => intro _ _ path; simp [gmatch, seqSpec, toksG, tmatch]
  | cons f F ih =>
    intro hw hsl path
    have hf := hw f (by simp)
    have hw' : ∀ g ∈ F, WfA g := fun x hx => hw x (by simp [hx])
    have hsl' : splatLast F = true := by
      cases F with
      | nil => rfl
      | cons g G => cases f <;> simp [splatLast] at hsl ⊢ <;> exact hsl
    have ih' := ih hw' hsl'
    rw [gmatch_cons]
    cases f with
    | opt n => simp [WfA] at hf
    | st s =>
      rcases hf with hp | rfl | rfl
      · -- plain text
        have h1 : s ≠ [] := hp.1
        have h2 : s ≠ ['/'] := by intro h; rw [h] at hp; exact hp.2 (by simp)
        simp only [toksG, tokOfG, h1, h2, if_false, List.singleton_append]
        cases path with
        | nil => simp [atomSpec, h1, tmatch]
        | cons c t =>
          by_cases hc : c = '/'
          · subst hc
            simp only [atomSpec, if_true, h1, h2, if_false, tmatch]
            by_cases he : segHead t = s
            · simp [he, ih']
            · have : ¬ s = segHead t := fun h => he h.symm
              simp [he, this]
          · simp [atomSpec, hc, tmatch]
      · -- ""
        simp only [toksG, tokOfG, if_true, List.nil_append]
        cases path with
        | nil => simp [atomSpec, ih']
        | cons c t =>
          by_cases hc : c = '/'
          · subst hc; simp [atomSpec, ih']
          · have hu := tmatch_unaligned (toksG F) (c :: t) (by simp) (by simp [startsSlash, hc])
            simp [atomSpec, hc, hu]
      · -- "/"
        have h0 : (['/'] : Path) ≠ [] := by simp
        simp only [toksG, tokOfG, h0, if_false, if_true, List.singleton_append]
        cases path with
        | nil => simp [atomSpec, tmatch]
        | cons c t =>
          by_cases hc : c = '/'
          · subst hc
            simp only [atomSpec, if_true, h0, if_false, tmatch]
            by_cases he : segHead t = []
            · have hal := (segHead_nil_iff t).1 he
              simp [he, segTail_of_aligned t hal, ih']
            · have hna : ¬ Aligned t := fun h => he ((segHead_nil_iff t).2 h)
              have h1 : t ≠ [] := fun h => hna (Or.inl h)
              have h2 : startsSlash t = false := by
                cases hss : startsSlash t
                · rfl
                · exact absurd (Or.inr hss) hna
              have : ¬ ([] : Path) = segHead t := fun h => he h.symm
              simp [gmatch_unaligned F t h1 h2, this]
          · simp [atomSpec, hc, tmatch]
    | param n =>
      simp only [toksG, tokOfG, List.singleton_append]
      cases path with
      | nil => simp [atomSpec, tmatch]
      | cons c t =>
        by_cases hc : c = '/'
        · subst hc
          simp only [atomSpec, true_and, tmatch, if_true]
          by_cases he : segHead t = []
          · simp [he]
          · have : (segHead t).isEmpty = false := by cases hh : segHead t <;> simp_all
            simp [he, this, ih']
        · simp [atomSpec, hc, tmatch]
    | splat n =>
      have hF : F = [] := by
        cases F with
        | nil => rfl
        | cons g G => simp [splatLast] at hsl
      subst hF
      simp only [toksG, tokOfG, List.singleton_append]
      cases path with
      | nil => simp [atomSpec, tmatch, gmatch, seqSpec, complete]
      | cons c t =>
        by_cases hc : c = '/'
        · subst hc; simp [atomSpec, tmatch, gmatch, seqSpec, complete]
        · simp [atomSpec, hc, tmatch]



/-! ### token matcher on characters = token matcher on the `/`-split, with the trailing-slash tolerance -/

/-- literal and param tokens, a wildcard only at the end -/
def tokOk : List Tok → Bool
  | [] => true
  | [.spl _] => true
  | .lit _ :: r => tokOk r
  | .par _ :: r => tokOk r
  | _ => false

def checkT (tok : Tok) (h : Path) (X : Option Params) : Option Params :=
  match tok with
  | .lit s => if s = h then X else none
  | .par n => if h.isEmpty then none else X.map ((n, h) :: ·)
  | _ => none

theorem checkT_none (tok : Tok) (h : Path) : checkT tok h none = none := by
  cases tok <;> simp [checkT]

theorem checkT_orE (tok : Tok) (h : Path) (A B : Option Params) :
    checkT tok h (orE A B) = orE (checkT tok h A) (checkT tok h B) := by
  cases tok with
  | lit s => by_cases e : s = h <;> simp [checkT, e, orE]
  | par n => cases hh : h.isEmpty <;> cases A <;> simp [checkT, hh, orE]
  | spl n => simp [checkT, orE]
  | bad => simp [checkT, orE]

/-- whether the check passes does not depend on what follows -/
theorem checkT_fail (tok : Tok) (h : Path) (a : Params) (hn : checkT tok h (some a) = none) (X : Option Params) :
    checkT tok h X = none := by
  cases tok with
  | lit s => by_cases e : s = h <;> simp [checkT, e] at hn ⊢
  | par n => cases hh : h.isEmpty <;> simp [checkT, hh] at hn ⊢
  | spl n => simp [checkT]
  | bad => simp [checkT]

def isLP : Tok → Bool
  | .lit _ => true
  | .par _ => true
  | _ => false

theorem tmatch_cons (tok : Tok) (toks : List Tok) (t : Path) (h : isLP tok = true) :
    tmatch (tok :: toks) ('/' :: t) = checkT tok (segHead t) (tmatch toks (segTail t)) := by
  cases tok <;> simp [isLP] at h <;> simp [tmatch, checkT]

theorem tokMatch_cons (tok : Tok) (toks : List Tok) (h : Path) (ts : List Path) (hl : isLP tok = true) :
    tokMatch (tok :: toks) (h :: ts) = checkT tok h (tokMatch toks ts) := by
  cases tok <;> simp [isLP] at hl <;> simp [tokMatch, checkT]

theorem tmatch_nil_path (toks : List Tok) (h : tokOk toks = true) : tmatch toks [] = tokMatch toks [] := by
  cases toks with
  | nil => simp [tmatch, tokMatch, complete]
  | cons tok toks => cases tok <;> simp [tmatch, tokMatch, joinSlash] <;> simp [tokOk] at h

theorem joinSlash_splitSlash (t : Path) : joinSlash (splitSlash t) = t := by
  induction t with
  | nil => simp [splitSlash, joinSlash]
  | cons c t ih =>
    simp only [splitSlash]
    cases hs : splitSlash t with
    | nil => exact absurd hs (splitSlash_ne t)
    | cons a b =>
      rw [hs] at ih
      by_cases hc : c = '/'
      · subst hc
        simp only [if_true]
        cases b with
        | nil => simp [joinSlash] at ih ⊢; exact ih
        | cons b1 b2 => simp [joinSlash] at ih ⊢; exact ih
      · simp only [hc, if_false]
        cases b with
        | nil => simp [joinSlash] at ih ⊢; exact ih
        | cons b1 b2 => simp [joinSlash] at ih ⊢; exact ih

theorem tokOk_tail (tok : Tok) (toks : List Tok) (h : tokOk (tok :: toks) = true) (hl : isLP tok = true) :
    tokOk toks = true := by
  cases tok <;> simp [isLP] at hl <;> simpa [tokOk] using h

theorem tokOk_head (tok : Tok) (toks : List Tok) (h : tokOk (tok :: toks) = true) :
    isLP tok = true ∨ (∃ n, tok = .spl n ∧ toks = []) := by
  cases tok with
  | lit s => left; rfl
  | par n => left; rfl
  | spl n =>
    right
    cases toks with
    | nil => exact ⟨n, rfl, rfl⟩
    | cons a b => simp [tokOk] at h
  | bad => simp [tokOk] at h

/-- (F2) -/
theorem tmatch_eq_lenient : ∀ (toks : List Tok), tokOk toks = true → toks ≠ [] → ∀ t : Path,
    tmatch toks ('/' :: t) = lenient toks t := by
  intro toks
  induction toks with
  | nil => intro _ h; exact absurd rfl h
  | cons tok toks ih =>
    intro hok _ t
    rcases tokOk_head tok toks hok with hl | ⟨n, rfl, rfl⟩
    · -- literal or param
      have hok' := tokOk_tail tok toks hok hl
      rw [tmatch_cons tok toks t hl]
      unfold lenient
      rw [splitSlash_unfold t]
      cases hst : segTail t with
      | nil =>
        simp only [endsSlash_of_segTail_nil t hst, Bool.false_eq_true, and_false, if_false]
        rw [tokMatch_cons tok _ _ _ hl, tmatch_nil_path toks hok']
        cases checkT tok (segHead t) (tokMatch toks []) <;> rfl
      | cons c r =>
        have hc : c = '/' := by
          have := segTail_aligned t
          rw [hst] at this
          simpa [startsSlash] using this
        subst hc
        have htne : t.isEmpty = false := by
          cases t with
          | nil => simp [segTail] at hst
          | cons _ _ => rfl
        simp only [htne, endsSlash_of_segTail_cons t '/' r hst, true_and,
          List.dropLast_cons_of_ne_nil (splitSlash_ne r)]
        rw [tokMatch_cons tok _ _ _ hl, tokMatch_cons tok _ _ _ hl]
        cases toks with
        | nil =>
          simp only [tmatch, complete_slash, tm_nil]
          have hne := splitSlash_ne r
          simp only [hne, if_false, checkT_none]
          cases r with
          | nil => simp [splitSlash, orE]
          | cons d r' =>
            simp only [List.isEmpty_cons, Bool.false_or, Bool.false_eq_true, if_false, checkT_none]
            cases he : endsSlash (d :: r') with
            | false => simp [orE]
            | true =>
              have := dropLast_ne_of_endsSlash (d :: r') he
              simp [this, checkT_none, orE]
        | cons g toks' =>
          rw [ih hok' (by simp) r]
          unfold lenient
          rw [checkT_orE]
          cases r with
          | nil =>
            simp only [List.isEmpty_nil, Bool.true_or, if_true, splitSlash, List.dropLast_singleton,
              Bool.true_eq_false, false_and, if_false, checkT_none]
            cases hS : tokMatch (g :: toks') [[]] with
            | none =>
              -- then g is not a wildcard, and `tokMatch (g :: toks') []` is none as well
              have : tokMatch (g :: toks') [] = none := by
                cases g <;> simp [tokMatch] at hS ⊢
              simp [this, checkT_none]
            | some a =>
              cases hck : checkT tok (segHead t) (some a) with
              | some b => simp [orE]
              | none => simp [orE, checkT_fail tok _ a hck]
          | cons d r' =>
            simp only [List.isEmpty_cons, Bool.false_or, true_and]
            cases endsSlash (d :: r') <;> simp [checkT_none]
    · -- a wildcard, last
      simp only [tmatch, if_true]
      unfold lenient
      simp [tokMatch, joinSlash_splitSlash, orE]



/-! ### the registered pattern of a well-formed flat route -/

def bodyT : Tok → List PChar
  | .lit s => s.map PChar.lit
  | .par n => [PChar.par n]
  | .spl n => [PChar.spl n]
  | .bad => []

def joinT : List Tok → List PChar
  | [] => []
  | t :: ts => PChar.lit '/' :: (bodyT t ++ joinT ts)

theorem joinAxum_toks : ∀ (F : List FSeg), (∀ f ∈ F, WfA f) → joinAxum F = joinT (toksG F) := by
  intro F
  induction F with
  | nil => intro _; rfl
  | cons f F ih =>
    intro hw
    have hf := hw f (by simp)
    have ih' := ih (fun x hx => hw x (by simp [hx]))
    cases f with
    | st s =>
      rcases hf with hp | rfl | rfl
      · obtain ⟨hh, he, hs2⟩ := plain_facts hp
        have h1 : s ≠ [] := hp.1
        have h2 : s ≠ ['/'] := by intro h; rw [h] at hp; exact hp.2 (by simp)
        simp [joinAxum, FSeg.raw, he, plain_not_startsSlash hp.2, toksG, tokOfG, h1, h2, joinT, bodyT, ih']
      · simp [joinAxum, FSeg.raw, toksG, tokOfG, ih']
      · simp [joinAxum, FSeg.raw, startsSlash, toksG, tokOfG, joinT, bodyT, ih']
    | param n =>
      obtain ⟨hh, he, hs2⟩ := plain_facts hf
      simp [joinAxum, FSeg.raw, he, plain_not_startsSlash hf.2, toksG, tokOfG, joinT, bodyT, ih']
    | splat n =>
      obtain ⟨hh, he, hs2⟩ := plain_facts hf
      simp [joinAxum, FSeg.raw, he, plain_not_startsSlash hf.2, toksG, tokOfG, joinT, bodyT, ih']
    | opt n => simp [WfA] at hf

/-- tokens whose text has no `/` (what `toksG` of a well-formed route produces) -/
def TokFree : Tok → Prop
  | .lit s => '/' ∉ s
  | .par _ => True
  | .spl _ => True
  | .bad => False

theorem bodyT_free (t : Tok) (h : TokFree t) : PChar.lit '/' ∉ bodyT t := by
  cases t with
  | lit s => simp [bodyT]; exact h
  | par n => simp [bodyT]
  | spl n => simp [bodyT]
  | bad => simp [TokFree] at h

theorem toTok_bodyT (t : Tok) (h : TokFree t) : toTok (bodyT t) = t := by
  cases t with
  | lit s =>
    cases s with
    | nil => simp [bodyT, toTok, litsOf]
    | cons c r =>
      cases r with
      | nil => simp [bodyT, toTok, litsOf]
      | cons d r => simp [bodyT, toTok, litsOf, litsOf_map]
  | par n => simp [bodyT, toTok]
  | spl n => simp [bodyT, toTok]
  | bad => simp [TokFree] at h

theorem splitP_joinT (t : Tok) (ts : List Tok) (ht : TokFree t) (hs : ∀ x ∈ ts, TokFree x) :
    splitP (bodyT t ++ joinT ts) = (t :: ts).map bodyT := by
  induction ts generalizing t with
  | nil => simp [joinT, splitP_free _ (bodyT_free t ht)]
  | cons u ts ih =>
    simp only [joinT]
    rw [splitP_append_sep _ _ (bodyT_free t ht), ih u (hs u (by simp)) (fun x hx => hs x (by simp [hx]))]
    simp

theorem toksG_free : ∀ (F : List FSeg), (∀ f ∈ F, WfA f) → ∀ x ∈ toksG F, TokFree x := by
  intro F
  induction F with
  | nil => intro _ x hx; simp [toksG] at hx
  | cons f F ih =>
    intro hw x hx
    have hf := hw f (by simp)
    have ih' := ih (fun y hy => hw y (by simp [hy]))
    simp only [toksG, List.mem_append] at hx
    rcases hx with hx | hx
    · cases f with
      | st s =>
        rcases hf with hp | rfl | rfl
        · have h1 : s ≠ [] := hp.1
          have h2 : s ≠ ['/'] := by intro h; rw [h] at hp; exact hp.2 (by simp)
          simp [tokOfG, h1, h2] at hx; subst hx; exact hp.2
        · simp [tokOfG] at hx
        · simp [tokOfG] at hx; subst hx; simp [TokFree]
      | param n => simp [tokOfG] at hx; subst hx; trivial
      | splat n => simp [tokOfG] at hx; subst hx; trivial
      | opt n => simp [WfA] at hf
    · exact ih' x hx

/-- (F1) the pattern the server registers for a well-formed flat route, as tokens -/
theorem patternTokens_wf (F : List FSeg) (hw : ∀ f ∈ F, WfA f) :
    patternTokens F = some (if toksG F = [] then [.lit []] else toksG F) := by
  unfold patternTokens
  rw [joinAxum_toks F hw]
  have hfree := toksG_free F hw
  cases hT : toksG F with
  | nil => simp [joinT]
  | cons t ts =>
    rw [hT] at hfree
    simp only [joinT, if_true]
    rw [splitP_joinT t ts (hfree t (by simp)) (fun x hx => hfree x (by simp [hx]))]
    simp only [List.map_map, reduceCtorEq, if_false]
    congr 1
    have : ∀ x ∈ t :: ts, (toTok ∘ bodyT) x = x := fun x hx => toTok_bodyT x (hfree x hx)
    rw [List.map_congr_left this]
    simp

theorem toksG_ok : ∀ (F : List FSeg), (∀ f ∈ F, WfA f) → splatLast F = true → tokOk (toksG F) = true := by
  intro F
  induction F with
  | nil => intro _ _; rfl
  | cons f F ih =>
    intro hw hsl
    have hf := hw f (by simp)
    have hsl' : splatLast F = true := by
      cases F with
      | nil => rfl
      | cons g G => cases f <;> simp [splatLast] at hsl ⊢ <;> exact hsl
    have ih' := ih (fun y hy => hw y (by simp [hy])) hsl'
    cases f with
    | st s =>
      rcases hf with hp | rfl | rfl
      · have h1 : s ≠ [] := hp.1
        have h2 : s ≠ ['/'] := by intro h; rw [h] at hp; exact hp.2 (by simp)
        simpa [toksG, tokOfG, h1, h2, tokOk] using ih'
      · simpa [toksG, tokOfG] using ih'
      · simpa [toksG, tokOfG, tokOk] using ih'
    | param n => simpa [toksG, tokOfG, tokOk] using ih'
    | splat n =>
      have hF : F = [] := by
        cases F with
        | nil => rfl
        | cons g G => simp [splatLast] at hsl
      subst hF
      simp [toksG, tokOfG, tokOk]
    | opt n => simp [WfA] at hf

/-! ### strict ⊆ router-side acceptance ⊆ lenient, for a well-formed flat route -/

theorem tokMatch_single_empty (ts : List Path) (q : Params) (h : tokMatch [.lit []] ts = some q) :
    ts = [[]] ∧ q = [] := by
  cases ts with
  | nil => simp [tokMatch] at h
  | cons a b =>
    simp only [tokMatch] at h
    split at h
    · next he =>
      cases b with
      | nil => simp [tokMatch] at h; exact ⟨by simp [← he], h⟩
      | cons c d => simp [tokMatch] at h
    · simp at h

theorem splitSlash_single_empty (t : Path) (h : splitSlash t = [[]]) : t = [] := by
  rw [splitSlash_unfold] at h
  cases hst : segTail t with
  | nil =>
    rw [hst] at h
    simp at h
    have := segHead_append_segTail t
    rw [h, hst] at this
    simpa using this.symm
  | cons c r =>
    rw [hst] at h
    simp at h
    exact absurd h.2 (splitSlash_ne r)

/-- (H1) a strict table match is accepted on the router side -/
theorem strict_imp_gmatch (F : List FSeg) (hw : ∀ f ∈ F, WfA f) (hsl : splatLast F = true) (path : Path)
    (q : Params) (h : flatMatchStrict F path = some q) : gmatch F path = some q := by
  unfold flatMatchStrict at h
  rw [patternTokens_wf F hw] at h
  cases path with
  | nil => simp at h
  | cons c t =>
    simp only at h
    split at h
    · next hc =>
      subst hc
      rw [gmatch_eq_tmatch F hw hsl]
      by_cases hT : toksG F = []
      · simp only [hT, if_true] at h
        obtain ⟨h1, h2⟩ := tokMatch_single_empty _ _ h
        have := splitSlash_single_empty t h1
        subst this; subst h2
        simp [hT, tmatch, complete]
      · simp only [hT, if_false] at h
        rw [tmatch_eq_lenient _ (toksG_ok F hw hsl) hT]
        simp [lenient, h, orE]
    · simp at h

/-- (H2) what the router side accepts, the table accepts, strictly or with the trailing slash dropped,
with the same params -/
theorem gmatch_imp_lenient (F : List FSeg) (hw : ∀ f ∈ F, WfA f) (hsl : splatLast F = true) (t : Path)
    (q : Params) (h : gmatch F ('/' :: t) = some q) :
    flatMatchStrict F ('/' :: t) = some q ∨ flatMatchTrim F ('/' :: t) = some q := by
  rw [gmatch_eq_tmatch F hw hsl] at h
  unfold flatMatchStrict flatMatchTrim
  rw [patternTokens_wf F hw]
  simp only [if_true, true_and]
  by_cases hT : toksG F = []
  · simp only [hT, if_true]
    rw [hT] at h
    simp only [tmatch, complete_slash] at h
    split at h
    · next he =>
      have : t = [] := by cases t <;> simp at he ⊢
      subst this
      simp at h; subst h
      left; simp [splitSlash, tokMatch]
    · simp at h
  · simp only [hT, if_false]
    rw [tmatch_eq_lenient _ (toksG_ok F hw hsl) hT] at h
    unfold lenient at h
    cases hS : tokMatch (toksG F) (splitSlash t) with
    | some a => rw [hS] at h; simp [orE] at h; left; rw [h]
    | none =>
      rw [hS] at h
      simp only [orE] at h
      right
      split at h
      · next hc => simp [hc.1, hc.2, h]
      · simp at h



/-! ### well-formed route tables (atoms, wildcard position, base) -/

mutual
theorem gen_noOpt : ∀ (s : Seg), s.optional = false → ∀ f ∈ s.gen, f.isOpt = false
  | .st s, _, f, hf => by simp [Seg.gen] at hf; subst hf; rfl
  | .param n, _, f, hf => by simp [Seg.gen] at hf; subst hf; rfl
  | .opt n, h, _, _ => by simp [Seg.optional] at h
  | .splat n, _, f, hf => by simp [Seg.gen] at hf; subst hf; rfl
  | .tup l, h, f, hf => by
    simp only [Seg.optional] at h
    simp only [Seg.gen] at hf
    exact genSegs_noOpt l h f hf
theorem genSegs_noOpt : ∀ (l : List Seg), anyOptional l = false → ∀ f ∈ genSegs l, f.isOpt = false
  | [], _, f, hf => by simp [genSegs] at hf
  | a :: r, h, f, hf => by
    simp only [anyOptional, Bool.or_eq_false_iff] at h
    simp only [genSegs, List.mem_append] at hf
    rcases hf with hf | hf
    · exact gen_noOpt a h.1 f hf
    · exact genSegs_noOpt r h.2 f hf
end

theorem wfa_of_wfao {f : FSeg} (h : WfAO f) (ho : f.isOpt = false) : WfA f := by
  cases f <;> simp [FSeg.isOpt] at ho <;> exact h

theorem splatLast_append (a b : List FSeg) (ha : noSplat a = true) (hb : splatLast b = true) :
    splatLast (a ++ b) = true := by
  induction a with
  | nil => simpa using hb
  | cons f a ih =>
    have ha' : noSplat a = true := by cases f <;> simp [noSplat] at ha ⊢ <;> exact ha
    have := ih ha'
    cases f with
    | splat n => simp [noSplat] at ha
    | st s => cases hab : a ++ b <;> simp [splatLast, hab] at this ⊢ <;> exact this
    | param s => cases hab : a ++ b <;> simp [splatLast, hab] at this ⊢ <;> exact this
    | opt s => cases hab : a ++ b <;> simp [splatLast, hab] at this ⊢ <;> exact this

theorem mem_prefixAll (a : List FSeg) (fs : List (List FSeg)) (F : List FSeg) (h : F ∈ prefixAll a fs) :
    ∃ G ∈ fs, F = a ++ G := by
  induction fs with
  | nil => simp [prefixAll] at h
  | cons g fs ih =>
    simp only [prefixAll, List.mem_cons] at h
    rcases h with h | h
    · exact ⟨g, by simp, h⟩
    · obtain ⟨G, hG, hF⟩ := ih h
      exact ⟨G, by simp [hG], hF⟩

mutual
theorem good_of_wf : ∀ (r : Route), r.wf = true → r.noOptional = true → r.good = true
  | .mk segs children, hw, hn => by
    simp only [Route.wf, Bool.and_eq_true, List.all_eq_true, decide_eq_true_eq] at hw
    simp only [Route.noOptional, Bool.and_eq_true, Bool.not_eq_true'] at hn
    simp only [Route.good, Bool.and_eq_true, Bool.not_eq_true', List.all_eq_true, decide_eq_true_eq]
    exact ⟨⟨hn.1, fun f hf => wfa_of_wfao (hw.1.1 f hf) (gen_noOpt segs hn.1 f hf)⟩,
      goodList_of_wf children hw.2 hn.2⟩
theorem goodList_of_wf : ∀ (cs : List Route), wfList cs = true → noOptionalList cs = true → goodList cs = true
  | [], _, _ => rfl
  | c :: cs, hw, hn => by
    simp only [wfList, Bool.and_eq_true] at hw
    simp only [noOptionalList, Bool.and_eq_true] at hn
    simp only [goodList, Bool.and_eq_true]
    exact ⟨good_of_wf c hw.1 hn.1, goodList_of_wf cs hw.2 hn.2⟩
end

/-- a flat route the matcher can be compared with: well-formed atoms, wildcard last -/
def FlatOk (F : List FSeg) : Prop := (∀ f ∈ F, WfA f) ∧ splatLast F = true

mutual
theorem flats_ok : ∀ (r : Route), r.wf = true → r.noOptional = true → ∀ F ∈ r.gen, FlatOk F
  | .mk segs children, hw, hn, F, hF => by
    simp only [Route.wf, Bool.and_eq_true, List.all_eq_true, decide_eq_true_eq] at hw
    simp only [Route.noOptional, Bool.and_eq_true, Bool.not_eq_true'] at hn
    have hat : ∀ f ∈ segs.gen, WfA f := fun f hf => wfa_of_wfao (hw.1.1 f hf) (gen_noOpt segs hn.1 f hf)
    simp only [Route.gen] at hF
    by_cases hce : children.isEmpty = true
    · simp only [hce, if_true, List.mem_singleton] at hF
      subst hF
      exact ⟨hat, by simpa [hce] using hw.1.2⟩
    · simp only [hce, Bool.false_eq_true, if_false] at hF
      obtain ⟨G, hG, rfl⟩ := mem_prefixAll _ _ _ hF
      have hGok := flatsList_ok children hw.2 hn.2 G hG
      refine ⟨?_, splatLast_append _ _ (by simpa [hce] using hw.1.2) hGok.2⟩
      intro f hf
      simp only [List.mem_append] at hf
      rcases hf with hf | hf
      · exact hat f hf
      · exact hGok.1 f hf
theorem flatsList_ok : ∀ (cs : List Route), wfList cs = true → noOptionalList cs = true →
    ∀ F ∈ genList cs, FlatOk F
  | [], _, _, F, hF => by simp [genList] at hF
  | c :: cs, hw, hn, F, hF => by
    simp only [wfList, Bool.and_eq_true] at hw
    simp only [noOptionalList, Bool.and_eq_true] at hn
    simp only [genList, List.mem_append] at hF
    rcases hF with hF | hF
    · exact flats_ok c hw.1 hn.1 F hF
    · exact flatsList_ok cs hw.2 hn.2 F hF
end

/-! ### the base as a leading segment -/

/-- the base as well-formed atoms in front of every flat route -/
def normBase : Option Path → List FSeg
  | none => []
  | some [] => [.st []]
  | some (_ :: s) => [.st s]

theorem normBase_ok (b : Option Path) (hb : baseOk b = true) : ∀ f ∈ normBase b, WfA f := by
  intro f hf
  match b, hb with
  | none, _ => simp [normBase] at hf
  | some [], _ => simp [normBase] at hf; subst hf; right; left; rfl
  | some (c :: s), hb =>
    simp [baseOk] at hb
    simp [normBase] at hf; subst hf
    left; exact hb.2

theorem normBase_noSplat (b : Option Path) : noSplat (normBase b) = true := by
  match b with
  | none => rfl
  | some [] => rfl
  | some (c :: s) => rfl

/-- the registered pattern does not change when the base is written as a plain segment -/
theorem joinAxum_base (b : Option Path) (hb : baseOk b = true) (F : List FSeg) :
    joinAxum (withBase b F) = joinAxum (normBase b ++ F) := by
  match b, hb with
  | none, _ => rfl
  | some [], _ => rfl
  | some (c :: s), hb =>
    simp [baseOk] at hb
    obtain ⟨rfl, hp⟩ := hb
    obtain ⟨hh, he, hs2⟩ := plain_facts hp
    have hns := plain_not_startsSlash hp.2
    have h0 : startsSlash ('/' :: s) = true := by simp [startsSlash]
    simp only [withBase, normBase, List.singleton_append, joinAxum, FSeg.raw]
    simp [h0, he, hns]

theorem flatStrict_base (b : Option Path) (hb : baseOk b = true) (F : List FSeg) (path : Path) :
    flatMatchStrict (withBase b F) path = flatMatchStrict (normBase b ++ F) path := by
  unfold flatMatchStrict patternTokens
  rw [joinAxum_base b hb F]

theorem flatTrim_base (b : Option Path) (hb : baseOk b = true) (F : List FSeg) (path : Path) :
    flatMatchTrim (withBase b F) path = flatMatchTrim (normBase b ++ F) path := by
  unfold flatMatchTrim patternTokens
  rw [joinAxum_base b hb F]

/-- base stripping in the aligned variant = the base atoms consumed in front -/
theorem stripBase_aligned (b : Option Path) (hb : baseOk b = true) (path : Path) (hp : startsSlash path = true) :
    seqSpec (normBase b) path = (stripBase .aligned b path).map (fun r => (r, [])) := by
  match b, hb with
  | none, _ => simp [normBase, seqSpec, stripBase]
  | some [], _ =>
    cases path with
    | nil => simp [startsSlash] at hp
    | cons c t =>
      have hc : c = '/' := by simpa [startsSlash] using hp
      subst hc
      simp [normBase, seqSpec, atomSpec, stripBase, stripPrefix, startsSlash]
  | some (c :: s), hb =>
    simp [baseOk] at hb
    obtain ⟨rfl, hpl⟩ := hb
    cases path with
    | nil => simp [startsSlash] at hp
    | cons c t =>
      have hc : c = '/' := by simpa [startsSlash] using hp
      subst hc
      have h1 : s ≠ [] := hpl.1
      have h2 : s ≠ ['/'] := by intro h; rw [h] at hpl; exact hpl.2 (by simp)
      simp only [normBase, seqSpec, atomSpec, if_true, h1, h2, if_false, stripBase, stripPrefix]
      cases hsp : stripPrefix s t with
      | none =>
        have : segHead t ≠ s := by
          intro h
          obtain ⟨rest, h3, _, _⟩ := (segHead_eq_iff s t hpl.2).1 h
          subst h3; simp [stripPrefix_append] at hsp
        simp [this]
      | some rest =>
        have ht := stripPrefix_some s t rest hsp
        subst ht
        by_cases hal : Aligned rest
        · obtain ⟨h3, h4⟩ := segHead_append s rest hpl.2 hal
          have : (rest.isEmpty || startsSlash rest) = true := by
            rcases hal with h | h
            · simp [h]
            · simp [h]
          simp [h3, h4, this]
        · have hne : segHead (s ++ rest) ≠ s := by
            intro h
            obtain ⟨rest', h3, h4, _⟩ := (segHead_eq_iff s _ hpl.2).1 h
            have : rest' = rest := by simpa using h3.symm
            subst this
            exact hal h4
          have : (rest.isEmpty || startsSlash rest) = false := by
            cases hr : rest with
            | nil => exact absurd (Or.inl hr) hal
            | cons d r' =>
              cases hss : startsSlash (d :: r') with
              | false => simp
              | true => rw [hr] at hal; exact absurd (Or.inr hss) hal
          simp [hne, this]



/-! ### the general partial theorem -/

/-- the registered table with the base written as plain atoms, per top-level definition -/
def tab (d : Defs) : List (List (List FSeg)) := d.tops.map fun t => prefixAll (normBase d.base) t.gen

def firstDefT : List (List (List FSeg)) → Nat → Path → Option (Nat × Params)
  | [], _, _ => none
  | fs :: rest, i, path =>
    match firstG fs path with
    | some ps => some (i, ps)
    | none => firstDefT rest (i + 1) path

def mres : Out NMatch → Out (Option Nat × Params)
  | .some m => .some (m.chain.head?.map (·.1), m.params)
  | .none => .none
  | .panic => .panic

theorem firstDefT_tab (b : Option Path) (hb : baseOk b = true) (path : Path) (hp : startsSlash path = true) :
    ∀ (tops : List Route) (i : Nat),
      firstDefT (tops.map fun t => prefixAll (normBase b) t.gen) i path =
        match stripBase .aligned b path with
        | none => none
        | some p => firstDef tops i p := by
  intro tops
  induction tops with
  | nil => intro i; simp only [List.map_nil, firstDefT, firstDef]; cases stripBase .aligned b path <;> rfl
  | cons c cs ih =>
    intro i
    simp only [List.map_cons, firstDefT, firstDef, firstG_prefix, stripBase_aligned b hb path hp, ih]
    cases stripBase .aligned b path with
    | none => simp
    | some p =>
      simp only [Option.map_some]
      cases firstG c.gen p <;> simp

/-- the aligned router on an optional-free, well-formed table: the first definition one of whose
registered routes accepts the path, with that route's params; never a panic -/
theorem route_aligned (d : Defs) (hw : d.wf = true) (hn : noOptionalList d.tops = true) (path : Path)
    (hp : startsSlash path = true) :
    mres (matchRoute .aligned d path) =
      match firstDefT (tab d) 0 path with
      | some (i, ps) => .some (some i, ps)
      | none => .none := by
  simp only [Defs.wf, Bool.and_eq_true, Bool.not_eq_true'] at hw
  obtain ⟨⟨hb, hwl⟩, _⟩ := hw
  have hg := goodList_of_wf d.tops hwl hn
  unfold tab matchRoute
  rw [firstDefT_tab d.base hb path hp]
  cases stripBase .aligned d.base path with
  | none => simp [mres]
  | some p =>
    have hc := children_aligned d.tops hg 0 p
    simp only
    cases hm : matchChildren .aligned d.tops 0 p with
    | panic => rw [hm] at hc; cases hf : firstDef d.tops 0 p <;> simp [hf, nres] at hc
    | none =>
      rw [hm] at hc
      cases hf : firstDef d.tops 0 p with
      | some x => simp [hf, nres] at hc
      | none => simp [mres]
    | some m rem =>
      rw [hm] at hc
      have hcomp := children_rem_complete .aligned d.tops 0 p m rem hm
      cases hf : firstDef d.tops 0 p with
      | none => simp [hf, nres] at hc
      | some x =>
        obtain ⟨j, ps⟩ := x
        simp [hf, nres] at hc
        simp [hcomp, mres, hc]

theorem firstOpt_wfa (F : List FSeg) (h : ∀ f ∈ F, WfA f) : firstOpt F = none := by
  induction F with
  | nil => rfl
  | cons f F ih =>
    have hf := h f (by simp)
    have := ih (fun x hx => h x (by simp [hx]))
    cases f <;> simp [WfA] at hf <;> simp [firstOpt, this]

theorem withBase_noOpt (b : Option Path) (F : List FSeg) (h : firstOpt F = none) : firstOpt (withBase b F) = none := by
  cases b <;> simp [withBase, firstOpt, h]

theorem flatMap_expand (Fs : List (List FSeg)) (h : ∀ F ∈ Fs, firstOpt F = none) :
    Fs.flatMap expandOptionals = Fs := by
  induction Fs with
  | nil => rfl
  | cons F Fs ih =>
    have h1 := (firstOpt_none (h F (by simp))).2
    simp [List.flatMap_cons, expandOptionals_eq_spec, h1, ih (fun G hG => h G (by simp [hG]))]

theorem anyStrict_base (b : Option Path) (hb : baseOk b = true) (Fs : List (List FSeg)) (path : Path) :
    anyStrict (Fs.map (withBase b)) path = anyStrict (prefixAll (normBase b) Fs) path := by
  induction Fs with
  | nil => rfl
  | cons F Fs ih =>
    simp only [anyStrict, List.map_cons, List.any_cons, prefixAll] at ih ⊢
    rw [flatStrict_base b hb F path, ih]

theorem lenientParams_base (b : Option Path) (hb : baseOk b = true) (Fs : List (List FSeg)) (path : Path) :
    lenientParams (Fs.map (withBase b)) path = lenientParams (prefixAll (normBase b) Fs) path := by
  induction Fs with
  | nil => rfl
  | cons F Fs ih =>
    simp only [lenientParams, List.map_cons, List.flatMap_cons, prefixAll] at ih ⊢
    rw [flatStrict_base b hb F path, flatTrim_base b hb F path, ih]

theorem anyStrict_imp_firstG (Gs : List (List FSeg)) (hok : ∀ G ∈ Gs, FlatOk G) (path : Path)
    (h : anyStrict Gs path = true) : ∃ q, firstG Gs path = some q := by
  induction Gs with
  | nil => simp [anyStrict] at h
  | cons G Gs ih =>
    simp only [firstG]
    cases hg : gmatch G path with
    | some q => exact ⟨q, rfl⟩
    | none =>
      simp only [anyStrict, List.any_cons, Bool.or_eq_true] at h
      rcases h with h | h
      · cases hs : flatMatchStrict G path with
        | none => simp [hs] at h
        | some q =>
          have := strict_imp_gmatch G (hok G (by simp)).1 (hok G (by simp)).2 path q hs
          rw [hg] at this; simp at this
      · exact ih (fun x hx => hok x (by simp [hx])) h

theorem firstG_imp_lenient (Gs : List (List FSeg)) (hok : ∀ G ∈ Gs, FlatOk G) (t : Path) (q : Params)
    (h : firstG Gs ('/' :: t) = some q) : q ∈ lenientParams Gs ('/' :: t) := by
  induction Gs with
  | nil => simp [firstG] at h
  | cons G Gs ih =>
    simp only [firstG] at h
    simp only [lenientParams, List.flatMap_cons, List.mem_append]
    cases hg : gmatch G ('/' :: t) with
    | some q' =>
      rw [hg] at h; simp at h; subst h
      left
      rcases gmatch_imp_lenient G (hok G (by simp)).1 (hok G (by simp)).2 t q' hg with h1 | h1
      · simp [h1]
      · simp [h1]
    | none =>
      rw [hg] at h
      right
      exact ih (fun x hx => hok x (by simp [hx])) h

theorem mem_genList (cs : List Route) (t : Route) (F : List FSeg) (ht : t ∈ cs) (hF : F ∈ t.gen) :
    F ∈ genList cs := by
  induction cs with
  | nil => simp at ht
  | cons c cs ih =>
    simp only [genList, List.mem_append]
    simp only [List.mem_cons] at ht
    rcases ht with rfl | ht
    · left; exact hF
    · right; exact ih ht

theorem tab_ok (d : Defs) (hw : d.wf = true) (hn : noOptionalList d.tops = true) :
    ∀ Gs ∈ tab d, ∀ G ∈ Gs, FlatOk G := by
  simp only [Defs.wf, Bool.and_eq_true, Bool.not_eq_true'] at hw
  obtain ⟨⟨hb, hwl⟩, _⟩ := hw
  intro Gs hGs G hG
  simp only [tab, List.mem_map] at hGs
  obtain ⟨t, ht, rfl⟩ := hGs
  obtain ⟨F, hF, rfl⟩ := mem_prefixAll _ _ _ hG
  have hFok : FlatOk F := by
    have : F ∈ genList d.tops := mem_genList d.tops t F ht hF
    exact flatsList_ok d.tops hwl hn F this
  refine ⟨?_, splatLast_append _ _ (normBase_noSplat d.base) hFok.2⟩
  intro f hf
  simp only [List.mem_append] at hf
  rcases hf with hf | hf
  · exact normBase_ok d.base hb f hf
  · exact hFok.1 f hf



theorem firstStrict_ge : ∀ (T : List (List (List FSeg))) (path : Path) (i j : Nat),
    firstStrict T path i = some j → i ≤ j := by
  intro T
  induction T with
  | nil => intro path i j h; simp [firstStrict] at h
  | cons d ds ih =>
    intro path i j h
    simp only [firstStrict] at h
    split at h
    · simp at h; omega
    · have := ih path (i + 1) j h; omega

theorem expandedPerDef_eq (d : Defs) (hw : d.wf = true) (hn : noOptionalList d.tops = true) :
    expandedPerDef d = d.tops.map fun t => t.gen.map (withBase d.base) := by
  simp only [Defs.wf, Bool.and_eq_true, Bool.not_eq_true'] at hw
  obtain ⟨⟨hb, hwl⟩, _⟩ := hw
  unfold expandedPerDef
  apply List.map_congr_left
  intro t ht
  apply flatMap_expand
  intro F hF
  simp only [List.mem_map] at hF
  obtain ⟨F0, hF0, rfl⟩ := hF
  have hok := flatsList_ok d.tops hwl hn F0 (mem_genList d.tops t F0 ht hF0)
  exact withBase_noOpt _ _ (firstOpt_wfa F0 hok.1)

/-- declaration order at the level of the table: what `firstDefT` finds is a registered route of
definition `i` that accepts the path with these params, and no earlier definition has a strict match -/
theorem table_first (b : Option Path) (hb : baseOk b = true) (t' : Path) :
    ∀ (tops : List Route) (i0 i : Nat) (ps : Params),
      (∀ t ∈ tops, ∀ X ∈ prefixAll (normBase b) t.gen, FlatOk X) →
      firstDefT (tops.map fun t => prefixAll (normBase b) t.gen) i0 ('/' :: t') = some (i, ps) →
      i0 ≤ i ∧
      (∃ t : Route, (tops.map fun t => t.gen.map (withBase b))[i - i0]? = some (t.gen.map (withBase b)) ∧
        ps ∈ lenientParams (t.gen.map (withBase b)) ('/' :: t')) ∧
      (∀ j, firstStrict (tops.map fun t => t.gen.map (withBase b)) ('/' :: t') i0 = some j → ¬ j < i) := by
  intro tops
  induction tops with
  | nil => intro i0 i ps _ h; simp [firstDefT] at h
  | cons c cs ih =>
    intro i0 i ps hok h
    simp only [List.map_cons, firstDefT] at h
    cases hg : firstG (prefixAll (normBase b) c.gen) ('/' :: t') with
    | some q =>
      rw [hg] at h; simp at h
      obtain ⟨rfl, rfl⟩ := h
      refine ⟨Nat.le_refl _, ⟨c, by simp, ?_⟩, ?_⟩
      · rw [lenientParams_base b hb]
        exact firstG_imp_lenient _ (hok c (by simp)) t' q hg
      · intro j hj
        have := firstStrict_ge _ _ _ _ hj
        omega
    | none =>
      rw [hg] at h; simp only at h
      obtain ⟨h1, ⟨t, h2, h3⟩, h4⟩ := ih (i0 + 1) i ps (fun t ht => hok t (by simp [ht])) h
      refine ⟨by omega, ⟨t, ?_, h3⟩, ?_⟩
      · have : i - i0 = (i - (i0 + 1)) + 1 := by omega
        rw [this]
        simpa using h2
      · intro j hj
        simp only [List.map_cons, firstStrict] at hj
        have hns : anyStrict (c.gen.map (withBase b)) ('/' :: t') = false := by
          rw [anyStrict_base b hb]
          cases hs : anyStrict (prefixAll (normBase b) c.gen) ('/' :: t') with
          | false => rfl
          | true =>
            obtain ⟨q, hq⟩ := anyStrict_imp_firstG _ (hok c (by simp)) _ hs
            rw [hg] at hq; simp at hq
        rw [hns] at hj
        simp only [Bool.false_eq_true, if_false] at hj
        exact h4 j hj

theorem table_none (b : Option Path) (hb : baseOk b = true) (path : Path) :
    ∀ (tops : List Route) (i0 : Nat),
      (∀ t ∈ tops, ∀ X ∈ prefixAll (normBase b) t.gen, FlatOk X) →
      firstDefT (tops.map fun t => prefixAll (normBase b) t.gen) i0 path = none →
      firstStrict (tops.map fun t => t.gen.map (withBase b)) path i0 = none := by
  intro tops
  induction tops with
  | nil => intro i0 _ _; rfl
  | cons c cs ih =>
    intro i0 hok h
    simp only [List.map_cons, firstDefT] at h
    cases hg : firstG (prefixAll (normBase b) c.gen) path with
    | some q => rw [hg] at h; simp at h
    | none =>
      rw [hg] at h; simp only at h
      have hns : anyStrict (c.gen.map (withBase b)) path = false := by
        rw [anyStrict_base b hb]
        cases hs : anyStrict (prefixAll (normBase b) c.gen) path with
        | false => rfl
        | true =>
          obtain ⟨q, hq⟩ := anyStrict_imp_firstG _ (hok c (by simp)) _ hs
          rw [hg] at hq; simp at hq
      simp only [List.map_cons, firstStrict, hns, Bool.false_eq_true, if_false]
      exact ih (i0 + 1) (fun t ht => hok t (by simp [ht])) h

/-- the oracle accepts the aligned router on every well-formed, optional-free table -/
theorem judge_aligned (d : Defs) (hw : d.wf = true) (hn : noOptionalList d.tops = true) (path : Path)
    (hp : startsSlash path = true) : judge d path (matchRoute .aligned d path) = none := by
  have hr := route_aligned d hw hn path hp
  have hb : baseOk d.base = true := by
    simp only [Defs.wf, Bool.and_eq_true] at hw; exact hw.1.1
  have hok : ∀ t ∈ d.tops, ∀ X ∈ prefixAll (normBase d.base) t.gen, FlatOk X := by
    intro t ht X hX
    exact tab_ok d hw hn _ (by simp only [tab, List.mem_map]; exact ⟨t, ht, rfl⟩) X hX
  cases path with
  | nil => simp [startsSlash] at hp
  | cons c t' =>
    have hc : c = '/' := by simpa [startsSlash] using hp
    subst hc
    unfold judge
    rw [expandedPerDef_eq d hw hn]
    cases hfd : firstDefT (tab d) 0 ('/' :: t') with
    | none =>
      rw [hfd] at hr
      have hfs := table_none d.base hb ('/' :: t') d.tops 0 hok hfd
      cases hm : matchRoute .aligned d ('/' :: t') with
      | panic => rw [hm] at hr; simp [mres] at hr
      | some m => rw [hm] at hr; simp [mres] at hr
      | none => simp [hfs]
    | some x =>
      obtain ⟨i, ps⟩ := x
      rw [hfd] at hr
      obtain ⟨_, ⟨t, ht1, ht2⟩, hfirst⟩ := table_first d.base hb t' d.tops 0 i ps hok hfd
      cases hm : matchRoute .aligned d ('/' :: t') with
      | panic => rw [hm] at hr; simp [mres] at hr
      | none => rw [hm] at hr; simp [mres] at hr
      | some m =>
        rw [hm] at hr
        simp only [mres, Out.some.injEq, Prod.mk.injEq] at hr
        obtain ⟨hhead, hparams⟩ := hr
        cases hch : m.chain with
        | nil => rw [hch] at hhead; simp at hhead
        | cons e rest =>
          obtain ⟨i', x⟩ := e
          rw [hch] at hhead
          simp at hhead
          subst hhead
          simp only [Nat.sub_zero] at ht1
          have ht1' : Option.map (fun t : Route => t.gen.map (withBase d.base)) d.tops[i']? =
              some (t.gen.map (withBase d.base)) := by simpa [List.getElem?_map] using ht1
          have hne' : lenientParams (t.gen.map (withBase d.base)) ('/' :: t') ≠ [] := by
            intro hl; rw [hl] at ht2; simp at ht2
          have hmem : m.params ∈ lenientParams (t.gen.map (withBase d.base)) ('/' :: t') := by
            rw [hparams]; exact ht2
          cases hsf : firstStrict (d.tops.map fun t => t.gen.map (withBase d.base)) ('/' :: t') 0 with
          | none => simp [hch, ht1', hne', hmem, hsf]
          | some j =>
            have := hfirst j hsf
            simp [hch, ht1', hne', hmem, hsf, this]





/-! ### first match wins -/

mutual
theorem nested_head_pos (k : Ver) : ∀ (r : Route) (pos : Nat) (path : Path) (m : NMatch) (rem : Path),
    matchNested k r pos path = .some m rem → m.chain.head?.map (·.1) = some pos
  | .mk segs children, pos, path, m, rem, h => by
    have hfin : ∀ (a : Path) (b : Params) (c : Option NMatch) (e : Path),
        finish pos a b c e = .some m rem → m.chain.head?.map (·.1) = some pos := by
      intro a b c e hf
      unfold finish at hf
      split at hf
      · cases c <;> simp at hf <;> (obtain ⟨rfl, _⟩ := hf; rfl)
      · simp at hf
    simp only [matchNested] at h
    cases hs : segs.test k path with
    | panic => rw [hs] at h; simp at h
    | none => rw [hs] at h; simp at h
    | some pm =>
      rw [hs] at h; simp only at h
      split at h
      · exact hfin _ _ _ _ h
      · cases hc : matchChildren k children 0 pm.remaining with
        | panic => rw [hc] at h; simp at h
        | some inner rem' => rw [hc] at h; exact hfin _ _ _ _ h
        | none =>
          rw [hc] at h; simp only at h
          split at h
          · cases hc2 : matchChildren k children 0 path with
            | panic => rw [hc2] at h; simp at h
            | none => rw [hc2] at h; simp at h
            | some inner rem' =>
              rw [hc2] at h; simp only at h
              cases hs2 : segs.test k (if k.fixed = true then [] else trimEnd (innerMatched inner ++ rem') path) with
              | some np => rw [hs2] at h; exact hfin _ _ _ _ h
              | none => rw [hs2] at h; simp only at h; split at h <;> simp at h
              | panic => rw [hs2] at h; simp at h
          · simp at h
end

/-- **the first matching definition in declaration order wins** (sibling lists, every version of the
code): what `matchChildren` returns is the result of the first sibling that matches, all earlier
siblings do not match, and the reported position is that sibling's. -/
theorem C14_first_match_wins (k : Ver) : ∀ (cs : List Route) (i : Nat) (path : Path) (m : NMatch) (rem : Path),
    matchChildren k cs i path = .some m rem →
    ∃ j c, cs[j]? = some c ∧ matchNested k c (i + j) path = .some m rem ∧
      m.chain.head?.map (·.1) = some (i + j) ∧
      ∀ j' c', j' < j → cs[j']? = some c' → matchNested k c' (i + j') path = .none := by
  intro cs
  induction cs with
  | nil => intro i path m rem h; simp [matchChildren] at h
  | cons c cs ih =>
    intro i path m rem h
    simp only [matchChildren] at h
    cases hc : matchNested k c i path with
    | panic => rw [hc] at h; simp at h
    | some m' rem' =>
      rw [hc] at h; simp at h; obtain ⟨rfl, rfl⟩ := h
      exact ⟨0, c, rfl, by simpa using hc, by simpa using nested_head_pos k c i path _ _ hc,
        fun j' c' hj => absurd hj (Nat.not_lt_zero _)⟩
    | none =>
      rw [hc] at h; simp only at h
      obtain ⟨j, c2, h1, h2, h3, h4⟩ := ih (i + 1) path m rem h
      refine ⟨j + 1, c2, by simpa using h1, ?_, ?_, ?_⟩
      · have : i + (j + 1) = i + 1 + j := by omega
        rw [this]; exact h2
      · have : i + (j + 1) = i + 1 + j := by omega
        rw [this]; exact h3
      · intro j' c' hj hc'
        cases j' with
        | zero => simp at hc'; subst hc'; simpa using hc
        | succ j'' =>
          have : i + (j'' + 1) = i + 1 + j'' := by omega
          rw [this]
          exact h4 j'' c' (by omega) (by simpa using hc')


/-- **match ⇔ flat, general partial theorem** (was OPEN): for every well-formed route table without
optional params — nested routes, sibling lists, arbitrarily nested tuples, static / param /
wildcard-last segments, `""` and `"/"` segments, with or without base — and every request path on which
the router behaves like its segment-aligned variant (`SegmentAligned`; after fix-c14-1..3 this only
fails below a `"/"` segment, F-C14-2), the property's oracle accepts what the router does: a registered
flat route accepts the path ⇒ the router matches; the router matches ⇒ a registered route of the
winning definition accepts the path (one trailing `/` tolerated) with the same params and no earlier
definition has a registered route that accepts it; no panic. -/
theorem C14_match_iff_flat_partial_general (d : Defs) (path : Path) (hw : d.wf = true)
    (hp : startsSlash path = true) (hn : noOptionalList d.tops = true) (hal : SegmentAligned d path) :
    Holds d path := by
  unfold Holds
  rw [hal]
  exact judge_aligned d hw hn path hp

/-- the same without `SegmentAligned`, for the aligned variant itself: it satisfies the full statement
on optional-free tables (so every remaining divergence of the real router on such tables is a
divergence from its aligned variant) -/
theorem C14_aligned_variant_holds (d : Defs) (path : Path) (hw : d.wf = true)
    (hp : startsSlash path = true) (hn : noOptionalList d.tops = true) :
    judge d path (matchRoute .aligned d path) = none := judge_aligned d hw hn path hp



/-! # build then match, for nested routes -/

theorem splatTest_slash' (fx : Bool) (n t : Path) : splatTest fx n ('/' :: t) = .some ⟨'/' :: t, [], [(n, t)]⟩ := by
  have h1 : splitBytes ('/' :: t) (1 + bytes t) = some ('/' :: t, []) := by
    have := splitBytes_bytes ('/' :: t) []
    simpa [bytes, slash_size] using this
  have h2 : sliceBytes ('/' :: t) 1 (bytes t + 1) = some t := by
    unfold sliceBytes
    have h3 : splitBytes ('/' :: t) 1 = some (['/'], t) := by
      have := splitBytes_bytes ['/'] t
      simpa [bytes, slash_size] using this
    have h4 : splitBytes t (bytes t) = some (t, []) := by
      have := splitBytes_bytes t []
      simpa using this
    simp [h3, h4]
  unfold splatTest
  simp [splatScan, h1, h2]

theorem startOk_of_aligned (k : Ver) (p : Path) (h : Aligned p) : startOk k p = true := by
  rcases h with h | h
  · simp [startOk, h]
  · simp [startOk, h]

/-- a path built from well-formed atoms starts at a segment boundary -/
theorem build_aligned : ∀ (F : List FSeg) (vals : List Path) (p : Path), (∀ f ∈ F, WfA f) →
    (∀ v ∈ vals, GoodVal v) → buildPath F vals = some p → Aligned p := by
  intro F
  induction F with
  | nil => intro vals p _ _ h; simp [buildPath] at h; exact Or.inl h
  | cons f F ih =>
    intro vals p hw hv h
    have hf := hw f (by simp)
    have hw' : ∀ g ∈ F, WfA g := fun x hx => hw x (by simp [hx])
    cases f with
    | st s =>
      simp only [buildPath] at h
      cases hb : buildPath F vals with
      | none => simp [hb] at h
      | some p' =>
        rcases hf with hp | rfl | rfl
        · obtain ⟨_, he, _⟩ := plain_facts hp
          simp [hb, plain_not_startsSlash hp.2, he] at h
          subst h; right; simp [startsSlash]
        · simp [hb] at h; subst h; exact ih vals p' hw' hv hb
        · simp [hb, startsSlash] at h; subst h; right; simp [startsSlash]
    | param n =>
      cases vals with
      | nil => simp [buildPath] at h
      | cons v vals =>
        obtain ⟨_, hvs⟩ := hv v (by simp)
        simp only [buildPath] at h
        cases hb : buildPath F vals with
        | none => simp [hb] at h
        | some p' =>
          simp [hb, plain_not_startsSlash hvs] at h
          subst h; right; simp [startsSlash]
    | splat n =>
      cases vals with
      | nil => simp [buildPath] at h
      | cons v vals =>
        obtain ⟨_, hvs⟩ := hv v (by simp)
        simp only [buildPath] at h
        cases hb : buildPath F vals with
        | none => simp [hb] at h
        | some p' =>
          simp [hb, plain_not_startsSlash hvs] at h
          subst h; right; simp [startsSlash]
    | opt n => simp [WfA] at hf

/-- the atoms of a flat route, run over the path built from them (followed by anything that starts a
new segment), consume exactly the built part and yield the values — in every version of the code -/
theorem seq_build (k : Ver) : ∀ (F : List FSeg) (vals : List Path) (p rest : Path), (∀ f ∈ F, WfA f) →
    (∀ v ∈ vals, GoodVal v) → buildPath F vals = some p → vals.length = (paramNames F).length →
    Aligned rest → (noSplat F = true ∨ (splatLast F = true ∧ rest = [])) →
    seqTest k F (p ++ rest) = .some ⟨p, rest, (paramNames F).zip vals⟩ := by
  intro F
  induction F with
  | nil =>
    intro vals p rest _ _ h hl _ _
    simp [buildPath] at h; subst h
    simp [seqTest, paramNames]
  | cons f F ih =>
    intro vals p rest hw hv h hl hr hs
    have hf := hw f (by simp)
    have hw' : ∀ g ∈ F, WfA g := fun x hx => hw x (by simp [hx])
    have hs' : noSplat F = true ∨ (splatLast F = true ∧ rest = []) := by
      rcases hs with hs | ⟨hs, hr0⟩
      · left; cases f <;> simp [noSplat] at hs ⊢ <;> exact hs
      · right
        refine ⟨?_, hr0⟩
        cases F with
        | nil => rfl
        | cons g G => cases f <;> simp [splatLast] at hs ⊢ <;> exact hs
    cases f with
    | opt n => simp [WfA] at hf
    | st s =>
      simp only [buildPath] at h
      cases hb : buildPath F vals with
      | none => simp [hb] at h
      | some p' =>
        have hal : Aligned (p' ++ rest) := by
          have := build_aligned F vals p' hw' hv hb
          rcases this with h0 | h0
          · subst h0; simpa using hr
          · right; cases p' with
            | nil => simp [startsSlash] at h0
            | cons c t => simpa [startsSlash] using h0
        have ih' := ih vals p' rest hw' hv hb (by simpa [paramNames] using hl) hr hs'
        rcases hf with hp | rfl | rfl
        · obtain ⟨_, he, _⟩ := plain_facts hp
          simp [hb, plain_not_startsSlash hp.2, he] at h
          subst h
          have hst := staticTest_slash k.fixed s (p' ++ rest) hp
          simp only [hal, not_true_eq_false, and_false, if_false, List.cons_append] at hst
          simp only [seqTest, toSeg, Seg.test, List.cons_append, List.append_assoc, startOk, startsSlash,
            decide_true, Bool.or_true, if_true, hst, ih']
          simp [paramNames]
        · simp [hb] at h; subst h
          simp only [seqTest, toSeg, Seg.test, startOk_of_aligned k _ hal, if_true,
            staticTest_empty _ _ hal, ih']
          simp [paramNames]
        · simp [hb, startsSlash] at h; subst h
          simp only [seqTest, toSeg, Seg.test, List.cons_append, List.nil_append, startOk, startsSlash,
            decide_true, Bool.or_true, if_true, staticTest_slashseg, ih']
          simp [paramNames]
    | param n =>
      cases vals with
      | nil => simp [buildPath] at h
      | cons v vals =>
        obtain ⟨hvne, hvs⟩ := hv v (by simp)
        have hv' : ∀ x ∈ vals, GoodVal x := fun x hx => hv x (by simp [hx])
        simp only [buildPath] at h
        cases hb : buildPath F vals with
        | none => simp [hb] at h
        | some p' =>
          simp [hb, plain_not_startsSlash hvs] at h
          subst h
          have hal : Aligned (p' ++ rest) := by
            have := build_aligned F vals p' hw' hv' hb
            rcases this with h0 | h0
            · subst h0; simpa using hr
            · right; cases p' with
              | nil => simp [startsSlash] at h0
              | cons c t => simpa [startsSlash] using h0
          obtain ⟨h1, h2⟩ := segHead_append v (p' ++ rest) hvs hal
          have hpt := paramTest_slash k.fixed n (v ++ (p' ++ rest))
          simp only [h1, h2, hvne, if_false] at hpt
          have ih' := ih vals p' rest hw' hv' hb (by simpa [paramNames] using hl) hr hs'
          simp only [seqTest, toSeg, Seg.test, List.cons_append, List.append_assoc, startOk, startsSlash,
            decide_true, Bool.or_true, if_true, hpt, ih']
          simp [paramNames]
    | splat n =>
      rcases hs with hs | ⟨hs, hr0⟩
      · simp [noSplat] at hs
      · have hF : F = [] := by
          cases F with
          | nil => rfl
          | cons g G => simp [splatLast] at hs
        subst hF; subst hr0
        cases vals with
        | nil => simp [buildPath] at h
        | cons v vals =>
          obtain ⟨hvne, hvs⟩ := hv v (by simp)
          have hvl : vals = [] := by
            simp [paramNames] at hl
            cases vals <;> simp at hl ⊢
          subst hvl
          simp [buildPath, plain_not_startsSlash hvs] at h
          subst h
          simp [seqTest, toSeg, Seg.test, startOk, startsSlash, splatTest_slash', paramNames]



theorem paramNames_append (A B : List FSeg) : paramNames (A ++ B) = paramNames A ++ paramNames B := by
  induction A with
  | nil => rfl
  | cons f A ih => cases f <;> simp [paramNames, ih]

/-- a path built from `A ++ B` is the path built from `A` followed by the path built from `B`, each
from its share of the values -/
theorem build_append : ∀ (A B : List FSeg) (vals : List Path) (p : Path), (∀ f ∈ A, WfA f) →
    buildPath (A ++ B) vals = some p → (paramNames A).length ≤ vals.length →
    ∃ pa pb, buildPath A (vals.take (paramNames A).length) = some pa ∧
      buildPath B (vals.drop (paramNames A).length) = some pb ∧ p = pa ++ pb := by
  intro A
  induction A with
  | nil => intro B vals p _ h _; exact ⟨[], p, by simp [buildPath], by simpa [paramNames] using h, rfl⟩
  | cons f A ih =>
    intro B vals p hw h hl
    have hf := hw f (by simp)
    have hw' : ∀ g ∈ A, WfA g := fun x hx => hw x (by simp [hx])
    cases f with
    | opt n => simp [WfA] at hf
    | st s =>
      simp only [List.cons_append, buildPath] at h
      cases hb : buildPath (A ++ B) vals with
      | none => simp [hb] at h
      | some p' =>
        simp [hb] at h
        obtain ⟨pa, pb, h1, h2, h3⟩ := ih B vals p' hw' hb (by simpa [paramNames] using hl)
        refine ⟨(if startsSlash s || s.isEmpty then s else '/' :: s) ++ pa, pb, ?_, by simpa [paramNames] using h2, ?_⟩
        · simp [buildPath, paramNames, h1]
        · rw [← h, h3]; simp
    | param n =>
      cases vals with
      | nil => simp [paramNames] at hl
      | cons v vals =>
        simp only [List.cons_append, buildPath] at h
        cases hb : buildPath (A ++ B) vals with
        | none => simp [hb] at h
        | some p' =>
          simp [hb] at h
          obtain ⟨pa, pb, h1, h2, h3⟩ := ih B vals p' hw' hb (by simpa [paramNames] using hl)
          refine ⟨(if startsSlash v then v else '/' :: v) ++ pa, pb, ?_, by simpa [paramNames] using h2, ?_⟩
          · simp [buildPath, paramNames, h1]
          · rw [← h, h3]; simp
    | splat n =>
      cases vals with
      | nil => simp [paramNames] at hl
      | cons v vals =>
        simp only [List.cons_append, buildPath] at h
        cases hb : buildPath (A ++ B) vals with
        | none => simp [hb] at h
        | some p' =>
          simp [hb] at h
          obtain ⟨pa, pb, h1, h2, h3⟩ := ih B vals p' hw' hb (by simpa [paramNames] using hl)
          refine ⟨(if startsSlash v then v else '/' :: v) ++ pa, pb, ?_, by simpa [paramNames] using h2, ?_⟩
          · simp [buildPath, paramNames, h1]
          · rw [← h, h3]; simp

mutual
/-- at most one child at every level -/
def Route.linear : Route → Bool
  | .mk _ children => decide (children.length ≤ 1) && linearList children
def linearList : List Route → Bool
  | [] => true
  | c :: cs => c.linear && linearList cs
end

/-- **build then match, nested** (the inductive core): for a nested route without siblings and without
optional params, of any depth, the path built from its flat route and parameter values is matched,
consumed completely level by level, and yields exactly those values — in every version of the code. -/
theorem build_nested (k : Ver) : ∀ (r : Route), r.wf = true → r.noOptional = true → r.linear = true →
    ∀ (F : List FSeg) (vals : List Path) (p : Path) (pos : Nat), r.gen = [F] → (∀ v ∈ vals, GoodVal v) →
      buildPath F vals = some p → vals.length = (paramNames F).length →
      ∃ m, matchNested k r pos p = .some m [] ∧ m.params = (paramNames F).zip vals ∧ chainCat m = p
  | .mk segs [], hw, hn, _, F, vals, p, pos, hg, hv, hb, hl => by
    simp only [Route.wf, Bool.and_eq_true, List.all_eq_true, decide_eq_true_eq] at hw
    simp only [Route.noOptional, Bool.and_eq_true, Bool.not_eq_true'] at hn
    have hat : ∀ f ∈ segs.gen, WfA f := fun f hf => wfa_of_wfao (hw.1.1 f hf) (gen_noOpt segs hn.1 f hf)
    simp [Route.gen] at hg
    subst hg
    have hsb := seq_build k segs.gen vals p [] hat hv hb hl (Or.inl rfl) (Or.inr ⟨by simpa using hw.1.2, rfl⟩)
    simp only [List.append_nil] at hsb
    refine ⟨⟨[(pos, p)], (paramNames segs.gen).zip vals⟩, ?_, rfl, by simp [chainCat]⟩
    simp [matchNested, flatten_test k segs p hn.1, hsb, finish, complete]
  | .mk segs [c], hw, hn, hlin, F, vals, p, pos, hg, hv, hb, hl => by
    simp only [Route.wf, Bool.and_eq_true, List.all_eq_true, decide_eq_true_eq, wfList] at hw
    simp only [Route.noOptional, Bool.and_eq_true, Bool.not_eq_true', noOptionalList] at hn
    simp only [Route.linear, linearList, Bool.and_eq_true] at hlin
    have hat : ∀ f ∈ segs.gen, WfA f := fun f hf => wfa_of_wfao (hw.1.1 f hf) (gen_noOpt segs hn.1 f hf)
    -- the child has exactly one flat route
    simp only [Route.gen, List.isEmpty_cons, Bool.false_eq_true, if_false, genList, List.append_nil] at hg
    cases hcg : c.gen with
    | nil => rw [hcg] at hg; simp [prefixAll] at hg
    | cons G rest =>
      rw [hcg] at hg
      cases rest with
      | cons G2 r2 => simp [prefixAll] at hg
      | nil =>
        simp [prefixAll] at hg
        subst hg
        have hl' : (paramNames segs.gen).length ≤ vals.length := by
          rw [hl, paramNames_append]; simp
        obtain ⟨pa, pb, h1, h2, h3⟩ := build_append segs.gen G vals p hat hb hl'
        subst h3
        have hGok := flats_ok c hw.2.1 hn.2.1 G (by simp [hcg])
        have hv1 : ∀ v ∈ vals.take (paramNames segs.gen).length, GoodVal v :=
          fun v hv' => hv v (List.mem_of_mem_take hv')
        have hv2 : ∀ v ∈ vals.drop (paramNames segs.gen).length, GoodVal v :=
          fun v hv' => hv v (List.mem_of_mem_drop hv')
        have hpb := build_aligned G _ pb hGok.1 hv2 h2
        have hsb := seq_build k segs.gen _ pa pb hat hv1 h1 (by simp [List.length_take]; omega) hpb
          (Or.inl (by simpa using hw.1.2))
        obtain ⟨m', hm1, hm2, hm3⟩ := build_nested k c hw.2.1 hn.2.1 hlin.2.1 G _ pb 0 hcg hv2 h2
          (by rw [paramNames_append] at hl; simp [List.length_drop, hl])
        refine ⟨⟨(pos, pa) :: m'.chain, (paramNames segs.gen).zip (vals.take (paramNames segs.gen).length) ++ m'.params⟩,
          ?_, ?_, ?_⟩
        · simp [matchNested, flatten_test k segs _ hn.1, hsb, matchChildren, hm1, finish, complete]
        · rw [hm2, paramNames_append]
          have : vals = vals.take (paramNames segs.gen).length ++ vals.drop (paramNames segs.gen).length := by simp
          conv => rhs; rw [this]
          rw [List.zip_append (by simp [List.length_take]; omega)]
        · simp only [chainCat, List.map_cons, List.flatten_cons]
          simp only [chainCat] at hm3
          rw [hm3]
  | .mk segs (c1 :: c2 :: cs), _, _, hlin, _, _, _, _, _, _, _, _ => by
    simp [Route.linear] at hlin

/-- **build then match, nested routes**: a route table consisting of one nested route of any depth
(one child per level, no optional params): the path built from its registered flat route and the given
parameter values (non-empty, `/`-free) matches, and returns exactly those values. -/
theorem C14_build_then_match_nested (r : Route) (hw : r.wf = true) (hn : r.noOptional = true)
    (hlin : r.linear = true) (F : List FSeg) (vals : List Path) (p : Path) (hg : r.gen = [F])
    (hv : ∀ v ∈ vals, GoodVal v) (hb : buildPath F vals = some p) (hl : vals.length = (paramNames F).length) :
    ∃ m, matchRoute .cur ⟨none, [r]⟩ p = .some m ∧ m.params = (paramNames F).zip vals ∧ chainCat m = p := by
  obtain ⟨m, h1, h2, h3⟩ := build_nested .cur r hw hn hlin F vals p 0 hg hv hb hl
  exact ⟨m, by simp [matchRoute, stripBase, matchChildren, h1, complete], h2, h3⟩



theorem firstG_of_mem (Gs : List (List FSeg)) (G : List FSeg) (p : Path) (q : Params) (hG : G ∈ Gs)
    (h : gmatch G p = some q) : ∃ q', firstG Gs p = some q' := by
  induction Gs with
  | nil => simp at hG
  | cons X Gs ih =>
    simp only [firstG]
    cases hx : gmatch X p with
    | some q' => exact ⟨q', rfl⟩
    | none =>
      simp only [List.mem_cons] at hG
      rcases hG with rfl | hG
      · rw [h] at hx; simp at hx
      · exact ih hG

theorem firstDefT_le : ∀ (T : List (List (List FSeg))) (i0 i : Nat) (p : Path) (Gs : List (List FSeg)) (q : Params),
    T[i]? = some Gs → firstG Gs p = some q → ∃ j ps, firstDefT T i0 p = some (j, ps) ∧ j ≤ i0 + i := by
  intro T
  induction T with
  | nil => intro i0 i p Gs q h _; simp at h
  | cons X T ih =>
    intro i0 i p Gs q h hq
    simp only [firstDefT]
    cases hx : firstG X p with
    | some ps => exact ⟨i0, ps, rfl, by omega⟩
    | none =>
      cases i with
      | zero => simp at h; subst h; rw [hq] at hx; simp at hx
      | succ i' =>
        obtain ⟨j, ps, h1, h2⟩ := ih (i0 + 1) i' p Gs q (by simpa using h) hq
        exact ⟨j, ps, h1, by omega⟩

theorem mem_prefixAll_of_mem (a : List FSeg) (Xs : List (List FSeg)) (F : List FSeg) (hF : F ∈ Xs) :
    a ++ F ∈ prefixAll a Xs := by
  induction Xs with
  | nil => simp at hF
  | cons X Xs ih =>
    simp only [prefixAll, List.mem_cons] at hF ⊢
    rcases hF with rfl | hF
    · left; rfl
    · right; exact ih hF

/-- a path built from a registered flat route is accepted by that route on the router side -/
theorem gmatch_build (G : List FSeg) (vals : List Path) (p : Path) (hok : FlatOk G)
    (hv : ∀ v ∈ vals, GoodVal v) (hb : buildPath G vals = some p) (hl : vals.length = (paramNames G).length) :
    gmatch G p = some ((paramNames G).zip vals) := by
  have hsb := seq_build .aligned G vals p [] hok.1 hv hb hl (Or.inl rfl) (Or.inr ⟨hok.2, rfl⟩)
  simp only [List.append_nil] at hsb
  have := seq_aligned G hok.1 p
  rw [hsb] at this
  cases hs : seqSpec G p with
  | none => simp [hs, Out.rp, ofOpt] at this
  | some x =>
    obtain ⟨r, ps⟩ := x
    simp [hs, Out.rp, ofOpt] at this
    simp [gmatch, hs, ← this.1, ← this.2, complete]

/-- **build then match, whole tables** (siblings, nesting, base; no optional params): the path built
from the `i`-th definition's registered route `base ++ F` and parameter values is matched by the
aligned variant of the router — by definition `i` or an earlier one that also accepts it (declaration
order); with `SegmentAligned` the same holds for the router as it is. -/
theorem C14_build_then_match_table (d : Defs) (hw : d.wf = true) (hn : noOptionalList d.tops = true)
    (i : Nat) (t : Route) (F : List FSeg) (vals : List Path) (p : Path) (ht : d.tops[i]? = some t)
    (hF : F ∈ t.gen) (hv : ∀ v ∈ vals, GoodVal v) (hb : buildPath (normBase d.base ++ F) vals = some p)
    (hl : vals.length = (paramNames (normBase d.base ++ F)).length) (hp : startsSlash p = true) :
    ∃ j ps, j ≤ i ∧ mres (matchRoute .aligned d p) = .some (some j, ps) ∧
      (SegmentAligned d p → mres (matchRoute .cur d p) = .some (some j, ps)) := by
  have hmem : t ∈ d.tops := List.mem_of_getElem? ht
  have hGs : prefixAll (normBase d.base) t.gen ∈ tab d := by
    simp only [tab, List.mem_map]; exact ⟨t, hmem, rfl⟩
  have hGin : normBase d.base ++ F ∈ prefixAll (normBase d.base) t.gen := mem_prefixAll_of_mem _ _ _ hF
  have hok := tab_ok d hw hn _ hGs _ hGin
  have hgm := gmatch_build _ vals p hok hv hb hl
  obtain ⟨q', hq'⟩ := firstG_of_mem _ _ p _ hGin hgm
  have hidx : (tab d)[i]? = some (prefixAll (normBase d.base) t.gen) := by
    simp [tab, List.getElem?_map, ht]
  obtain ⟨j, ps, h1, h2⟩ := firstDefT_le (tab d) 0 i p _ q' hidx hq'
  have hr := route_aligned d hw hn p hp
  rw [h1] at hr
  exact ⟨j, ps, by omega, hr, fun hal => by rw [hal]; exact hr⟩



/-! # optional-free tables without `"/"` segments: the full statement holds (exactness of `slash-parent`) -/

/-- every atom but `"/"` hands on a remainder that starts a new segment -/
theorem atomSpec_aligned (f : FSeg) (hns : notSlash f = true) (path r : Path) (ps : Params)
    (h : atomSpec f path = some (r, ps)) : Aligned r := by
  cases path with
  | nil =>
    cases f with
    | st s => simp only [atomSpec] at h; split at h <;> simp at h; exact Or.inl (by rw [← h.1])
    | param n => simp [atomSpec] at h
    | splat n => simp [atomSpec] at h; exact Or.inl (by rw [← h.1])
    | opt n => simp [atomSpec] at h
  | cons c t =>
    cases f with
    | st s =>
      have hs : s ≠ ['/'] := by simpa [notSlash] using hns
      simp only [atomSpec] at h
      split at h
      · next hc =>
        subst hc
        split at h
        · simp at h; rw [← h.1]; right; simp [startsSlash]
        · split at h
          · simp at h; rw [← h.1]; exact segTail_aligned t
          · simp at h
      · simp at h
    | param n =>
      simp only [atomSpec] at h
      split at h
      · simp at h; rw [← h.1]; exact segTail_aligned t
      · simp at h
    | splat n =>
      simp only [atomSpec] at h
      split at h
      · simp at h; exact Or.inl (by rw [← h.1])
      · simp at h
    | opt n => simp [atomSpec] at h

/-- on a path that starts a segment, the atom tests of the code as it is and of its aligned variant coincide -/
theorem atom_cur_eq_aligned (f : FSeg) (path : Path) (hp : Aligned path) :
    (toSeg f).test .cur path = (toSeg f).test .aligned path := by
  have h1 := startOk_of_aligned .cur path hp
  have h2 := startOk_of_aligned .aligned path hp
  cases f <;> simp [toSeg, Seg.test, h1, h2, Ver.fixed]

theorem seq_cur_eq_aligned : ∀ (F : List FSeg), (∀ f ∈ F, WfA f) → (∀ f ∈ F, notSlash f = true) →
    ∀ path : Path, Aligned path → seqTest .cur F path = seqTest .aligned F path := by
  intro F
  induction F with
  | nil => intro _ _ path _; rfl
  | cons f F ih =>
    intro hw hns path hp
    have hat := atom_aligned f (hw f (by simp)) path
    simp only [seqTest, atom_cur_eq_aligned f path hp]
    cases ht : (toSeg f).test .aligned path with
    | panic => rfl
    | none => rfl
    | some m =>
      rw [ht] at hat
      cases hsp : atomSpec f path with
      | none => simp [hsp, Out.rp, ofOpt] at hat
      | some x =>
        obtain ⟨r, ps⟩ := x
        simp [hsp, Out.rp, ofOpt] at hat
        have hal : Aligned m.remaining := by
          rw [hat.1]; exact atomSpec_aligned f (hns f (by simp)) path r ps hsp
        simp only
        rw [ih (fun x hx => hw x (by simp [hx])) (fun x hx => hns x (by simp [hx])) m.remaining hal]

theorem seqTest_rem_aligned : ∀ (F : List FSeg), (∀ f ∈ F, WfA f) → (∀ f ∈ F, notSlash f = true) →
    ∀ (path : Path) (m : PM), Aligned path → seqTest .aligned F path = .some m → Aligned m.remaining := by
  intro F
  induction F with
  | nil => intro _ _ path m hp h; simp [seqTest] at h; subst h; exact hp
  | cons f F ih =>
    intro hw hns path m hp h
    have hat := atom_aligned f (hw f (by simp)) path
    simp only [seqTest] at h
    cases ht : (toSeg f).test .aligned path with
    | panic => simp [ht] at h
    | none => simp [ht] at h
    | some m1 =>
      rw [ht] at hat
      simp only [ht] at h
      cases hsp : atomSpec f path with
      | none => simp [hsp, Out.rp, ofOpt] at hat
      | some x =>
        obtain ⟨r, ps⟩ := x
        simp [hsp, Out.rp, ofOpt] at hat
        have hal : Aligned m1.remaining := by
          rw [hat.1]; exact atomSpec_aligned f (hns f (by simp)) path r ps hsp
        cases hs2 : seqTest .aligned F m1.remaining with
        | panic => simp [hs2] at h
        | none => simp [hs2] at h
        | some m2 =>
          simp [hs2] at h; subst h
          exact ih (fun x hx => hw x (by simp [hx])) (fun x hx => hns x (by simp [hx])) _ m2 hal hs2

mutual
theorem nested_cur_eq_aligned : ∀ (r : Route), r.good = true → r.noSlashSeg = true → ∀ (pos : Nat) (path : Path),
    Aligned path → matchNested .cur r pos path = matchNested .aligned r pos path
  | .mk segs children, hg, hns, pos, path, hp => by
    simp only [Route.good, Bool.and_eq_true, Bool.not_eq_true', List.all_eq_true, decide_eq_true_eq] at hg
    obtain ⟨⟨hopt, hwf⟩, hch⟩ := hg
    simp only [Route.noSlashSeg, Bool.and_eq_true, List.all_eq_true] at hns
    have hseq := seq_cur_eq_aligned segs.gen hwf hns.1 path hp
    simp only [matchNested, flatten_test .cur segs path hopt, flatten_test .aligned segs path hopt, hseq]
    cases hT : seqTest .aligned segs.gen path with
    | panic => rfl
    | none => rfl
    | some pm =>
      have hal := seqTest_rem_aligned segs.gen hwf hns.1 path pm hp hT
      simp only [children_cur_eq_aligned children hch hns.2 0 pm.remaining hal, hopt]
      rfl
theorem children_cur_eq_aligned : ∀ (cs : List Route), goodList cs = true → noSlashSegList cs = true →
    ∀ (i : Nat) (path : Path), Aligned path → matchChildren .cur cs i path = matchChildren .aligned cs i path
  | [], _, _, i, path, _ => by simp [matchChildren]
  | c :: cs, hg, hns, i, path, hp => by
    simp only [goodList, Bool.and_eq_true] at hg
    simp only [noSlashSegList, Bool.and_eq_true] at hns
    simp only [matchChildren, nested_cur_eq_aligned c hg.1 hns.1 i path hp,
      children_cur_eq_aligned cs hg.2 hns.2 (i + 1) path hp]
end

theorem dropSlashes_plain (s : Path) (h : '/' ∉ s) : dropSlashes s = s := by
  cases s with
  | nil => rfl
  | cons c s =>
    have : c ≠ '/' := by intro e; apply h; simp [e]
    simp [dropSlashes, this]

theorem stripBase_cur_eq_aligned (b : Option Path) (hb : baseOk b = true) (path : Path)
    (hp : startsSlash path = true) : stripBase .cur b path = stripBase .aligned b path := by
  cases path with
  | nil => simp [startsSlash] at hp
  | cons c t =>
    have hc : c = '/' := by simpa [startsSlash] using hp
    subst hc
    match b, hb with
    | none, _ => rfl
    | some [], _ => simp [stripBase, startsSlash, stripPrefix]
    | some (c :: s), hb =>
      simp [baseOk] at hb
      obtain ⟨rfl, hpl⟩ := hb
      have he : s.isEmpty = false := (plain_facts hpl).2.1
      simp only [stripBase, startsSlash, decide_true, if_true, dropSlashes, dropSlashes_plain s hpl.2,
        dropOneSlash, stripPrefix, he, Bool.false_or]
      cases stripPrefix s t <;> rfl

theorem stripBase_aligned_rem (b : Option Path) (path p : Path) (hp : startsSlash path = true)
    (h : stripBase .aligned b path = some p) : Aligned p := by
  cases b with
  | none => simp [stripBase] at h; subst h; exact Or.inr hp
  | some b =>
    simp only [stripBase] at h
    cases hs : stripPrefix b path with
    | none => simp [hs] at h
    | some r =>
      simp only [hs] at h
      split at h
      · next hc =>
        simp at h; subst h
        simp only [Bool.or_eq_true] at hc
        rcases hc with hc | hc
        · left; cases r <;> simp at hc ⊢
        · right; exact hc
      · simp at h

/-- **no `"/"` segment, no optional params ⇒ always aligned**: on such tables the router never tests a
segment in the middle of a path segment (after fix-c14-1..3) -/
theorem C14_aligned_without_slash_segments (d : Defs) (hw : d.wf = true) (hn : noOptionalList d.tops = true)
    (hns : noSlashSegList d.tops = true) (path : Path) (hp : startsSlash path = true) :
    SegmentAligned d path := by
  simp only [Defs.wf, Bool.and_eq_true, Bool.not_eq_true'] at hw
  obtain ⟨⟨hb, hwl⟩, _⟩ := hw
  have hg := goodList_of_wf d.tops hwl hn
  unfold SegmentAligned matchRoute
  rw [stripBase_cur_eq_aligned d.base hb path hp]
  cases hsb : stripBase .aligned d.base path with
  | none => rfl
  | some p =>
    have hal := stripBase_aligned_rem d.base path p hp hsb
    simp only [children_cur_eq_aligned d.tops hg hns 0 p hal]

/-- **match ⇔ flat, full statement on optional-free tables without `"/"` segments** — unconditional:
every well-formed table built from static / param / wildcard-last segments (nested, siblings, nested
tuples, `""` segments, base) satisfies the property on every request path.  Hence every failure on an
optional-free table needs a `"/"` segment (class `slash-parent`, F-C14-2) and is `¬SegmentAligned`. -/
theorem C14_match_iff_flat_optional_free (d : Defs) (path : Path) (hw : d.wf = true)
    (hp : startsSlash path = true) (hn : noOptionalList d.tops = true) (hns : noSlashSegList d.tops = true) :
    Holds d path :=
  C14_match_iff_flat_partial_general d path hw hp hn (C14_aligned_without_slash_segments d hw hn hns path hp)

/-- exactness of the class `slash-parent` on optional-free tables: a failure implies a `"/"` segment
in the table and a path on which the router leaves the segment grid -/
theorem C14_slash_parent_exact (d : Defs) (path : Path) (hw : d.wf = true) (hp : startsSlash path = true)
    (hn : noOptionalList d.tops = true) (hfail : ¬ Holds d path) :
    noSlashSegList d.tops = false ∧ ¬ SegmentAligned d path := by
  constructor
  · cases h : noSlashSegList d.tops with
    | false => rfl
    | true => exact absurd (C14_match_iff_flat_optional_free d path hw hp hn h) hfail
  · intro hal
    exact hfail (C14_match_iff_flat_partial_general d path hw hp hn hal)



/-! # tables with optional params, stage 1: one optional per leaf route -/

/-! ## the tuple loop with one optional field -/

def Pass.rp : Pass → Out (Path × Params)
  | .done r _ p => .some (r, p)
  | .panic => .panic
  | _ => .none

def seqRP (k : Ver) (F : List FSeg) (path : Path) : Out (Path × Params) := (seqTest k F path).rp

theorem passFields_append (k : Ver) : ∀ (l1 l2 : List Seg) (first : Bool) (inc nth : Nat) (r : Path) (ml : Nat)
    (p : Params),
    passFields k (l1 ++ l2) first inc nth r ml p =
      match passFields k l1 first inc nth r ml p with
      | .done r' ml' p' => passFields k l2 (first && l1.isEmpty) inc (nth + countOpt l1) r' ml' p'
      | x => x := by
  intro l1
  induction l1 with
  | nil => intro l2 first inc nth r ml p; simp [passFields, countOpt]
  | cons ty tys ih =>
    intro l2 first inc nth r ml p
    simp only [List.cons_append, passFields, List.isEmpty_cons, Bool.and_false, countOpt]
    by_cases ho : ty.optional = true
    · simp only [ho, if_true]
      split
      · cases ht : ty.test k r with
        | panic => rfl
        | none => simp only; cases first <;> rfl
        | some m =>
          simp only
          rw [ih]
          have : nth + 1 + countOpt tys = nth + (1 + countOpt tys) := by omega
          simp [this]
      · rw [ih]
        have : nth + 1 + countOpt tys = nth + (1 + countOpt tys) := by omega
        simp [this]
    · have ho' : ty.optional = false := by simpa using ho
      simp only [ho', Bool.false_eq_true, if_false, Bool.not_false, Bool.true_or, if_true]
      cases ht : ty.test k r with
      | panic => rfl
      | none => simp only; cases first <;> simp <;> (by_cases hi : inc = 0 <;> simp [hi])
      | some m =>
        simp only
        rw [ih]
        simp

/-- how a pass ends when a non-optional field does not match -/
def softOk (first : Bool) (inc : Nat) (x : Pass) : Prop :=
  (x = .fail ∨ x = .retry) ∧ (inc = 0 → x = .fail) ∧ (first = false → inc ≠ 0 → x = .retry)

theorem softOk_mono {first : Bool} {inc : Nat} {x : Pass} (h : softOk false inc x) : softOk first inc x :=
  ⟨h.1, h.2.1, fun _ hi => h.2.2 rfl hi⟩

/-- optional-free fields under any `include_optionals`: the flat list of their atoms in sequence -/
theorem pass_noopt (k : Ver) : ∀ (l : List Seg) (first : Bool) (inc nth : Nat) (r : Path) (ml : Nat) (p : Params),
    anyOptional l = false →
    match seqTest k (genSegs l) r with
    | .some m => passFields k l first inc nth r ml p = .done m.remaining (ml + bytes m.matched) (p ++ m.params)
    | .panic => passFields k l first inc nth r ml p = .panic
    | .none => softOk first inc (passFields k l first inc nth r ml p) := by
  intro l
  induction l with
  | nil => intro first inc nth r ml p _; simp [genSegs, seqTest, passFields, bytes]
  | cons ty tys ih =>
    intro first inc nth r ml p h
    simp only [anyOptional, Bool.or_eq_false_iff] at h
    have iht := flatten_test k ty r h.1
    simp only [genSegs, seqTest_append, passFields, h.1, Bool.false_eq_true, if_false, Bool.not_false,
      Bool.true_or, if_true, iht]
    cases hs : seqTest k ty.gen r with
    | panic => simp
    | none =>
      simp only
      cases first with
      | true => exact ⟨Or.inl rfl, fun _ => rfl, fun h => by simp at h⟩
      | false =>
        by_cases hi : inc = 0
        · simp [hi, softOk]
        · simp [hi, softOk]
    | some m =>
      simp only
      have := ih false inc nth m.remaining (ml + bytes m.matched) (p ++ m.params) h.2
      cases hs2 : seqTest k (genSegs tys) m.remaining with
      | panic => rw [hs2] at this; simpa using this
      | none => rw [hs2] at this; simpa using softOk_mono this
      | some m2 =>
        rw [hs2] at this
        simp only at this ⊢
        rw [this]
        simp [bytes_append, Nat.add_assoc]

theorem countOptF_append (a b : List FSeg) : countOptF (a ++ b) = countOptF a + countOptF b := by
  induction a with
  | nil => simp [countOptF]
  | cons f a ih => simp [countOptF, ih]; omega

mutual
theorem optional_has_opt : ∀ (s : Seg), s.optional = true → 1 ≤ countOptF s.gen
  | .st _, h => by simp [Seg.optional] at h
  | .param _, h => by simp [Seg.optional] at h
  | .opt n, _ => by simp [Seg.gen, countOptF, FSeg.isOpt]
  | .splat _, h => by simp [Seg.optional] at h
  | .tup l, h => by
    simp only [Seg.optional] at h
    simp only [Seg.gen]
    exact anyOptional_has_opt l h
theorem anyOptional_has_opt : ∀ (l : List Seg), anyOptional l = true → 1 ≤ countOptF (genSegs l)
  | [], h => by simp [anyOptional] at h
  | a :: r, h => by
    simp only [anyOptional, Bool.or_eq_true] at h
    simp only [genSegs, countOptF_append]
    rcases h with h | h
    · have := optional_has_opt a h; omega
    · have := anyOptional_has_opt r h; omega
end

/-- an optional atom possibly wrapped in 1-tuples behaves like the atom -/
theorem optAtomish_spec (k : Ver) : ∀ (o : Seg), o.optAtomish = true →
    ∃ n, o.gen = [.opt n] ∧ o.optional = true ∧
      ∀ path, (o.test k path).rp = ((toSeg (.opt n)).test k path).rp
  | .opt n, _ => ⟨n, rfl, rfl, fun _ => rfl⟩
  | .tup [a], h => by
    have ha : a.optAtomish = true := by simpa [Seg.optAtomish] using h
    obtain ⟨n, h1, h2, h3⟩ := optAtomish_spec k a ha
    refine ⟨n, by simp [Seg.gen, genSegs, h1], by simp [Seg.optional, anyOptional, h2], ?_⟩
    intro path
    rw [← h3 path]
    simp only [Seg.test]
    cases ht : a.test k path with
    | panic => rfl
    | none => rfl
    | some m =>
      have hp := test_partition k a path m ht
      have := splitBytes_bytes m.matched m.remaining
      rw [hp] at this
      simp [this, Out.rp]
  | .st _, h => by simp [Seg.optAtomish] at h
  | .param _, h => by simp [Seg.optAtomish] at h
  | .splat _, h => by simp [Seg.optAtomish] at h
  | .tup [], h => by simp [Seg.optAtomish] at h
  | .tup (_ :: _ :: _), h => by simp [Seg.optAtomish] at h

/-- the router-side reading of a flat list with (at most) one optional: the optional takes the next
segment if there is one; if a later segment then fails, the whole tuple is tried again without it -/
def optSeqRP (k : Ver) : List FSeg → Path → Out (Path × Params)
  | [], path => .some (path, [])
  | .opt n :: B, r1 =>
    match ((toSeg (.opt n)).test k r1).rp with
    | .panic => .panic
    | .none => .none
    | .some (r2, po) =>
      match seqRP k B r2 with
      | .some (r3, p3) => .some (r3, po ++ p3)
      | .panic => .panic
      | .none => seqRP k B r1
  | f :: F, path =>
    match ((toSeg f).test k path).rp with
    | .panic => .panic
    | .none => .none
    | .some (r, ps) =>
      match optSeqRP k F r with
      | .some (r', ps') => .some (r', ps ++ ps')
      | o => o

theorem optSeqRP_noopt (k : Ver) : ∀ (F : List FSeg), countOptF F = 0 → ∀ path, optSeqRP k F path = seqRP k F path := by
  intro F
  induction F with
  | nil => intro _ path; simp [optSeqRP, seqRP, seqTest, Out.rp]
  | cons f F ih =>
    intro h path
    have hf : f.isOpt = false := by
      cases hh : f.isOpt <;> simp [countOptF, hh] at h ⊢
    have hF : countOptF F = 0 := by simp [countOptF, hf] at h; exact h
    have ih' := ih hF
    cases f with
    | opt n => simp [FSeg.isOpt] at hf
    | st s =>
      simp only [optSeqRP, seqRP, seqTest]
      cases (toSeg (.st s)).test k path with
      | panic => rfl
      | none => rfl
      | some m =>
        simp only [Out.rp, ih']
        simp only [seqRP]
        cases seqTest k F m.remaining <;> simp [Out.rp]
    | param s =>
      simp only [optSeqRP, seqRP, seqTest]
      cases (toSeg (.param s)).test k path with
      | panic => rfl
      | none => rfl
      | some m =>
        simp only [Out.rp, ih']
        simp only [seqRP]
        cases seqTest k F m.remaining <;> simp [Out.rp]
    | splat s =>
      simp only [optSeqRP, seqRP, seqTest]
      cases (toSeg (.splat s)).test k path with
      | panic => rfl
      | none => rfl
      | some m =>
        simp only [Out.rp, ih']
        simp only [seqRP]
        cases seqTest k F m.remaining <;> simp [Out.rp]



theorem optSeqRP_prefix (k : Ver) : ∀ (A F : List FSeg), countOptF A = 0 → ∀ path,
    optSeqRP k (A ++ F) path =
      match seqRP k A path with
      | .some (r, ps) =>
        (match optSeqRP k F r with
         | .some (r', ps') => .some (r', ps ++ ps')
         | o => o)
      | .none => .none
      | .panic => .panic := by
  intro A
  induction A with
  | nil =>
    intro F _ path
    simp only [List.nil_append, seqRP, seqTest, Out.rp]
    cases optSeqRP k F path with
    | some x => obtain ⟨r, ps⟩ := x; simp
    | none => rfl
    | panic => rfl
  | cons f A ih =>
    intro F h path
    have hf : f.isOpt = false := by
      cases hh : f.isOpt <;> simp [countOptF, hh] at h ⊢
    have hA : countOptF A = 0 := by simp [countOptF, hf] at h; exact h
    have step : ∀ (g : FSeg), g.isOpt = false → optSeqRP k (g :: (A ++ F)) path =
        match ((toSeg g).test k path).rp with
        | .panic => .panic
        | .none => .none
        | .some (r, ps) =>
          match optSeqRP k (A ++ F) r with
          | .some (r', ps') => .some (r', ps ++ ps')
          | o => o := by
      intro g hg
      cases g <;> simp [FSeg.isOpt] at hg <;> rfl
    rw [List.cons_append, step f hf]
    simp only [seqRP, seqTest]
    cases (toSeg f).test k path with
    | panic => rfl
    | none => rfl
    | some m =>
      simp only [Out.rp, ih F hA, seqRP]
      cases seqTest k A m.remaining with
      | panic => rfl
      | none => rfl
      | some m2 =>
        simp only [Out.rp]
        cases optSeqRP k F m2.remaining with
        | some x => obtain ⟨r, ps⟩ := x; simp [List.append_assoc]
        | none => rfl
        | panic => rfl

theorem countOptF_noopt (l : List Seg) (h : anyOptional l = false) : countOptF (genSegs l) = 0 := by
  cases hc : countOptF (genSegs l) with
  | zero => rfl
  | succ n =>
    exfalso
    have : ∀ f ∈ genSegs l, f.isOpt = false := genSegs_noOpt l h
    have h0 : countOptF (genSegs l) = 0 := by
      generalize genSegs l = F at this
      induction F with
      | nil => rfl
      | cons f F ih =>
        simp [countOptF, this f (by simp), ih (fun x hx => this x (by simp [hx]))]
    omega

theorem backoff_one (f : Nat → Pass) : backoff f 1 = match f 1 with | .retry => f 0 | r => r := by
  simp only [backoff]
  cases f 1 <;> rfl

/-- **the tuple loop with exactly one optional field** (fields before and after it optional-free, the
optional field an optional atom, possibly wrapped in 1-tuples), in every version of the code -/
theorem tuple_one_opt (k : Ver) (LA LB : List Seg) (o : Seg) (hLA : anyOptional LA = false)
    (hLB : anyOptional LB = false) (ho : o.optAtomish = true) (path : Path) :
    ∃ n, o.gen = [.opt n] ∧
      (backoff (fun inc => passFields k (LA ++ o :: LB) true inc 0 path 0 []) 1).rp =
        optSeqRP k (genSegs LA ++ .opt n :: genSegs LB) path := by
  obtain ⟨n, hgen, hopt, htest⟩ := optAtomish_spec k o ho
  refine ⟨n, hgen, ?_⟩
  rw [backoff_one]
  rw [optSeqRP_prefix k _ _ (countOptF_noopt LA hLA)]
  simp only [passFields_append, countOpt_noOpt LA hLA, Nat.add_zero]
  have hA1 := pass_noopt k LA true 1 0 path 0 [] hLA
  have hA0 := pass_noopt k LA true 0 0 path 0 [] hLA
  simp only [seqRP]
  cases hsA : seqTest k (genSegs LA) path with
  | panic =>
    rw [hsA] at hA1
    simp only at hA1
    simp [hA1, Pass.rp, Out.rp]
  | none =>
    rw [hsA] at hA1 hA0
    simp only at hA1 hA0
    have h0 : passFields k LA true 0 0 path 0 [] = .fail := hA0.2.1 rfl
    rcases hA1.1 with h1 | h1
    · simp [h1, Pass.rp, Out.rp]
    · simp [h1, h0, Pass.rp, Out.rp]
  | some mA =>
    rw [hsA] at hA1 hA0
    simp only at hA1 hA0
    simp only [hA1, hA0, Out.rp, List.nil_append, Nat.zero_add]
    -- the optional field, included (inc = 1)
    simp only [passFields, hopt, if_true, Bool.not_true, Bool.false_or, Nat.le_refl, decide_true,
      Nat.zero_add, optSeqRP]
    have ht := htest mA.remaining
    have hB1 : ∀ (r : Path) (ml : Nat) (p : Params), _ := fun r ml p => pass_noopt k LB false 1 1 r ml p hLB
    have hB0 := pass_noopt k LB false 0 1 mA.remaining (bytes mA.matched) mA.params hLB
    cases hto : o.test k mA.remaining with
    | panic =>
      rw [hto] at ht
      have ht' : ((toSeg (.opt n)).test k mA.remaining).rp = .panic := by rw [← ht]; rfl
      rw [ht']
      simp [Pass.rp]
    | none =>
      rw [hto] at ht
      have ht' : ((toSeg (.opt n)).test k mA.remaining).rp = .none := by rw [← ht]; rfl
      rw [ht']
      cases LA.isEmpty <;> simp [Pass.rp]
    | some mo =>
      rw [hto] at ht
      have ht' : ((toSeg (.opt n)).test k mA.remaining).rp = .some (mo.remaining, mo.params) := by
        rw [← ht]; rfl
      rw [ht']
      simp only
      have hb1 := hB1 mo.remaining (bytes mA.matched + bytes mo.matched) (mA.params ++ mo.params)
      simp only [seqRP]
      cases hsB : seqTest k (genSegs LB) mo.remaining with
      | panic =>
        rw [hsB] at hb1
        simp only at hb1
        simp [hb1, Pass.rp, Out.rp]
      | some mB =>
        rw [hsB] at hb1
        simp only at hb1
        simp [hb1, Pass.rp, Out.rp, List.append_assoc]
      | none =>
        rw [hsB] at hb1
        simp only at hb1
        have hretry : passFields k LB false 1 1 mo.remaining (bytes mA.matched + bytes mo.matched)
            (mA.params ++ mo.params) = .retry := hb1.2.2 rfl (by decide)
        simp only [hretry, Out.rp]
        -- second pass (inc = 0): the optional field is skipped
        have h10 : decide (1 ≤ 0) = false := by decide
        simp only [h10, Bool.false_eq_true, if_false]
        cases hsB0 : seqTest k (genSegs LB) mA.remaining with
        | panic => rw [hsB0] at hB0; simp only at hB0; simp [hB0, Pass.rp, Out.rp]
        | some mB' => rw [hsB0] at hB0; simp only at hB0; simp [hB0, Pass.rp, Out.rp]
        | none =>
          rw [hsB0] at hB0
          simp only at hB0
          have := hB0.2.1 rfl
          simp [this, Pass.rp, Out.rp]



theorem noopt_of_count (l : List Seg) (h : countOptF (genSegs l) = 0) : anyOptional l = false := by
  cases ha : anyOptional l with
  | false => rfl
  | true => have := anyOptional_has_opt l ha; omega

/-- a tuple whose only optional field is an optional atom splits around that field -/
theorem one_opt_decomp : ∀ (l : List Seg), anyOptional l = true → innerOptFields l = false →
    countOptF (genSegs l) ≤ 1 →
    ∃ LA o LB, l = LA ++ o :: LB ∧ anyOptional LA = false ∧ anyOptional LB = false ∧ o.optAtomish = true := by
  intro l
  induction l with
  | nil => intro h; simp [anyOptional] at h
  | cons a r ih =>
    intro h hin hc
    simp only [innerOptFields, Bool.or_eq_false_iff, Bool.and_eq_false_iff] at hin
    simp only [genSegs, countOptF_append] at hc
    by_cases ha : a.optional = true
    · have hat : a.optAtomish = true := by
        rcases hin.1.1 with h1 | h1
        · simp [ha] at h1
        · simpa using h1
      have h1 := optional_has_opt a ha
      refine ⟨[], a, r, rfl, rfl, noopt_of_count r (by omega), hat⟩
    · have ha' : a.optional = false := by simpa using ha
      have hr : anyOptional r = true := by simpa [anyOptional, ha'] using h
      obtain ⟨LA, o, LB, h1, h2, h3, h4⟩ := ih hr hin.2 (by omega)
      exact ⟨a :: LA, o, LB, by simp [h1], by simp [anyOptional, ha', h2], h3, h4⟩

theorem countOpt_append (a b : List Seg) : countOpt (a ++ b) = countOpt a + countOpt b := by
  induction a with
  | nil => simp [countOpt]
  | cons f a ih => simp [countOpt, ih]; omega

theorem genSegs_append (a b : List Seg) : genSegs (a ++ b) = genSegs a ++ genSegs b := by
  induction a with
  | nil => rfl
  | cons f a ih => simp [genSegs, ih]

theorem optSeqRP_single (k : Ver) (f : FSeg) (path : Path) :
    optSeqRP k [f] path = ((toSeg f).test k path).rp := by
  cases f with
  | opt n =>
    simp only [optSeqRP, seqRP, seqTest, Out.rp]
    cases (toSeg (.opt n)).test k path <;> simp
  | st s => simp only [optSeqRP]; cases ((toSeg (.st s)).test k path).rp with
    | some x => obtain ⟨r, ps⟩ := x; simp
    | none => rfl
    | panic => rfl
  | param s => simp only [optSeqRP]; cases ((toSeg (.param s)).test k path).rp with
    | some x => obtain ⟨r, ps⟩ := x; simp
    | none => rfl
    | panic => rfl
  | splat s => simp only [optSeqRP]; cases ((toSeg (.splat s)).test k path).rp with
    | some x => obtain ⟨r, ps⟩ := x; simp
    | none => rfl
    | panic => rfl

/-- **segment trees with at most one optional param, not inside an inner tuple**: the tree behaves like
the flat list of its atoms read by `optSeqRP` (remaining and params), in every version of the code -/
theorem one_opt_test (k : Ver) : ∀ (s : Seg) (path : Path), s.innerOptTuple = false → countOptF s.gen ≤ 1 →
    (s.test k path).rp = optSeqRP k s.gen path
  | .st s, path, _, _ => (optSeqRP_single k (.st s) path).symm
  | .param n, path, _, _ => (optSeqRP_single k (.param n) path).symm
  | .opt n, path, _, _ => (optSeqRP_single k (.opt n) path).symm
  | .splat n, path, _, _ => (optSeqRP_single k (.splat n) path).symm
  | .tup [], path, _, _ => by simp [Seg.test, Seg.gen, genSegs, optSeqRP, Out.rp]
  | .tup [a], path, h, hc => by
    have ha : a.innerOptTuple = false := by simpa [Seg.innerOptTuple] using h
    have hca : countOptF a.gen ≤ 1 := by simpa [Seg.gen, genSegs] using hc
    have ih := one_opt_test k a path ha hca
    simp only [Seg.gen, genSegs, List.append_nil]
    rw [← ih]
    simp only [Seg.test]
    cases ht : a.test k path with
    | panic => rfl
    | none => rfl
    | some m =>
      have hp := test_partition k a path m ht
      have := splitBytes_bytes m.matched m.remaining
      rw [hp] at this
      simp [this, Out.rp]
  | .tup (a :: b :: l), path, h, hc => by
    have hin : innerOptFields (a :: b :: l) = false := by simpa [Seg.innerOptTuple] using h
    simp only [Seg.gen] at hc ⊢
    by_cases hany : anyOptional (a :: b :: l) = true
    · obtain ⟨LA, o, LB, hl, hLA, hLB, ho⟩ := one_opt_decomp _ hany hin hc
      obtain ⟨n, hgen, hbk⟩ := tuple_one_opt k LA LB o hLA hLB ho path
      have hopt : o.optional = true := (optAtomish_spec k o ho).choose_spec.2.1
      have hcnt : countOpt (a :: b :: l) = 1 := by
        rw [hl, countOpt_append]
        simp [countOpt, countOpt_noOpt LA hLA, countOpt_noOpt LB hLB, hopt]
      have hgs : genSegs (a :: b :: l) = genSegs LA ++ .opt n :: genSegs LB := by
        rw [hl, genSegs_append]; simp [genSegs, hgen]
      rw [hgs, ← hbk]
      simp only [Seg.test, hcnt]
      rw [← hl]
      cases hb : backoff (fun inc => passFields k (a :: b :: l) true inc 0 path 0 []) 1 with
      | done r ml p =>
        obtain ⟨inc, hinc⟩ := backoff_done _ _ _ _ _ hb
        obtain ⟨c, hc1, hc2⟩ := pass_inv k (a :: b :: l) true inc 0 path 0 [] path [] r ml p (by simp)
          (by simp [bytes]) hinc
        have := splitBytes_bytes c r
        rw [hc1, hc2] at this
        simp [this, Out.rp, Pass.rp]
      | panic => simp [Out.rp, Pass.rp]
      | fail => simp [Out.rp, Pass.rp]
      | retry => simp [Out.rp, Pass.rp]
    · have hany' : anyOptional (a :: b :: l) = false := by simpa using hany
      have hfl := flatten_test k (.tup (a :: b :: l)) path (by simpa [Seg.optional] using hany')
      rw [hfl]
      simp only [Seg.gen]
      rw [optSeqRP_noopt k _ (countOptF_noopt _ hany')]
      rfl



/-! ## the optional atom and the one-optional flat list, in the aligned variant -/

/-- what an optional param consumes at a segment boundary -/
def optSpec (n : List Char) : Path → Option (Path × Params)
  | [] => some ([], [])
  | c :: t =>
    if c = '/' then
      (if segHead t = [] then some (c :: t, []) else some (segTail t, [(n, segHead t)]))
    else none

theorem optTest_nil (fx : Bool) (n : Path) : optTest fx n [] = .some ⟨[], [], []⟩ := by
  simp [optTest, paramScan, startsSlash, splitBytes]

theorem opt_aligned (n path : Path) :
    ((toSeg (.opt n)).test .aligned path).rp = ofOpt (optSpec n path) := by
  cases path with
  | nil => simp [toSeg, Seg.test, startOk, optTest_nil, optSpec, Out.rp, ofOpt]
  | cons c t =>
    by_cases hc : c = '/'
    · subst hc
      simp only [toSeg, Seg.test, startOk, startsSlash, decide_true, Bool.or_true, if_true, optTest_slash, optSpec]
      by_cases he : segHead t = [] <;> simp [he, Out.rp, ofOpt]
    · have hst : startOk .aligned (c :: t) = false := by simp [startOk, startsSlash, hc]
      simp [toSeg, Seg.test, hst, optSpec, hc, Out.rp, ofOpt]

/-- `optSeqRP` on characters -/
def optSeqSpec : List FSeg → Path → Option (Path × Params)
  | [], path => some (path, [])
  | .opt n :: B, r1 =>
    match optSpec n r1 with
    | none => none
    | some (r2, po) =>
      match seqSpec B r2 with
      | some (r3, p3) => some (r3, po ++ p3)
      | none => seqSpec B r1
  | f :: F, path =>
    match atomSpec f path with
    | none => none
    | some (r, ps) =>
      match optSeqSpec F r with
      | some (r', ps') => some (r', ps ++ ps')
      | none => none

theorem wfa_of_count0 : ∀ (F : List FSeg), (∀ f ∈ F, WfAO f) → countOptF F = 0 → ∀ f ∈ F, WfA f := by
  intro F
  induction F with
  | nil => intro _ _ f hf; simp at hf
  | cons g F ih =>
    intro hw hc f hf
    have hg : g.isOpt = false := by
      cases hh : g.isOpt <;> simp [countOptF, hh] at hc ⊢
    have hF : countOptF F = 0 := by simp [countOptF, hg] at hc; exact hc
    simp only [List.mem_cons] at hf
    rcases hf with rfl | hf
    · exact wfa_of_wfao (hw f (by simp)) hg
    · exact ih (fun x hx => hw x (by simp [hx])) hF f hf

theorem seqRP_aligned (F : List FSeg) (hw : ∀ f ∈ F, WfA f) (path : Path) :
    seqRP .aligned F path = ofOpt (seqSpec F path) := seq_aligned F hw path

theorem optSeq_aligned : ∀ (F : List FSeg), (∀ f ∈ F, WfAO f) → countOptF F ≤ 1 → ∀ path : Path,
    optSeqRP .aligned F path = ofOpt (optSeqSpec F path) := by
  intro F
  induction F with
  | nil => intro _ _ path; simp [optSeqRP, optSeqSpec, ofOpt]
  | cons f F ih =>
    intro hw hc path
    have hw' : ∀ g ∈ F, WfAO g := fun x hx => hw x (by simp [hx])
    cases f with
    | opt n =>
      have hF0 : countOptF F = 0 := by simp [countOptF, FSeg.isOpt] at hc; omega
      have hwa := wfa_of_count0 F hw' hF0
      simp only [optSeqRP, optSeqSpec, opt_aligned, seqRP_aligned F hwa]
      cases optSpec n path with
      | none => simp [ofOpt]
      | some x =>
        obtain ⟨r2, po⟩ := x
        simp only [ofOpt]
        cases seqSpec F r2 with
        | none => simp [ofOpt]
        | some y => obtain ⟨r3, p3⟩ := y; simp [ofOpt]
    | st s =>
      have hF : countOptF F ≤ 1 := by simpa [countOptF, FSeg.isOpt] using hc
      have ha := atom_aligned (.st s) (wfa_of_wfao (hw (.st s) (by simp)) rfl) path
      simp only [optSeqRP, optSeqSpec, ha, ih hw' hF]
      cases atomSpec (.st s) path with
      | none => simp [ofOpt]
      | some x =>
        obtain ⟨r, ps⟩ := x
        simp only [ofOpt]
        cases optSeqSpec F r with
        | none => simp [ofOpt]
        | some y => obtain ⟨r', ps'⟩ := y; simp [ofOpt]
    | param s =>
      have hF : countOptF F ≤ 1 := by simpa [countOptF, FSeg.isOpt] using hc
      have ha := atom_aligned (.param s) (wfa_of_wfao (hw (.param s) (by simp)) rfl) path
      simp only [optSeqRP, optSeqSpec, ha, ih hw' hF]
      cases atomSpec (.param s) path with
      | none => simp [ofOpt]
      | some x =>
        obtain ⟨r, ps⟩ := x
        simp only [ofOpt]
        cases optSeqSpec F r with
        | none => simp [ofOpt]
        | some y => obtain ⟨r', ps'⟩ := y; simp [ofOpt]
    | splat s =>
      have hF : countOptF F ≤ 1 := by simpa [countOptF, FSeg.isOpt] using hc
      have ha := atom_aligned (.splat s) (wfa_of_wfao (hw (.splat s) (by simp)) rfl) path
      simp only [optSeqRP, optSeqSpec, ha, ih hw' hF]
      cases atomSpec (.splat s) path with
      | none => simp [ofOpt]
      | some x =>
        obtain ⟨r, ps⟩ := x
        simp only [ofOpt]
        cases optSeqSpec F r with
        | none => simp [ofOpt]
        | some y => obtain ⟨r', ps'⟩ := y; simp [ofOpt]

/-! ## slash counting: when the tuple is tried with the optional and leaves something over, the
variant without the optional cannot accept either -/

def slashes : Path → Nat
  | [] => 0
  | c :: t => (if c = '/' then 1 else 0) + slashes t

theorem slashes_append (a b : Path) : slashes (a ++ b) = slashes a + slashes b := by
  induction a with
  | nil => simp [slashes]
  | cons c a ih => simp [slashes, ih]; omega

theorem slashes_segHead (t : Path) : slashes (segHead t) = 0 := by
  induction t with
  | nil => rfl
  | cons c t ih =>
    by_cases hc : c = '/'
    · simp [segHead, hc, slashes]
    · simp [segHead, hc, slashes]; simpa [segHead] using ih

theorem slashes_split (t : Path) : slashes t = slashes (segTail t) := by
  have := congrArg slashes (segHead_append_segTail t)
  rw [slashes_append, slashes_segHead] at this
  omega

def consumes : FSeg → Nat
  | .st [] => 0
  | _ => 1

def consumesAll : List FSeg → Nat
  | [] => 0
  | f :: F => consumes f + consumesAll F

theorem atom_slashes (f : FSeg) (hw : WfA f) (hns : noSplat [f] = true) (path r : Path) (ps : Params)
    (h : atomSpec f path = some (r, ps)) :
    slashes path = slashes r + consumes f ∧ ∃ pre, path = pre ++ r := by
  cases f with
  | opt n => simp [WfA] at hw
  | splat n => simp [noSplat] at hns
  | st s =>
    cases path with
    | nil =>
      simp only [atomSpec] at h
      split at h
      · next hs => subst hs; simp at h; obtain ⟨rfl, _⟩ := h; exact ⟨by simp [slashes, consumes], [], rfl⟩
      · simp at h
    | cons c t =>
      simp only [atomSpec] at h
      split at h
      · next hc =>
        subst hc
        split at h
        · next hs => subst hs; simp at h; obtain ⟨rfl, _⟩ := h; exact ⟨by simp [consumes], [], rfl⟩
        · next hs0 =>
          have hcons : consumes (.st s) = 1 := by cases s <;> simp [consumes] at hs0 ⊢
          split at h
          · simp at h; obtain ⟨rfl, _⟩ := h
            exact ⟨by simp [slashes, hcons]; omega, ['/'], rfl⟩
          · split at h
            · simp at h; obtain ⟨rfl, _⟩ := h
              refine ⟨by simp [slashes, hcons]; have := slashes_split t; omega, '/' :: segHead t, ?_⟩
              simp [segHead_append_segTail]
            · simp at h
      · simp at h
  | param n =>
    cases path with
    | nil => simp [atomSpec] at h
    | cons c t =>
      simp only [atomSpec] at h
      split at h
      · next hc =>
        obtain ⟨hc1, _⟩ := hc
        subst hc1
        simp at h; obtain ⟨rfl, _⟩ := h
        refine ⟨by simp [slashes, consumes]; have := slashes_split t; omega, '/' :: segHead t, ?_⟩
        simp [segHead_append_segTail]
      · simp at h

theorem seq_slashes : ∀ (F : List FSeg), (∀ f ∈ F, WfA f) → noSplat F = true → ∀ (path r : Path) (ps : Params),
    seqSpec F path = some (r, ps) → slashes path = slashes r + consumesAll F ∧ ∃ pre, path = pre ++ r := by
  intro F
  induction F with
  | nil => intro _ _ path r ps h; simp [seqSpec] at h; obtain ⟨rfl, _⟩ := h; exact ⟨by simp [consumesAll], [], rfl⟩
  | cons f F ih =>
    intro hw hns path r ps h
    have hnf : noSplat [f] = true := by cases f <;> simp [noSplat] at hns ⊢
    have hnF : noSplat F = true := by cases f <;> simp [noSplat] at hns ⊢ <;> exact hns
    simp only [seqSpec] at h
    cases ha : atomSpec f path with
    | none => simp [ha] at h
    | some x =>
      obtain ⟨r1, p1⟩ := x
      simp only [ha] at h
      cases hs : seqSpec F r1 with
      | none => simp [hs] at h
      | some y =>
        obtain ⟨r2, p2⟩ := y
        simp [hs] at h
        obtain ⟨rfl, _⟩ := h
        obtain ⟨h1, pre1, h2⟩ := atom_slashes f (hw f (by simp)) hnf path r1 p1 ha
        obtain ⟨h3, pre2, h4⟩ := ih (fun x hx => hw x (by simp [hx])) hnF r1 r2 p2 hs
        refine ⟨by simp [consumesAll]; omega, pre1 ++ pre2, ?_⟩
        rw [h2, h4]; simp

/-- a wildcard (last) leaves nothing -/
theorem seq_splat_rem : ∀ (F : List FSeg), (∀ f ∈ F, WfA f) → splatLast F = true → noSplat F = false →
    ∀ (path r : Path) (ps : Params), seqSpec F path = some (r, ps) → r = [] := by
  intro F
  induction F with
  | nil => intro _ _ h; simp [noSplat] at h
  | cons f F ih =>
    intro hw hsl hns path r ps h
    simp only [seqSpec] at h
    cases ha : atomSpec f path with
    | none => simp [ha] at h
    | some x =>
      obtain ⟨r1, p1⟩ := x
      simp only [ha] at h
      cases hs : seqSpec F r1 with
      | none => simp [hs] at h
      | some y =>
        obtain ⟨r2, p2⟩ := y
        simp [hs] at h
        have hr : r = r2 := h.1.symm
        have hsl' : splatLast F = true := by
          cases F with
          | nil => rfl
          | cons g G => cases f <;> simp [splatLast] at hsl ⊢ <;> exact hsl
        cases f with
        | splat n =>
          have hF : F = [] := by
            cases F with
            | nil => rfl
            | cons g G => simp [splatLast] at hsl
          subst hF
          simp [seqSpec] at hs
          rw [hr, ← hs.1]
          cases path with
          | nil => simp [atomSpec] at ha; rw [← ha.1]
          | cons c t =>
            simp only [atomSpec] at ha
            split at ha
            · simp at ha; rw [← ha.1]
            · simp at ha
        | st s =>
          rw [hr]
          exact ih (fun x hx => hw x (by simp [hx])) hsl' (by simpa [noSplat] using hns) r1 r2 p2 hs
        | param s =>
          rw [hr]
          exact ih (fun x hx => hw x (by simp [hx])) hsl' (by simpa [noSplat] using hns) r1 r2 p2 hs
        | opt s => exact absurd (hw (.opt s) (by simp)) (by simp [WfA])

theorem complete_slashes {r : Path} (h : complete r = true) : r = [] ∨ r = ['/'] := by
  simp only [complete, Bool.or_eq_true, List.isEmpty_iff, beq_iff_eq] at h
  exact h

def lastC : Path → Option Char
  | [] => none
  | [c] => some c
  | _ :: d :: t => lastC (d :: t)

theorem lastC_append (a b : Path) (hb : b ≠ []) : lastC (a ++ b) = lastC b := by
  induction a with
  | nil => rfl
  | cons c a ih =>
    cases hab : a ++ b with
    | nil => simp at hab; exact absurd hab.2 hb
    | cons d t => simp only [List.cons_append, hab, lastC]; rw [← hab]; exact ih

theorem lastC_slashes0 : ∀ (r : Path), r ≠ [] → slashes r = 0 → lastC r ≠ some '/' := by
  intro r
  induction r with
  | nil => intro h; simp at h
  | cons c t ih =>
    intro _ hs
    have hc : c ≠ '/' := by intro e; simp [slashes, e] at hs
    have ht : slashes t = 0 := by simp [slashes, hc] at hs; exact hs
    cases t with
    | nil => simp [lastC, hc]
    | cons d t' => simp only [lastC]; exact ih (by simp) ht

/-- (Q') if the flat list `B` accepts `/seg…` completely, then run one segment later it cannot stop with
something left over -/
theorem no_leftover_after_shift (B : List FSeg) (hw : ∀ f ∈ B, WfA f) (hsl : splatLast B = true)
    (t ra r3 : Path) (pa p3 : Params)
    (h1 : seqSpec B ('/' :: t) = some (ra, pa)) (hc : complete ra = true)
    (h2 : seqSpec B (segTail t) = some (r3, p3)) : complete r3 = true := by
  by_cases hns : noSplat B = true
  · obtain ⟨e1, pre1, s1⟩ := seq_slashes B hw hns _ _ _ h1
    obtain ⟨e2, pre2, s2⟩ := seq_slashes B hw hns _ _ _ h2
    have e3 : slashes ('/' :: t) = 1 + slashes (segTail t) := by
      simp [slashes]; have := slashes_split t; omega
    have hra : slashes ra = 1 + slashes r3 := by omega
    rcases complete_slashes hc with hra0 | hra1
    · rw [hra0] at hra; simp [slashes] at hra; omega
    · have h30 : slashes r3 = 0 := by rw [hra1] at hra; simp [slashes] at hra; omega
      by_cases hr3 : r3 = []
      · simp [hr3, complete]
      · exfalso
        -- the path ends with `/` (from `ra`) and with the slash-free `r3`
        have hlast1 : lastC ('/' :: t) = some '/' := by
          rw [s1, hra1, lastC_append _ _ (by simp)]; rfl
        have hsuf : '/' :: t = ('/' :: segHead t ++ pre2) ++ r3 := by
          have h := segHead_append_segTail t
          rw [s2] at h
          rw [List.append_assoc, List.cons_append, h]
        have hlast2 : lastC ('/' :: t) = lastC r3 := by
          rw [hsuf, lastC_append _ _ hr3]
        rw [hlast2] at hlast1
        exact lastC_slashes0 r3 hr3 h30 hlast1
  · have : r3 = [] := seq_splat_rem B hw hsl (by simpa using hns) _ _ _ h2
    simp [this, complete]



/-- a flat route with (at most) one optional accepts the path, router-side reading -/
def gmatchO (F : List FSeg) (path : Path) : Option Params :=
  match optSeqSpec F path with
  | some (r, ps) => if complete r then some ps else none
  | none => none

theorem firstG_pair (X Y : List FSeg) (path : Path) : firstG [X, Y] path = orE (gmatch X path) (gmatch Y path) := by
  simp only [firstG]
  cases gmatch X path with
  | some q => rfl
  | none => simp only [orE]; cases gmatch Y path <;> rfl

/-- the optional atom followed by an optional-free list: with the param, else without -/
theorem gmatchO_opt_head (n : List Char) (B : List FSeg) (hw : ∀ f ∈ B, WfA f) (hsl : splatLast B = true)
    (r1 : Path) : gmatchO (.opt n :: B) r1 = orE (gmatch (.param n :: B) r1) (gmatch B r1) := by
  rw [gmatch_cons]
  unfold gmatchO
  simp only [optSeqSpec]
  cases r1 with
  | nil =>
    simp only [optSpec, atomSpec, orE, List.nil_append]
    unfold gmatch
    cases seqSpec B [] with
    | none => rfl
    | some x => obtain ⟨r3, p3⟩ := x; rfl
  | cons c t =>
    by_cases hc : c = '/'
    · subst hc
      by_cases he : segHead t = []
      · simp only [optSpec, if_true, he, atomSpec, true_and, ne_eq, not_true_eq_false, if_false, orE,
          List.nil_append]
        unfold gmatch
        cases seqSpec B ('/' :: t) with
        | none => rfl
        | some x => obtain ⟨r3, p3⟩ := x; rfl
      · simp only [optSpec, if_true, he, if_false, atomSpec, true_and, ne_eq, not_false_eq_true]
        cases hs2 : seqSpec B (segTail t) with
        | none =>
          simp only [gmatch, hs2, Option.map_none, orE]
          try (cases seqSpec B ('/' :: t) with
            | none => rfl
            | some x => obtain ⟨r3, p3⟩ := x; rfl)
        | some x =>
          obtain ⟨r3, p3⟩ := x
          simp only [gmatch, hs2]
          by_cases hcomp : complete r3 = true
          · simp [hcomp, orE]
          · simp only [hcomp, Bool.false_eq_true, if_false, Option.map_none, orE]
            -- the variant without the optional cannot accept either
            cases hs1 : seqSpec B ('/' :: t) with
            | none => rfl
            | some y =>
              obtain ⟨ra, pa⟩ := y
              simp only
              by_cases hca : complete ra = true
              · exact absurd (no_leftover_after_shift B hw hsl t ra r3 pa p3 hs1 hca hs2) hcomp
              · simp [hca]
    · have hu := gmatch_unaligned B (c :: t) (by simp) (by simp [startsSlash, hc])
      simp [optSpec, hc, atomSpec, orE, hu]

theorem optSeqSpec_cons (f : FSeg) (hf : f.isOpt = false) (F : List FSeg) (path : Path) :
    optSeqSpec (f :: F) path =
      match atomSpec f path with
      | none => none
      | some (r, ps) =>
        match optSeqSpec F r with
        | some (r', ps') => some (r', ps ++ ps')
        | none => none := by
  cases f <;> simp [FSeg.isOpt] at hf <;> rfl

theorem gmatchO_cons (f : FSeg) (hf : f.isOpt = false) (F : List FSeg) (path : Path) :
    gmatchO (f :: F) path =
      match atomSpec f path with
      | none => none
      | some (r, ps) => (gmatchO F r).map (ps ++ ·) := by
  unfold gmatchO
  rw [optSeqSpec_cons f hf]
  cases atomSpec f path with
  | none => rfl
  | some x =>
    obtain ⟨r, ps⟩ := x
    simp only
    cases optSeqSpec F r with
    | none => rfl
    | some y => obtain ⟨r', ps'⟩ := y; simp only; split <;> simp

theorem prefixAll_eq_map (a : List FSeg) (Gs : List (List FSeg)) : prefixAll a Gs = Gs.map (a ++ ·) := by
  induction Gs with
  | nil => rfl
  | cons G Gs ih => simp [prefixAll, ih]

theorem firstG_map_cons (f : FSeg) (Gs : List (List FSeg)) (path : Path) :
    firstG (Gs.map (f :: ·)) path =
      match atomSpec f path with
      | none => none
      | some (r, ps) => (firstG Gs r).map (ps ++ ·) := by
  have := firstG_prefix [f] Gs path
  rw [prefixAll_eq_map] at this
  simp only [List.singleton_append] at this
  rw [this]
  simp only [seqSpec]
  cases atomSpec f path with
  | none => rfl
  | some x => obtain ⟨r, ps⟩ := x; simp

theorem splatLast_tail (f : FSeg) (F : List FSeg) (h : splatLast (f :: F) = true) : splatLast F = true := by
  cases F with
  | nil => rfl
  | cons g G => cases f <;> simp [splatLast] at h ⊢ <;> exact h

/-- **a leaf with one optional = its two registered expansions, in table order**: the router-side reading
of the unexpanded flat route accepts exactly what the first accepting expansion accepts, with its params -/
theorem gmatchO_eq_expansions : ∀ (F : List FSeg), (∀ f ∈ F, WfAO f) → countOptF F ≤ 1 → splatLast F = true →
    ∀ path : Path, gmatchO F path = firstG (expandSpec F) path := by
  intro F
  induction F with
  | nil =>
    intro _ _ _ path
    simp only [gmatchO, optSeqSpec, expandSpec, firstG, gmatch, seqSpec]
    split <;> rfl
  | cons f F ih =>
    intro hw hc hsl path
    have hw' : ∀ g ∈ F, WfAO g := fun x hx => hw x (by simp [hx])
    have hsl' := splatLast_tail f F hsl
    cases f with
    | opt n =>
      have hF0 : countOptF F = 0 := by simp [countOptF, FSeg.isOpt] at hc; omega
      have hwa := wfa_of_count0 F hw' hF0
      have hex : expandSpec F = [F] := (firstOpt_none (firstOpt_wfa F hwa)).2
      simp only [expandSpec, hex, List.map_cons, List.map_nil, List.cons_append, List.nil_append]
      rw [firstG_pair, gmatchO_opt_head n F hwa hsl']
    | st s =>
      have hF : countOptF F ≤ 1 := by simpa [countOptF, FSeg.isOpt] using hc
      simp only [expandSpec]
      rw [firstG_map_cons, gmatchO_cons _ rfl]
      cases atomSpec (.st s) path with
      | none => rfl
      | some x => obtain ⟨r, ps⟩ := x; simp only; rw [ih hw' hF hsl' r]
    | param s =>
      have hF : countOptF F ≤ 1 := by simpa [countOptF, FSeg.isOpt] using hc
      simp only [expandSpec]
      rw [firstG_map_cons, gmatchO_cons _ rfl]
      cases atomSpec (.param s) path with
      | none => rfl
      | some x => obtain ⟨r, ps⟩ := x; simp only; rw [ih hw' hF hsl' r]
    | splat s =>
      have hF : countOptF F ≤ 1 := by simpa [countOptF, FSeg.isOpt] using hc
      simp only [expandSpec]
      rw [firstG_map_cons, gmatchO_cons _ rfl]
      cases atomSpec (.splat s) path with
      | none => rfl
      | some x => obtain ⟨r, ps⟩ := x; simp only; rw [ih hw' hF hsl' r]



/-! ## route trees whose leaves may carry one optional -/

theorem expandSpec_prefix : ∀ (A F : List FSeg), countOptF A = 0 → expandSpec (A ++ F) = (expandSpec F).map (A ++ ·) := by
  intro A
  induction A with
  | nil => intro F _; simp
  | cons f A ih =>
    intro F h
    have hf : f.isOpt = false := by
      cases hh : f.isOpt <;> simp [countOptF, hh] at h ⊢
    have hA : countOptF A = 0 := by simp [countOptF, hf] at h; exact h
    cases f <;> simp [FSeg.isOpt] at hf <;> simp [expandSpec, ih F hA, List.map_map, Function.comp_def]

theorem flatMap_prefixAll (A : List FSeg) (hA : countOptF A = 0) (Fs : List (List FSeg)) :
    (prefixAll A Fs).flatMap expandSpec = prefixAll A (Fs.flatMap expandSpec) := by
  induction Fs with
  | nil => rfl
  | cons F Fs ih =>
    simp only [prefixAll, List.flatMap_cons, ih, expandSpec_prefix A F hA]
    simp [prefixAll_eq_map]

/-- the first definition (index from `i`) one of whose registered (expanded) routes accepts the path -/
def firstDef1 : List Route → Nat → Path → Option (Nat × Params)
  | [], _, _ => none
  | c :: cs, i, path =>
    match firstG (c.gen.flatMap expandSpec) path with
    | some ps => some (i, ps)
    | none => firstDef1 cs (i + 1) path

theorem firstG_genList1 (cs : List Route) (i : Nat) (path : Path) :
    firstG ((genList cs).flatMap expandSpec) path = (firstDef1 cs i path).map (·.2) := by
  induction cs generalizing i with
  | nil => rfl
  | cons c cs ih =>
    simp only [genList, List.flatMap_append, firstG_append, firstDef1]
    cases firstG (c.gen.flatMap expandSpec) path with
    | some ps => rfl
    | none => exact ih (i + 1)

mutual
/-- the hypotheses of stage 1 on a route: well-formed atoms, optionals only in leaves, at most one per
route, none inside an inner tuple -/
def Route.stage1 : Route → Bool
  | .mk segs children =>
    segs.gen.all (fun f => decide (WfAO f)) && !segs.innerOptTuple && decide (countOptF segs.gen ≤ 1) &&
    (if children.isEmpty then splatLast segs.gen else (!segs.optional && noSplat segs.gen)) && stage1List children
def stage1List : List Route → Bool
  | [] => true
  | c :: cs => c.stage1 && stage1List cs
end

theorem countOptF_of_noopt (s : Seg) (h : s.optional = false) : countOptF s.gen = 0 := by
  have := gen_noOpt s h
  generalize s.gen = F at this
  induction F with
  | nil => rfl
  | cons f F ih => simp [countOptF, this f (by simp), ih (fun x hx => this x (by simp [hx]))]

mutual
theorem nested_aligned1 : ∀ (r : Route), r.stage1 = true → ∀ (pos : Nat) (path : Path),
    nres (matchNested .aligned r pos path) =
      match firstG (r.gen.flatMap expandSpec) path with
      | some ps => .some (some pos, ps)
      | none => .none
  | .mk segs children, hg, pos, path => by
    simp only [Route.stage1, Bool.and_eq_true, Bool.not_eq_true', List.all_eq_true, decide_eq_true_eq] at hg
    obtain ⟨⟨⟨⟨hwf, hin⟩, hcnt⟩, hkind⟩, hch⟩ := hg
    by_cases hce : children.isEmpty = true
    · -- a leaf, possibly with one optional
      simp only [hce, if_true] at hkind
      have hrp := one_opt_test .aligned segs path hin hcnt
      rw [optSeq_aligned segs.gen hwf hcnt path] at hrp
      have hgm := gmatchO_eq_expansions segs.gen hwf hcnt hkind path
      simp only [matchNested, Route.gen, hce, if_true, List.flatMap_cons, List.flatMap_nil, List.append_nil]
      rw [← hgm]
      unfold gmatchO
      cases hT : segs.test .aligned path with
      | panic => rw [hT] at hrp; cases hsp : optSeqSpec segs.gen path <;> simp [hsp, Out.rp, ofOpt] at hrp
      | none =>
        rw [hT] at hrp
        cases hsp : optSeqSpec segs.gen path with
        | some x => simp [hsp, Out.rp, ofOpt] at hrp
        | none => simp [nres]
      | some pm =>
        rw [hT] at hrp
        cases hsp : optSeqSpec segs.gen path with
        | none => simp [hsp, Out.rp, ofOpt] at hrp
        | some x =>
          obtain ⟨r, ps⟩ := x
          simp [hsp, Out.rp, ofOpt] at hrp
          simp only
          unfold finish
          rw [hrp.1, hrp.2]
          by_cases hcomp : complete r = true <;> simp [hcomp, nres]
    · -- a route with children: no optional of its own
      simp only [hce, Bool.false_eq_true, if_false, Bool.and_eq_true, Bool.not_eq_true'] at hkind
      obtain ⟨hopt, hnsp⟩ := hkind
      have hwfa : ∀ f ∈ segs.gen, WfA f := fun f hf => wfa_of_wfao (hwf f hf) (gen_noOpt segs hopt f hf)
      have hflat := flatten_test .aligned segs path hopt
      have hseq := seq_aligned segs.gen hwfa path
      simp only [matchNested, Route.gen, hflat, hce, Bool.false_eq_true, if_false,
        flatMap_prefixAll segs.gen (countOptF_of_noopt segs hopt), firstG_prefix,
        firstG_genList1 children 0]
      cases hT : seqTest .aligned segs.gen path with
      | panic => rw [hT] at hseq; cases hsp : seqSpec segs.gen path <;> simp [hsp, Out.rp, ofOpt] at hseq
      | none =>
        rw [hT] at hseq
        cases hsp : seqSpec segs.gen path with
        | some x => simp [hsp, Out.rp, ofOpt] at hseq
        | none => simp [nres]
      | some pm =>
        rw [hT] at hseq
        cases hsp : seqSpec segs.gen path with
        | none => simp [hsp, Out.rp, ofOpt] at hseq
        | some x =>
          obtain ⟨r, ps⟩ := x
          simp [hsp, Out.rp, ofOpt] at hseq
          obtain ⟨hr, hps⟩ := hseq
          simp only
          have ihc := children_aligned1 children hch 0 pm.remaining
          rw [hr] at ihc ⊢
          cases hmc : matchChildren .aligned children 0 r with
          | panic => rw [hmc] at ihc; cases hfd : firstDef1 children 0 r <;> simp [hfd, nres] at ihc
          | none =>
            rw [hmc] at ihc
            cases hfd : firstDef1 children 0 r with
            | some y => simp [hfd, nres] at ihc
            | none => simp [hopt, nres]
          | some inner rem =>
            rw [hmc] at ihc
            have hcomp := children_rem_complete .aligned children 0 r inner rem hmc
            cases hfd : firstDef1 children 0 r with
            | none => simp [hfd, nres] at ihc
            | some y =>
              obtain ⟨j, ps'⟩ := y
              simp [hfd, nres] at ihc
              simp only
              rw [finish_nres _ _ _ _ _ hcomp]
              simp [hps, ihc.2]
theorem children_aligned1 : ∀ (cs : List Route), stage1List cs = true → ∀ (i : Nat) (path : Path),
    nres (matchChildren .aligned cs i path) =
      match firstDef1 cs i path with
      | some (j, ps) => .some (some j, ps)
      | none => .none
  | [], _, i, path => by simp [matchChildren, firstDef1, nres]
  | c :: cs, hg, i, path => by
    simp only [stage1List, Bool.and_eq_true] at hg
    have ih := nested_aligned1 c hg.1 i path
    simp only [matchChildren, firstDef1]
    cases hm : matchNested .aligned c i path with
    | panic => rw [hm] at ih; cases hf : firstG (c.gen.flatMap expandSpec) path <;> simp [hf, nres] at ih
    | some m rem =>
      rw [hm] at ih
      cases hf : firstG (c.gen.flatMap expandSpec) path with
      | none => simp [hf, nres] at ih
      | some ps => simp [hf, nres] at ih; simp [nres, ih]
    | none =>
      rw [hm] at ih
      cases hf : firstG (c.gen.flatMap expandSpec) path with
      | some ps => simp [hf, nres] at ih
      | none => simp only; exact children_aligned1 cs hg.2 (i + 1) path
end



/-! ## the table level, for any per-definition list of registered routes `E t` -/

theorem firstDefT_gen (E : Route → List (List FSeg)) (FD : List Route → Nat → Path → Option (Nat × Params))
    (hFD0 : ∀ i p, FD [] i p = none)
    (hFD : ∀ c cs i p, FD (c :: cs) i p = match firstG (E c) p with | some ps => some (i, ps) | none => FD cs (i + 1) p)
    (b : Option Path) (hb : baseOk b = true) (path : Path) (hp : startsSlash path = true) :
    ∀ (tops : List Route) (i : Nat),
      firstDefT (tops.map fun t => prefixAll (normBase b) (E t)) i path =
        match stripBase .aligned b path with
        | none => none
        | some p => FD tops i p := by
  intro tops
  induction tops with
  | nil => intro i; simp only [List.map_nil, firstDefT, hFD0]; cases stripBase .aligned b path <;> rfl
  | cons c cs ih =>
    intro i
    simp only [List.map_cons, firstDefT, hFD, firstG_prefix, stripBase_aligned b hb path hp, ih]
    cases stripBase .aligned b path with
    | none => simp
    | some p =>
      simp only [Option.map_some]
      cases firstG (E c) p <;> simp

theorem table_first_gen (E : Route → List (List FSeg)) (b : Option Path) (hb : baseOk b = true) (t' : Path) :
    ∀ (tops : List Route) (i0 i : Nat) (ps : Params),
      (∀ t ∈ tops, ∀ X ∈ prefixAll (normBase b) (E t), FlatOk X) →
      firstDefT (tops.map fun t => prefixAll (normBase b) (E t)) i0 ('/' :: t') = some (i, ps) →
      i0 ≤ i ∧
      (∃ t : Route, (tops.map fun t => (E t).map (withBase b))[i - i0]? = some ((E t).map (withBase b)) ∧
        ps ∈ lenientParams ((E t).map (withBase b)) ('/' :: t')) ∧
      (∀ j, firstStrict (tops.map fun t => (E t).map (withBase b)) ('/' :: t') i0 = some j → ¬ j < i) := by
  intro tops
  induction tops with
  | nil => intro i0 i ps _ h; simp [firstDefT] at h
  | cons c cs ih =>
    intro i0 i ps hok h
    simp only [List.map_cons, firstDefT] at h
    cases hg : firstG (prefixAll (normBase b) (E c)) ('/' :: t') with
    | some q =>
      rw [hg] at h; simp at h
      obtain ⟨rfl, rfl⟩ := h
      refine ⟨Nat.le_refl _, ⟨c, by simp, ?_⟩, ?_⟩
      · rw [lenientParams_base b hb]
        exact firstG_imp_lenient _ (hok c (by simp)) t' q hg
      · intro j hj
        have := firstStrict_ge _ _ _ _ hj
        omega
    | none =>
      rw [hg] at h; simp only at h
      obtain ⟨h1, ⟨t, h2, h3⟩, h4⟩ := ih (i0 + 1) i ps (fun t ht => hok t (by simp [ht])) h
      refine ⟨by omega, ⟨t, ?_, h3⟩, ?_⟩
      · have : i - i0 = (i - (i0 + 1)) + 1 := by omega
        rw [this]
        simpa using h2
      · intro j hj
        simp only [List.map_cons, firstStrict] at hj
        have hns : anyStrict ((E c).map (withBase b)) ('/' :: t') = false := by
          rw [anyStrict_base b hb]
          cases hs : anyStrict (prefixAll (normBase b) (E c)) ('/' :: t') with
          | false => rfl
          | true =>
            obtain ⟨q, hq⟩ := anyStrict_imp_firstG _ (hok c (by simp)) _ hs
            rw [hg] at hq; simp at hq
        rw [hns] at hj
        simp only [Bool.false_eq_true, if_false] at hj
        exact h4 j hj

theorem table_none_gen (E : Route → List (List FSeg)) (b : Option Path) (hb : baseOk b = true) (path : Path) :
    ∀ (tops : List Route) (i0 : Nat),
      (∀ t ∈ tops, ∀ X ∈ prefixAll (normBase b) (E t), FlatOk X) →
      firstDefT (tops.map fun t => prefixAll (normBase b) (E t)) i0 path = none →
      firstStrict (tops.map fun t => (E t).map (withBase b)) path i0 = none := by
  intro tops
  induction tops with
  | nil => intro i0 _ _; rfl
  | cons c cs ih =>
    intro i0 hok h
    simp only [List.map_cons, firstDefT] at h
    cases hg : firstG (prefixAll (normBase b) (E c)) path with
    | some q => rw [hg] at h; simp at h
    | none =>
      rw [hg] at h; simp only at h
      have hns : anyStrict ((E c).map (withBase b)) path = false := by
        rw [anyStrict_base b hb]
        cases hs : anyStrict (prefixAll (normBase b) (E c)) path with
        | false => rfl
        | true =>
          obtain ⟨q, hq⟩ := anyStrict_imp_firstG _ (hok c (by simp)) _ hs
          rw [hg] at hq; simp at hq
      simp only [List.map_cons, firstStrict, hns, Bool.false_eq_true, if_false]
      exact ih (i0 + 1) (fun t ht => hok t (by simp [ht])) h

/-- the oracle accepts an outcome that is "the first definition whose registered routes `E t` accept" -/
theorem judge_of_table (E : Route → List (List FSeg)) (d : Defs) (hb : baseOk d.base = true) (t' : Path)
    (hok : ∀ t ∈ d.tops, ∀ X ∈ prefixAll (normBase d.base) (E t), FlatOk X)
    (hper : expandedPerDef d = d.tops.map fun t => (E t).map (withBase d.base))
    (got : Out NMatch)
    (hr : mres got =
      match firstDefT (d.tops.map fun t => prefixAll (normBase d.base) (E t)) 0 ('/' :: t') with
      | some (i, ps) => .some (some i, ps)
      | none => .none) :
    judge d ('/' :: t') got = none := by
  unfold judge
  rw [hper]
  cases hfd : firstDefT (d.tops.map fun t => prefixAll (normBase d.base) (E t)) 0 ('/' :: t') with
  | none =>
    rw [hfd] at hr
    have hfs := table_none_gen E d.base hb ('/' :: t') d.tops 0 hok hfd
    cases got with
    | panic => simp [mres] at hr
    | some m => simp [mres] at hr
    | none => simp [hfs]
  | some x =>
    obtain ⟨i, ps⟩ := x
    rw [hfd] at hr
    obtain ⟨_, ⟨t, ht1, ht2⟩, hfirst⟩ := table_first_gen E d.base hb t' d.tops 0 i ps hok hfd
    cases got with
    | panic => simp [mres] at hr
    | none => simp [mres] at hr
    | some m =>
      simp only [mres, Out.some.injEq, Prod.mk.injEq] at hr
      obtain ⟨hhead, hparams⟩ := hr
      cases hch : m.chain with
      | nil => rw [hch] at hhead; simp at hhead
      | cons e rest =>
        obtain ⟨i', x⟩ := e
        rw [hch] at hhead
        simp at hhead
        subst hhead
        simp only [Nat.sub_zero] at ht1
        have ht1' : Option.map (fun t : Route => (E t).map (withBase d.base)) d.tops[i']? =
            some ((E t).map (withBase d.base)) := by simpa [List.getElem?_map] using ht1
        have hne' : lenientParams ((E t).map (withBase d.base)) ('/' :: t') ≠ [] := by
          intro hl; rw [hl] at ht2; simp at ht2
        have hmem : m.params ∈ lenientParams ((E t).map (withBase d.base)) ('/' :: t') := by
          rw [hparams]; exact ht2
        cases hsf : firstStrict (d.tops.map fun t => (E t).map (withBase d.base)) ('/' :: t') 0 with
        | none => simp [hch, ht1', hne', hmem, hsf]
        | some j =>
          have := hfirst j hsf
          simp [hch, ht1', hne', hmem, hsf, this]



/-- the registered (expanded) routes of one definition, without the base -/
def regRoutes (t : Route) : List (List FSeg) := t.gen.flatMap expandSpec

theorem expandSpec_withBase (b : Option Path) (F : List FSeg) :
    expandSpec (withBase b F) = (expandSpec F).map (withBase b) := by
  cases b with
  | none =>
    have : withBase none = id := by funext x; rfl
    simp [this]
  | some b =>
    have : withBase (some b) = (FSeg.st b :: ·) := by funext x; rfl
    simp [this, withBase, expandSpec]

theorem expandedPerDef_eq1 (d : Defs) :
    expandedPerDef d = d.tops.map fun t => (regRoutes t).map (withBase d.base) := by
  unfold expandedPerDef regRoutes
  apply List.map_congr_left
  intro t _
  induction t.gen with
  | nil => rfl
  | cons F Fs ih =>
    simp only [List.map_cons, List.flatMap_cons, List.map_append, ih, expandOptionals_eq_spec, expandSpec_withBase]

theorem expand_flatok : ∀ (F : List FSeg), (∀ f ∈ F, WfAO f) → splatLast F = true →
    ∀ G ∈ expandSpec F, FlatOk G := by
  intro F
  induction F with
  | nil => intro _ _ G hG; simp [expandSpec] at hG; subst hG; exact ⟨by simp, rfl⟩
  | cons f F ih =>
    intro hw hsl G hG
    have hw' : ∀ g ∈ F, WfAO g := fun x hx => hw x (by simp [hx])
    have hsl' := splatLast_tail f F hsl
    have ih' := ih hw' hsl'
    have consOk : ∀ (g : FSeg) (G' : List FSeg), WfA g → (∀ n, g ≠ .splat n) → FlatOk G' → FlatOk (g :: G') := by
      intro g G' hg hns hG'
      refine ⟨fun x hx => ?_, ?_⟩
      · simp only [List.mem_cons] at hx
        rcases hx with rfl | hx
        · exact hg
        · exact hG'.1 x hx
      · cases G' with
        | nil => rfl
        | cons a b =>
          cases g with
          | splat n => exact absurd rfl (hns n)
          | st s => simpa [splatLast] using hG'.2
          | param s => simpa [splatLast] using hG'.2
          | opt s => simpa [splatLast] using hG'.2
    cases f with
    | opt n =>
      simp only [expandSpec, List.mem_append, List.mem_map] at hG
      have hn : Plain n := hw (.opt n) (by simp)
      rcases hG with ⟨G', hG', rfl⟩ | hG
      · exact consOk (.param n) G' hn (by simp) (ih' G' hG')
      · exact ih' G hG
    | st s =>
      simp only [expandSpec, List.mem_map] at hG
      obtain ⟨G', hG', rfl⟩ := hG
      exact consOk (.st s) G' (hw (.st s) (by simp)) (by simp) (ih' G' hG')
    | param s =>
      simp only [expandSpec, List.mem_map] at hG
      obtain ⟨G', hG', rfl⟩ := hG
      exact consOk (.param s) G' (hw (.param s) (by simp)) (by simp) (ih' G' hG')
    | splat s =>
      have hF : F = [] := by
        cases F with
        | nil => rfl
        | cons g G => simp [splatLast] at hsl
      subst hF
      simp [expandSpec] at hG
      subst hG
      exact ⟨fun x hx => by simp at hx; subst hx; exact hw (.splat s) (by simp), rfl⟩

mutual
theorem flats_wfao : ∀ (r : Route), r.stage1 = true → ∀ F ∈ r.gen, (∀ f ∈ F, WfAO f) ∧ splatLast F = true
  | .mk segs children, hg, F, hF => by
    simp only [Route.stage1, Bool.and_eq_true, Bool.not_eq_true', List.all_eq_true, decide_eq_true_eq] at hg
    obtain ⟨⟨⟨⟨hwf, _⟩, _⟩, hkind⟩, hch⟩ := hg
    simp only [Route.gen] at hF
    by_cases hce : children.isEmpty = true
    · simp only [hce, if_true, List.mem_singleton] at hF hkind
      subst hF
      exact ⟨hwf, hkind⟩
    · simp only [hce, Bool.false_eq_true, if_false, Bool.and_eq_true, Bool.not_eq_true'] at hF hkind
      obtain ⟨G, hG, rfl⟩ := mem_prefixAll _ _ _ hF
      have hGok := flatsList_wfao children hch G hG
      refine ⟨?_, splatLast_append _ _ hkind.2 hGok.2⟩
      intro f hf
      simp only [List.mem_append] at hf
      rcases hf with hf | hf
      · exact hwf f hf
      · exact hGok.1 f hf
theorem flatsList_wfao : ∀ (cs : List Route), stage1List cs = true →
    ∀ F ∈ genList cs, (∀ f ∈ F, WfAO f) ∧ splatLast F = true
  | [], _, F, hF => by simp [genList] at hF
  | c :: cs, hg, F, hF => by
    simp only [stage1List, Bool.and_eq_true] at hg
    simp only [genList, List.mem_append] at hF
    rcases hF with hF | hF
    · exact flats_wfao c hg.1 F hF
    · exact flatsList_wfao cs hg.2 F hF
end

theorem stage1List_mem : ∀ (cs : List Route) (t : Route), stage1List cs = true → t ∈ cs → t.stage1 = true := by
  intro cs
  induction cs with
  | nil => intro t _ h; simp at h
  | cons c cs ih =>
    intro t hg h
    simp only [stage1List, Bool.and_eq_true] at hg
    simp only [List.mem_cons] at h
    rcases h with rfl | h
    · exact hg.1
    · exact ih t hg.2 h

theorem regRoutes_ok (b : Option Path) (hb : baseOk b = true) (t : Route) (ht : t.stage1 = true) :
    ∀ X ∈ prefixAll (normBase b) (regRoutes t), FlatOk X := by
  intro X hX
  obtain ⟨G, hG, rfl⟩ := mem_prefixAll _ _ _ hX
  simp only [regRoutes, List.mem_flatMap] at hG
  obtain ⟨F, hF, hGF⟩ := hG
  have hFok := flats_wfao t ht F hF
  have hGok := expand_flatok F hFok.1 hFok.2 G hGF
  refine ⟨?_, splatLast_append _ _ (normBase_noSplat b) hGok.2⟩
  intro f hf
  simp only [List.mem_append] at hf
  rcases hf with hf | hf
  · exact normBase_ok b hb f hf
  · exact hGok.1 f hf

-- the hypotheses of stage 1, as the negations of the known-finding class predicates
mutual
theorem stage1_of_classes : ∀ (r : Route), r.wf = true → r.hasOptWithChildren = false → r.hasMultiOpt = false →
    r.hasInnerOptTuple = false → r.stage1 = true
  | .mk segs children, hw, h1, h2, h3 => by
    simp only [Route.wf, Bool.and_eq_true, List.all_eq_true, decide_eq_true_eq] at hw
    simp only [Route.hasOptWithChildren, Bool.or_eq_false_iff, Bool.and_eq_false_iff, Bool.not_eq_false'] at h1
    simp only [Route.hasMultiOpt, Bool.or_eq_false_iff, decide_eq_false_iff_not] at h2
    simp only [Route.hasInnerOptTuple, Bool.or_eq_false_iff] at h3
    simp only [Route.stage1, Bool.and_eq_true, Bool.not_eq_true', List.all_eq_true, decide_eq_true_eq]
    refine ⟨⟨⟨⟨hw.1.1, h3.1⟩, by omega⟩, ?_⟩, stage1List_of_classes children hw.2 h1.2 h2.2 h3.2⟩
    by_cases hce : children.isEmpty = true
    · simpa [hce] using hw.1.2
    · have hopt : segs.optional = false := by
        rcases h1.1 with h | h
        · exact absurd h hce
        · exact h
      simp only [hce, Bool.false_eq_true, if_false, Bool.and_eq_true, Bool.not_eq_true']
      exact ⟨hopt, by simpa [hce] using hw.1.2⟩
theorem stage1List_of_classes : ∀ (cs : List Route), wfList cs = true → anyOptWithChildren cs = false →
    anyMultiOpt cs = false → anyInnerOptTuple cs = false → stage1List cs = true
  | [], _, _, _, _ => rfl
  | c :: cs, hw, h1, h2, h3 => by
    simp only [wfList, Bool.and_eq_true] at hw
    simp only [anyOptWithChildren, Bool.or_eq_false_iff] at h1
    simp only [anyMultiOpt, Bool.or_eq_false_iff] at h2
    simp only [anyInnerOptTuple, Bool.or_eq_false_iff] at h3
    simp only [stage1List, Bool.and_eq_true]
    exact ⟨stage1_of_classes c hw.1 h1.1 h2.1 h3.1, stage1List_of_classes cs hw.2 h1.2 h2.2 h3.2⟩
end

/-- the aligned router on a stage-1 table: the first definition one of whose registered (expanded)
routes accepts the path, with that route's params; never a panic -/
theorem route_aligned1 (d : Defs) (hb : baseOk d.base = true) (hs : stage1List d.tops = true) (path : Path)
    (hp : startsSlash path = true) :
    mres (matchRoute .aligned d path) =
      match firstDefT (d.tops.map fun t => prefixAll (normBase d.base) (regRoutes t)) 0 path with
      | some (i, ps) => .some (some i, ps)
      | none => .none := by
  unfold matchRoute
  rw [firstDefT_gen regRoutes firstDef1 (fun _ _ => rfl) (fun _ _ _ _ => rfl) d.base hb path hp]
  cases stripBase .aligned d.base path with
  | none => simp [mres]
  | some p =>
    have hc := children_aligned1 d.tops hs 0 p
    simp only
    cases hm : matchChildren .aligned d.tops 0 p with
    | panic => rw [hm] at hc; cases hf : firstDef1 d.tops 0 p <;> simp [hf, nres] at hc
    | none =>
      rw [hm] at hc
      cases hf : firstDef1 d.tops 0 p with
      | some x => simp [hf, nres] at hc
      | none => simp [mres]
    | some m rem =>
      rw [hm] at hc
      have hcomp := children_rem_complete .aligned d.tops 0 p m rem hm
      cases hf : firstDef1 d.tops 0 p with
      | none => simp [hf, nres] at hc
      | some x =>
        obtain ⟨j, ps⟩ := x
        simp [hf, nres] at hc
        simp [hcomp, mres, hc]

/-- **match ⇔ flat with optional params, stage 1**: well-formed tables in which optional params occur
only in leaf routes, at most one per route and not inside an inner tuple — i.e. outside the known-finding
classes `optional-parent`, `optional-backoff-order`, `nested-optional-tuple` (the hypotheses ARE the
negated class predicates the driver uses) — on every request path with `SegmentAligned` (the negation
of `slash-parent`): the router matches iff a registered expansion accepts the path, the winner is the
first such definition, the params are that expansion's, no panic. -/
theorem C14_match_iff_flat_optional_leaves (d : Defs) (path : Path) (hw : d.wf = true)
    (hp : startsSlash path = true) (h1 : anyOptWithChildren d.tops = false) (h2 : anyMultiOpt d.tops = false)
    (h3 : anyInnerOptTuple d.tops = false) (hal : SegmentAligned d path) : Holds d path := by
  simp only [Defs.wf, Bool.and_eq_true, Bool.not_eq_true'] at hw
  obtain ⟨⟨hb, hwl⟩, _⟩ := hw
  have hs := stage1List_of_classes d.tops hwl h1 h2 h3
  unfold Holds
  rw [hal]
  cases path with
  | nil => simp [startsSlash] at hp
  | cons c t' =>
    have hc : c = '/' := by simpa [startsSlash] using hp
    subst hc
    exact judge_of_table regRoutes d hb t'
      (fun t ht => regRoutes_ok d.base hb t (stage1List_mem d.tops t hs ht))
      (expandedPerDef_eq1 d) _ (route_aligned1 d hb hs _ hp)



/-! ## stage 1b: without `"/"` segments the router stays on the segment grid, also with optional leaves -/

theorem test_eq_of_rp (k1 k2 : Ver) (s : Seg) (path : Path)
    (h : (s.test k1 path).rp = (s.test k2 path).rp) : s.test k1 path = s.test k2 path := by
  cases h1 : s.test k1 path with
  | panic => rw [h1] at h; cases h2 : s.test k2 path <;> simp [h2, Out.rp] at h ⊢
  | none => rw [h1] at h; cases h2 : s.test k2 path <;> simp [h2, Out.rp] at h ⊢
  | some m1 =>
    rw [h1] at h
    cases h2 : s.test k2 path with
    | panic => simp [h2, Out.rp] at h
    | none => simp [h2, Out.rp] at h
    | some m2 =>
      simp [h2, Out.rp] at h
      have p1 := test_partition k1 s path m1 h1
      have p2 := test_partition k2 s path m2 h2
      have : m1.matched = m2.matched := by
        rw [← p2, h.1] at p1
        exact List.append_cancel_right p1
      cases m1; cases m2; simp_all

theorem optSpec_aligned (n : List Char) (path r : Path) (ps : Params) (h : optSpec n path = some (r, ps)) :
    Aligned r := by
  cases path with
  | nil => simp [optSpec] at h; exact Or.inl (by rw [← h.1])
  | cons c t =>
    simp only [optSpec] at h
    split at h
    · next hc =>
      subst hc
      split at h
      · simp at h; rw [← h.1]; right; simp [startsSlash]
      · simp at h; rw [← h.1]; exact segTail_aligned t
    · simp at h

theorem optSeq_cur_eq_aligned : ∀ (F : List FSeg), (∀ f ∈ F, WfAO f) → (∀ f ∈ F, notSlash f = true) →
    countOptF F ≤ 1 → ∀ path : Path, Aligned path → optSeqRP .cur F path = optSeqRP .aligned F path := by
  intro F
  induction F with
  | nil => intro _ _ _ path _; rfl
  | cons f F ih =>
    intro hw hns hc path hp
    have hw' : ∀ g ∈ F, WfAO g := fun x hx => hw x (by simp [hx])
    have hns' : ∀ g ∈ F, notSlash g = true := fun x hx => hns x (by simp [hx])
    cases f with
    | opt n =>
      have hF0 : countOptF F = 0 := by simp [countOptF, FSeg.isOpt] at hc; omega
      have hwa := wfa_of_count0 F hw' hF0
      have hoa := opt_aligned n path
      simp only [optSeqRP, atom_cur_eq_aligned (.opt n) path hp, seqRP,
        seq_cur_eq_aligned F hwa hns' path hp]
      cases hT : ((toSeg (.opt n)).test .aligned path).rp with
      | panic => rfl
      | none => rfl
      | some x =>
        obtain ⟨r2, po⟩ := x
        rw [hT] at hoa
        cases hsp : optSpec n path with
        | none => simp [hsp, ofOpt] at hoa
        | some y =>
          simp [hsp, ofOpt] at hoa
          have hal : Aligned r2 := by
            obtain ⟨ry, py⟩ := y
            simp at hoa
            rw [hoa.1]; exact optSpec_aligned n path ry py hsp
          simp only [seq_cur_eq_aligned F hwa hns' r2 hal]
    | st s =>
      have hF : countOptF F ≤ 1 := by simpa [countOptF, FSeg.isOpt] using hc
      have hwa : WfA (.st s) := wfa_of_wfao (hw _ (by simp)) rfl
      have hat := atom_aligned (.st s) hwa path
      simp only [optSeqRP, atom_cur_eq_aligned (.st s) path hp]
      cases hT : ((toSeg (.st s)).test .aligned path).rp with
      | panic => rfl
      | none => rfl
      | some x =>
        obtain ⟨r, ps⟩ := x
        rw [hT] at hat
        cases hsp : atomSpec (.st s) path with
        | none => simp [hsp, ofOpt] at hat
        | some y =>
          obtain ⟨ry, py⟩ := y
          simp [hsp, ofOpt] at hat
          have hal : Aligned r := by rw [hat.1]; exact atomSpec_aligned _ (hns _ (by simp)) path ry py hsp
          simp only [ih hw' hns' hF r hal]
    | param s =>
      have hF : countOptF F ≤ 1 := by simpa [countOptF, FSeg.isOpt] using hc
      have hwa : WfA (.param s) := wfa_of_wfao (hw _ (by simp)) rfl
      have hat := atom_aligned (.param s) hwa path
      simp only [optSeqRP, atom_cur_eq_aligned (.param s) path hp]
      cases hT : ((toSeg (.param s)).test .aligned path).rp with
      | panic => rfl
      | none => rfl
      | some x =>
        obtain ⟨r, ps⟩ := x
        rw [hT] at hat
        cases hsp : atomSpec (.param s) path with
        | none => simp [hsp, ofOpt] at hat
        | some y =>
          obtain ⟨ry, py⟩ := y
          simp [hsp, ofOpt] at hat
          have hal : Aligned r := by rw [hat.1]; exact atomSpec_aligned _ (hns _ (by simp)) path ry py hsp
          simp only [ih hw' hns' hF r hal]
    | splat s =>
      have hF : countOptF F ≤ 1 := by simpa [countOptF, FSeg.isOpt] using hc
      have hwa : WfA (.splat s) := wfa_of_wfao (hw _ (by simp)) rfl
      have hat := atom_aligned (.splat s) hwa path
      simp only [optSeqRP, atom_cur_eq_aligned (.splat s) path hp]
      cases hT : ((toSeg (.splat s)).test .aligned path).rp with
      | panic => rfl
      | none => rfl
      | some x =>
        obtain ⟨r, ps⟩ := x
        rw [hT] at hat
        cases hsp : atomSpec (.splat s) path with
        | none => simp [hsp, ofOpt] at hat
        | some y =>
          obtain ⟨ry, py⟩ := y
          simp [hsp, ofOpt] at hat
          have hal : Aligned r := by rw [hat.1]; exact atomSpec_aligned _ (hns _ (by simp)) path ry py hsp
          simp only [ih hw' hns' hF r hal]

mutual
theorem nested_cur_eq_aligned1 : ∀ (r : Route), r.stage1 = true → r.noSlashSeg = true → ∀ (pos : Nat) (path : Path),
    Aligned path → matchNested .cur r pos path = matchNested .aligned r pos path
  | .mk segs children, hg, hns, pos, path, hp => by
    simp only [Route.stage1, Bool.and_eq_true, Bool.not_eq_true', List.all_eq_true, decide_eq_true_eq] at hg
    obtain ⟨⟨⟨⟨hwf, hin⟩, hcnt⟩, hkind⟩, hch⟩ := hg
    simp only [Route.noSlashSeg, Bool.and_eq_true, List.all_eq_true] at hns
    by_cases hce : children.isEmpty = true
    · have h1 := one_opt_test .cur segs path hin hcnt
      have h2 := one_opt_test .aligned segs path hin hcnt
      have heq := test_eq_of_rp .cur .aligned segs path
        (by rw [h1, h2, optSeq_cur_eq_aligned segs.gen hwf hns.1 hcnt path hp])
      simp only [matchNested, heq, hce, if_true]
    · simp only [hce, Bool.false_eq_true, if_false, Bool.and_eq_true, Bool.not_eq_true'] at hkind
      obtain ⟨hopt, _⟩ := hkind
      have hwfa : ∀ f ∈ segs.gen, WfA f := fun f hf => wfa_of_wfao (hwf f hf) (gen_noOpt segs hopt f hf)
      have hseq := seq_cur_eq_aligned segs.gen hwfa hns.1 path hp
      simp only [matchNested, flatten_test .cur segs path hopt, flatten_test .aligned segs path hopt, hseq]
      cases hT : seqTest .aligned segs.gen path with
      | panic => rfl
      | none => rfl
      | some pm =>
        have hal := seqTest_rem_aligned segs.gen hwfa hns.1 path pm hp hT
        simp only [children_cur_eq_aligned1 children hch hns.2 0 pm.remaining hal, hopt]
        rfl
theorem children_cur_eq_aligned1 : ∀ (cs : List Route), stage1List cs = true → noSlashSegList cs = true →
    ∀ (i : Nat) (path : Path), Aligned path → matchChildren .cur cs i path = matchChildren .aligned cs i path
  | [], _, _, i, path, _ => by simp [matchChildren]
  | c :: cs, hg, hns, i, path, hp => by
    simp only [stage1List, Bool.and_eq_true] at hg
    simp only [noSlashSegList, Bool.and_eq_true] at hns
    simp only [matchChildren, nested_cur_eq_aligned1 c hg.1 hns.1 i path hp,
      children_cur_eq_aligned1 cs hg.2 hns.2 (i + 1) path hp]
end

/-- no `"/"` segment and outside the optional classes ⇒ always aligned -/
theorem C14_aligned_without_slash_segments_opt (d : Defs) (hw : d.wf = true) (h1 : anyOptWithChildren d.tops = false)
    (h2 : anyMultiOpt d.tops = false) (h3 : anyInnerOptTuple d.tops = false)
    (hns : noSlashSegList d.tops = true) (path : Path) (hp : startsSlash path = true) :
    SegmentAligned d path := by
  simp only [Defs.wf, Bool.and_eq_true, Bool.not_eq_true'] at hw
  obtain ⟨⟨hb, hwl⟩, _⟩ := hw
  have hs := stage1List_of_classes d.tops hwl h1 h2 h3
  unfold SegmentAligned matchRoute
  rw [stripBase_cur_eq_aligned d.base hb path hp]
  cases hsb : stripBase .aligned d.base path with
  | none => rfl
  | some p =>
    have hal := stripBase_aligned_rem d.base path p hp hsb
    simp only [children_cur_eq_aligned1 d.tops hs hns 0 p hal]

/-- **match ⇔ flat, tables with optional leaves and without `"/"` segments — unconditional in the path**:
outside the three optional classes and without a `"/"` static segment in the table, the property holds
on every request path. -/
theorem C14_match_iff_flat_optional_leaves_no_slash (d : Defs) (path : Path) (hw : d.wf = true)
    (hp : startsSlash path = true) (h1 : anyOptWithChildren d.tops = false) (h2 : anyMultiOpt d.tops = false)
    (h3 : anyInnerOptTuple d.tops = false) (hns : noSlashSegList d.tops = true) : Holds d path :=
  C14_match_iff_flat_optional_leaves d path hw hp h1 h2 h3
    (C14_aligned_without_slash_segments_opt d hw h1 h2 h3 hns path hp)

/-- **every failure is in a known-finding class**: a well-formed table and a request path on which the
property fails has an optional param in a route with children, or two optionals in one route, or an
optional inside an inner tuple, or — a `"/"` static segment in the table and a path on which the router
leaves the segment grid.  These are the predicates `classify` files failures under. -/
theorem C14_failure_in_known_class (d : Defs) (path : Path) (hw : d.wf = true) (hp : startsSlash path = true)
    (hfail : ¬ Holds d path) :
    anyOptWithChildren d.tops = true ∨ anyMultiOpt d.tops = true ∨ anyInnerOptTuple d.tops = true ∨
      (noSlashSegList d.tops = false ∧ ¬ SegmentAligned d path) := by
  cases h1 : anyOptWithChildren d.tops with
  | true => exact Or.inl rfl
  | false =>
    cases h2 : anyMultiOpt d.tops with
    | true => exact Or.inr (Or.inl rfl)
    | false =>
      cases h3 : anyInnerOptTuple d.tops with
      | true => exact Or.inr (Or.inr (Or.inl rfl))
      | false =>
        refine Or.inr (Or.inr (Or.inr ⟨?_, ?_⟩))
        · cases hns : noSlashSegList d.tops with
          | false => rfl
          | true => exact absurd (C14_match_iff_flat_optional_leaves_no_slash d path hw hp h1 h2 h3 hns) hfail
        · intro hal
          exact hfail (C14_match_iff_flat_optional_leaves d path hw hp h1 h2 h3 hal)



/-- the class `classify` files a failure under is backed by the predicate of that name — the same
predicates whose negations are the hypotheses of `C14_match_iff_flat_optional_leaves` -/
theorem C14_classify_sound (d : Defs) (path : Path) (k : Kind) :
    (classify d path k = .slashParent → noSlashSegList d.tops = false ∧ ¬ SegmentAligned d path) ∧
    (classify d path k = .optionalParent → anyOptParent d.tops = true) ∧
    (classify d path k = .optionalBackoffOrder → anySplitOpt d.tops = true) ∧
    (classify d path k = .nestedOptionalTuple → anyInnerOptTuple d.tops = true) := by
  by_cases ha : SegmentAligned d path <;>
  cases hs : noSlashSegList d.tops <;> cases hp : anyOptParent d.tops <;>
  cases hm : anySplitOpt d.tops <;> cases hi : anyInnerOptTuple d.tops <;>
  cases k <;> simp [classify, ha, hs, hp, hm, hi]



/-! # stage 2: a parent that consists of one optional param -/

/-! ## the table level again, with the router's order `E` and the table's order `E'` of one definition's routes -/

theorem anyStrict_mem (Gs : List (List FSeg)) (path : Path) :
    anyStrict Gs path = true ↔ ∃ G ∈ Gs, (flatMatchStrict G path).isSome = true := by
  simp [anyStrict, List.any_eq_true]

theorem anyStrict_congr (Gs Hs : List (List FSeg)) (path : Path) (h : ∀ G, G ∈ Gs ↔ G ∈ Hs) :
    anyStrict Gs path = anyStrict Hs path := by
  cases h1 : anyStrict Gs path with
  | true =>
    obtain ⟨G, hG, hs⟩ := (anyStrict_mem Gs path).1 h1
    exact ((anyStrict_mem Hs path).2 ⟨G, (h G).1 hG, hs⟩).symm
  | false =>
    cases h2 : anyStrict Hs path with
    | false => rfl
    | true =>
      obtain ⟨G, hG, hs⟩ := (anyStrict_mem Hs path).1 h2
      have := (anyStrict_mem Gs path).2 ⟨G, (h G).2 hG, hs⟩
      rw [h1] at this; simp at this

theorem lenientParams_mem (Gs : List (List FSeg)) (path : Path) (q : Params) :
    q ∈ lenientParams Gs path ↔ ∃ G ∈ Gs, flatMatchStrict G path = some q ∨ flatMatchTrim G path = some q := by
  simp only [lenientParams, List.mem_flatMap, List.mem_append, Option.mem_toList]

theorem mem_map_congr {α β : Type} (f : α → β) (A B : List α) (h : ∀ x, x ∈ A ↔ x ∈ B) :
    ∀ y, y ∈ A.map f ↔ y ∈ B.map f := by
  intro y
  simp only [List.mem_map]
  constructor
  · rintro ⟨x, hx, rfl⟩; exact ⟨x, (h x).1 hx, rfl⟩
  · rintro ⟨x, hx, rfl⟩; exact ⟨x, (h x).2 hx, rfl⟩

theorem firstStrict_map_congr (f g : Route → List (List FSeg)) (path : Path) :
    ∀ (tops : List Route) (i : Nat), (∀ t ∈ tops, anyStrict (f t) path = anyStrict (g t) path) →
      firstStrict (tops.map f) path i = firstStrict (tops.map g) path i := by
  intro tops
  induction tops with
  | nil => intro i _; rfl
  | cons c cs ih =>
    intro i h
    simp only [List.map_cons, firstStrict, h c (by simp), ih (i + 1) (fun t ht => h t (by simp [ht]))]

/-- like `table_first_gen`, returning the definition itself -/
theorem table_first2 (E : Route → List (List FSeg)) (b : Option Path) (hb : baseOk b = true) (t' : Path) :
    ∀ (tops : List Route) (i0 i : Nat) (ps : Params),
      (∀ t ∈ tops, ∀ X ∈ prefixAll (normBase b) (E t), FlatOk X) →
      firstDefT (tops.map fun t => prefixAll (normBase b) (E t)) i0 ('/' :: t') = some (i, ps) →
      i0 ≤ i ∧
      (∃ t : Route, tops[i - i0]? = some t ∧ ps ∈ lenientParams ((E t).map (withBase b)) ('/' :: t')) ∧
      (∀ j, firstStrict (tops.map fun t => (E t).map (withBase b)) ('/' :: t') i0 = some j → ¬ j < i) := by
  intro tops
  induction tops with
  | nil => intro i0 i ps _ h; simp [firstDefT] at h
  | cons c cs ih =>
    intro i0 i ps hok h
    simp only [List.map_cons, firstDefT] at h
    cases hg : firstG (prefixAll (normBase b) (E c)) ('/' :: t') with
    | some q =>
      rw [hg] at h; simp at h
      obtain ⟨rfl, rfl⟩ := h
      refine ⟨Nat.le_refl _, ⟨c, by simp, ?_⟩, ?_⟩
      · rw [lenientParams_base b hb]
        exact firstG_imp_lenient _ (hok c (by simp)) t' q hg
      · intro j hj
        have := firstStrict_ge _ _ _ _ hj
        omega
    | none =>
      rw [hg] at h; simp only at h
      obtain ⟨h1, ⟨t, h2, h3⟩, h4⟩ := ih (i0 + 1) i ps (fun t ht => hok t (by simp [ht])) h
      refine ⟨by omega, ⟨t, ?_, h3⟩, ?_⟩
      · have : i - i0 = (i - (i0 + 1)) + 1 := by omega
        rw [this]
        simpa using h2
      · intro j hj
        simp only [List.map_cons, firstStrict] at hj
        have hns : anyStrict ((E c).map (withBase b)) ('/' :: t') = false := by
          rw [anyStrict_base b hb]
          cases hs : anyStrict (prefixAll (normBase b) (E c)) ('/' :: t') with
          | false => rfl
          | true =>
            obtain ⟨q, hq⟩ := anyStrict_imp_firstG _ (hok c (by simp)) _ hs
            rw [hg] at hq; simp at hq
        rw [hns] at hj
        simp only [Bool.false_eq_true, if_false] at hj
        exact h4 j hj

/-- the oracle accepts an outcome that is "the first definition one of whose routes `E t` (in the router's
order) accepts", when the table registers the same routes `E' t` (in any order) -/
theorem judge_of_table2 (E E' : Route → List (List FSeg)) (d : Defs) (hb : baseOk d.base = true) (t' : Path)
    (hmem : ∀ t ∈ d.tops, ∀ G, G ∈ E t ↔ G ∈ E' t)
    (hok : ∀ t ∈ d.tops, ∀ X ∈ prefixAll (normBase d.base) (E t), FlatOk X)
    (hper : expandedPerDef d = d.tops.map fun t => (E' t).map (withBase d.base))
    (got : Out NMatch)
    (hr : mres got =
      match firstDefT (d.tops.map fun t => prefixAll (normBase d.base) (E t)) 0 ('/' :: t') with
      | some (i, ps) => .some (some i, ps)
      | none => .none) :
    judge d ('/' :: t') got = none := by
  have hany : ∀ t ∈ d.tops, anyStrict ((E t).map (withBase d.base)) ('/' :: t') =
      anyStrict ((E' t).map (withBase d.base)) ('/' :: t') := fun t ht =>
    anyStrict_congr _ _ _ (mem_map_congr _ _ _ (hmem t ht))
  have hfsc := firstStrict_map_congr (fun t => (E t).map (withBase d.base))
    (fun t => (E' t).map (withBase d.base)) ('/' :: t') d.tops 0 hany
  unfold judge
  rw [hper]
  simp only []
  rw [← hfsc]
  cases hfd : firstDefT (d.tops.map fun t => prefixAll (normBase d.base) (E t)) 0 ('/' :: t') with
  | none =>
    rw [hfd] at hr
    have hfs := table_none_gen E d.base hb ('/' :: t') d.tops 0 hok hfd
    cases got with
    | panic => simp [mres] at hr
    | some m => simp [mres] at hr
    | none => simp [hfs]
  | some x =>
    obtain ⟨i, ps⟩ := x
    rw [hfd] at hr
    obtain ⟨_, ⟨t, ht1, ht2⟩, hfirst⟩ := table_first2 E d.base hb t' d.tops 0 i ps hok hfd
    cases got with
    | panic => simp [mres] at hr
    | none => simp [mres] at hr
    | some m =>
      simp only [mres, Out.some.injEq, Prod.mk.injEq] at hr
      obtain ⟨hhead, hparams⟩ := hr
      cases hch : m.chain with
      | nil => rw [hch] at hhead; simp at hhead
      | cons e rest =>
        obtain ⟨i', x⟩ := e
        rw [hch] at hhead
        simp at hhead
        subst hhead
        simp only [Nat.sub_zero] at ht1
        have htmem : t ∈ d.tops := List.mem_of_getElem? ht1
        have ht1' : Option.map (fun t : Route => (E' t).map (withBase d.base)) d.tops[i']? =
            some ((E' t).map (withBase d.base)) := by simp [ht1]
        have hmem2 : m.params ∈ lenientParams ((E' t).map (withBase d.base)) ('/' :: t') := by
          rw [hparams]
          obtain ⟨G, hG, hq⟩ := (lenientParams_mem _ _ _).1 ht2
          exact (lenientParams_mem _ _ _).2 ⟨G, (mem_map_congr _ _ _ (hmem t htmem) G).1 hG, hq⟩
        have hne' : lenientParams ((E' t).map (withBase d.base)) ('/' :: t') ≠ [] := by
          intro hl; rw [hl] at hmem2; simp at hmem2
        cases hsf : firstStrict (d.tops.map fun t => (E t).map (withBase d.base)) ('/' :: t') 0 with
        | none => simp [hch, ht1', hne', hmem2, hsf]
        | some j =>
          have := hfirst j hsf
          simp [hch, ht1', hne', hmem2, hsf, this]



mutual
/-- the registered routes of a subtree in the order the router tries them: below a parent that is one
optional param, first all children with the param taken, then all children without it -/
def Route.ro : Route → List (List FSeg)
  | .mk segs children =>
    if children.isEmpty then expandSpec segs.gen
    else
      match segs.gen with
      | [.opt n] => prefixAll [.param n] (roList children) ++ roList children
      | g => prefixAll g (roList children)
def roList : List Route → List (List FSeg)
  | [] => []
  | c :: cs => c.ro ++ roList cs
end

def isPureOpt : List FSeg → Bool
  | [.opt _] => true
  | _ => false

mutual
/-- the hypotheses of stage 2 on a route: as stage 1, but a route with children may also consist of one
optional param -/
def Route.stage2 : Route → Bool
  | .mk segs children =>
    segs.gen.all (fun f => decide (WfAO f)) && !segs.innerOptTuple && decide (countOptF segs.gen ≤ 1) &&
    (if children.isEmpty then splatLast segs.gen
     else ((!segs.optional && noSplat segs.gen) || isPureOpt segs.gen)) && stage2List children
def stage2List : List Route → Bool
  | [] => true
  | c :: cs => c.stage2 && stage2List cs
end

def firstDef2 : List Route → Nat → Path → Option (Nat × Params)
  | [], _, _ => none
  | c :: cs, i, path =>
    match firstG c.ro path with
    | some ps => some (i, ps)
    | none => firstDef2 cs (i + 1) path

theorem firstG_roList (cs : List Route) (i : Nat) (path : Path) :
    firstG (roList cs) path = (firstDef2 cs i path).map (·.2) := by
  induction cs generalizing i with
  | nil => rfl
  | cons c cs ih =>
    simp only [roList, firstG_append, firstDef2]
    cases firstG c.ro path with
    | some ps => rfl
    | none => exact ih (i + 1)

theorem firstG_unaligned (Gs : List (List FSeg)) (r : Path) (h1 : r ≠ []) (h2 : startsSlash r = false) :
    firstG Gs r = none := by
  induction Gs with
  | nil => rfl
  | cons G Gs ih => simp [firstG, gmatch_unaligned G r h1 h2, ih]

theorem optSeqSpec_single (n : List Char) (path : Path) :
    optSeqSpec [.opt n] path = optSpec n path := by
  simp only [optSeqSpec, seqSpec]
  cases optSpec n path with
  | none => rfl
  | some x => obtain ⟨r, ps⟩ := x; simp

/-- an optional and the param it expands to, on the same path -/
theorem optSpec_param (n : List Char) (path r2 : Path) (po : Params) (h : optSpec n path = some (r2, po)) :
    (po = [] ∧ r2 = path ∧ atomSpec (.param n) path = none) ∨
    (po ≠ [] ∧ atomSpec (.param n) path = some (r2, po)) := by
  cases path with
  | nil => simp [optSpec] at h; left; exact ⟨h.2, h.1, rfl⟩
  | cons c t =>
    simp only [optSpec] at h
    split at h
    · next hc =>
      subst hc
      split at h
      · next he => simp at h; left; exact ⟨h.2, h.1.symm, by simp [atomSpec, he]⟩
      · next he => simp at h; right; refine ⟨by rw [← h.2]; simp, ?_⟩; simp [atomSpec, he, h.1, h.2]
    · simp at h

theorem optional_of_gen_opt (s : Seg) (n : List Char) (h : s.gen = [.opt n]) : s.optional = true := by
  cases ho : s.optional with
  | true => rfl
  | false =>
    have := gen_noOpt s ho (.opt n) (by simp [h])
    simp [FSeg.isOpt] at this

mutual
theorem nested_aligned2 : ∀ (r : Route), r.stage2 = true → ∀ (pos : Nat) (path : Path),
    nres (matchNested .aligned r pos path) =
      match firstG r.ro path with
      | some ps => .some (some pos, ps)
      | none => .none
  | .mk segs children, hg, pos, path => by
    simp only [Route.stage2, Bool.and_eq_true, Bool.not_eq_true', List.all_eq_true, decide_eq_true_eq] at hg
    obtain ⟨⟨⟨⟨hwf, hin⟩, hcnt⟩, hkind⟩, hch⟩ := hg
    by_cases hce : children.isEmpty = true
    · -- a leaf, possibly with one optional
      simp only [hce, if_true] at hkind
      have hrp := one_opt_test .aligned segs path hin hcnt
      rw [optSeq_aligned segs.gen hwf hcnt path] at hrp
      have hgm := gmatchO_eq_expansions segs.gen hwf hcnt hkind path
      simp only [matchNested, Route.ro, hce, if_true]
      rw [← hgm]
      unfold gmatchO
      cases hT : segs.test .aligned path with
      | panic => rw [hT] at hrp; cases hsp : optSeqSpec segs.gen path <;> simp [hsp, Out.rp, ofOpt] at hrp
      | none =>
        rw [hT] at hrp
        cases hsp : optSeqSpec segs.gen path with
        | some x => simp [hsp, Out.rp, ofOpt] at hrp
        | none => simp [nres]
      | some pm =>
        rw [hT] at hrp
        cases hsp : optSeqSpec segs.gen path with
        | none => simp [hsp, Out.rp, ofOpt] at hrp
        | some x =>
          obtain ⟨r, ps⟩ := x
          simp [hsp, Out.rp, ofOpt] at hrp
          simp only
          unfold finish
          rw [hrp.1, hrp.2]
          by_cases hcomp : complete r = true <;> simp [hcomp, nres]
    · simp only [hce, Bool.false_eq_true, if_false, Bool.or_eq_true, Bool.and_eq_true, Bool.not_eq_true'] at hkind
      by_cases hpure : isPureOpt segs.gen = true
      · -- a parent that is one optional param
        obtain ⟨n, hgen⟩ : ∃ n, segs.gen = [.opt n] := by
          cases hgg : segs.gen with
          | nil => simp [hgg, isPureOpt] at hpure
          | cons f F =>
            cases f <;> cases F <;> simp [hgg, isPureOpt] at hpure
            exact ⟨_, rfl⟩
        have hopt := optional_of_gen_opt segs n hgen
        have hrp : ∀ p, (segs.test .aligned p).rp = ofOpt (optSpec n p) := by
          intro p
          rw [one_opt_test .aligned segs p hin hcnt, optSeq_aligned segs.gen hwf hcnt p, hgen, optSeqSpec_single]
        have ihc := children_aligned2 children hch 0
        simp only [matchNested, Route.ro, hce, Bool.false_eq_true, if_false, hgen, firstG_append, firstG_prefix,
          seqSpec, firstG_roList children 0, hopt, if_true, Ver.fixed]
        have hnil := hrp []
        cases hT0 : segs.test .aligned [] with
        | panic => rw [hT0] at hnil; simp [optSpec, Out.rp, ofOpt] at hnil
        | none => rw [hT0] at hnil; simp [optSpec, Out.rp, ofOpt] at hnil
        | some np =>
          rw [hT0] at hnil
          simp [optSpec, Out.rp, ofOpt] at hnil
          have hpath := hrp path
          cases hT : segs.test .aligned path with
          | panic => rw [hT] at hpath; cases hsp : optSpec n path <;> simp [hsp, Out.rp, ofOpt] at hpath
          | none =>
            rw [hT] at hpath
            cases hsp : optSpec n path with
            | some x => simp [hsp, Out.rp, ofOpt] at hpath
            | none =>
              -- only on a path that does not start a segment
              cases path with
              | nil => simp [optSpec] at hsp
              | cons c t =>
                have hc : c ≠ '/' := by
                  intro e; subst e; simp only [optSpec, if_true] at hsp; split at hsp <;> simp at hsp
                have hu := firstG_unaligned (roList children) (c :: t) (by simp) (by simp [startsSlash, hc])
                rw [firstG_roList children 0] at hu
                simp [atomSpec, hc, hu, nres]
          | some pm =>
            rw [hT] at hpath
            cases hsp : optSpec n path with
            | none => simp [hsp, Out.rp, ofOpt] at hpath
            | some x =>
              obtain ⟨r2, po⟩ := x
              simp [hsp, Out.rp, ofOpt] at hpath
              obtain ⟨hr2, hpo⟩ := hpath
              simp only
              have ih2 := ihc pm.remaining
              have ihp := ihc path
              rw [hr2] at ih2 ⊢
              have hshape := optSpec_param n path r2 po hsp
              cases hA : firstDef2 children 0 r2 with
              | some y =>
                obtain ⟨j, q⟩ := y
                rw [hA] at ih2
                cases hm2 : matchChildren .aligned children 0 r2 with
                | panic => rw [hm2] at ih2; simp [nres] at ih2
                | none => rw [hm2] at ih2; simp [nres] at ih2
                | some inner rem =>
                  rw [hm2] at ih2
                  have hcomp := children_rem_complete .aligned children 0 r2 inner rem hm2
                  simp [nres] at ih2
                  simp only
                  rw [finish_nres _ _ _ _ _ hcomp]
                  rcases hshape with ⟨h1, h2, h3⟩ | ⟨h1, h3⟩
                  · subst h2; simp [h3, hA, hpo, h1, ih2.2]
                  · simp [h3, hA, hpo, ih2.2]
              | none =>
                rw [hA] at ih2
                cases hm2 : matchChildren .aligned children 0 r2 with
                | panic => rw [hm2] at ih2; simp [nres] at ih2
                | some inner rem => rw [hm2] at ih2; simp [nres] at ih2
                | none =>
                  simp only
                  cases hB : firstDef2 children 0 path with
                  | none =>
                    rw [hB] at ihp
                    cases hmp : matchChildren .aligned children 0 path with
                    | panic => rw [hmp] at ihp; simp [nres] at ihp
                    | some inner rem => rw [hmp] at ihp; simp [nres] at ihp
                    | none =>
                      rcases hshape with ⟨h1, h2, h3⟩ | ⟨h1, h3⟩
                      · simp [h3, nres]
                      · simp [h3, hA, nres]
                  | some y =>
                    obtain ⟨j, q⟩ := y
                    rw [hB] at ihp
                    cases hmp : matchChildren .aligned children 0 path with
                    | panic => rw [hmp] at ihp; simp [nres] at ihp
                    | none => rw [hmp] at ihp; simp [nres] at ihp
                    | some inner rem =>
                      rw [hmp] at ihp
                      have hcomp := children_rem_complete .aligned children 0 path inner rem hmp
                      simp [nres] at ihp
                      simp only
                      rw [finish_nres _ _ _ _ _ hcomp]
                      rcases hshape with ⟨h1, h2, h3⟩ | ⟨h1, h3⟩
                      · simp [h3, hnil.2, ihp.2]
                      · simp [h3, hA, hnil.2, ihp.2]
      · -- a route with children and no optional of its own
        have hnp : isPureOpt segs.gen = false := by simpa using hpure
        have hkind' : segs.optional = false ∧ noSplat segs.gen = true := by
          rcases hkind with h | h
          · exact h
          · rw [h] at hnp; simp at hnp
        obtain ⟨hopt, hnsp⟩ := hkind'
        have hwfa : ∀ f ∈ segs.gen, WfA f := fun f hf => wfa_of_wfao (hwf f hf) (gen_noOpt segs hopt f hf)
        have hflat := flatten_test .aligned segs path hopt
        have hseq := seq_aligned segs.gen hwfa path
        have hro : (Route.mk segs children).ro = prefixAll segs.gen (roList children) := by
          simp only [Route.ro, hce, Bool.false_eq_true, if_false]
          cases hgg : segs.gen with
          | nil => rfl
          | cons f F =>
            cases f with
            | opt n =>
              have := gen_noOpt segs hopt (.opt n) (by simp [hgg])
              simp [FSeg.isOpt] at this
            | st s => rfl
            | param s => rfl
            | splat s => rfl
        rw [hro]
        simp only [matchNested, hflat, hce, Bool.false_eq_true, if_false, firstG_prefix,
          firstG_roList children 0]
        cases hT : seqTest .aligned segs.gen path with
        | panic => rw [hT] at hseq; cases hsp : seqSpec segs.gen path <;> simp [hsp, Out.rp, ofOpt] at hseq
        | none =>
          rw [hT] at hseq
          cases hsp : seqSpec segs.gen path with
          | some x => simp [hsp, Out.rp, ofOpt] at hseq
          | none => simp [nres]
        | some pm =>
          rw [hT] at hseq
          cases hsp : seqSpec segs.gen path with
          | none => simp [hsp, Out.rp, ofOpt] at hseq
          | some x =>
            obtain ⟨r, ps⟩ := x
            simp [hsp, Out.rp, ofOpt] at hseq
            obtain ⟨hr, hps⟩ := hseq
            simp only
            have ihc := children_aligned2 children hch 0 pm.remaining
            rw [hr] at ihc ⊢
            cases hmc : matchChildren .aligned children 0 r with
            | panic => rw [hmc] at ihc; cases hfd : firstDef2 children 0 r <;> simp [hfd, nres] at ihc
            | none =>
              rw [hmc] at ihc
              cases hfd : firstDef2 children 0 r with
              | some y => simp [hfd, nres] at ihc
              | none => simp [hopt, nres]
            | some inner rem =>
              rw [hmc] at ihc
              have hcomp := children_rem_complete .aligned children 0 r inner rem hmc
              cases hfd : firstDef2 children 0 r with
              | none => simp [hfd, nres] at ihc
              | some y =>
                obtain ⟨j, ps'⟩ := y
                simp [hfd, nres] at ihc
                simp only
                rw [finish_nres _ _ _ _ _ hcomp]
                simp [hps, ihc.2]
theorem children_aligned2 : ∀ (cs : List Route), stage2List cs = true → ∀ (i : Nat) (path : Path),
    nres (matchChildren .aligned cs i path) =
      match firstDef2 cs i path with
      | some (j, ps) => .some (some j, ps)
      | none => .none
  | [], _, i, path => by simp [matchChildren, firstDef2, nres]
  | c :: cs, hg, i, path => by
    simp only [stage2List, Bool.and_eq_true] at hg
    have ih := nested_aligned2 c hg.1 i path
    simp only [matchChildren, firstDef2]
    cases hm : matchNested .aligned c i path with
    | panic => rw [hm] at ih; cases hf : firstG c.ro path <;> simp [hf, nres] at ih
    | some m rem =>
      rw [hm] at ih
      cases hf : firstG c.ro path with
      | none => simp [hf, nres] at ih
      | some ps => simp [hf, nres] at ih; simp [nres, ih]
    | none =>
      rw [hm] at ih
      cases hf : firstG c.ro path with
      | some ps => simp [hf, nres] at ih
      | none => simp only; exact children_aligned2 cs hg.2 (i + 1) path
end



theorem mem_prefixAll_iff (a : List FSeg) (Xs : List (List FSeg)) (G : List FSeg) :
    G ∈ prefixAll a Xs ↔ ∃ G' ∈ Xs, G = a ++ G' := by
  constructor
  · exact mem_prefixAll a Xs G
  · rintro ⟨G', hG', rfl⟩; exact mem_prefixAll_of_mem a Xs G' hG'

theorem expandSpec_opt_cons (n : List Char) (F : List FSeg) :
    expandSpec (.opt n :: F) = (expandSpec F).map (.param n :: ·) ++ expandSpec F := rfl

mutual
/-- the router's order and the table's order list the same routes -/
theorem ro_mem : ∀ (r : Route), r.stage2 = true → ∀ G, G ∈ r.ro ↔ G ∈ regRoutes r
  | .mk segs children, hg, G => by
    simp only [Route.stage2, Bool.and_eq_true, Bool.not_eq_true', List.all_eq_true, decide_eq_true_eq] at hg
    obtain ⟨⟨⟨⟨hwf, hin⟩, hcnt⟩, hkind⟩, hch⟩ := hg
    have ihl := roList_mem children hch
    by_cases hce : children.isEmpty = true
    · simp [Route.ro, regRoutes, Route.gen, hce]
    · simp only [hce, Bool.false_eq_true, if_false, Bool.or_eq_true, Bool.and_eq_true, Bool.not_eq_true'] at hkind
      by_cases hpure : isPureOpt segs.gen = true
      · obtain ⟨n, hgen⟩ : ∃ n, segs.gen = [.opt n] := by
          cases hgg : segs.gen with
          | nil => simp [hgg, isPureOpt] at hpure
          | cons f F =>
            cases f <;> cases F <;> simp [hgg, isPureOpt] at hpure
            exact ⟨_, rfl⟩
        simp only [Route.ro, regRoutes, Route.gen, hce, Bool.false_eq_true, if_false, hgen, List.mem_append,
          mem_prefixAll_iff, List.mem_flatMap]
        constructor
        · rintro (⟨G', hG', rfl⟩ | hG)
          · obtain ⟨F, hF, hGF⟩ := List.mem_flatMap.1 ((ihl G').1 hG')
            exact ⟨[.opt n] ++ F, ⟨F, hF, rfl⟩, by simp [expandSpec_opt_cons]; left; exact hGF⟩
          · obtain ⟨F, hF, hGF⟩ := List.mem_flatMap.1 ((ihl G).1 hG)
            exact ⟨[.opt n] ++ F, ⟨F, hF, rfl⟩, by simp [expandSpec_opt_cons]; right; exact hGF⟩
        · rintro ⟨X, ⟨F, hF, rfl⟩, hGX⟩
          simp [expandSpec_opt_cons] at hGX
          rcases hGX with ⟨G', hG', rfl⟩ | hGX
          · left; exact ⟨G', (ihl G').2 (List.mem_flatMap.2 ⟨F, hF, hG'⟩), rfl⟩
          · right; exact (ihl G).2 (List.mem_flatMap.2 ⟨F, hF, hGX⟩)
      · have hnp : isPureOpt segs.gen = false := by simpa using hpure
        have hkind' : segs.optional = false ∧ noSplat segs.gen = true := by
          rcases hkind with h | h
          · exact h
          · rw [h] at hnp; simp at hnp
        obtain ⟨hopt, _⟩ := hkind'
        have hro : (Route.mk segs children).ro = prefixAll segs.gen (roList children) := by
          simp only [Route.ro, hce, Bool.false_eq_true, if_false]
          cases hgg : segs.gen with
          | nil => rfl
          | cons f F =>
            cases f with
            | opt n =>
              have := gen_noOpt segs hopt (.opt n) (by simp [hgg])
              simp [FSeg.isOpt] at this
            | st s => rfl
            | param s => rfl
            | splat s => rfl
        rw [hro]
        simp only [regRoutes, Route.gen, hce, Bool.false_eq_true, if_false,
          flatMap_prefixAll segs.gen (countOptF_of_noopt segs hopt), mem_prefixAll_iff]
        constructor
        · rintro ⟨G', hG', rfl⟩; exact ⟨G', (ihl G').1 hG', rfl⟩
        · rintro ⟨G', hG', rfl⟩; exact ⟨G', (ihl G').2 hG', rfl⟩
theorem roList_mem : ∀ (cs : List Route), stage2List cs = true →
    ∀ G, G ∈ roList cs ↔ G ∈ (genList cs).flatMap expandSpec
  | [], _, G => by simp [roList, genList]
  | c :: cs, hg, G => by
    simp only [stage2List, Bool.and_eq_true] at hg
    simp only [roList, genList, List.flatMap_append, List.mem_append, ro_mem c hg.1 G, regRoutes,
      roList_mem cs hg.2 G]
end

mutual
theorem flats_wfao2 : ∀ (r : Route), r.stage2 = true → ∀ F ∈ r.gen, (∀ f ∈ F, WfAO f) ∧ splatLast F = true
  | .mk segs children, hg, F, hF => by
    simp only [Route.stage2, Bool.and_eq_true, Bool.not_eq_true', List.all_eq_true, decide_eq_true_eq] at hg
    obtain ⟨⟨⟨⟨hwf, _⟩, _⟩, hkind⟩, hch⟩ := hg
    simp only [Route.gen] at hF
    by_cases hce : children.isEmpty = true
    · simp only [hce, if_true, List.mem_singleton] at hF hkind
      subst hF
      exact ⟨hwf, hkind⟩
    · simp only [hce, Bool.false_eq_true, if_false, Bool.or_eq_true, Bool.and_eq_true, Bool.not_eq_true'] at hF hkind
      obtain ⟨G, hG, rfl⟩ := mem_prefixAll _ _ _ hF
      have hGok := flatsList_wfao2 children hch G hG
      have hns : noSplat segs.gen = true := by
        rcases hkind with h | h
        · exact h.2
        · cases hgg : segs.gen with
          | nil => rfl
          | cons f F =>
            cases f <;> cases F <;> simp [hgg, isPureOpt] at h
            rfl
      refine ⟨?_, splatLast_append _ _ hns hGok.2⟩
      intro f hf
      simp only [List.mem_append] at hf
      rcases hf with hf | hf
      · exact hwf f hf
      · exact hGok.1 f hf
theorem flatsList_wfao2 : ∀ (cs : List Route), stage2List cs = true →
    ∀ F ∈ genList cs, (∀ f ∈ F, WfAO f) ∧ splatLast F = true
  | [], _, F, hF => by simp [genList] at hF
  | c :: cs, hg, F, hF => by
    simp only [stage2List, Bool.and_eq_true] at hg
    simp only [genList, List.mem_append] at hF
    rcases hF with hF | hF
    · exact flats_wfao2 c hg.1 F hF
    · exact flatsList_wfao2 cs hg.2 F hF
end

theorem stage2List_mem : ∀ (cs : List Route) (t : Route), stage2List cs = true → t ∈ cs → t.stage2 = true := by
  intro cs
  induction cs with
  | nil => intro t _ h; simp at h
  | cons c cs ih =>
    intro t hg h
    simp only [stage2List, Bool.and_eq_true] at hg
    simp only [List.mem_cons] at h
    rcases h with rfl | h
    · exact hg.1
    · exact ih t hg.2 h

theorem ro_ok (b : Option Path) (hb : baseOk b = true) (t : Route) (ht : t.stage2 = true) :
    ∀ X ∈ prefixAll (normBase b) t.ro, FlatOk X := by
  intro X hX
  obtain ⟨G, hG, rfl⟩ := mem_prefixAll _ _ _ hX
  have hG' := (ro_mem t ht G).1 hG
  simp only [regRoutes, List.mem_flatMap] at hG'
  obtain ⟨F, hF, hGF⟩ := hG'
  have hFok := flats_wfao2 t ht F hF
  have hGok := expand_flatok F hFok.1 hFok.2 G hGF
  refine ⟨?_, splatLast_append _ _ (normBase_noSplat b) hGok.2⟩
  intro f hf
  simp only [List.mem_append] at hf
  rcases hf with hf | hf
  · exact normBase_ok b hb f hf
  · exact hGok.1 f hf

theorem all_opt_single (F : List FSeg) (hall : F.any FSeg.mandatory = false) (hc : countOptF F ≤ 1)
    (hne : 1 ≤ countOptF F) : isPureOpt F = true := by
  cases F with
  | nil => simp [countOptF] at hne
  | cons f F =>
    simp only [List.any_cons, Bool.or_eq_false_iff] at hall
    cases f with
    | opt n =>
      cases F with
      | nil => rfl
      | cons g G =>
        simp only [List.any_cons, Bool.or_eq_false_iff] at hall
        cases g with
        | opt m => simp [countOptF, FSeg.isOpt] at hc; omega
        | st s => simp [FSeg.mandatory] at hall
        | param s => simp [FSeg.mandatory] at hall
        | splat s => simp [FSeg.mandatory] at hall
    | st s => simp [FSeg.mandatory] at hall
    | param s => simp [FSeg.mandatory] at hall
    | splat s => simp [FSeg.mandatory] at hall

-- the hypotheses of stage 2, as the negations of the known-finding class predicates
mutual
theorem stage2_of_classes : ∀ (r : Route), r.wf = true → r.hasOptParent = false → r.hasMultiOpt = false →
    r.hasInnerOptTuple = false → r.stage2 = true
  | .mk segs children, hw, h1, h2, h3 => by
    simp only [Route.wf, Bool.and_eq_true, List.all_eq_true, decide_eq_true_eq] at hw
    simp only [Route.hasOptParent, Bool.or_eq_false_iff, Bool.and_eq_false_iff, Bool.not_eq_false'] at h1
    simp only [Route.hasMultiOpt, Bool.or_eq_false_iff, decide_eq_false_iff_not] at h2
    simp only [Route.hasInnerOptTuple, Bool.or_eq_false_iff] at h3
    simp only [Route.stage2, Bool.and_eq_true, Bool.not_eq_true', List.all_eq_true, decide_eq_true_eq]
    have hcnt : countOptF segs.gen ≤ 1 := by omega
    refine ⟨⟨⟨⟨hw.1.1, h3.1⟩, hcnt⟩, ?_⟩, stage2List_of_classes children hw.2 h1.2 h2.2 h3.2⟩
    by_cases hce : children.isEmpty = true
    · simpa [hce] using hw.1.2
    · simp only [hce, Bool.false_eq_true, if_false, Bool.or_eq_true, Bool.and_eq_true, Bool.not_eq_true']
      have hns : noSplat segs.gen = true := by simpa [hce] using hw.1.2
      cases hopt : segs.optional with
      | false => left; exact ⟨rfl, hns⟩
      | true =>
        right
        have hall : segs.gen.any FSeg.mandatory = false := by
          rcases h1.1 with (h | h) | h
          · exact absurd h hce
          · rw [hopt] at h; simp at h
          · exact h
        exact all_opt_single segs.gen hall hcnt (optional_has_opt segs hopt)
theorem stage2List_of_classes : ∀ (cs : List Route), wfList cs = true → anyOptParent cs = false →
    anyMultiOpt cs = false → anyInnerOptTuple cs = false → stage2List cs = true
  | [], _, _, _, _ => rfl
  | c :: cs, hw, h1, h2, h3 => by
    simp only [wfList, Bool.and_eq_true] at hw
    simp only [anyOptParent, Bool.or_eq_false_iff] at h1
    simp only [anyMultiOpt, Bool.or_eq_false_iff] at h2
    simp only [anyInnerOptTuple, Bool.or_eq_false_iff] at h3
    simp only [stage2List, Bool.and_eq_true]
    exact ⟨stage2_of_classes c hw.1 h1.1 h2.1 h3.1, stage2List_of_classes cs hw.2 h1.2 h2.2 h3.2⟩
end

theorem route_aligned2 (d : Defs) (hb : baseOk d.base = true) (hs : stage2List d.tops = true) (path : Path)
    (hp : startsSlash path = true) :
    mres (matchRoute .aligned d path) =
      match firstDefT (d.tops.map fun t => prefixAll (normBase d.base) t.ro) 0 path with
      | some (i, ps) => .some (some i, ps)
      | none => .none := by
  unfold matchRoute
  rw [firstDefT_gen Route.ro firstDef2 (fun _ _ => rfl) (fun _ _ _ _ => rfl) d.base hb path hp]
  cases stripBase .aligned d.base path with
  | none => simp [mres]
  | some p =>
    have hc := children_aligned2 d.tops hs 0 p
    simp only
    cases hm : matchChildren .aligned d.tops 0 p with
    | panic => rw [hm] at hc; cases hf : firstDef2 d.tops 0 p <;> simp [hf, nres] at hc
    | none =>
      rw [hm] at hc
      cases hf : firstDef2 d.tops 0 p with
      | some x => simp [hf, nres] at hc
      | none => simp [mres]
    | some m rem =>
      rw [hm] at hc
      have hcomp := children_rem_complete .aligned d.tops 0 p m rem hm
      cases hf : firstDef2 d.tops 0 p with
      | none => simp [hf, nres] at hc
      | some x =>
        obtain ⟨j, ps⟩ := x
        simp [hf, nres] at hc
        simp [hcomp, mres, hc]

/-- **match ⇔ flat with optional params, stage 2** — the final form: for every well-formed table and every
request path OUTSIDE the known-finding classes, i.e. with
`anyOptParent = false` (no route with children has an optional param next to a mandatory segment; a parent
that IS one optional param, `/:lang?` → …, is covered: that is what the router's fallback is for),
`anyMultiOpt = false`, `anyInnerOptTuple = false` and `SegmentAligned`, the property holds.  The four
hypotheses are the predicates `classify` files failures under (`C14_classify_sound`). -/
theorem C14_match_iff_flat_optional (d : Defs) (path : Path) (hw : d.wf = true)
    (hp : startsSlash path = true) (h1 : anyOptParent d.tops = false) (h2 : anyMultiOpt d.tops = false)
    (h3 : anyInnerOptTuple d.tops = false) (hal : SegmentAligned d path) : Holds d path := by
  simp only [Defs.wf, Bool.and_eq_true, Bool.not_eq_true'] at hw
  obtain ⟨⟨hb, hwl⟩, _⟩ := hw
  have hs := stage2List_of_classes d.tops hwl h1 h2 h3
  unfold Holds
  rw [hal]
  cases path with
  | nil => simp [startsSlash] at hp
  | cons c t' =>
    have hc : c = '/' := by simpa [startsSlash] using hp
    subst hc
    exact judge_of_table2 Route.ro regRoutes d hb t'
      (fun t ht G => ro_mem t (stage2List_mem d.tops t hs ht) G)
      (fun t ht => ro_ok d.base hb t (stage2List_mem d.tops t hs ht))
      (expandedPerDef_eq1 d) _ (route_aligned2 d hb hs _ hp)



theorem one_opt_rem_aligned (segs : Seg) (hwf : ∀ f ∈ segs.gen, WfAO f) (hin : segs.innerOptTuple = false)
    (hcnt : countOptF segs.gen ≤ 1) (n : List Char) (hgen : segs.gen = [.opt n]) (path : Path) (pm : PM)
    (h : segs.test .aligned path = .some pm) : Aligned pm.remaining := by
  have hrp := one_opt_test .aligned segs path hin hcnt
  rw [optSeq_aligned segs.gen hwf hcnt path, hgen, optSeqSpec_single, h] at hrp
  cases hsp : optSpec n path with
  | none => simp [hsp, Out.rp, ofOpt] at hrp
  | some x =>
    obtain ⟨r, ps⟩ := x
    simp [hsp, Out.rp, ofOpt] at hrp
    rw [hrp.1]
    exact optSpec_aligned n path r ps hsp

mutual
theorem nested_cur_eq_aligned2 : ∀ (r : Route), r.stage2 = true → r.noSlashSeg = true → ∀ (pos : Nat) (path : Path),
    Aligned path → matchNested .cur r pos path = matchNested .aligned r pos path
  | .mk segs children, hg, hns, pos, path, hp => by
    simp only [Route.stage2, Bool.and_eq_true, Bool.not_eq_true', List.all_eq_true, decide_eq_true_eq] at hg
    obtain ⟨⟨⟨⟨hwf, hin⟩, hcnt⟩, hkind⟩, hch⟩ := hg
    simp only [Route.noSlashSeg, Bool.and_eq_true, List.all_eq_true] at hns
    have heqt : ∀ p, Aligned p → segs.test .cur p = segs.test .aligned p := by
      intro p hpa
      have h1 := one_opt_test .cur segs p hin hcnt
      have h2 := one_opt_test .aligned segs p hin hcnt
      exact test_eq_of_rp .cur .aligned segs p
        (by rw [h1, h2, optSeq_cur_eq_aligned segs.gen hwf hns.1 hcnt p hpa])
    by_cases hce : children.isEmpty = true
    · simp only [matchNested, heqt path hp, hce, if_true]
    · simp only [hce, Bool.false_eq_true, if_false, Bool.or_eq_true, Bool.and_eq_true, Bool.not_eq_true'] at hkind
      have ihc := children_cur_eq_aligned2 children hch hns.2 0
      by_cases hpure : isPureOpt segs.gen = true
      · obtain ⟨n, hgen⟩ : ∃ n, segs.gen = [.opt n] := by
          cases hgg : segs.gen with
          | nil => simp [hgg, isPureOpt] at hpure
          | cons f F =>
            cases f <;> cases F <;> simp [hgg, isPureOpt] at hpure
            exact ⟨_, rfl⟩
        simp only [matchNested, heqt path hp, heqt [] (Or.inl rfl), Ver.fixed, if_true, ihc path hp]
        cases hT : segs.test .aligned path with
        | panic => rfl
        | none => rfl
        | some pm =>
          have hal := one_opt_rem_aligned segs hwf hin hcnt n hgen path pm hT
          simp only [ihc pm.remaining hal]
      · have hnp : isPureOpt segs.gen = false := by simpa using hpure
        have hkind' : segs.optional = false ∧ noSplat segs.gen = true := by
          rcases hkind with h | h
          · exact h
          · rw [h] at hnp; simp at hnp
        obtain ⟨hopt, _⟩ := hkind'
        have hwfa : ∀ f ∈ segs.gen, WfA f := fun f hf => wfa_of_wfao (hwf f hf) (gen_noOpt segs hopt f hf)
        simp only [matchNested, heqt path hp, hopt]
        cases hT : segs.test .aligned path with
        | panic => rfl
        | none => rfl
        | some pm =>
          have hT' : seqTest .aligned segs.gen path = .some pm := by
            rw [← flatten_test .aligned segs path hopt]; exact hT
          have hal := seqTest_rem_aligned segs.gen hwfa hns.1 path pm hp hT'
          simp only [ihc pm.remaining hal]
          rfl
theorem children_cur_eq_aligned2 : ∀ (cs : List Route), stage2List cs = true → noSlashSegList cs = true →
    ∀ (i : Nat) (path : Path), Aligned path → matchChildren .cur cs i path = matchChildren .aligned cs i path
  | [], _, _, i, path, _ => by simp [matchChildren]
  | c :: cs, hg, hns, i, path, hp => by
    simp only [stage2List, Bool.and_eq_true] at hg
    simp only [noSlashSegList, Bool.and_eq_true] at hns
    simp only [matchChildren, nested_cur_eq_aligned2 c hg.1 hns.1 i path hp,
      children_cur_eq_aligned2 cs hg.2 hns.2 (i + 1) path hp]
end

/-- no `"/"` segment and outside the optional classes ⇒ always aligned (stage 2) -/
theorem C14_aligned_without_slash_segments_opt2 (d : Defs) (hw : d.wf = true) (h1 : anyOptParent d.tops = false)
    (h2 : anyMultiOpt d.tops = false) (h3 : anyInnerOptTuple d.tops = false)
    (hns : noSlashSegList d.tops = true) (path : Path) (hp : startsSlash path = true) :
    SegmentAligned d path := by
  simp only [Defs.wf, Bool.and_eq_true, Bool.not_eq_true'] at hw
  obtain ⟨⟨hb, hwl⟩, _⟩ := hw
  have hs := stage2List_of_classes d.tops hwl h1 h2 h3
  unfold SegmentAligned matchRoute
  rw [stripBase_cur_eq_aligned d.base hb path hp]
  cases hsb : stripBase .aligned d.base path with
  | none => rfl
  | some p =>
    have hal := stripBase_aligned_rem d.base path p hp hsb
    simp only [children_cur_eq_aligned2 d.tops hs hns 0 p hal]

/-- stage 2 without `SegmentAligned`, for tables without a `"/"` static segment -/
theorem C14_match_iff_flat_optional_no_slash (d : Defs) (path : Path) (hw : d.wf = true)
    (hp : startsSlash path = true) (h1 : anyOptParent d.tops = false) (h2 : anyMultiOpt d.tops = false)
    (h3 : anyInnerOptTuple d.tops = false) (hns : noSlashSegList d.tops = true) : Holds d path :=
  C14_match_iff_flat_optional d path hw hp h1 h2 h3
    (C14_aligned_without_slash_segments_opt2 d hw h1 h2 h3 hns path hp)

/-- **every failure is in a known-finding class** (with the classifier's own predicates): on a well-formed
table, a request path on which the property fails has `anyOptParent` (an optional param next to a mandatory
segment in a route with children) or `anyMultiOpt` or `anyInnerOptTuple`, or the table has a `"/"` static
segment and the router leaves the segment grid on that path. -/
theorem C14_failure_in_class (d : Defs) (path : Path) (hw : d.wf = true) (hp : startsSlash path = true)
    (hfail : ¬ Holds d path) :
    anyOptParent d.tops = true ∨ anyMultiOpt d.tops = true ∨ anyInnerOptTuple d.tops = true ∨
      (noSlashSegList d.tops = false ∧ ¬ SegmentAligned d path) := by
  cases h1 : anyOptParent d.tops with
  | true => exact Or.inl rfl
  | false =>
    cases h2 : anyMultiOpt d.tops with
    | true => exact Or.inr (Or.inl rfl)
    | false =>
      cases h3 : anyInnerOptTuple d.tops with
      | true => exact Or.inr (Or.inr (Or.inl rfl))
      | false =>
        refine Or.inr (Or.inr (Or.inr ⟨?_, ?_⟩))
        · cases hns : noSlashSegList d.tops with
          | false => rfl
          | true => exact absurd (C14_match_iff_flat_optional_no_slash d path hw hp h1 h2 h3 hns) hfail
        · intro hal
          exact hfail (C14_match_iff_flat_optional d path hw hp h1 h2 h3 hal)



/-! # stage 3: a block of optional params in one route -/

/-- a pass without the byte count -/
inductive PV where
  | done (r : Path) (p : Params)
  | panic
  | fail
  | retry
  deriving DecidableEq

def Pass.view : Pass → PV
  | .done r _ p => .done r p
  | .panic => .panic
  | .fail => .fail
  | .retry => .retry

theorem view_irrel (k : Ver) : ∀ (l : List Seg) (first : Bool) (inc nth : Nat) (r : Path) (ml ml' : Nat) (p : Params),
    (passFields k l first inc nth r ml p).view = (passFields k l first inc nth r ml' p).view := by
  intro l
  induction l with
  | nil => intro first inc nth r ml ml' p; rfl
  | cons ty tys ih =>
    intro first inc nth r ml ml' p
    simp only [passFields]
    by_cases hc : (!ty.optional || decide ((if ty.optional = true then nth + 1 else nth) ≤ inc)) = true
    · simp only [hc, if_true]
      cases ty.test k r with
      | panic => rfl
      | none => rfl
      | some m => exact ih _ _ _ _ _ _ _
    · simp only [hc, if_false]
      exact ih _ _ _ _ _ _ _

theorem view_append (k : Ver) (l1 l2 : List Seg) (first : Bool) (inc nth : Nat) (r : Path) (p : Params) :
    (passFields k (l1 ++ l2) first inc nth r 0 p).view =
      match (passFields k l1 first inc nth r 0 p).view with
      | .done r' p' => (passFields k l2 (first && l1.isEmpty) inc (nth + countOpt l1) r' 0 p').view
      | x => x := by
  rw [passFields_append]
  cases h : passFields k l1 first inc nth r 0 p with
  | done r' ml' p' => simp only [Pass.view]; exact view_irrel k _ _ _ _ _ _ _ _
  | panic => rfl
  | fail => rfl
  | retry => rfl

def softV (first : Bool) (inc : Nat) (x : PV) : Prop :=
  (x = .fail ∨ x = .retry) ∧ (inc = 0 → x = .fail) ∧ (first = false → inc ≠ 0 → x = .retry)

theorem view_noopt (k : Ver) (l : List Seg) (first : Bool) (inc nth : Nat) (r : Path) (p : Params)
    (h : anyOptional l = false) :
    match seqRP k (genSegs l) r with
    | .some (r', ps) => (passFields k l first inc nth r 0 p).view = .done r' (p ++ ps)
    | .panic => (passFields k l first inc nth r 0 p).view = .panic
    | .none => softV first inc (passFields k l first inc nth r 0 p).view := by
  have := pass_noopt k l first inc nth r 0 p h
  simp only [seqRP]
  cases hs : seqTest k (genSegs l) r with
  | some m => rw [hs] at this; simp only at this; simp [Out.rp, this, Pass.view]
  | panic => rw [hs] at this; simp only at this; simp [Out.rp, this, Pass.view]
  | none =>
    rw [hs] at this
    simp only at this
    simp only [Out.rp]
    obtain ⟨h1, h2, h3⟩ := this
    refine ⟨?_, ?_, ?_⟩
    · rcases h1 with h1 | h1 <;> simp [h1, Pass.view]
    · intro hi; simp [h2 hi, Pass.view]
    · intro hf hi; simp [h3 hf hi, Pass.view]

/-- the first `cnt` optional params of a block take one segment each — if there is one -/
def softTake (k : Ver) : List (List Char) → Nat → Path → Out (Path × Params)
  | [], _, r => .some (r, [])
  | _ :: _, 0, r => .some (r, [])
  | n :: ns, cnt + 1, r =>
    match ((toSeg (.opt n)).test k r).rp with
    | .panic => .panic
    | .none => .none
    | .some (r', po) =>
      match softTake k ns cnt r' with
      | .some (r'', ps) => .some (r'', po ++ ps)
      | o => o

/-- a block of optional fields: optional atoms (possibly wrapped in 1-tuples) with these names -/
def IsOptBlock : List Seg → List (List Char) → Prop
  | [], [] => True
  | o :: os, n :: ns => o.optAtomish = true ∧ o.gen = [.opt n] ∧ IsOptBlock os ns
  | _, _ => False

theorem view_skip_block (k : Ver) : ∀ (OB : List Seg) (ns : List (List Char)), IsOptBlock OB ns →
    ∀ (first : Bool) (inc nth : Nat) (r : Path) (p : Params), inc ≤ nth →
      (passFields k OB first inc nth r 0 p).view = .done r p := by
  intro OB
  induction OB with
  | nil => intro ns _ first inc nth r p _; rfl
  | cons o os ih =>
    intro ns hb first inc nth r p hle
    cases ns with
    | nil => simp [IsOptBlock] at hb
    | cons n ns =>
      obtain ⟨ho, _, hrest⟩ := hb
      have hopt : o.optional = true := (optAtomish_spec k o ho).choose_spec.2.1
      have : ¬ (nth + 1 ≤ inc) := by omega
      simp only [passFields, hopt, if_true, Bool.not_true, Bool.false_or, this, decide_false,
        Bool.false_eq_true, if_false]
      exact ih ns hrest false inc (nth + 1) r p (by omega)

theorem view_block (k : Ver) : ∀ (OB : List Seg) (ns : List (List Char)), IsOptBlock OB ns →
    ∀ (first : Bool) (inc nth : Nat) (r : Path) (p : Params),
      (passFields k OB first inc nth r 0 p).view =
        match softTake k ns (inc - nth) r with
        | .some (r', ps) => .done r' (p ++ ps)
        | .panic => .panic
        | .none => .fail := by
  intro OB
  induction OB with
  | nil =>
    intro ns hb first inc nth r p
    cases ns with
    | nil => simp [passFields, softTake, Pass.view]
    | cons n ns => simp [IsOptBlock] at hb
  | cons o os ih =>
    intro ns hb first inc nth r p
    cases ns with
    | nil => simp [IsOptBlock] at hb
    | cons n ns =>
      obtain ⟨ho, hgen, hrest⟩ := hb
      obtain ⟨n', hgen', hopt, htest⟩ := optAtomish_spec k o ho
      have hn : n' = n := by rw [hgen] at hgen'; simpa using hgen'.symm
      subst hn
      by_cases hinc : nth + 1 ≤ inc
      · obtain ⟨c, hc⟩ : ∃ c, inc - nth = c + 1 := ⟨inc - nth - 1, by omega⟩
        have hc' : inc - (nth + 1) = c := by omega
        simp only [passFields, hopt, if_true, Bool.not_true, Bool.false_or, hinc, decide_true, hc, softTake]
        have ht := htest r
        cases hto : o.test k r with
        | panic =>
          rw [hto] at ht
          have : ((toSeg (.opt n')).test k r).rp = .panic := by rw [← ht]; rfl
          simp [this, Pass.view]
        | none =>
          rw [hto] at ht
          have : ((toSeg (.opt n')).test k r).rp = .none := by rw [← ht]; rfl
          rw [this]
          cases first <;> simp [Pass.view]
        | some m =>
          rw [hto] at ht
          have : ((toSeg (.opt n')).test k r).rp = .some (m.remaining, m.params) := by rw [← ht]; rfl
          rw [this]
          simp only
          rw [view_irrel k os false inc (nth + 1) m.remaining _ 0 _, ih ns hrest false inc (nth + 1) m.remaining
            (p ++ m.params), hc']
          cases softTake k ns c m.remaining with
          | some x => obtain ⟨r'', ps⟩ := x; simp [List.append_assoc]
          | panic => rfl
          | none => rfl
      · have h0 : inc - nth = 0 := by omega
        simp only [passFields, hopt, if_true, Bool.not_true, Bool.false_or, hinc, decide_false,
          Bool.false_eq_true, if_false, h0, softTake]
        rw [List.append_nil]
        exact view_skip_block k os ns hrest false inc (nth + 1) r p (by omega)



/-- the back-off over a block of optionals, seen from the flat list: with `inc` optionals included,
then with one fewer, … as long as the segments after the block do not match -/
def blockTry (k : Ver) (ns : List (List Char)) (B : List FSeg) (r1 : Path) (pa : Params) : Nat → Out (Path × Params)
  | 0 =>
    match softTake k ns 0 r1 with
    | .panic => .panic
    | .none => .none
    | .some (r2, po) =>
      match seqRP k B r2 with
      | .some (r3, pb) => .some (r3, pa ++ po ++ pb)
      | .panic => .panic
      | .none => .none
  | i + 1 =>
    match softTake k ns (i + 1) r1 with
    | .panic => .panic
    | .none => .none
    | .some (r2, po) =>
      match seqRP k B r2 with
      | .some (r3, pb) => .some (r3, pa ++ po ++ pb)
      | .panic => .panic
      | .none => blockTry k ns B r1 pa i

def blockRP (k : Ver) (A : List FSeg) (ns : List (List Char)) (B : List FSeg) (inc : Nat) (path : Path) :
    Out (Path × Params) :=
  match seqRP k A path with
  | .some (r1, pa) => blockTry k ns B r1 pa inc
  | .none => .none
  | .panic => .panic

def PV.rp : PV → Out (Path × Params)
  | .done r p => .some (r, p)
  | .panic => .panic
  | _ => .none

theorem Pass.rp_view (x : Pass) : x.rp = x.view.rp := by cases x <;> rfl

theorem backoff_view_soft (f : Nat → Pass) (hs : ∀ i, (f i).view = .fail ∨ (f i).view = .retry)
    (h0 : (f 0).view = .fail) : ∀ n, (backoff f n).rp = .none := by
  intro n
  induction n with
  | zero => simp only [backoff]; rw [Pass.rp_view, h0]; rfl
  | succ n ih =>
    simp only [backoff]
    rcases hs (n + 1) with h | h
    · cases hf : f (n + 1) <;> simp [hf, Pass.view] at h ⊢ <;> rfl
    · cases hf : f (n + 1) <;> simp [hf, Pass.view] at h ⊢
      exact ih

theorem countOpt_block : ∀ (OB : List Seg) (ns : List (List Char)), IsOptBlock OB ns → countOpt OB = ns.length := by
  intro OB
  induction OB with
  | nil => intro ns h; cases ns <;> simp [IsOptBlock] at h ⊢; rfl
  | cons o os ih =>
    intro ns h
    cases ns with
    | nil => simp [IsOptBlock] at h
    | cons n ns =>
      obtain ⟨ho, _, hrest⟩ := h
      have hopt : o.optional = true := (optAtomish_spec .cur o ho).choose_spec.2.1
      simp [countOpt, hopt, ih ns hrest]; omega

theorem genSegs_block : ∀ (OB : List Seg) (ns : List (List Char)), IsOptBlock OB ns →
    genSegs OB = ns.map FSeg.opt := by
  intro OB
  induction OB with
  | nil => intro ns h; cases ns <;> simp [IsOptBlock] at h ⊢; rfl
  | cons o os ih =>
    intro ns h
    cases ns with
    | nil => simp [IsOptBlock] at h
    | cons n ns =>
      obtain ⟨_, hgen, hrest⟩ := h
      simp [genSegs, hgen, ih ns hrest]

/-- one pass over `LA ++ OB ++ LB` -/
theorem view_whole (k : Ver) (LA OB LB : List Seg) (ns : List (List Char)) (hLA : anyOptional LA = false)
    (hLB : anyOptional LB = false) (hOB : IsOptBlock OB ns) (hne : OB ≠ []) (inc : Nat) (path : Path) :
    (passFields k (LA ++ (OB ++ LB)) true inc 0 path 0 []).view =
      match seqRP k (genSegs LA) path with
      | .panic => .panic
      | .none => (passFields k LA true inc 0 path 0 []).view
      | .some (r1, pa) =>
        match softTake k ns inc r1 with
        | .panic => .panic
        | .none => .fail
        | .some (r2, po) =>
          match seqRP k (genSegs LB) r2 with
          | .some (r3, pb) => .done r3 (pa ++ po ++ pb)
          | .panic => .panic
          | .none => if inc = 0 then .fail else .retry := by
  rw [view_append]
  have hA := view_noopt k LA true inc 0 path [] hLA
  cases hsA : seqRP k (genSegs LA) path with
  | panic => rw [hsA] at hA; simp only at hA; simp [hA]
  | none =>
    rw [hsA] at hA
    simp only at hA
    rcases hA.1 with h | h <;> simp [h]
  | some x =>
    obtain ⟨r1, pa⟩ := x
    rw [hsA] at hA
    simp only at hA
    simp only [hA, List.nil_append, countOpt_noOpt LA hLA, Nat.add_zero]
    rw [view_append, view_block k OB ns hOB _ inc 0 r1 pa, Nat.sub_zero]
    cases hst : softTake k ns inc r1 with
    | panic => rfl
    | none => rfl
    | some y =>
      obtain ⟨r2, po⟩ := y
      simp only
      have hnotfirst : (true && LA.isEmpty && OB.isEmpty) = false := by
        cases OB with
        | nil => exact absurd rfl hne
        | cons _ _ => simp
      rw [hnotfirst]
      have hB := view_noopt k LB false inc (0 + countOpt OB) r2 (pa ++ po) hLB
      rw [Nat.zero_add] at hB
      cases hsB : seqRP k (genSegs LB) r2 with
      | panic => rw [hsB] at hB; simp only at hB; simp [hB]
      | some z => obtain ⟨r3, pb⟩ := z; rw [hsB] at hB; simp only at hB; simp [hB, List.append_assoc]
      | none =>
        rw [hsB] at hB
        simp only at hB
        by_cases hi : inc = 0
        · have := hB.2.1 hi
          subst hi
          simp [this]
        · simp [hi, hB.2.2 rfl hi]

/-- **the tuple loop with a block of optional fields**: the back-off includes the first `inc` optionals
for `inc = m, m-1, …, 0` — only prefixes of the block are ever tried (F-C14-6) -/
theorem tuple_opt_block (k : Ver) (LA OB LB : List Seg) (ns : List (List Char)) (hLA : anyOptional LA = false)
    (hLB : anyOptional LB = false) (hOB : IsOptBlock OB ns) (hne : OB ≠ []) (path : Path) :
    ∀ n, (backoff (fun inc => passFields k (LA ++ (OB ++ LB)) true inc 0 path 0 []) n).rp =
      blockRP k (genSegs LA) ns (genSegs LB) n path := by
  have hv := fun inc => view_whole k LA OB LB ns hLA hLB hOB hne inc path
  unfold blockRP
  cases hsA : seqRP k (genSegs LA) path with
  | panic =>
    intro n
    have : ∀ inc, (passFields k (LA ++ (OB ++ LB)) true inc 0 path 0 []).view = .panic := by
      intro inc; rw [hv inc, hsA]
    cases n with
    | zero => simp only [backoff]; rw [Pass.rp_view, this 0]; rfl
    | succ n =>
      simp only [backoff]
      have h1 := this (n + 1)
      cases hf : passFields k (LA ++ (OB ++ LB)) true (n + 1) 0 path 0 [] <;> simp [hf, Pass.view] at h1 ⊢
      rfl
  | none =>
    intro n
    have hA := fun inc => view_noopt k LA true inc 0 path [] hLA
    simp only [hsA] at hA
    apply backoff_view_soft
    · intro i; rw [hv i, hsA]; exact (hA i).1
    · rw [hv 0, hsA]; exact (hA 0).2.1 rfl
  | some x =>
    obtain ⟨r1, pa⟩ := x
    intro n
    induction n with
    | zero =>
      simp only [backoff, blockTry]
      rw [Pass.rp_view, hv 0, hsA]
      simp only
      cases softTake k ns 0 r1 with
      | panic => rfl
      | none => rfl
      | some y =>
        obtain ⟨r2, po⟩ := y
        simp only
        cases seqRP k (genSegs LB) r2 with
        | panic => rfl
        | none => rfl
        | some z => obtain ⟨r3, pb⟩ := z; rfl
    | succ n ih =>
      simp only [backoff, blockTry]
      have h1 := hv (n + 1)
      rw [hsA] at h1
      simp only at h1
      cases hst : softTake k ns (n + 1) r1 with
      | panic =>
        rw [hst] at h1
        cases hf : passFields k (LA ++ (OB ++ LB)) true (n + 1) 0 path 0 [] <;> simp [hf, Pass.view] at h1 ⊢
        rfl
      | none =>
        rw [hst] at h1
        cases hf : passFields k (LA ++ (OB ++ LB)) true (n + 1) 0 path 0 [] <;> simp [hf, Pass.view] at h1 ⊢
        rfl
      | some y =>
        obtain ⟨r2, po⟩ := y
        rw [hst] at h1
        simp only at h1 ⊢
        cases hsB : seqRP k (genSegs LB) r2 with
        | panic =>
          rw [hsB] at h1
          cases hf : passFields k (LA ++ (OB ++ LB)) true (n + 1) 0 path 0 [] <;> simp [hf, Pass.view] at h1 ⊢
          rfl
        | some z =>
          obtain ⟨r3, pb⟩ := z
          rw [hsB] at h1
          cases hf : passFields k (LA ++ (OB ++ LB)) true (n + 1) 0 path 0 [] <;> simp [hf, Pass.view] at h1 ⊢
          simp [Pass.rp, h1]
        | none =>
          rw [hsB] at h1
          simp only [Nat.add_one_ne_zero, if_false] at h1
          cases hf : passFields k (LA ++ (OB ++ LB)) true (n + 1) 0 path 0 [] <;> simp [hf, Pass.view] at h1 ⊢
          exact ih



/-- `(A, names of the block of optionals, B)` of a flat list -/
def splitBlockB : List FSeg → List (List Char) × List FSeg
  | .opt n :: r => let (ns, B) := splitBlockB r; (n :: ns, B)
  | r => ([], r)

def splitBlock : List FSeg → List FSeg × List (List Char) × List FSeg
  | [] => ([], [], [])
  | .opt n :: r => let (ns, B) := splitBlockB (.opt n :: r); ([], ns, B)
  | f :: r => let (A, ns, B) := splitBlock r; (f :: A, ns, B)

/-- the router-side reading of a flat list whose optionals form one block -/
def optBlockRP (k : Ver) (F : List FSeg) (path : Path) : Out (Path × Params) :=
  blockRP k (splitBlock F).1 (splitBlock F).2.1 (splitBlock F).2.2 (splitBlock F).2.1.length path

theorem inBlock_decomp : ∀ (r : List Seg), inBlock r = true → innerOptFields r = false →
    ∃ OB LB ns, r = OB ++ LB ∧ IsOptBlock OB ns ∧ anyOptional LB = false := by
  intro r
  induction r with
  | nil => intro _ _; exact ⟨[], [], [], rfl, trivial, rfl⟩
  | cons o r ih =>
    intro hb hin
    simp only [innerOptFields, Bool.or_eq_false_iff, Bool.and_eq_false_iff] at hin
    simp only [inBlock] at hb
    by_cases ho : o.optional = true
    · simp only [ho, if_true] at hb
      have hat : o.optAtomish = true := by
        rcases hin.1.1 with h1 | h1
        · simp [ho] at h1
        · simpa using h1
      obtain ⟨n, hgen, _, _⟩ := optAtomish_spec .cur o hat
      obtain ⟨OB, LB, ns, h1, h2, h3⟩ := ih hb hin.2
      exact ⟨o :: OB, LB, n :: ns, by simp [h1], ⟨hat, hgen, h2⟩, h3⟩
    · simp only [ho, Bool.false_eq_true, if_false, Bool.not_eq_true'] at hb
      exact ⟨[], o :: r, [], rfl, trivial, hb⟩

theorem fieldsBlock_decomp : ∀ (l : List Seg), fieldsBlock l = true → innerOptFields l = false →
    anyOptional l = true →
    ∃ LA OB LB ns, l = LA ++ (OB ++ LB) ∧ anyOptional LA = false ∧ anyOptional LB = false ∧
      IsOptBlock OB ns ∧ OB ≠ [] := by
  intro l
  induction l with
  | nil => intro _ _ h; simp [anyOptional] at h
  | cons a r ih =>
    intro hb hin hany
    have hin' := hin
    simp only [innerOptFields, Bool.or_eq_false_iff, Bool.and_eq_false_iff] at hin
    simp only [fieldsBlock] at hb
    by_cases ha : a.optional = true
    · simp only [ha, if_true] at hb
      have hat : a.optAtomish = true := by
        rcases hin.1.1 with h1 | h1
        · simp [ha] at h1
        · simpa using h1
      obtain ⟨n, hgen, _, _⟩ := optAtomish_spec .cur a hat
      obtain ⟨OB, LB, ns, h1, h2, h3⟩ := inBlock_decomp r hb hin.2
      exact ⟨[], a :: OB, LB, n :: ns, by simp [h1], rfl, h3, ⟨hat, hgen, h2⟩, by simp⟩
    · have ha' : a.optional = false := by simpa using ha
      simp only [ha', Bool.false_eq_true, if_false] at hb
      have hr : anyOptional r = true := by simpa [anyOptional, ha'] using hany
      obtain ⟨LA, OB, LB, ns, h1, h2, h3, h4, h5⟩ := ih hb hin.2 hr
      exact ⟨a :: LA, OB, LB, ns, by simp [h1], by simp [anyOptional, ha', h2], h3, h4, h5⟩

theorem noopt_all (F : List FSeg) (h : countOptF F = 0) : ∀ f ∈ F, f.isOpt = false := by
  induction F with
  | nil => intro f hf; simp at hf
  | cons g F ih =>
    intro f hf
    have hg : g.isOpt = false := by cases hh : g.isOpt <;> simp [countOptF, hh] at h ⊢
    have hF : countOptF F = 0 := by simp [countOptF, hg] at h; exact h
    simp only [List.mem_cons] at hf
    rcases hf with rfl | hf
    · exact hg
    · exact ih hF f hf

theorem splitBlockB_names (ns : List (List Char)) (B : List FSeg) (hB : ∀ f, B.head? = some f → f.isOpt = false) :
    splitBlockB (ns.map FSeg.opt ++ B) = (ns, B) := by
  induction ns with
  | nil =>
    cases B with
    | nil => rfl
    | cons f B' =>
      have := hB f rfl
      cases f <;> simp [FSeg.isOpt] at this <;> rfl
  | cons n ns ih => simp [splitBlockB, ih]

theorem splitBlock_shape (A : List FSeg) (ns : List (List Char)) (B : List FSeg) (hA : countOptF A = 0)
    (hB : countOptF B = 0) (hne : ns ≠ []) : splitBlock (A ++ (ns.map FSeg.opt ++ B)) = (A, ns, B) := by
  have hBh : ∀ f, B.head? = some f → f.isOpt = false := by
    intro f hf
    cases B with
    | nil => simp at hf
    | cons g B' => simp at hf; subst hf; exact noopt_all _ hB g (by simp)
  induction A with
  | nil =>
    cases ns with
    | nil => exact absurd rfl hne
    | cons n ns =>
      have := splitBlockB_names (n :: ns) B hBh
      simp only [List.map_cons, List.cons_append, List.nil_append] at this ⊢
      simp only [splitBlock, this]
  | cons f A ih =>
    have hf : f.isOpt = false := noopt_all _ hA f (by simp)
    have hA' : countOptF A = 0 := by simp [countOptF, hf] at hA; exact hA
    have := ih hA'
    cases f <;> simp [FSeg.isOpt] at hf <;> simp [splitBlock, this]

theorem splitBlock_noopt (F : List FSeg) (h : countOptF F = 0) : splitBlock F = (F, [], []) := by
  induction F with
  | nil => rfl
  | cons f F ih =>
    have hf : f.isOpt = false := noopt_all _ h f (by simp)
    have hF : countOptF F = 0 := by simp [countOptF, hf] at h; exact h
    cases f <;> simp [FSeg.isOpt] at hf <;> simp [splitBlock, ih hF]

theorem optBlockRP_noopt (k : Ver) (F : List FSeg) (h : countOptF F = 0) (path : Path) :
    optBlockRP k F path = seqRP k F path := by
  unfold optBlockRP blockRP
  rw [splitBlock_noopt F h]
  simp only [List.length_nil, blockTry, softTake]
  cases seqRP k F path with
  | panic => rfl
  | none => rfl
  | some x => obtain ⟨r, ps⟩ := x; simp [seqRP, seqTest, Out.rp]

theorem countOptF_optmap (ns : List (List Char)) : countOptF (ns.map FSeg.opt) = ns.length := by
  induction ns with
  | nil => rfl
  | cons n ns ih => simp [countOptF, FSeg.isOpt, ih]; omega

/-- **segment trees whose optional params form one block of direct fields**: the tree behaves like
`optBlockRP` of its atoms, in every version of the code -/
theorem block_test (k : Ver) : ∀ (s : Seg) (path : Path), s.innerOptTuple = false → s.optBlock = true →
    (s.test k path).rp = optBlockRP k s.gen path
  | .st s, path, _, _ => by
    rw [optBlockRP_noopt k _ (by simp [Seg.gen, countOptF, FSeg.isOpt])]
    simp only [Seg.gen, seqRP, seqTest, toSeg]
    cases Seg.test k (.st s) path <;> simp [Out.rp]
  | .param n, path, _, _ => by
    rw [optBlockRP_noopt k _ (by simp [Seg.gen, countOptF, FSeg.isOpt])]
    simp only [Seg.gen, seqRP, seqTest, toSeg]
    cases Seg.test k (.param n) path <;> simp [Out.rp]
  | .splat n, path, _, _ => by
    rw [optBlockRP_noopt k _ (by simp [Seg.gen, countOptF, FSeg.isOpt])]
    simp only [Seg.gen, seqRP, seqTest, toSeg]
    cases Seg.test k (.splat n) path <;> simp [Out.rp]
  | .opt n, path, _, _ => by
    simp only [Seg.gen, optBlockRP, splitBlock, splitBlockB, blockRP, seqRP, seqTest, Out.rp, List.length_cons,
      List.length_nil, blockTry, softTake, toSeg]
    cases Seg.test k (.opt n) path <;> simp
  | .tup [], path, _, _ => by
    simp [Seg.test, Seg.gen, genSegs, optBlockRP, splitBlock, blockRP, seqRP, seqTest, Out.rp, blockTry, softTake]
  | .tup [a], path, h, hb => by
    have ha : a.innerOptTuple = false := by simpa [Seg.innerOptTuple] using h
    have hba : a.optBlock = true := by simpa [Seg.optBlock] using hb
    have ih := block_test k a path ha hba
    simp only [Seg.gen, genSegs, List.append_nil]
    rw [← ih]
    simp only [Seg.test]
    cases ht : a.test k path with
    | panic => rfl
    | none => rfl
    | some m =>
      have hp := test_partition k a path m ht
      have := splitBytes_bytes m.matched m.remaining
      rw [hp] at this
      simp [this, Out.rp]
  | .tup (a :: b :: l), path, h, hb => by
    have hin : innerOptFields (a :: b :: l) = false := by simpa [Seg.innerOptTuple] using h
    have hfb : fieldsBlock (a :: b :: l) = true := by simpa [Seg.optBlock] using hb
    simp only [Seg.gen]
    by_cases hany : anyOptional (a :: b :: l) = true
    · obtain ⟨LA, OB, LB, ns, hl, hLA, hLB, hOB, hne⟩ := fieldsBlock_decomp _ hfb hin hany
      have hbk := tuple_opt_block k LA OB LB ns hLA hLB hOB hne path ns.length
      have hcnt : countOpt (a :: b :: l) = ns.length := by
        rw [hl, countOpt_append, countOpt_append, countOpt_noOpt LA hLA, countOpt_noOpt LB hLB,
          countOpt_block OB ns hOB]; omega
      have hnsne : ns ≠ [] := by
        intro h0; subst h0
        cases OB with
        | nil => exact hne rfl
        | cons o os => simp [IsOptBlock] at hOB
      have hgs : genSegs (a :: b :: l) = genSegs LA ++ (ns.map FSeg.opt ++ genSegs LB) := by
        rw [hl, genSegs_append, genSegs_append, genSegs_block OB ns hOB]
      unfold optBlockRP
      rw [hgs, splitBlock_shape _ ns _ (countOptF_noopt LA hLA) (countOptF_noopt LB hLB) hnsne, ← hbk]
      simp only [Seg.test, hcnt]
      rw [← hl]
      cases hb' : backoff (fun inc => passFields k (a :: b :: l) true inc 0 path 0 []) ns.length with
      | done r ml p =>
        obtain ⟨inc, hinc⟩ := backoff_done _ _ _ _ _ hb'
        obtain ⟨c, hc1, hc2⟩ := pass_inv k (a :: b :: l) true inc 0 path 0 [] path [] r ml p (by simp)
          (by simp [bytes]) hinc
        have := splitBytes_bytes c r
        rw [hc1, hc2] at this
        simp [this, Out.rp, Pass.rp]
      | panic => simp [Out.rp, Pass.rp]
      | fail => simp [Out.rp, Pass.rp]
      | retry => simp [Out.rp, Pass.rp]
    · have hany' : anyOptional (a :: b :: l) = false := by simpa using hany
      have hfl := flatten_test k (.tup (a :: b :: l)) path (by simpa [Seg.optional] using hany')
      rw [hfl]
      simp only [Seg.gen]
      rw [optBlockRP_noopt k _ (countOptF_noopt _ hany')]
      rfl



/-! ## the optional block on characters -/

def softSpec : List (List Char) → Nat → Path → Option (Path × Params)
  | [], _, r => some (r, [])
  | _ :: _, 0, r => some (r, [])
  | n :: ns, c + 1, r =>
    match optSpec n r with
    | none => none
    | some (r', po) =>
      match softSpec ns c r' with
      | some (r'', ps) => some (r'', po ++ ps)
      | none => none

theorem softSpec_zero (ns : List (List Char)) (r : Path) : softSpec ns 0 r = some (r, []) := by
  cases ns <;> rfl

theorem soft_aligned : ∀ (ns : List (List Char)) (c : Nat) (r : Path),
    softTake .aligned ns c r = ofOpt (softSpec ns c r) := by
  intro ns
  induction ns with
  | nil => intro c r; simp [softTake, softSpec, ofOpt]
  | cons n ns ih =>
    intro c r
    cases c with
    | zero => simp [softTake, softSpec, ofOpt]
    | succ c =>
      simp only [softTake, softSpec, opt_aligned]
      cases optSpec n r with
      | none => simp [ofOpt]
      | some x =>
        obtain ⟨r', po⟩ := x
        simp only [ofOpt, ih c r']
        cases softSpec ns c r' with
        | none => simp [ofOpt]
        | some y => obtain ⟨r'', ps⟩ := y; simp [ofOpt]

def blockSpecTry (ns : List (List Char)) (B : List FSeg) (r1 : Path) : Nat → Option (Path × Params)
  | 0 =>
    match softSpec ns 0 r1 with
    | none => none
    | some (r2, po) =>
      match seqSpec B r2 with
      | some (r3, pb) => some (r3, po ++ pb)
      | none => none
  | i + 1 =>
    match softSpec ns (i + 1) r1 with
    | none => none
    | some (r2, po) =>
      match seqSpec B r2 with
      | some (r3, pb) => some (r3, po ++ pb)
      | none => blockSpecTry ns B r1 i

theorem blockTry_aligned (ns : List (List Char)) (B : List FSeg) (hB : ∀ f ∈ B, WfA f) (r1 : Path) (pa : Params) :
    ∀ inc, blockTry .aligned ns B r1 pa inc =
      match blockSpecTry ns B r1 inc with
      | some (r3, ps) => .some (r3, pa ++ ps)
      | none => .none := by
  intro inc
  induction inc with
  | zero =>
    simp only [blockTry, blockSpecTry, soft_aligned]
    cases softSpec ns 0 r1 with
    | none => simp [ofOpt]
    | some x =>
      obtain ⟨r2, po⟩ := x
      simp only [ofOpt, seqRP_aligned B hB]
      cases seqSpec B r2 with
      | none => simp [ofOpt]
      | some y => obtain ⟨r3, pb⟩ := y; simp [ofOpt, List.append_assoc]
  | succ i ih =>
    simp only [blockTry, blockSpecTry, soft_aligned]
    cases softSpec ns (i + 1) r1 with
    | none => simp [ofOpt]
    | some x =>
      obtain ⟨r2, po⟩ := x
      simp only [ofOpt, seqRP_aligned B hB]
      cases seqSpec B r2 with
      | none => simp only [ofOpt]; exact ih
      | some y => obtain ⟨r3, pb⟩ := y; simp [ofOpt, List.append_assoc]

/-- a flat route whose optionals form one block accepts the path, router-side reading -/
def gmatchB (F : List FSeg) (path : Path) : Option Params :=
  match seqSpec (splitBlock F).1 path with
  | none => none
  | some (r1, pa) =>
    match blockSpecTry (splitBlock F).2.1 (splitBlock F).2.2 r1 (splitBlock F).2.1.length with
    | some (r3, ps) => if complete r3 then some (pa ++ ps) else none
    | none => none

theorem optBlock_aligned (F : List FSeg) (hA : ∀ f ∈ (splitBlock F).1, WfA f)
    (hB : ∀ f ∈ (splitBlock F).2.2, WfA f) (path : Path) :
    (match optBlockRP .aligned F path with
      | .some (r, ps) => if complete r then Out.some ps else .none
      | .none => .none
      | .panic => .panic) = ofOpt (gmatchB F path) := by
  unfold optBlockRP blockRP gmatchB
  rw [seqRP_aligned _ hA]
  cases seqSpec (splitBlock F).1 path with
  | none => simp [ofOpt]
  | some x =>
    obtain ⟨r1, pa⟩ := x
    simp only [ofOpt, blockTry_aligned _ _ hB]
    cases blockSpecTry (splitBlock F).2.1 (splitBlock F).2.2 r1 (splitBlock F).2.1.length with
    | none => simp [ofOpt]
    | some y =>
      obtain ⟨r3, ps⟩ := y
      simp only
      split <;> simp [ofOpt]

/-! ## prefix expansions -/

def paramsOf (ns : List (List Char)) : List FSeg := ns.map FSeg.param

/-- the expansions that keep a prefix of the block, longest first -/
def prefixExps (ns : List (List Char)) (B : List FSeg) : Nat → List (List FSeg)
  | 0 => [B]
  | j + 1 => (paramsOf (ns.take (j + 1)) ++ B) :: prefixExps ns B j

theorem softSpec_stuck : ∀ (ns : List (List Char)) (c : Nat) (r : Path),
    (r = [] ∨ ∃ t, r = '/' :: t ∧ segHead t = []) → softSpec ns c r = some (r, []) := by
  intro ns
  induction ns with
  | nil => intro c r _; rfl
  | cons n ns ih =>
    intro c r hr
    cases c with
    | zero => rfl
    | succ c =>
      have ho : optSpec n r = some (r, []) := by
        rcases hr with rfl | ⟨t, rfl, he⟩
        · rfl
        · simp [optSpec, he]
      simp [softSpec, ho, ih c r hr]

theorem paramsOf_wfa (ns : List (List Char)) (hn : ∀ n ∈ ns, Plain n) : ∀ f ∈ paramsOf ns, WfA f := by
  intro f hf
  simp only [paramsOf, List.mem_map] at hf
  obtain ⟨n, hn', rfl⟩ := hf
  exact hn n hn'

theorem soft_vs_strict : ∀ (c : Nat) (ns : List (List Char)) (r : Path), c + 1 ≤ ns.length → Aligned r →
    (∃ r2 po, seqSpec (paramsOf (ns.take (c + 1))) r = some (r2, po) ∧ softSpec ns (c + 1) r = some (r2, po) ∧
      Aligned r2) ∨
    (seqSpec (paramsOf (ns.take (c + 1))) r = none ∧ softSpec ns (c + 1) r = softSpec ns c r) := by
  intro c
  induction c with
  | zero =>
    intro ns r hl hr
    cases ns with
    | nil => simp at hl
    | cons n ns =>
      rcases hr with rfl | hr
      · right; simp [paramsOf, seqSpec, atomSpec, softSpec, optSpec, softSpec_zero]
      · cases r with
        | nil => simp [startsSlash] at hr
        | cons ch t =>
          have hc : ch = '/' := by simpa [startsSlash] using hr
          subst hc
          by_cases he : segHead t = []
          · right; simp [paramsOf, seqSpec, atomSpec, softSpec, optSpec, he, softSpec_zero]
          · left
            refine ⟨segTail t, [(n, segHead t)], ?_, ?_, segTail_aligned t⟩
            · simp [paramsOf, seqSpec, atomSpec, he]
            · simp [softSpec, optSpec, he, softSpec_zero]
  | succ c ih =>
    intro ns r hl hr
    cases ns with
    | nil => simp at hl
    | cons n ns =>
      have hl' : c + 1 ≤ ns.length := by simpa using hl
      have hstuck : (r = [] ∨ ∃ t, r = '/' :: t ∧ segHead t = []) →
          seqSpec (paramsOf ((n :: ns).take (c + 1 + 1))) r = none ∧
            softSpec (n :: ns) (c + 1 + 1) r = softSpec (n :: ns) (c + 1) r := by
        intro hs
        refine ⟨?_, by rw [softSpec_stuck _ _ _ hs, softSpec_stuck _ _ _ hs]⟩
        rcases hs with rfl | ⟨t, rfl, he⟩
        · simp [paramsOf, seqSpec, atomSpec]
        · simp [paramsOf, seqSpec, atomSpec, he]
      rcases hr with rfl | hr
      · right; exact hstuck (Or.inl rfl)
      · cases r with
        | nil => simp [startsSlash] at hr
        | cons ch t =>
          have hc : ch = '/' := by simpa [startsSlash] using hr
          subst hc
          by_cases he : segHead t = []
          · right; exact hstuck (Or.inr ⟨t, rfl, he⟩)
          · have hopt : optSpec n ('/' :: t) = some (segTail t, [(n, segHead t)]) := by simp [optSpec, he]
            have hat : atomSpec (.param n) ('/' :: t) = some (segTail t, [(n, segHead t)]) := by
              simp [atomSpec, he]
            rcases ih ns (segTail t) hl' (segTail_aligned t) with ⟨r2, po, h1, h2, h3⟩ | ⟨h1, h2⟩
            · left
              refine ⟨r2, (n, segHead t) :: po, ?_, ?_, h3⟩
              · simp only [List.take_succ_cons, paramsOf, List.map_cons, seqSpec, hat]
                simp only [paramsOf] at h1
                rw [h1]; simp
              · simp only [softSpec, hopt, h2]; simp
            · right
              refine ⟨?_, ?_⟩
              · simp only [List.take_succ_cons, paramsOf, List.map_cons, seqSpec, hat]
                simp only [paramsOf] at h1
                rw [h1]
              · simp only [softSpec, hopt, h2]



/-- (Q'') if `B` accepts a path completely, then started at least one `/` later it cannot stop with
something left over -/
theorem no_leftover_general (B : List FSeg) (hw : ∀ f ∈ B, WfA f) (hsl : splatLast B = true)
    (Y P2 ra r3 : Path) (pa p3 : Params) (hY : 1 ≤ slashes Y)
    (h1 : seqSpec B (Y ++ P2) = some (ra, pa)) (hc : complete ra = true)
    (h2 : seqSpec B P2 = some (r3, p3)) : complete r3 = true := by
  by_cases hns : noSplat B = true
  · obtain ⟨e1, pre1, s1⟩ := seq_slashes B hw hns _ _ _ h1
    obtain ⟨e2, pre2, s2⟩ := seq_slashes B hw hns _ _ _ h2
    rw [slashes_append] at e1
    have hra : slashes ra = slashes Y + slashes r3 := by omega
    rcases complete_slashes hc with hra0 | hra1
    · rw [hra0] at hra; simp [slashes] at hra; omega
    · have h30 : slashes r3 = 0 := by rw [hra1] at hra; simp [slashes] at hra; omega
      by_cases hr3 : r3 = []
      · simp [hr3, complete]
      · exfalso
        have hlast1 : lastC (Y ++ P2) = some '/' := by
          rw [s1, hra1, lastC_append _ _ (by simp)]; rfl
        have hlast2 : lastC (Y ++ P2) = lastC r3 := by
          rw [s2, ← List.append_assoc, lastC_append _ _ hr3]
        rw [hlast2] at hlast1
        exact lastC_slashes0 r3 hr3 h30 hlast1
  · have : r3 = [] := seq_splat_rem B hw hsl (by simpa using hns) _ _ _ h2
    simp [this, complete]

theorem mem_prefixExps (ns : List (List Char)) (B : List FSeg) : ∀ (inc : Nat) (G : List FSeg),
    G ∈ prefixExps ns B inc → ∃ j, j ≤ inc ∧ G = paramsOf (ns.take j) ++ B := by
  intro inc
  induction inc with
  | zero => intro G h; simp [prefixExps] at h; exact ⟨0, Nat.le_refl _, by simp [h, paramsOf]⟩
  | succ i ih =>
    intro G h
    simp only [prefixExps, List.mem_cons] at h
    rcases h with rfl | h
    · exact ⟨i + 1, Nat.le_refl _, rfl⟩
    · obtain ⟨j, hj, hG⟩ := ih G h
      exact ⟨j, by omega, hG⟩

theorem firstG_none_of_all (Gs : List (List FSeg)) (r : Path) (h : ∀ G ∈ Gs, gmatch G r = none) :
    firstG Gs r = none := by
  induction Gs with
  | nil => rfl
  | cons G Gs ih => simp [firstG, h G (by simp), ih (fun X hX => h X (by simp [hX]))]

theorem consumesAll_params (ns : List (List Char)) : consumesAll (paramsOf ns) = ns.length := by
  induction ns with
  | nil => rfl
  | cons n ns ih => simp only [paramsOf, List.map_cons, consumesAll, consumes, List.length_cons] at ih ⊢; omega

theorem noSplat_params (ns : List (List Char)) : noSplat (paramsOf ns) = true := by
  induction ns with
  | nil => rfl
  | cons n ns ih => simpa [paramsOf, noSplat] using ih

/-- once the pass with `inc + 1` optionals leaves something over, no shorter prefix expansion accepts -/
theorem shorter_prefixes_reject (ns : List (List Char)) (hn : ∀ n ∈ ns, Plain n) (B : List FSeg)
    (hw : ∀ f ∈ B, WfA f) (hsl : splatLast B = true) (inc : Nat) (hlenns : inc + 1 ≤ ns.length)
    (r1 r2 r3 : Path) (po pb : Params)
    (h1 : seqSpec (paramsOf (ns.take (inc + 1))) r1 = some (r2, po)) (h2 : seqSpec B r2 = some (r3, pb))
    (hinc : complete r3 = false) : firstG (prefixExps ns B inc) r1 = none := by
  apply firstG_none_of_all
  intro G hG
  obtain ⟨j, hj, rfl⟩ := mem_prefixExps ns B inc G hG
  cases hg : gmatch (paramsOf (ns.take j) ++ B) r1 with
  | none => rfl
  | some q =>
    exfalso
    rw [gmatch_append] at hg
    cases hsj : seqSpec (paramsOf (ns.take j)) r1 with
    | none => simp [hsj] at hg
    | some x =>
      obtain ⟨rj, pj⟩ := x
      simp only [hsj] at hg
      -- the longer prefix is the shorter one followed by at least one more param
      have htake : ns.take (inc + 1) = ns.take j ++ (ns.take (inc + 1)).drop j := by
        have := List.take_append_drop j (ns.take (inc + 1))
        rw [List.take_take, Nat.min_eq_left (by omega)] at this
        exact this.symm
      have hsplit : paramsOf (ns.take (inc + 1)) = paramsOf (ns.take j) ++ paramsOf ((ns.take (inc + 1)).drop j) := by
        simp only [paramsOf, ← List.map_append, ← htake]
      rw [hsplit, seqSpec_append, hsj] at h1
      simp only at h1
      cases hsR : seqSpec (paramsOf ((ns.take (inc + 1)).drop j)) rj with
      | none => simp [hsR] at h1
      | some y =>
        obtain ⟨r2', pR⟩ := y
        simp [hsR] at h1
        obtain ⟨hr2, _⟩ := h1
        subst hr2
        have hRw : ∀ f ∈ paramsOf ((ns.take (inc + 1)).drop j), WfA f :=
          paramsOf_wfa _ (fun n hn' => hn n (List.mem_of_mem_take (List.mem_of_mem_drop hn')))
        obtain ⟨e, pre, s⟩ := seq_slashes _ hRw (noSplat_params _) _ _ _ hsR
        have hlen : 1 ≤ ((ns.take (inc + 1)).drop j).length := by
          rw [List.length_drop, List.length_take, Nat.min_eq_left hlenns]; omega
        have hpre : 1 ≤ slashes pre := by
          rw [s, slashes_append, consumesAll_params] at e; omega
        cases hsB : seqSpec B rj with
        | none => simp [gmatch, hsB] at hg
        | some z =>
          obtain ⟨ra, pa⟩ := z
          simp only [gmatch, hsB] at hg
          by_cases hca : complete ra = true
          · rw [s] at hsB
            have := no_leftover_general B hw hsl pre r2' ra r3 pa pb hpre hsB hca h2
            rw [this] at hinc; simp at hinc
          · simp [hca] at hg



def completeP : Option (Path × Params) → Option Params
  | some (r, ps) => if complete r then some ps else none
  | none => none

theorem softSpec_unaligned (n : List Char) (ns : List (List Char)) (c : Nat) (r : Path) (h1 : r ≠ [])
    (h2 : startsSlash r = false) : softSpec (n :: ns) (c + 1) r = none := by
  cases r with
  | nil => simp at h1
  | cons ch t =>
    have hc : ch ≠ '/' := by simpa [startsSlash] using h2
    simp [softSpec, optSpec, hc]

/-- the back-off over a block of optionals accepts exactly what the first accepting PREFIX expansion
accepts, with its params -/
theorem block_eq_prefix (ns : List (List Char)) (hn : ∀ n ∈ ns, Plain n) (B : List FSeg)
    (hw : ∀ f ∈ B, WfA f) (hsl : splatLast B = true) (r1 : Path) :
    ∀ inc, inc ≤ ns.length → completeP (blockSpecTry ns B r1 inc) = firstG (prefixExps ns B inc) r1 := by
  intro inc
  induction inc with
  | zero =>
    intro _
    simp only [blockSpecTry, softSpec_zero, prefixExps, firstG, gmatch]
    cases seqSpec B r1 with
    | none => rfl
    | some x => obtain ⟨r3, pb⟩ := x; simp only [completeP, List.nil_append]; split <;> rfl
  | succ i ih =>
    intro hle
    have ih' := ih (by omega)
    by_cases hal : Aligned r1
    · rcases soft_vs_strict i ns r1 hle hal with ⟨r2, po, h1, h2, _⟩ | ⟨h1, h2⟩
      · simp only [blockSpecTry, h2, prefixExps, firstG, gmatch_append, h1]
        cases hsB : seqSpec B r2 with
        | none =>
          simp only [gmatch, hsB, Option.map_none]
          exact ih'
        | some x =>
          obtain ⟨r3, pb⟩ := x
          simp only [gmatch, hsB, completeP]
          by_cases hc : complete r3 = true
          · simp [hc]
          · have hc' : complete r3 = false := by simpa using hc
            simp only [hc', Bool.false_eq_true, if_false, Option.map_none]
            exact (shorter_prefixes_reject ns hn B hw hsl i hle r1 r2 r3 po pb h1 hsB hc').symm
      · simp only [prefixExps, firstG, gmatch_append, h1]
        rw [← ih']
        simp only [blockSpecTry, h2]
        -- the pass with one more optional takes the same segments as the one below
        cases i with
        | zero =>
          simp only [blockSpecTry]
          cases softSpec ns 0 r1 with
          | none => rfl
          | some x =>
            obtain ⟨r2, po⟩ := x
            simp only
            cases seqSpec B r2 with
            | none => rfl
            | some y => rfl
        | succ i' =>
          simp only [blockSpecTry]
          cases softSpec ns (i' + 1) r1 with
          | none => rfl
          | some x =>
            obtain ⟨r2, po⟩ := x
            simp only
            cases seqSpec B r2 with
            | none => rfl
            | some y => rfl
    · have hne : r1 ≠ [] := fun h => hal (Or.inl h)
      have hns : startsSlash r1 = false := by
        cases hs : startsSlash r1
        · rfl
        · exact absurd (Or.inr hs) hal
      cases ns with
      | nil => simp at hle
      | cons n ns' =>
        simp only [blockSpecTry, softSpec_unaligned n ns' i r1 hne hns, completeP]
        exact (firstG_unaligned _ r1 hne hns).symm

theorem gmatchB_eq_prefix (F : List FSeg) (hn : ∀ n ∈ (splitBlock F).2.1, Plain n)
    (hw : ∀ f ∈ (splitBlock F).2.2, WfA f) (hsl : splatLast (splitBlock F).2.2 = true) (path : Path) :
    gmatchB F path =
      firstG (prefixAll (splitBlock F).1
        (prefixExps (splitBlock F).2.1 (splitBlock F).2.2 (splitBlock F).2.1.length)) path := by
  unfold gmatchB
  rw [firstG_prefix]
  cases seqSpec (splitBlock F).1 path with
  | none => rfl
  | some x =>
    obtain ⟨r1, pa⟩ := x
    simp only
    rw [← block_eq_prefix _ hn _ hw hsl r1 _ (Nat.le_refl _)]
    cases blockSpecTry (splitBlock F).2.1 (splitBlock F).2.2 r1 (splitBlock F).2.1.length with
    | none => rfl
    | some y => obtain ⟨r3, ps⟩ := y; simp only [completeP]; split <;> simp



/-! ## prefix expansions and the registered table -/

theorem splitBlockB_recompose : ∀ (F : List FSeg), F = (splitBlockB F).1.map FSeg.opt ++ (splitBlockB F).2 := by
  intro F
  induction F with
  | nil => rfl
  | cons f F ih =>
    cases f with
    | opt n => simp only [splitBlockB, List.map_cons, List.cons_append]; rw [← ih]
    | st s => rfl
    | param s => rfl
    | splat s => rfl

theorem splitBlock_recompose : ∀ (F : List FSeg),
    F = (splitBlock F).1 ++ ((splitBlock F).2.1.map FSeg.opt ++ (splitBlock F).2.2) ∧ countOptF (splitBlock F).1 = 0 := by
  intro F
  induction F with
  | nil => exact ⟨rfl, rfl⟩
  | cons f F ih =>
    cases f with
    | opt n =>
      refine ⟨?_, rfl⟩
      have := splitBlockB_recompose (.opt n :: F)
      simpa [splitBlock] using this
    | st s => exact ⟨by simp only [splitBlock, List.cons_append]; rw [← ih.1], by simp [splitBlock, countOptF, FSeg.isOpt, ih.2]⟩
    | param s => exact ⟨by simp only [splitBlock, List.cons_append]; rw [← ih.1], by simp [splitBlock, countOptF, FSeg.isOpt, ih.2]⟩
    | splat s => exact ⟨by simp only [splitBlock, List.cons_append]; rw [← ih.1], by simp [splitBlock, countOptF, FSeg.isOpt, ih.2]⟩

theorem expandSpec_noopt (B : List FSeg) (h : countOptF B = 0) : expandSpec B = [B] := by
  induction B with
  | nil => rfl
  | cons f B ih =>
    have hf : f.isOpt = false := noopt_all _ h f (by simp)
    have hB : countOptF B = 0 := by simp [countOptF, hf] at h; exact h
    cases f <;> simp [FSeg.isOpt] at hf <;> simp [expandSpec, ih hB]

/-- (M1) every prefix expansion is registered -/
theorem prefix_mem_expand (ns : List (List Char)) (B : List FSeg) (hB : countOptF B = 0) :
    ∀ j, paramsOf (ns.take j) ++ B ∈ expandSpec (ns.map FSeg.opt ++ B) := by
  induction ns with
  | nil => intro j; simp [paramsOf, expandSpec_noopt B hB]
  | cons n ns ih =>
    intro j
    simp only [List.map_cons, List.cons_append, expandSpec, List.mem_append, List.mem_map]
    cases j with
    | zero => right; simpa [paramsOf] using ih 0
    | succ j => left; exact ⟨paramsOf (ns.take j) ++ B, ih j, by simp [paramsOf]⟩

/-- a segment without the param's name -/
def shape : FSeg → FSeg
  | .param _ => .param []
  | f => f

theorem atomSpec_shape (f g : FSeg) (h : shape f = shape g) (path : Path) :
    (atomSpec f path).map (·.1) = (atomSpec g path).map (·.1) := by
  cases f <;> cases g <;> simp [shape] at h <;> try (subst h; rfl)
  · cases path with
    | nil => rfl
    | cons c t => simp only [atomSpec]; split <;> rfl

theorem seqSpec_shape : ∀ (G G' : List FSeg), G.map shape = G'.map shape → ∀ path,
    (seqSpec G path).map (·.1) = (seqSpec G' path).map (·.1) := by
  intro G
  induction G with
  | nil => intro G' h path; cases G' <;> simp at h; rfl
  | cons f G ih =>
    intro G' h path
    cases G' with
    | nil => simp at h
    | cons g G' =>
      simp only [List.map_cons, List.cons.injEq] at h
      have ha := atomSpec_shape f g h.1 path
      simp only [seqSpec]
      cases hf : atomSpec f path with
      | none =>
        rw [hf] at ha
        cases hg : atomSpec g path with
        | none => rfl
        | some y => rw [hg] at ha; simp at ha
      | some x =>
        obtain ⟨r, ps⟩ := x
        rw [hf] at ha
        cases hg : atomSpec g path with
        | none => rw [hg] at ha; simp at ha
        | some y =>
          obtain ⟨r', ps'⟩ := y
          rw [hg] at ha
          simp at ha
          subst ha
          have := ih G' h.2 r
          simp only
          cases h1 : seqSpec G r with
          | none =>
            rw [h1] at this
            cases h2 : seqSpec G' r with
            | none => rfl
            | some z => rw [h2] at this; simp at this
          | some z =>
            obtain ⟨r1, p1⟩ := z
            rw [h1] at this
            cases h2 : seqSpec G' r with
            | none => rw [h2] at this; simp at this
            | some w => obtain ⟨r2, p2⟩ := w; rw [h2] at this; simpa using this

theorem gmatch_shape (G G' : List FSeg) (h : G.map shape = G'.map shape) (path : Path) :
    (gmatch G path).isSome = (gmatch G' path).isSome := by
  have := seqSpec_shape G G' h path
  unfold gmatch
  cases h1 : seqSpec G path with
  | none =>
    rw [h1] at this
    cases h2 : seqSpec G' path with
    | none => rfl
    | some z => rw [h2] at this; simp at this
  | some z =>
    obtain ⟨r1, p1⟩ := z
    rw [h1] at this
    cases h2 : seqSpec G' path with
    | none => rw [h2] at this; simp at this
    | some w =>
      obtain ⟨r2, p2⟩ := w
      rw [h2] at this
      simp at this
      subst this
      simp only
      split <;> simp

theorem params_shape (ns : List (List Char)) : (paramsOf ns).map shape = List.replicate ns.length (.param []) := by
  induction ns with
  | nil => rfl
  | cons n ns ih => simp only [paramsOf, List.map_cons, shape, List.length_cons, List.replicate_succ] at ih ⊢; rw [ih]

/-- (M2) every registered expansion of a block has the shape of a prefix expansion -/
theorem expand_shape (ns : List (List Char)) (B : List FSeg) (hB : countOptF B = 0) :
    ∀ G ∈ expandSpec (ns.map FSeg.opt ++ B), ∃ j, j ≤ ns.length ∧
      G.map shape = (paramsOf (ns.take j) ++ B).map shape := by
  induction ns with
  | nil => intro G hG; simp [expandSpec_noopt B hB] at hG; subst hG; exact ⟨0, Nat.le_refl _, by simp [paramsOf]⟩
  | cons n ns ih =>
    intro G hG
    simp only [List.map_cons, List.cons_append, expandSpec, List.mem_append, List.mem_map] at hG
    rcases hG with ⟨G', hG', rfl⟩ | hG
    · obtain ⟨j, hj, hs⟩ := ih G' hG'
      exact ⟨j + 1, by simp; omega, by simp [paramsOf, shape] at hs ⊢; exact hs⟩
    · obtain ⟨j, hj, hs⟩ := ih G hG
      refine ⟨j, by simp; omega, ?_⟩
      rw [hs]
      simp only [List.map_append, params_shape]
      congr 2
      simp [List.length_take]
      omega



/-! ## route trees whose leaves may carry a block of optionals -/

/-- the prefix expansions of a leaf's flat route, longest first: what the router tries -/
def leafRO (F : List FSeg) : List (List FSeg) :=
  prefixAll (splitBlock F).1 (prefixExps (splitBlock F).2.1 (splitBlock F).2.2 (splitBlock F).2.1.length)

mutual
def Route.ro3 : Route → List (List FSeg)
  | .mk segs children =>
    if children.isEmpty then leafRO segs.gen
    else
      match segs.gen with
      | [.opt n] => prefixAll [.param n] (ro3List children) ++ ro3List children
      | g => prefixAll g (ro3List children)
def ro3List : List Route → List (List FSeg)
  | [] => []
  | c :: cs => c.ro3 ++ ro3List cs
end

mutual
/-- the hypotheses of stage 3 on a route: a leaf may carry any number of optional params as long as they
are direct fields (possibly wrapped in 1-tuples) forming one block; a route with children as in stage 2 -/
def Route.stage3 : Route → Bool
  | .mk segs children =>
    segs.gen.all (fun f => decide (WfAO f)) && !segs.innerOptTuple &&
    (if children.isEmpty then (segs.optBlock && splatLast segs.gen)
     else (decide (countOptF segs.gen ≤ 1) && ((!segs.optional && noSplat segs.gen) || isPureOpt segs.gen))) &&
    stage3List children
def stage3List : List Route → Bool
  | [] => true
  | c :: cs => c.stage3 && stage3List cs
end

def firstDef3 : List Route → Nat → Path → Option (Nat × Params)
  | [], _, _ => none
  | c :: cs, i, path =>
    match firstG c.ro3 path with
    | some ps => some (i, ps)
    | none => firstDef3 cs (i + 1) path

theorem firstG_ro3List (cs : List Route) (i : Nat) (path : Path) :
    firstG (ro3List cs) path = (firstDef3 cs i path).map (·.2) := by
  induction cs generalizing i with
  | nil => rfl
  | cons c cs ih =>
    simp only [ro3List, firstG_append, firstDef3]
    cases firstG c.ro3 path with
    | some ps => rfl
    | none => exact ih (i + 1)

/-- after the block of a segment tree with one block of optionals nothing optional is left -/
theorem block_gen_shape : ∀ (s : Seg), s.innerOptTuple = false → s.optBlock = true →
    countOptF (splitBlock s.gen).2.2 = 0
  | .st s, _, _ => by simp [Seg.gen, splitBlock, countOptF]
  | .param n, _, _ => by simp [Seg.gen, splitBlock, countOptF]
  | .splat n, _, _ => by simp [Seg.gen, splitBlock, countOptF]
  | .opt n, _, _ => by simp [Seg.gen, splitBlock, splitBlockB, countOptF]
  | .tup [], _, _ => by simp [Seg.gen, genSegs, splitBlock, countOptF]
  | .tup [a], h, hb => by
    have ha : a.innerOptTuple = false := by simpa [Seg.innerOptTuple] using h
    have hba : a.optBlock = true := by simpa [Seg.optBlock] using hb
    simpa [Seg.gen, genSegs] using block_gen_shape a ha hba
  | .tup (a :: b :: l), h, hb => by
    have hin : innerOptFields (a :: b :: l) = false := by simpa [Seg.innerOptTuple] using h
    have hfb : fieldsBlock (a :: b :: l) = true := by simpa [Seg.optBlock] using hb
    simp only [Seg.gen]
    by_cases hany : anyOptional (a :: b :: l) = true
    · obtain ⟨LA, OB, LB, ns, hl, hLA, hLB, hOB, hne⟩ := fieldsBlock_decomp _ hfb hin hany
      have hnsne : ns ≠ [] := by
        intro h0; subst h0
        cases OB with
        | nil => exact hne rfl
        | cons o os => simp [IsOptBlock] at hOB
      have hgs : genSegs (a :: b :: l) = genSegs LA ++ (ns.map FSeg.opt ++ genSegs LB) := by
        rw [hl, genSegs_append, genSegs_append, genSegs_block OB ns hOB]
      rw [hgs, splitBlock_shape _ ns _ (countOptF_noopt LA hLA) (countOptF_noopt LB hLB) hnsne]
      exact countOptF_noopt LB hLB
    · have hany' : anyOptional (a :: b :: l) = false := by simpa using hany
      rw [splitBlock_noopt _ (countOptF_noopt _ hany')]
      rfl

theorem splatLast_suffix (X B : List FSeg) (h : splatLast (X ++ B) = true) : splatLast B = true := by
  induction X with
  | nil => simpa using h
  | cons f X ih => exact ih (splatLast_tail f (X ++ B) h)

/-- the facts about `(A, ns, B)` needed to compare a block leaf with the table -/
theorem leaf_parts (segs : Seg) (hwf : ∀ f ∈ segs.gen, WfAO f) (hin : segs.innerOptTuple = false)
    (hob : segs.optBlock = true) (hsl : splatLast segs.gen = true) :
    (∀ f ∈ (splitBlock segs.gen).1, WfA f) ∧ (∀ n ∈ (splitBlock segs.gen).2.1, Plain n) ∧
    (∀ f ∈ (splitBlock segs.gen).2.2, WfA f) ∧ splatLast (splitBlock segs.gen).2.2 = true ∧
    countOptF (splitBlock segs.gen).2.2 = 0 := by
  obtain ⟨hrec, hA0⟩ := splitBlock_recompose segs.gen
  have hB0 := block_gen_shape segs hin hob
  have hmemA : ∀ f ∈ (splitBlock segs.gen).1, f ∈ segs.gen := by
    intro f hf; rw [hrec]; simp [hf]
  have hmemB : ∀ f ∈ (splitBlock segs.gen).2.2, f ∈ segs.gen := by
    intro f hf; rw [hrec]; simp [hf]
  have hmemN : ∀ n ∈ (splitBlock segs.gen).2.1, FSeg.opt n ∈ segs.gen := by
    intro n hn; rw [hrec]; simp only [List.mem_append, List.mem_map]; right; left; exact ⟨n, hn, rfl⟩
  refine ⟨fun f hf => wfa_of_wfao (hwf f (hmemA f hf)) (noopt_all _ hA0 f hf),
    fun n hn => hwf (.opt n) (hmemN n hn),
    fun f hf => wfa_of_wfao (hwf f (hmemB f hf)) (noopt_all _ hB0 f hf), ?_, hB0⟩
  rw [hrec, ← List.append_assoc] at hsl
  exact splatLast_suffix _ _ hsl

mutual
theorem nested_aligned3 : ∀ (r : Route), r.stage3 = true → ∀ (pos : Nat) (path : Path),
    nres (matchNested .aligned r pos path) =
      match firstG r.ro3 path with
      | some ps => .some (some pos, ps)
      | none => .none
  | .mk segs children, hg, pos, path => by
    simp only [Route.stage3, Bool.and_eq_true, Bool.not_eq_true', List.all_eq_true, decide_eq_true_eq] at hg
    obtain ⟨⟨⟨hwf, hin⟩, hkind⟩, hch⟩ := hg
    by_cases hce : children.isEmpty = true
    · -- a leaf, possibly with a block of optionals
      simp only [hce, if_true, Bool.and_eq_true] at hkind
      obtain ⟨hob, hsl⟩ := hkind
      obtain ⟨hA, hN, hB, hslB, _⟩ := leaf_parts segs hwf hin hob hsl
      have hrp := block_test .aligned segs path hin hob
      have hal := optBlock_aligned segs.gen hA hB path
      have hgm := gmatchB_eq_prefix segs.gen hN hB hslB path
      simp only [matchNested, Route.ro3, hce, if_true, leafRO]
      rw [← hgm]
      cases hT : segs.test .aligned path with
      | panic =>
        rw [hT] at hrp
        have : optBlockRP .aligned segs.gen path = .panic := by rw [← hrp]; rfl
        rw [this] at hal
        cases hgb : gmatchB segs.gen path <;> simp [hgb, ofOpt] at hal
      | none =>
        rw [hT] at hrp
        have : optBlockRP .aligned segs.gen path = .none := by rw [← hrp]; rfl
        rw [this] at hal
        cases hgb : gmatchB segs.gen path with
        | some q => simp [hgb, ofOpt] at hal
        | none => simp [nres]
      | some pm =>
        rw [hT] at hrp
        have : optBlockRP .aligned segs.gen path = .some (pm.remaining, pm.params) := by rw [← hrp]; rfl
        rw [this] at hal
        simp only at hal
        unfold finish
        by_cases hcomp : complete pm.remaining = true
        · simp only [hcomp, if_true] at hal
          cases hgb : gmatchB segs.gen path with
          | none => simp [hgb, ofOpt] at hal
          | some q => simp [hgb, ofOpt] at hal; simp [hcomp, nres, hal]
        · simp only [hcomp, if_false] at hal
          cases hgb : gmatchB segs.gen path with
          | some q => simp [hgb, ofOpt] at hal
          | none => simp [hcomp, nres]
    · simp only [hce, Bool.false_eq_true, if_false, Bool.or_eq_true, Bool.and_eq_true, Bool.not_eq_true',
        decide_eq_true_eq] at hkind
      obtain ⟨hcnt, hkind⟩ := hkind
      by_cases hpure : isPureOpt segs.gen = true
      · -- a parent that is one optional param
        obtain ⟨n, hgen⟩ : ∃ n, segs.gen = [.opt n] := by
          cases hgg : segs.gen with
          | nil => simp [hgg, isPureOpt] at hpure
          | cons f F =>
            cases f <;> cases F <;> simp [hgg, isPureOpt] at hpure
            exact ⟨_, rfl⟩
        have hopt := optional_of_gen_opt segs n hgen
        have hrp : ∀ p, (segs.test .aligned p).rp = ofOpt (optSpec n p) := by
          intro p
          rw [one_opt_test .aligned segs p hin hcnt, optSeq_aligned segs.gen hwf hcnt p, hgen, optSeqSpec_single]
        have ihc := children_aligned3 children hch 0
        simp only [matchNested, Route.ro3, hce, Bool.false_eq_true, if_false, hgen, firstG_append, firstG_prefix,
          seqSpec, firstG_ro3List children 0, hopt, if_true, Ver.fixed]
        have hnil := hrp []
        cases hT0 : segs.test .aligned [] with
        | panic => rw [hT0] at hnil; simp [optSpec, Out.rp, ofOpt] at hnil
        | none => rw [hT0] at hnil; simp [optSpec, Out.rp, ofOpt] at hnil
        | some np =>
          rw [hT0] at hnil
          simp [optSpec, Out.rp, ofOpt] at hnil
          have hpath := hrp path
          cases hT : segs.test .aligned path with
          | panic => rw [hT] at hpath; cases hsp : optSpec n path <;> simp [hsp, Out.rp, ofOpt] at hpath
          | none =>
            rw [hT] at hpath
            cases hsp : optSpec n path with
            | some x => simp [hsp, Out.rp, ofOpt] at hpath
            | none =>
              cases path with
              | nil => simp [optSpec] at hsp
              | cons c t =>
                have hc : c ≠ '/' := by
                  intro e; subst e; simp only [optSpec, if_true] at hsp; split at hsp <;> simp at hsp
                have hu := firstG_unaligned (ro3List children) (c :: t) (by simp) (by simp [startsSlash, hc])
                rw [firstG_ro3List children 0] at hu
                simp [atomSpec, hc, hu, nres]
          | some pm =>
            rw [hT] at hpath
            cases hsp : optSpec n path with
            | none => simp [hsp, Out.rp, ofOpt] at hpath
            | some x =>
              obtain ⟨r2, po⟩ := x
              simp [hsp, Out.rp, ofOpt] at hpath
              obtain ⟨hr2, hpo⟩ := hpath
              simp only
              have ih2 := ihc pm.remaining
              have ihp := ihc path
              rw [hr2] at ih2 ⊢
              have hshape := optSpec_param n path r2 po hsp
              cases hA : firstDef3 children 0 r2 with
              | some y =>
                obtain ⟨j, q⟩ := y
                rw [hA] at ih2
                cases hm2 : matchChildren .aligned children 0 r2 with
                | panic => rw [hm2] at ih2; simp [nres] at ih2
                | none => rw [hm2] at ih2; simp [nres] at ih2
                | some inner rem =>
                  rw [hm2] at ih2
                  have hcomp := children_rem_complete .aligned children 0 r2 inner rem hm2
                  simp [nres] at ih2
                  simp only
                  rw [finish_nres _ _ _ _ _ hcomp]
                  rcases hshape with ⟨h1, h2, h3⟩ | ⟨h1, h3⟩
                  · subst h2; simp [h3, hA, hpo, h1, ih2.2]
                  · simp [h3, hA, hpo, ih2.2]
              | none =>
                rw [hA] at ih2
                cases hm2 : matchChildren .aligned children 0 r2 with
                | panic => rw [hm2] at ih2; simp [nres] at ih2
                | some inner rem => rw [hm2] at ih2; simp [nres] at ih2
                | none =>
                  simp only
                  cases hB : firstDef3 children 0 path with
                  | none =>
                    rw [hB] at ihp
                    cases hmp : matchChildren .aligned children 0 path with
                    | panic => rw [hmp] at ihp; simp [nres] at ihp
                    | some inner rem => rw [hmp] at ihp; simp [nres] at ihp
                    | none =>
                      rcases hshape with ⟨h1, h2, h3⟩ | ⟨h1, h3⟩
                      · simp [h3, nres]
                      · simp [h3, hA, nres]
                  | some y =>
                    obtain ⟨j, q⟩ := y
                    rw [hB] at ihp
                    cases hmp : matchChildren .aligned children 0 path with
                    | panic => rw [hmp] at ihp; simp [nres] at ihp
                    | none => rw [hmp] at ihp; simp [nres] at ihp
                    | some inner rem =>
                      rw [hmp] at ihp
                      have hcomp := children_rem_complete .aligned children 0 path inner rem hmp
                      simp [nres] at ihp
                      simp only
                      rw [finish_nres _ _ _ _ _ hcomp]
                      rcases hshape with ⟨h1, h2, h3⟩ | ⟨h1, h3⟩
                      · simp [h3, hnil.2, ihp.2]
                      · simp [h3, hA, hnil.2, ihp.2]
      · -- a route with children and no optional of its own
        have hnp : isPureOpt segs.gen = false := by simpa using hpure
        have hkind' : segs.optional = false ∧ noSplat segs.gen = true := by
          rcases hkind with h | h
          · exact h
          · rw [h] at hnp; simp at hnp
        obtain ⟨hopt, hnsp⟩ := hkind'
        have hwfa : ∀ f ∈ segs.gen, WfA f := fun f hf => wfa_of_wfao (hwf f hf) (gen_noOpt segs hopt f hf)
        have hflat := flatten_test .aligned segs path hopt
        have hseq := seq_aligned segs.gen hwfa path
        have hro : (Route.mk segs children).ro3 = prefixAll segs.gen (ro3List children) := by
          simp only [Route.ro3, hce, Bool.false_eq_true, if_false]
          cases hgg : segs.gen with
          | nil => rfl
          | cons f F =>
            cases f with
            | opt n =>
              have := gen_noOpt segs hopt (.opt n) (by simp [hgg])
              simp [FSeg.isOpt] at this
            | st s => rfl
            | param s => rfl
            | splat s => rfl
        rw [hro]
        simp only [matchNested, hflat, hce, Bool.false_eq_true, if_false, firstG_prefix,
          firstG_ro3List children 0]
        cases hT : seqTest .aligned segs.gen path with
        | panic => rw [hT] at hseq; cases hsp : seqSpec segs.gen path <;> simp [hsp, Out.rp, ofOpt] at hseq
        | none =>
          rw [hT] at hseq
          cases hsp : seqSpec segs.gen path with
          | some x => simp [hsp, Out.rp, ofOpt] at hseq
          | none => simp [nres]
        | some pm =>
          rw [hT] at hseq
          cases hsp : seqSpec segs.gen path with
          | none => simp [hsp, Out.rp, ofOpt] at hseq
          | some x =>
            obtain ⟨r, ps⟩ := x
            simp [hsp, Out.rp, ofOpt] at hseq
            obtain ⟨hr, hps⟩ := hseq
            simp only
            have ihc := children_aligned3 children hch 0 pm.remaining
            rw [hr] at ihc ⊢
            cases hmc : matchChildren .aligned children 0 r with
            | panic => rw [hmc] at ihc; cases hfd : firstDef3 children 0 r <;> simp [hfd, nres] at ihc
            | none =>
              rw [hmc] at ihc
              cases hfd : firstDef3 children 0 r with
              | some y => simp [hfd, nres] at ihc
              | none => simp [hopt, nres]
            | some inner rem =>
              rw [hmc] at ihc
              have hcomp := children_rem_complete .aligned children 0 r inner rem hmc
              cases hfd : firstDef3 children 0 r with
              | none => simp [hfd, nres] at ihc
              | some y =>
                obtain ⟨j, ps'⟩ := y
                simp [hfd, nres] at ihc
                simp only
                rw [finish_nres _ _ _ _ _ hcomp]
                simp [hps, ihc.2]
theorem children_aligned3 : ∀ (cs : List Route), stage3List cs = true → ∀ (i : Nat) (path : Path),
    nres (matchChildren .aligned cs i path) =
      match firstDef3 cs i path with
      | some (j, ps) => .some (some j, ps)
      | none => .none
  | [], _, i, path => by simp [matchChildren, firstDef3, nres]
  | c :: cs, hg, i, path => by
    simp only [stage3List, Bool.and_eq_true] at hg
    have ih := nested_aligned3 c hg.1 i path
    simp only [matchChildren, firstDef3]
    cases hm : matchNested .aligned c i path with
    | panic => rw [hm] at ih; cases hf : firstG c.ro3 path <;> simp [hf, nres] at ih
    | some m rem =>
      rw [hm] at ih
      cases hf : firstG c.ro3 path with
      | none => simp [hf, nres] at ih
      | some ps => simp [hf, nres] at ih; simp [nres, ih]
    | none =>
      rw [hm] at ih
      cases hf : firstG c.ro3 path with
      | some ps => simp [hf, nres] at ih
      | none => simp only; exact children_aligned3 cs hg.2 (i + 1) path
end



theorem prefixExps_mem (ns : List (List Char)) (B : List FSeg) : ∀ (inc j : Nat), j ≤ inc →
    paramsOf (ns.take j) ++ B ∈ prefixExps ns B inc := by
  intro inc
  induction inc with
  | zero => intro j hj; have : j = 0 := by omega
            subst this; simp [prefixExps, paramsOf]
  | succ i ih =>
    intro j hj
    simp only [prefixExps, List.mem_cons]
    by_cases h : j = i + 1
    · left; rw [h]
    · right; exact ih j (by omega)

theorem leafRO_sub (segs : Seg) (hin : segs.innerOptTuple = false) (hob : segs.optBlock = true) :
    ∀ G ∈ leafRO segs.gen, G ∈ expandSpec segs.gen := by
  intro G hG
  obtain ⟨hrec, hA0⟩ := splitBlock_recompose segs.gen
  have hB0 := block_gen_shape segs hin hob
  obtain ⟨X, hX, rfl⟩ := mem_prefixAll _ _ _ hG
  obtain ⟨j, _, rfl⟩ := mem_prefixExps _ _ _ X hX
  rw [hrec, expandSpec_prefix _ _ hA0]
  simp only [List.mem_map]
  refine ⟨_, prefix_mem_expand _ _ hB0 j, ?_⟩
  rw [← hrec]

theorem leafRO_shape (segs : Seg) (hin : segs.innerOptTuple = false) (hob : segs.optBlock = true) :
    ∀ G ∈ expandSpec segs.gen, ∃ G0 ∈ leafRO segs.gen, G.map shape = G0.map shape := by
  intro G hG
  obtain ⟨hrec, hA0⟩ := splitBlock_recompose segs.gen
  have hB0 := block_gen_shape segs hin hob
  rw [hrec, expandSpec_prefix _ _ hA0] at hG
  simp only [List.mem_map] at hG
  obtain ⟨X, hX, hGX⟩ := hG
  obtain ⟨j, hj, hs⟩ := expand_shape _ _ hB0 X hX
  refine ⟨(splitBlock segs.gen).1 ++ (paramsOf ((splitBlock segs.gen).2.1.take j) ++ (splitBlock segs.gen).2.2), ?_, ?_⟩
  · exact mem_prefixAll_of_mem _ _ _ (prefixExps_mem _ _ _ j hj)
  · rw [← hGX]
    simp only [List.map_append] at hs ⊢
    rw [hs]

mutual
theorem ro3_sub : ∀ (r : Route), r.stage3 = true → ∀ G ∈ r.ro3, G ∈ regRoutes r
  | .mk segs children, hg, G, hG => by
    simp only [Route.stage3, Bool.and_eq_true, Bool.not_eq_true', List.all_eq_true, decide_eq_true_eq] at hg
    obtain ⟨⟨⟨hwf, hin⟩, hkind⟩, hch⟩ := hg
    have ihl := ro3List_sub children hch
    by_cases hce : children.isEmpty = true
    · simp only [hce, if_true, Bool.and_eq_true] at hkind
      simp only [Route.ro3, hce, if_true] at hG
      simpa [regRoutes, Route.gen, hce] using leafRO_sub segs hin hkind.1 G hG
    · simp only [hce, Bool.false_eq_true, if_false, Bool.or_eq_true, Bool.and_eq_true, Bool.not_eq_true',
        decide_eq_true_eq] at hkind
      obtain ⟨hcnt, hkind⟩ := hkind
      by_cases hpure : isPureOpt segs.gen = true
      · obtain ⟨n, hgen⟩ : ∃ n, segs.gen = [.opt n] := by
          cases hgg : segs.gen with
          | nil => simp [hgg, isPureOpt] at hpure
          | cons f F =>
            cases f <;> cases F <;> simp [hgg, isPureOpt] at hpure
            exact ⟨_, rfl⟩
        simp only [Route.ro3, hce, Bool.false_eq_true, if_false, hgen, List.mem_append, mem_prefixAll_iff] at hG
        simp only [regRoutes, Route.gen, hce, Bool.false_eq_true, if_false, hgen, List.mem_flatMap,
          mem_prefixAll_iff]
        rcases hG with ⟨G', hG', rfl⟩ | hG
        · obtain ⟨F, hF, hGF⟩ := List.mem_flatMap.1 (ihl G' hG')
          exact ⟨[.opt n] ++ F, ⟨F, hF, rfl⟩, by simp [expandSpec_opt_cons]; left; exact hGF⟩
        · obtain ⟨F, hF, hGF⟩ := List.mem_flatMap.1 (ihl G hG)
          exact ⟨[.opt n] ++ F, ⟨F, hF, rfl⟩, by simp [expandSpec_opt_cons]; right; exact hGF⟩
      · have hnp : isPureOpt segs.gen = false := by simpa using hpure
        have hkind' : segs.optional = false ∧ noSplat segs.gen = true := by
          rcases hkind with h | h
          · exact h
          · rw [h] at hnp; simp at hnp
        obtain ⟨hopt, _⟩ := hkind'
        have hro : (Route.mk segs children).ro3 = prefixAll segs.gen (ro3List children) := by
          simp only [Route.ro3, hce, Bool.false_eq_true, if_false]
          cases hgg : segs.gen with
          | nil => rfl
          | cons f F =>
            cases f with
            | opt n =>
              have := gen_noOpt segs hopt (.opt n) (by simp [hgg])
              simp [FSeg.isOpt] at this
            | st s => rfl
            | param s => rfl
            | splat s => rfl
        rw [hro, mem_prefixAll_iff] at hG
        obtain ⟨G', hG', rfl⟩ := hG
        simp only [regRoutes, Route.gen, hce, Bool.false_eq_true, if_false,
          flatMap_prefixAll segs.gen (countOptF_of_noopt segs hopt), mem_prefixAll_iff]
        exact ⟨G', ihl G' hG', rfl⟩
theorem ro3List_sub : ∀ (cs : List Route), stage3List cs = true →
    ∀ G ∈ ro3List cs, G ∈ (genList cs).flatMap expandSpec
  | [], _, G, hG => by simp [ro3List] at hG
  | c :: cs, hg, G, hG => by
    simp only [stage3List, Bool.and_eq_true] at hg
    simp only [ro3List, List.mem_append] at hG
    simp only [genList, List.flatMap_append, List.mem_append]
    rcases hG with hG | hG
    · left; exact ro3_sub c hg.1 G hG
    · right; exact ro3List_sub cs hg.2 G hG
end

mutual
theorem ro3_shape : ∀ (r : Route), r.stage3 = true → ∀ G ∈ regRoutes r, ∃ G0 ∈ r.ro3, G.map shape = G0.map shape
  | .mk segs children, hg, G, hG => by
    simp only [Route.stage3, Bool.and_eq_true, Bool.not_eq_true', List.all_eq_true, decide_eq_true_eq] at hg
    obtain ⟨⟨⟨hwf, hin⟩, hkind⟩, hch⟩ := hg
    have ihl := ro3List_shape children hch
    by_cases hce : children.isEmpty = true
    · simp only [hce, if_true, Bool.and_eq_true] at hkind
      simp only [Route.ro3, hce, if_true]
      exact leafRO_shape segs hin hkind.1 G (by simpa [regRoutes, Route.gen, hce] using hG)
    · simp only [hce, Bool.false_eq_true, if_false, Bool.or_eq_true, Bool.and_eq_true, Bool.not_eq_true',
        decide_eq_true_eq] at hkind
      obtain ⟨hcnt, hkind⟩ := hkind
      by_cases hpure : isPureOpt segs.gen = true
      · obtain ⟨n, hgen⟩ : ∃ n, segs.gen = [.opt n] := by
          cases hgg : segs.gen with
          | nil => simp [hgg, isPureOpt] at hpure
          | cons f F =>
            cases f <;> cases F <;> simp [hgg, isPureOpt] at hpure
            exact ⟨_, rfl⟩
        simp only [regRoutes, Route.gen, hce, Bool.false_eq_true, if_false, hgen, List.mem_flatMap,
          mem_prefixAll_iff] at hG
        obtain ⟨X, ⟨F, hF, rfl⟩, hGX⟩ := hG
        simp [expandSpec_opt_cons] at hGX
        simp only [Route.ro3, hce, Bool.false_eq_true, if_false, hgen, List.mem_append, mem_prefixAll_iff]
        rcases hGX with ⟨G', hG', rfl⟩ | hGX
        · obtain ⟨G0, hG0, hs⟩ := ihl G' (List.mem_flatMap.2 ⟨F, hF, hG'⟩)
          exact ⟨[.param n] ++ G0, Or.inl ⟨G0, hG0, rfl⟩, by simp [hs]⟩
        · obtain ⟨G0, hG0, hs⟩ := ihl G (List.mem_flatMap.2 ⟨F, hF, hGX⟩)
          exact ⟨G0, Or.inr hG0, hs⟩
      · have hnp : isPureOpt segs.gen = false := by simpa using hpure
        have hkind' : segs.optional = false ∧ noSplat segs.gen = true := by
          rcases hkind with h | h
          · exact h
          · rw [h] at hnp; simp at hnp
        obtain ⟨hopt, _⟩ := hkind'
        have hro : (Route.mk segs children).ro3 = prefixAll segs.gen (ro3List children) := by
          simp only [Route.ro3, hce, Bool.false_eq_true, if_false]
          cases hgg : segs.gen with
          | nil => rfl
          | cons f F =>
            cases f with
            | opt n =>
              have := gen_noOpt segs hopt (.opt n) (by simp [hgg])
              simp [FSeg.isOpt] at this
            | st s => rfl
            | param s => rfl
            | splat s => rfl
        simp only [regRoutes, Route.gen, hce, Bool.false_eq_true, if_false,
          flatMap_prefixAll segs.gen (countOptF_of_noopt segs hopt), mem_prefixAll_iff] at hG
        obtain ⟨G', hG', rfl⟩ := hG
        obtain ⟨G0, hG0, hs⟩ := ihl G' hG'
        rw [hro]
        exact ⟨segs.gen ++ G0, mem_prefixAll_of_mem _ _ _ hG0, by simp [hs]⟩
theorem ro3List_shape : ∀ (cs : List Route), stage3List cs = true →
    ∀ G ∈ (genList cs).flatMap expandSpec, ∃ G0 ∈ ro3List cs, G.map shape = G0.map shape
  | [], _, G, hG => by simp [genList] at hG
  | c :: cs, hg, G, hG => by
    simp only [stage3List, Bool.and_eq_true] at hg
    simp only [genList, List.flatMap_append, List.mem_append] at hG
    simp only [ro3List, List.mem_append]
    rcases hG with hG | hG
    · obtain ⟨G0, hG0, hs⟩ := ro3_shape c hg.1 G hG
      exact ⟨G0, Or.inl hG0, hs⟩
    · obtain ⟨G0, hG0, hs⟩ := ro3List_shape cs hg.2 G hG
      exact ⟨G0, Or.inr hG0, hs⟩
end



/-! ## the table level when the router only tries some of the registered routes of a definition -/

theorem shape_append (a G G0 : List FSeg) (h : G.map shape = G0.map shape) :
    (a ++ G).map shape = (a ++ G0).map shape := by simp [h]

/-- per definition: if none of the routes the router tries accepts, no registered route accepts strictly -/
theorem def_none (E E' : Route → List (List FSeg)) (b : Option Path) (hb : baseOk b = true) (t : Route)
    (hshape : ∀ G ∈ E' t, ∃ G0 ∈ E t, G.map shape = G0.map shape)
    (hok' : ∀ X ∈ prefixAll (normBase b) (E' t), FlatOk X) (path : Path)
    (h : firstG (prefixAll (normBase b) (E t)) path = none) :
    anyStrict ((E' t).map (withBase b)) path = false := by
  rw [anyStrict_base b hb]
  cases hs : anyStrict (prefixAll (normBase b) (E' t)) path with
  | false => rfl
  | true =>
    exfalso
    obtain ⟨X, hX, hq⟩ := (anyStrict_mem _ _).1 hs
    obtain ⟨G, hG, rfl⟩ := mem_prefixAll _ _ _ hX
    cases hst : flatMatchStrict (normBase b ++ G) path with
    | none => simp [hst] at hq
    | some q =>
      have hgm := strict_imp_gmatch _ (hok' _ hX).1 (hok' _ hX).2 path q hst
      obtain ⟨G0, hG0, hs0⟩ := hshape G hG
      have := gmatch_shape _ _ (shape_append (normBase b) G G0 hs0) path
      rw [hgm] at this
      cases hg0 : gmatch (normBase b ++ G0) path with
      | none => simp [hg0] at this
      | some q0 =>
        obtain ⟨q', hq'⟩ := firstG_of_mem _ _ path q0 (mem_prefixAll_of_mem _ _ _ hG0) hg0
        rw [h] at hq'; simp at hq'

theorem def_some (E E' : Route → List (List FSeg)) (b : Option Path) (hb : baseOk b = true) (t : Route)
    (hsub : ∀ G ∈ E t, G ∈ E' t) (hok' : ∀ X ∈ prefixAll (normBase b) (E' t), FlatOk X) (t' : Path) (q : Params)
    (h : firstG (prefixAll (normBase b) (E t)) ('/' :: t') = some q) :
    q ∈ lenientParams ((E' t).map (withBase b)) ('/' :: t') := by
  have hok : ∀ X ∈ prefixAll (normBase b) (E t), FlatOk X := by
    intro X hX
    obtain ⟨G, hG, rfl⟩ := mem_prefixAll _ _ _ hX
    exact hok' _ (mem_prefixAll_of_mem _ _ _ (hsub G hG))
  have h1 := firstG_imp_lenient _ hok t' q h
  rw [lenientParams_base b hb]
  obtain ⟨X, hX, hq⟩ := (lenientParams_mem _ _ _).1 h1
  obtain ⟨G, hG, rfl⟩ := mem_prefixAll _ _ _ hX
  exact (lenientParams_mem _ _ _).2 ⟨_, mem_prefixAll_of_mem _ _ _ (hsub G hG), hq⟩

theorem table_first3 (E E' : Route → List (List FSeg)) (b : Option Path) (hb : baseOk b = true) (t' : Path) :
    ∀ (tops : List Route) (i0 i : Nat) (ps : Params),
      (∀ t ∈ tops, ∀ G ∈ E t, G ∈ E' t) →
      (∀ t ∈ tops, ∀ G ∈ E' t, ∃ G0 ∈ E t, G.map shape = G0.map shape) →
      (∀ t ∈ tops, ∀ X ∈ prefixAll (normBase b) (E' t), FlatOk X) →
      firstDefT (tops.map fun t => prefixAll (normBase b) (E t)) i0 ('/' :: t') = some (i, ps) →
      i0 ≤ i ∧
      (∃ t : Route, tops[i - i0]? = some t ∧ ps ∈ lenientParams ((E' t).map (withBase b)) ('/' :: t')) ∧
      (∀ j, firstStrict (tops.map fun t => (E' t).map (withBase b)) ('/' :: t') i0 = some j → ¬ j < i) := by
  intro tops
  induction tops with
  | nil => intro i0 i ps _ _ _ h; simp [firstDefT] at h
  | cons c cs ih =>
    intro i0 i ps hsub hshape hok h
    simp only [List.map_cons, firstDefT] at h
    cases hg : firstG (prefixAll (normBase b) (E c)) ('/' :: t') with
    | some q =>
      rw [hg] at h; simp at h
      obtain ⟨rfl, rfl⟩ := h
      refine ⟨Nat.le_refl _, ⟨c, by simp, ?_⟩, ?_⟩
      · exact def_some E E' b hb c (hsub c (by simp)) (hok c (by simp)) t' q hg
      · intro j hj
        have := firstStrict_ge _ _ _ _ hj
        omega
    | none =>
      rw [hg] at h; simp only at h
      obtain ⟨h1, ⟨t, h2, h3⟩, h4⟩ := ih (i0 + 1) i ps (fun t ht => hsub t (by simp [ht]))
        (fun t ht => hshape t (by simp [ht])) (fun t ht => hok t (by simp [ht])) h
      refine ⟨by omega, ⟨t, ?_, h3⟩, ?_⟩
      · have : i - i0 = (i - (i0 + 1)) + 1 := by omega
        rw [this]
        simpa using h2
      · intro j hj
        simp only [List.map_cons, firstStrict] at hj
        rw [def_none E E' b hb c (hshape c (by simp)) (hok c (by simp)) _ hg] at hj
        simp only [Bool.false_eq_true, if_false] at hj
        exact h4 j hj

theorem table_none3 (E E' : Route → List (List FSeg)) (b : Option Path) (hb : baseOk b = true) (path : Path) :
    ∀ (tops : List Route) (i0 : Nat),
      (∀ t ∈ tops, ∀ G ∈ E' t, ∃ G0 ∈ E t, G.map shape = G0.map shape) →
      (∀ t ∈ tops, ∀ X ∈ prefixAll (normBase b) (E' t), FlatOk X) →
      firstDefT (tops.map fun t => prefixAll (normBase b) (E t)) i0 path = none →
      firstStrict (tops.map fun t => (E' t).map (withBase b)) path i0 = none := by
  intro tops
  induction tops with
  | nil => intro i0 _ _ _; rfl
  | cons c cs ih =>
    intro i0 hshape hok h
    simp only [List.map_cons, firstDefT] at h
    cases hg : firstG (prefixAll (normBase b) (E c)) path with
    | some q => rw [hg] at h; simp at h
    | none =>
      rw [hg] at h; simp only at h
      simp only [List.map_cons, firstStrict, def_none E E' b hb c (hshape c (by simp)) (hok c (by simp)) _ hg,
        Bool.false_eq_true, if_false]
      exact ih (i0 + 1) (fun t ht => hshape t (by simp [ht])) (fun t ht => hok t (by simp [ht])) h

theorem judge_of_table3 (E E' : Route → List (List FSeg)) (d : Defs) (hb : baseOk d.base = true) (t' : Path)
    (hsub : ∀ t ∈ d.tops, ∀ G ∈ E t, G ∈ E' t)
    (hshape : ∀ t ∈ d.tops, ∀ G ∈ E' t, ∃ G0 ∈ E t, G.map shape = G0.map shape)
    (hok : ∀ t ∈ d.tops, ∀ X ∈ prefixAll (normBase d.base) (E' t), FlatOk X)
    (hper : expandedPerDef d = d.tops.map fun t => (E' t).map (withBase d.base))
    (got : Out NMatch)
    (hr : mres got =
      match firstDefT (d.tops.map fun t => prefixAll (normBase d.base) (E t)) 0 ('/' :: t') with
      | some (i, ps) => .some (some i, ps)
      | none => .none) :
    judge d ('/' :: t') got = none := by
  unfold judge
  rw [hper]
  cases hfd : firstDefT (d.tops.map fun t => prefixAll (normBase d.base) (E t)) 0 ('/' :: t') with
  | none =>
    rw [hfd] at hr
    have hfs := table_none3 E E' d.base hb ('/' :: t') d.tops 0 hshape hok hfd
    cases got with
    | panic => simp [mres] at hr
    | some m => simp [mres] at hr
    | none => simp [hfs]
  | some x =>
    obtain ⟨i, ps⟩ := x
    rw [hfd] at hr
    obtain ⟨_, ⟨t, ht1, ht2⟩, hfirst⟩ := table_first3 E E' d.base hb t' d.tops 0 i ps hsub hshape hok hfd
    cases got with
    | panic => simp [mres] at hr
    | none => simp [mres] at hr
    | some m =>
      simp only [mres, Out.some.injEq, Prod.mk.injEq] at hr
      obtain ⟨hhead, hparams⟩ := hr
      cases hch : m.chain with
      | nil => rw [hch] at hhead; simp at hhead
      | cons e rest =>
        obtain ⟨i', x⟩ := e
        rw [hch] at hhead
        simp at hhead
        subst hhead
        simp only [Nat.sub_zero] at ht1
        have ht1' : Option.map (fun t : Route => (E' t).map (withBase d.base)) d.tops[i']? =
            some ((E' t).map (withBase d.base)) := by simp [ht1]
        have hmem2 : m.params ∈ lenientParams ((E' t).map (withBase d.base)) ('/' :: t') := by
          rw [hparams]; exact ht2
        have hne' : lenientParams ((E' t).map (withBase d.base)) ('/' :: t') ≠ [] := by
          intro hl; rw [hl] at hmem2; simp at hmem2
        cases hsf : firstStrict (d.tops.map fun t => (E' t).map (withBase d.base)) ('/' :: t') 0 with
        | none => simp [hch, ht1', hne', hmem2, hsf]
        | some j =>
          have := hfirst j hsf
          simp [hch, ht1', hne', hmem2, hsf, this]

mutual
theorem flats_wfao3 : ∀ (r : Route), r.stage3 = true → ∀ F ∈ r.gen, (∀ f ∈ F, WfAO f) ∧ splatLast F = true
  | .mk segs children, hg, F, hF => by
    simp only [Route.stage3, Bool.and_eq_true, Bool.not_eq_true', List.all_eq_true, decide_eq_true_eq] at hg
    obtain ⟨⟨⟨hwf, _⟩, hkind⟩, hch⟩ := hg
    simp only [Route.gen] at hF
    by_cases hce : children.isEmpty = true
    · simp only [hce, if_true, List.mem_singleton, Bool.and_eq_true] at hF hkind
      subst hF
      exact ⟨hwf, hkind.2⟩
    · simp only [hce, Bool.false_eq_true, if_false, Bool.or_eq_true, Bool.and_eq_true, Bool.not_eq_true',
        decide_eq_true_eq] at hF hkind
      obtain ⟨G, hG, rfl⟩ := mem_prefixAll _ _ _ hF
      have hGok := flatsList_wfao3 children hch G hG
      have hns : noSplat segs.gen = true := by
        rcases hkind.2 with h | h
        · exact h.2
        · cases hgg : segs.gen with
          | nil => rfl
          | cons f F =>
            cases f <;> cases F <;> simp [hgg, isPureOpt] at h
            rfl
      refine ⟨?_, splatLast_append _ _ hns hGok.2⟩
      intro f hf
      simp only [List.mem_append] at hf
      rcases hf with hf | hf
      · exact hwf f hf
      · exact hGok.1 f hf
theorem flatsList_wfao3 : ∀ (cs : List Route), stage3List cs = true →
    ∀ F ∈ genList cs, (∀ f ∈ F, WfAO f) ∧ splatLast F = true
  | [], _, F, hF => by simp [genList] at hF
  | c :: cs, hg, F, hF => by
    simp only [stage3List, Bool.and_eq_true] at hg
    simp only [genList, List.mem_append] at hF
    rcases hF with hF | hF
    · exact flats_wfao3 c hg.1 F hF
    · exact flatsList_wfao3 cs hg.2 F hF
end

theorem stage3List_mem : ∀ (cs : List Route) (t : Route), stage3List cs = true → t ∈ cs → t.stage3 = true := by
  intro cs
  induction cs with
  | nil => intro t _ h; simp at h
  | cons c cs ih =>
    intro t hg h
    simp only [stage3List, Bool.and_eq_true] at hg
    simp only [List.mem_cons] at h
    rcases h with rfl | h
    · exact hg.1
    · exact ih t hg.2 h

theorem regRoutes_ok3 (b : Option Path) (hb : baseOk b = true) (t : Route) (ht : t.stage3 = true) :
    ∀ X ∈ prefixAll (normBase b) (regRoutes t), FlatOk X := by
  intro X hX
  obtain ⟨G, hG, rfl⟩ := mem_prefixAll _ _ _ hX
  simp only [regRoutes, List.mem_flatMap] at hG
  obtain ⟨F, hF, hGF⟩ := hG
  have hFok := flats_wfao3 t ht F hF
  have hGok := expand_flatok F hFok.1 hFok.2 G hGF
  refine ⟨?_, splatLast_append _ _ (normBase_noSplat b) hGok.2⟩
  intro f hf
  simp only [List.mem_append] at hf
  rcases hf with hf | hf
  · exact normBase_ok b hb f hf
  · exact hGok.1 f hf

mutual
theorem stage3_of_classes : ∀ (r : Route), r.wf = true → r.hasOptParent = false → r.hasSplitOpt = false →
    r.hasInnerOptTuple = false → r.stage3 = true
  | .mk segs children, hw, h1, h2, h3 => by
    simp only [Route.wf, Bool.and_eq_true, List.all_eq_true, decide_eq_true_eq] at hw
    simp only [Route.hasOptParent, Bool.or_eq_false_iff, Bool.and_eq_false_iff, Bool.not_eq_false'] at h1
    simp only [Route.hasSplitOpt, Bool.or_eq_false_iff] at h2
    simp only [Route.hasInnerOptTuple, Bool.or_eq_false_iff] at h3
    simp only [Route.stage3, Bool.and_eq_true, Bool.not_eq_true', List.all_eq_true, decide_eq_true_eq]
    refine ⟨⟨⟨hw.1.1, h3.1⟩, ?_⟩, stage3List_of_classes children hw.2 h1.2 h2.2 h3.2⟩
    by_cases hce : children.isEmpty = true
    · simp only [hce, if_true, Bool.and_eq_true]
      exact ⟨by simpa [hce] using h2.1, by simpa [hce] using hw.1.2⟩
    · simp only [hce, Bool.false_eq_true, if_false, Bool.or_eq_true, Bool.and_eq_true, Bool.not_eq_true',
        decide_eq_true_eq]
      have hcnt : countOptF segs.gen ≤ 1 := by
        have := h2.1; simp [hce] at this; omega
      have hns : noSplat segs.gen = true := by simpa [hce] using hw.1.2
      refine ⟨hcnt, ?_⟩
      cases hopt : segs.optional with
      | false => left; exact ⟨rfl, hns⟩
      | true =>
        right
        have hall : segs.gen.any FSeg.mandatory = false := by
          rcases h1.1 with (h | h) | h
          · exact absurd h hce
          · rw [hopt] at h; simp at h
          · exact h
        exact all_opt_single segs.gen hall hcnt (optional_has_opt segs hopt)
theorem stage3List_of_classes : ∀ (cs : List Route), wfList cs = true → anyOptParent cs = false →
    anySplitOpt cs = false → anyInnerOptTuple cs = false → stage3List cs = true
  | [], _, _, _, _ => rfl
  | c :: cs, hw, h1, h2, h3 => by
    simp only [wfList, Bool.and_eq_true] at hw
    simp only [anyOptParent, Bool.or_eq_false_iff] at h1
    simp only [anySplitOpt, Bool.or_eq_false_iff] at h2
    simp only [anyInnerOptTuple, Bool.or_eq_false_iff] at h3
    simp only [stage3List, Bool.and_eq_true]
    exact ⟨stage3_of_classes c hw.1 h1.1 h2.1 h3.1, stage3List_of_classes cs hw.2 h1.2 h2.2 h3.2⟩
end

theorem route_aligned3 (d : Defs) (hb : baseOk d.base = true) (hs : stage3List d.tops = true) (path : Path)
    (hp : startsSlash path = true) :
    mres (matchRoute .aligned d path) =
      match firstDefT (d.tops.map fun t => prefixAll (normBase d.base) t.ro3) 0 path with
      | some (i, ps) => .some (some i, ps)
      | none => .none := by
  unfold matchRoute
  rw [firstDefT_gen Route.ro3 firstDef3 (fun _ _ => rfl) (fun _ _ _ _ => rfl) d.base hb path hp]
  cases stripBase .aligned d.base path with
  | none => simp [mres]
  | some p =>
    have hc := children_aligned3 d.tops hs 0 p
    simp only
    cases hm : matchChildren .aligned d.tops 0 p with
    | panic => rw [hm] at hc; cases hf : firstDef3 d.tops 0 p <;> simp [hf, nres] at hc
    | none =>
      rw [hm] at hc
      cases hf : firstDef3 d.tops 0 p with
      | some x => simp [hf, nres] at hc
      | none => simp [mres]
    | some m rem =>
      rw [hm] at hc
      have hcomp := children_rem_complete .aligned d.tops 0 p m rem hm
      cases hf : firstDef3 d.tops 0 p with
      | none => simp [hf, nres] at hc
      | some x =>
        obtain ⟨j, ps⟩ := x
        simp [hf, nres] at hc
        simp [hcomp, mres, hc]

/-- **match ⇔ flat with optional params, stage 3**: as stage 2, and a leaf route may carry ANY number of
optional params as long as they form one block of direct fields (`/:a?/:b?`, `/x/:a?/:b?/y`, …): the class
`optional-backoff-order` shrinks to its exact form `anySplitOpt` (optionals separated by a mandatory segment,
or two optionals in a route with children). -/
theorem C14_match_iff_flat_optional_blocks (d : Defs) (path : Path) (hw : d.wf = true)
    (hp : startsSlash path = true) (h1 : anyOptParent d.tops = false) (h2 : anySplitOpt d.tops = false)
    (h3 : anyInnerOptTuple d.tops = false) (hal : SegmentAligned d path) : Holds d path := by
  simp only [Defs.wf, Bool.and_eq_true, Bool.not_eq_true'] at hw
  obtain ⟨⟨hb, hwl⟩, _⟩ := hw
  have hs := stage3List_of_classes d.tops hwl h1 h2 h3
  unfold Holds
  rw [hal]
  cases path with
  | nil => simp [startsSlash] at hp
  | cons c t' =>
    have hc : c = '/' := by simpa [startsSlash] using hp
    subst hc
    exact judge_of_table3 Route.ro3 regRoutes d hb t'
      (fun t ht => ro3_sub t (stage3List_mem d.tops t hs ht))
      (fun t ht => ro3_shape t (stage3List_mem d.tops t hs ht))
      (fun t ht => regRoutes_ok3 d.base hb t (stage3List_mem d.tops t hs ht))
      (expandedPerDef_eq1 d) _ (route_aligned3 d hb hs _ hp)



/-! ## stage 3 without `SegmentAligned`, for tables without a `"/"` static segment -/

theorem softSpec_rem_aligned : ∀ (ns : List (List Char)) (c : Nat) (r r' : Path) (ps : Params), Aligned r →
    softSpec ns c r = some (r', ps) → Aligned r' := by
  intro ns
  induction ns with
  | nil => intro c r r' ps hr h; simp [softSpec] at h; rw [← h.1]; exact hr
  | cons n ns ih =>
    intro c r r' ps hr h
    cases c with
    | zero => simp [softSpec] at h; rw [← h.1]; exact hr
    | succ c =>
      simp only [softSpec] at h
      cases ho : optSpec n r with
      | none => simp [ho] at h
      | some x =>
        obtain ⟨r1, po⟩ := x
        simp only [ho] at h
        cases hs : softSpec ns c r1 with
        | none => simp [hs] at h
        | some y =>
          obtain ⟨r2, p2⟩ := y
          simp [hs] at h
          rw [← h.1]
          exact ih c r1 r2 p2 (optSpec_aligned n r r1 po ho) hs

theorem soft_cur_eq_aligned : ∀ (ns : List (List Char)) (c : Nat) (r : Path), Aligned r →
    softTake .cur ns c r = softTake .aligned ns c r := by
  intro ns
  induction ns with
  | nil => intro c r _; rfl
  | cons n ns ih =>
    intro c r hr
    cases c with
    | zero => rfl
    | succ c =>
      simp only [softTake, atom_cur_eq_aligned (.opt n) r hr]
      have hoa := opt_aligned n r
      cases hT : ((toSeg (.opt n)).test .aligned r).rp with
      | panic => rfl
      | none => rfl
      | some x =>
        obtain ⟨r1, po⟩ := x
        rw [hT] at hoa
        cases hsp : optSpec n r with
        | none => simp [hsp, ofOpt] at hoa
        | some y =>
          obtain ⟨ry, py⟩ := y
          simp [hsp, ofOpt] at hoa
          have hal : Aligned r1 := by rw [hoa.1]; exact optSpec_aligned n r ry py hsp
          simp only [ih c r1 hal]

theorem blockTry_cur_eq_aligned (ns : List (List Char)) (B : List FSeg) (hB : ∀ f ∈ B, WfA f)
    (hnsB : ∀ f ∈ B, notSlash f = true) (r1 : Path) (pa : Params) (hr1 : Aligned r1) :
    ∀ inc, blockTry .cur ns B r1 pa inc = blockTry .aligned ns B r1 pa inc := by
  have hB' : ∀ r2, Aligned r2 → seqRP .cur B r2 = seqRP .aligned B r2 := by
    intro r2 h2; simp only [seqRP, seq_cur_eq_aligned B hB hnsB r2 h2]
  have hrem : ∀ c r2 po, softTake .aligned ns c r1 = .some (r2, po) → Aligned r2 := by
    intro c r2 po h
    rw [soft_aligned] at h
    cases hs : softSpec ns c r1 with
    | none => simp [hs, ofOpt] at h
    | some x =>
      obtain ⟨rx, px⟩ := x
      simp [hs, ofOpt] at h
      rw [← h.1]; exact softSpec_rem_aligned ns c r1 rx px hr1 hs
  intro inc
  induction inc with
  | zero =>
    simp only [blockTry, soft_cur_eq_aligned ns 0 r1 hr1]
    cases hs : softTake .aligned ns 0 r1 with
    | panic => rfl
    | none => rfl
    | some x => obtain ⟨r2, po⟩ := x; simp only [hB' r2 (hrem 0 r2 po hs)]
  | succ i ih =>
    simp only [blockTry, soft_cur_eq_aligned ns (i + 1) r1 hr1]
    cases hs : softTake .aligned ns (i + 1) r1 with
    | panic => rfl
    | none => rfl
    | some x => obtain ⟨r2, po⟩ := x; simp only [hB' r2 (hrem (i + 1) r2 po hs), ih]

theorem optBlock_cur_eq_aligned (F : List FSeg) (hA : ∀ f ∈ (splitBlock F).1, WfA f)
    (hB : ∀ f ∈ (splitBlock F).2.2, WfA f) (hns : ∀ f ∈ F, notSlash f = true) (path : Path)
    (hp : Aligned path) : optBlockRP .cur F path = optBlockRP .aligned F path := by
  obtain ⟨hrec, _⟩ := splitBlock_recompose F
  have hnsA : ∀ f ∈ (splitBlock F).1, notSlash f = true := by
    intro f hf; apply hns; rw [hrec]; simp [hf]
  have hnsB : ∀ f ∈ (splitBlock F).2.2, notSlash f = true := by
    intro f hf; apply hns; rw [hrec]; simp [hf]
  unfold optBlockRP blockRP
  simp only [seqRP, seq_cur_eq_aligned _ hA hnsA path hp]
  cases hT : seqTest .aligned (splitBlock F).1 path with
  | panic => rfl
  | none => rfl
  | some m =>
    simp only [Out.rp]
    exact blockTry_cur_eq_aligned _ _ hB hnsB _ _ (seqTest_rem_aligned _ hA hnsA path m hp hT) _

mutual
theorem nested_cur_eq_aligned3 : ∀ (r : Route), r.stage3 = true → r.noSlashSeg = true → ∀ (pos : Nat) (path : Path),
    Aligned path → matchNested .cur r pos path = matchNested .aligned r pos path
  | .mk segs children, hg, hns, pos, path, hp => by
    simp only [Route.stage3, Bool.and_eq_true, Bool.not_eq_true', List.all_eq_true, decide_eq_true_eq] at hg
    obtain ⟨⟨⟨hwf, hin⟩, hkind⟩, hch⟩ := hg
    simp only [Route.noSlashSeg, Bool.and_eq_true, List.all_eq_true] at hns
    by_cases hce : children.isEmpty = true
    · simp only [hce, if_true, Bool.and_eq_true] at hkind
      obtain ⟨hob, hsl⟩ := hkind
      obtain ⟨hA, _, hB, _, _⟩ := leaf_parts segs hwf hin hob hsl
      have heq := test_eq_of_rp .cur .aligned segs path
        (by rw [block_test .cur segs path hin hob, block_test .aligned segs path hin hob,
          optBlock_cur_eq_aligned segs.gen hA hB hns.1 path hp])
      simp only [matchNested, heq, hce, if_true]
    · simp only [hce, Bool.false_eq_true, if_false, Bool.or_eq_true, Bool.and_eq_true, Bool.not_eq_true',
        decide_eq_true_eq] at hkind
      obtain ⟨hcnt, hkind⟩ := hkind
      have heqt : ∀ p, Aligned p → segs.test .cur p = segs.test .aligned p := by
        intro p hpa
        have h1 := one_opt_test .cur segs p hin hcnt
        have h2 := one_opt_test .aligned segs p hin hcnt
        exact test_eq_of_rp .cur .aligned segs p
          (by rw [h1, h2, optSeq_cur_eq_aligned segs.gen hwf hns.1 hcnt p hpa])
      have ihc := children_cur_eq_aligned3 children hch hns.2 0
      by_cases hpure : isPureOpt segs.gen = true
      · obtain ⟨n, hgen⟩ : ∃ n, segs.gen = [.opt n] := by
          cases hgg : segs.gen with
          | nil => simp [hgg, isPureOpt] at hpure
          | cons f F =>
            cases f <;> cases F <;> simp [hgg, isPureOpt] at hpure
            exact ⟨_, rfl⟩
        simp only [matchNested, heqt path hp, heqt [] (Or.inl rfl), Ver.fixed, if_true, ihc path hp]
        cases hT : segs.test .aligned path with
        | panic => rfl
        | none => rfl
        | some pm =>
          have hal := one_opt_rem_aligned segs hwf hin hcnt n hgen path pm hT
          simp only [ihc pm.remaining hal]
      · have hnp : isPureOpt segs.gen = false := by simpa using hpure
        have hkind' : segs.optional = false ∧ noSplat segs.gen = true := by
          rcases hkind with h | h
          · exact h
          · rw [h] at hnp; simp at hnp
        obtain ⟨hopt, _⟩ := hkind'
        have hwfa : ∀ f ∈ segs.gen, WfA f := fun f hf => wfa_of_wfao (hwf f hf) (gen_noOpt segs hopt f hf)
        simp only [matchNested, heqt path hp, hopt]
        cases hT : segs.test .aligned path with
        | panic => rfl
        | none => rfl
        | some pm =>
          have hT' : seqTest .aligned segs.gen path = .some pm := by
            rw [← flatten_test .aligned segs path hopt]; exact hT
          have hal := seqTest_rem_aligned segs.gen hwfa hns.1 path pm hp hT'
          simp only [ihc pm.remaining hal]
          rfl
theorem children_cur_eq_aligned3 : ∀ (cs : List Route), stage3List cs = true → noSlashSegList cs = true →
    ∀ (i : Nat) (path : Path), Aligned path → matchChildren .cur cs i path = matchChildren .aligned cs i path
  | [], _, _, i, path, _ => by simp [matchChildren]
  | c :: cs, hg, hns, i, path, hp => by
    simp only [stage3List, Bool.and_eq_true] at hg
    simp only [noSlashSegList, Bool.and_eq_true] at hns
    simp only [matchChildren, nested_cur_eq_aligned3 c hg.1 hns.1 i path hp,
      children_cur_eq_aligned3 cs hg.2 hns.2 (i + 1) path hp]
end

theorem C14_aligned_without_slash_segments_opt3 (d : Defs) (hw : d.wf = true) (h1 : anyOptParent d.tops = false)
    (h2 : anySplitOpt d.tops = false) (h3 : anyInnerOptTuple d.tops = false)
    (hns : noSlashSegList d.tops = true) (path : Path) (hp : startsSlash path = true) :
    SegmentAligned d path := by
  simp only [Defs.wf, Bool.and_eq_true, Bool.not_eq_true'] at hw
  obtain ⟨⟨hb, hwl⟩, _⟩ := hw
  have hs := stage3List_of_classes d.tops hwl h1 h2 h3
  unfold SegmentAligned matchRoute
  rw [stripBase_cur_eq_aligned d.base hb path hp]
  cases hsb : stripBase .aligned d.base path with
  | none => rfl
  | some p =>
    have hal := stripBase_aligned_rem d.base path p hp hsb
    simp only [children_cur_eq_aligned3 d.tops hs hns 0 p hal]

/-- stage 3 without `SegmentAligned`, for tables without a `"/"` static segment -/
theorem C14_match_iff_flat_optional_blocks_no_slash (d : Defs) (path : Path) (hw : d.wf = true)
    (hp : startsSlash path = true) (h1 : anyOptParent d.tops = false) (h2 : anySplitOpt d.tops = false)
    (h3 : anyInnerOptTuple d.tops = false) (hns : noSlashSegList d.tops = true) : Holds d path :=
  C14_match_iff_flat_optional_blocks d path hw hp h1 h2 h3
    (C14_aligned_without_slash_segments_opt3 d hw h1 h2 h3 hns path hp)

/-- **every failure is in a known-finding class, with the classifier's exact predicates**: on a well-formed
table, a request path on which the property fails has `anyOptParent` (an optional next to a mandatory segment
in a route with children) or `anySplitOpt` (a leaf's optionals not in one block, or ≥ 2 optionals in a route
with children) or `anyInnerOptTuple` (an optional inside an inner tuple), or the table has a `"/"` static
segment and the router leaves the segment grid on that path. -/
theorem C14_failure_in_class_exact (d : Defs) (path : Path) (hw : d.wf = true) (hp : startsSlash path = true)
    (hfail : ¬ Holds d path) :
    anyOptParent d.tops = true ∨ anySplitOpt d.tops = true ∨ anyInnerOptTuple d.tops = true ∨
      (noSlashSegList d.tops = false ∧ ¬ SegmentAligned d path) := by
  cases h1 : anyOptParent d.tops with
  | true => exact Or.inl rfl
  | false =>
    cases h2 : anySplitOpt d.tops with
    | true => exact Or.inr (Or.inl rfl)
    | false =>
      cases h3 : anyInnerOptTuple d.tops with
      | true => exact Or.inr (Or.inr (Or.inl rfl))
      | false =>
        refine Or.inr (Or.inr (Or.inr ⟨?_, ?_⟩))
        · cases hns : noSlashSegList d.tops with
          | false => rfl
          | true => exact absurd (C14_match_iff_flat_optional_blocks_no_slash d path hw hp h1 h2 h3 hns) hfail
        · intro hal
          exact hfail (C14_match_iff_flat_optional_blocks d path hw hp h1 h2 h3 hal)

/-! ## non-vacuity: every hypothesis above is satisfiable (and the conclusions are not trivially empty) -/

-- C14_partition: a nested tuple with an optional that is backed off
example : (Seg.tup [.tup [], .opt ['a'], .tup [.st ['b']]]).test .cur ['/', 'b', '/'] = .some ⟨['/', 'b'], ['/'], []⟩ := by
  decide

-- C14_partition_nested: `hasOptWithChildren = false` on a nested route that matches
example : (Route.mk (.st ['a']) [.mk (.param ['i']) []]).hasOptWithChildren = false ∧
    matchNested .cur (.mk (.st ['a']) [.mk (.param ['i']) []]) 0 ['/', 'a', '/', 'x'] =
      .some ⟨[(0, ['/', 'a']), (0, ['/', 'x'])], [(['i'], ['x'])]⟩ [] := by decide

-- C14_params_are_segments: both branches occur
example : segHead ['x', 'y', '/', 'z'] = ['x', 'y'] ∧ segHead ['/', 'z'] = [] := by decide

-- C14_match_iff_flat_full / _partial_general: a well-formed table, a request path, aligned, no optionals
example : fooBar.wf = true ∧ startsSlash ['/', 'f', 'o', 'o', '/', 'b', 'a', 'r'] = true ∧
    noOptionalList fooBar.tops = true ∧ SegmentAligned fooBar ['/', 'f', 'o', 'o', '/', 'b', 'a', 'r'] ∧
    Holds fooBar ['/', 'f', 'o', 'o', '/', 'b', 'a', 'r'] := by decide

-- … and `SegmentAligned` is a real restriction: it fails on the F-C14-2 input
example : ¬ SegmentAligned slashParent ['/', 'a'] := by decide

-- C14_match_iff_flat_partial: hypotheses satisfiable, with a match and with a non-match
example : (∀ g ∈ [FSeg.st ['a'], FSeg.param ['i', 'd']], SimpleN g) ∧
    flatMatch [.st ['a'], .param ['i', 'd']] ['/', 'a', '/', 'x', '/'] = some [(['i', 'd'], ['x'])] ∧
    flatMatch [.st ['a'], .param ['i', 'd']] ['/', 'a', '/', '/', 'x'] = none := by decide

-- … including the inputs that used to be outside: `/aéa` (panicked) and `/ax` (prefix match)
example : matchRoute .cur (leafDefs [.st ['a'], .param ['i', 'd']]) ['/', 'a', 'é', 'a'] = .none ∧
    matchRoute .cur (leafDefs [.st ['a'], .st ['x']]) ['/', 'a', 'x'] = .none ∧
    matchRoute .old (leafDefs [.st ['a'], .st ['x']]) ['/', 'a', 'x'] = .some ⟨[(0, ['/', 'a', 'x'])], []⟩ := by decide

-- C14_build_then_match: hypotheses satisfiable
example : (∀ f ∈ [FSeg.st ['a'], FSeg.param ['i', 'd'], FSeg.st ['é']], SimpleF f) ∧
    (∀ v ∈ [['x', '%']], GoodVal v) ∧
    buildPath [.st ['a'], .param ['i', 'd'], .st ['é']] [['x', '%']] = some ['/', 'a', '/', 'x', '%', '/', 'é'] := by
  decide

-- C14_expand_optionals on a route with two optionals: the order of the real worklist
example : expandOptionals [.opt ['a'], .opt ['b'], .st ['c']] =
    [[.param ['a'], .param ['b'], .st ['c']], [.param ['a'], .st ['c']], [.param ['b'], .st ['c']], [.st ['c']]] := by
  decide


-- C14_match_iff_flat_partial_general: hypotheses satisfiable on a table with a base, a `""` root with
-- children, a nested tuple with a unit, a wildcard leaf and two top-level definitions; the conclusion is
-- then a fact about a path that matches through all of them
def richDefs : Defs :=
  ⟨some ['/', 'b'],
   [.mk (.st []) [.mk (.tup [.tup [], .tup [.st ['a'], .param ['i']]]) [], .mk (.tup [.st ['f'], .splat ['w']]) []],
    .mk (.param ['p']) []]⟩

example : richDefs.wf = true ∧ noOptionalList richDefs.tops = true ∧
    startsSlash ['/', 'b', '/', 'a', '/', 'x'] = true ∧ SegmentAligned richDefs ['/', 'b', '/', 'a', '/', 'x'] ∧
    matchRoute .cur richDefs ['/', 'b', '/', 'a', '/', 'x'] =
      .some ⟨[(0, []), (0, ['/', 'a', '/', 'x'])], [(['i'], ['x'])]⟩ ∧
    matchRoute .cur richDefs ['/', 'b', '/', 'f', '/', 'x', '/', 'y'] =
      .some ⟨[(0, []), (1, ['/', 'f', '/', 'x', '/', 'y'])], [(['w'], ['x', '/', 'y'])]⟩ ∧
    matchRoute .cur richDefs ['/', 'b', '/', 'z'] = .some ⟨[(1, ['/', 'z'])], [(['p'], ['z'])]⟩ := by decide

-- C14_tuple_nesting_flattens / C14_first_match_wins: hypotheses satisfiable
example : (Seg.tup [.tup [], .tup [.st ['a'], .param ['i']]]).optional = false ∧
    (Seg.tup [.tup [], .tup [.st ['a'], .param ['i']]]).gen = [.st ['a'], .param ['i']] := by decide

example : matchChildren .cur richDefs.tops 0 ['/', 'z'] = .some ⟨[(1, ['/', 'z'])], [(['p'], ['z'])]⟩ [] := by decide


-- C14_build_then_match_nested: hypotheses satisfiable on a three-level route with a "/" child and a wildcard leaf
def chain3 : Route :=
  .mk (.tup [.st ['a'], .param ['i']]) [.mk (.st ['/']) [.mk (.tup [.st ['b'], .splat ['w']]) []]]

example : chain3.wf = true ∧ chain3.noOptional = true ∧ chain3.linear = true ∧
    chain3.gen = [[.st ['a'], .param ['i'], .st ['/'], .st ['b'], .splat ['w']]] ∧
    buildPath [.st ['a'], .param ['i'], .st ['/'], .st ['b'], .splat ['w']] [['x'], ['y']] =
      some ['/', 'a', '/', 'x', '/', '/', 'b', '/', 'y'] ∧
    matchRoute .cur ⟨none, [chain3]⟩ ['/', 'a', '/', 'x', '/', '/', 'b', '/', 'y'] =
      .some ⟨[(0, ['/', 'a', '/', 'x']), (0, ['/']), (0, ['/', 'b', '/', 'y'])], [(['i'], ['x']), (['w'], ['y'])]⟩ := by
  decide


-- C14_match_iff_flat_optional_free: hypotheses satisfiable (the rich table has no "/" segment), and
-- C14_slash_parent_exact is not vacuous: the F-C14-2 table fails exactly as it says
example : richDefs.wf = true ∧ noOptionalList richDefs.tops = true ∧ noSlashSegList richDefs.tops = true := by decide

example : slashParent.wf = true ∧ noOptionalList slashParent.tops = true ∧ ¬ Holds slashParent ['/', 'a'] ∧
    noSlashSegList slashParent.tops = false ∧ ¬ SegmentAligned slashParent ['/', 'a'] := by decide


-- C14_match_iff_flat_optional_leaves: hypotheses satisfiable on a table with optional leaves (one of them
-- wrapped in a 1-tuple, one below a parent, one with a wildcard), and the optional is really exercised:
-- taken, skipped after the back-off, and consuming nothing
def optLeaves : Defs :=
  ⟨some ['/', 'b'],
   [.mk (.st ['a']) [.mk (.tup [.tup [.opt ['o']], .st ['x']]) [], .mk (.tup [.param ['p'], .opt ['q']]) []],
    .mk (.tup [.st ['f'], .opt ['r'], .splat ['w']]) []]⟩

example : optLeaves.wf = true ∧ anyOptWithChildren optLeaves.tops = false ∧ anyMultiOpt optLeaves.tops = false ∧
    anyInnerOptTuple optLeaves.tops = false ∧
    SegmentAligned optLeaves ['/', 'b', '/', 'a', '/', 'y', '/', 'x'] ∧
    matchRoute .cur optLeaves ['/', 'b', '/', 'a', '/', 'y', '/', 'x'] =
      .some ⟨[(0, ['/', 'a']), (0, ['/', 'y', '/', 'x'])], [(['o'], ['y'])]⟩ ∧
    matchRoute .cur optLeaves ['/', 'b', '/', 'a', '/', 'x'] = .some ⟨[(0, ['/', 'a']), (0, ['/', 'x'])], []⟩ ∧
    matchRoute .cur optLeaves ['/', 'b', '/', 'a', '/', 'z', '/'] =
      .some ⟨[(0, ['/', 'a']), (1, ['/', 'z'])], [(['p'], ['z'])]⟩ ∧
    matchRoute .cur optLeaves ['/', 'b', '/', 'f', '/', 'u', '/', 'v'] =
      .some ⟨[(1, ['/', 'f', '/', 'u', '/', 'v'])], [(['r'], ['u']), (['w'], ['v'])]⟩ ∧
    Holds optLeaves ['/', 'b', '/', 'a', '/', 'x'] := by decide


-- C14_match_iff_flat_optional_leaves_no_slash / C14_failure_in_known_class: hypotheses satisfiable, and the
-- conclusion of the latter is met by each counter-witness in its own class
example : noSlashSegList optLeaves.tops = true := by decide

example : anyOptWithChildren optParent.tops = true ∧ anyMultiOpt optOrder.tops = true ∧
    anyInnerOptTuple optInner.tops = true ∧
    (noSlashSegList slashParent.tops = false ∧ ¬ SegmentAligned slashParent ['/', 'a']) := by decide


-- C14_match_iff_flat_optional: hypotheses satisfiable on a table with a parent that is one optional param
-- (`/:lang?` → `/a` → `/:id`, and a sibling), the fallback is exercised (optional taken / children
-- re-matched against the whole path), and the class predicate is exact: with a mandatory segment next to
-- the optional the table is in the class
def langDefs : Defs :=
  ⟨none, [.mk (.opt ['l']) [.mk (.st ['a']) [.mk (.param ['i']) []], .mk (.tup [.st ['b'], .opt ['o']]) []]]⟩

example : langDefs.wf = true ∧ anyOptParent langDefs.tops = false ∧ anyOptWithChildren langDefs.tops = true ∧
    anyMultiOpt langDefs.tops = false ∧ anyInnerOptTuple langDefs.tops = false ∧
    noSlashSegList langDefs.tops = true ∧
    matchRoute .cur langDefs ['/', 'e', '/', 'a', '/', 'x'] =
      .some ⟨[(0, ['/', 'e']), (0, ['/', 'a']), (0, ['/', 'x'])], [(['l'], ['e']), (['i'], ['x'])]⟩ ∧
    matchRoute .cur langDefs ['/', 'a', '/', 'x'] =
      .some ⟨[(0, ['/', 'a']), (0, ['/', 'a']), (0, ['/', 'x'])], [(['i'], ['x'])]⟩ ∧
    matchRoute .cur langDefs ['/', 'b'] = .some ⟨[(0, ['/', 'b']), (1, ['/', 'b'])], []⟩ ∧
    anyOptParent optParent.tops = true := by decide


-- C14_match_iff_flat_optional_blocks: hypotheses satisfiable on leaves with two and three optionals in one block,
-- the back-off is exercised (all taken / some backed off / a non-prefix expansion accepted through its prefix twin),
-- and the class predicate is exact: optionals separated by a mandatory segment are in the class
def blockDefs : Defs :=
  ⟨none, [.mk (.tup [.st ['x'], .opt ['a'], .tup [.opt ['b']], .st ['y']]) [],
          .mk (.st ['z']) [.mk (.tup [.opt ['c'], .opt ['d'], .opt ['e']]) []]]⟩

example : blockDefs.wf = true ∧ anyOptParent blockDefs.tops = false ∧ anySplitOpt blockDefs.tops = false ∧
    anyMultiOpt blockDefs.tops = true ∧ anyInnerOptTuple blockDefs.tops = false ∧
    matchRoute .cur blockDefs ['/', 'x', '/', 'p', '/', 'q', '/', 'y'] =
      .some ⟨[(0, ['/', 'x', '/', 'p', '/', 'q', '/', 'y'])], [(['a'], ['p']), (['b'], ['q'])]⟩ ∧
    matchRoute .cur blockDefs ['/', 'x', '/', 'p', '/', 'y'] =
      .some ⟨[(0, ['/', 'x', '/', 'p', '/', 'y'])], [(['a'], ['p'])]⟩ ∧
    matchRoute .cur blockDefs ['/', 'x', '/', 'y'] = .some ⟨[(0, ['/', 'x', '/', 'y'])], []⟩ ∧
    matchRoute .cur blockDefs ['/', 'z', '/', 'u', '/', 'v'] =
      .some ⟨[(1, ['/', 'z']), (0, ['/', 'u', '/', 'v'])], [(['c'], ['u']), (['d'], ['v'])]⟩ ∧
    anySplitOpt optOrder.tops = true := by decide


-- C14_match_iff_flat_optional_blocks_no_slash / C14_failure_in_class_exact: hypotheses satisfiable; each
-- remaining counter-witness sits in its own class
example : noSlashSegList blockDefs.tops = true ∧ anyOptParent optParent.tops = true ∧ anySplitOpt optOrder.tops = true ∧
    anyInnerOptTuple optInner.tops = true ∧
    (noSlashSegList slashParent.tops = false ∧ ¬ SegmentAligned slashParent ['/', 'a']) := by decide

/-! ## `.ssr_mode(..)`: the modes never change the table's (method, path) set

`RouteM` = a definition tree with a mode on every route; `RouteM.genM` = `generate_routes` with all four
fields of `GeneratedRouteData`.  `C14_ssr_mode_path_independent`: the segment lists of the generated table
are those of the mode-free tree (`RouteM.erase`, what every other theorem of this file is about) and
every entry's methods are `{Get}` — whatever modes are set, at whatever level.
`C14_ssr_mode_is_first_strictest`: the mode of an entry is the first strictest mode on its chain (the
parent's on a tie — also between two `Static`), its regeneration fns are the chain's in order. -/

theorem eraseList_isEmpty (cs : List RouteM) : (eraseList cs).isEmpty = cs.isEmpty := by
  cases cs <;> rfl

theorem combineAll_segments (a : List FSeg) (m : Mode) (l : List GenRoute) :
    (combineAll a m l).map (·.segments) = prefixAll a (l.map (·.segments)) := by
  induction l with
  | nil => rfl
  | cons c cs ih => simp only [combineAll, List.map_cons, prefixAll, ih, combine]

mutual
theorem genM_segments : (r : RouteM) → r.genM.map (·.segments) = r.erase.gen
  | .mk segs mode children => by
    unfold RouteM.genM RouteM.erase Route.gen
    rw [eraseList_isEmpty]
    cases h : children.isEmpty
    · simp only [Bool.false_eq_true, if_false]
      rw [combineAll_segments, genMList_segments children]
    · simp only [if_true, List.map_cons, List.map_nil]
theorem genMList_segments : (cs : List RouteM) → (genMList cs).map (·.segments) = genList (eraseList cs)
  | [] => by simp only [genMList, eraseList, genList, List.map_nil]
  | c :: cs => by
    simp only [genMList, eraseList, genList, List.map_append, genM_segments c, genMList_segments cs]
end

theorem combineAll_methods (a : List FSeg) (m : Mode) (l : List GenRoute)
    (h : ∀ g ∈ l, g.methods = [.get]) : ∀ g ∈ combineAll a m l, g.methods = [.get] := by
  induction l with
  | nil => intro g hg; cases hg
  | cons c cs ih =>
    intro g hg
    simp only [combineAll, List.mem_cons] at hg
    cases hg with
    | inl e =>
      subst e
      have hc := h c (List.mem_cons_self ..)
      simp only [combine, hc]
      decide
    | inr hg => exact ih (fun g hg => h g (List.mem_cons_of_mem _ hg)) g hg

mutual
theorem genM_methods : (r : RouteM) → ∀ g ∈ r.genM, g.methods = [.get]
  | .mk segs mode children => by
    unfold RouteM.genM
    cases h : children.isEmpty
    · simp only [Bool.false_eq_true, if_false]
      exact combineAll_methods _ _ _ (genMList_methods children)
    · simp only [if_true, List.mem_singleton]
      intro g hg
      subst hg
      rfl
theorem genMList_methods : (cs : List RouteM) → ∀ g ∈ genMList cs, g.methods = [.get]
  | [] => by intro g hg; simp only [genMList] at hg; cases hg
  | c :: cs => by
    intro g hg
    simp only [genMList, List.mem_append] at hg
    cases hg with
    | inl hg => exact genM_methods c g hg
    | inr hg => exact genMList_methods cs g hg
end

theorem map_pair_of_methods (l : List GenRoute) (h : ∀ g ∈ l, g.methods = [.get]) :
    l.map (fun g => (g.methods, g.segments)) = (l.map (·.segments)).map fun s => ([Method.get], s) := by
  induction l with
  | nil => rfl
  | cons c cs ih =>
    simp only [List.map_cons, h c (List.mem_cons_self ..), ih (fun g hg => h g (List.mem_cons_of_mem _ hg))]

/-- The modes never change the (method, path) set of the generated table:
* the segment lists generated for a tree with modes are those of its mode-free erasure, entry by entry
  (so nothing — in particular no parent prefix — is lost or added for any combination of modes);
* the registered table (base included) is `flatRoutes` of the erasure, the table of every matching theorem;
* every entry's methods are `{Get}`;
* two trees that differ only in their modes generate the same (methods, path) list. -/
theorem C14_ssr_mode_path_independent :
    (∀ r : RouteM, r.genM.map (·.segments) = r.erase.gen) ∧
    (∀ d : DefsM, (flatRoutesM d).map (·.segments) = flatRoutes d.erase) ∧
    (∀ (r : RouteM) (g : GenRoute), g ∈ r.genM → g.methods = [.get]) ∧
    (∀ d d' : DefsM, d.erase = d'.erase →
      (flatRoutesM d).map (fun g => (g.methods, g.segments)) =
      (flatRoutesM d').map (fun g => (g.methods, g.segments))) := by
  have hflat : ∀ d : DefsM, (flatRoutesM d).map (·.segments) = flatRoutes d.erase := by
    intro d
    unfold flatRoutesM flatRoutes DefsM.erase
    rw [← genMList_segments d.tops]
    simp only [List.map_map]
    rfl
  have hmeth : ∀ d : DefsM, ∀ g ∈ flatRoutesM d, g.methods = [.get] := by
    intro d g hg
    unfold flatRoutesM at hg
    simp only [List.mem_map] at hg
    cases hg with
    | intro g0 h0 =>
      rw [← h0.2]
      exact genMList_methods d.tops g0 h0.1
  refine ⟨genM_segments, hflat, genM_methods, ?_⟩
  intro d d' he
  rw [map_pair_of_methods _ (hmeth d), map_pair_of_methods _ (hmeth d'), hflat, hflat, he]

/-! ### propagation -/

theorem maxRank_ge (t : List Mode) : ∀ m ∈ t, m.rank ≤ maxRank t := by
  induction t with
  | nil => intro m hm; cases hm
  | cons a as ih =>
    intro m hm
    simp only [maxRank]
    cases hm with
    | head => exact Nat.le_max_left ..
    | tail _ hm => exact Nat.le_trans (ih m hm) (Nat.le_max_right ..)

theorem find_strictest_some (t : List Mode) (h : t ≠ []) :
    ∃ m, (t.find? fun m => m.rank == maxRank t) = some m := by
  -- some element attains the maximum
  have hex : ∀ t : List Mode, t ≠ [] → ∃ m ∈ t, m.rank = maxRank t := by
    intro t
    induction t with
    | nil => intro h; exact absurd rfl h
    | cons a as ih =>
      intro _
      cases as with
      | nil => exact ⟨a, List.mem_cons_self .., by simp only [maxRank]; exact (Nat.max_eq_left (Nat.zero_le _)).symm⟩
      | cons b bs =>
        cases ih (by intro h; cases h) with
        | intro m hm =>
          by_cases hc : maxRank (b :: bs) ≤ a.rank
          · exact ⟨a, List.mem_cons_self .., by
              show a.rank = Nat.max a.rank (maxRank (b :: bs))
              exact (Nat.max_eq_left hc).symm⟩
          · exact ⟨m, List.mem_cons_of_mem _ hm.1, by
              show m.rank = Nat.max a.rank (maxRank (b :: bs))
              rw [hm.2]
              exact (Nat.max_eq_right (by omega)).symm⟩
  cases hex t h with
  | intro m hm =>
    cases hf : t.find? fun m => m.rank == maxRank t with
    | some x => exact ⟨x, rfl⟩
    | none =>
      rw [List.find?_eq_none] at hf
      have := hf m hm.1
      simp only [hm.2, beq_self_eq_true, not_true_eq_false] at this

/-- `firstStrictest` obeys the recursion of `generate_routes`: the parent's mode unless the rest of the
chain is strictly stricter -/
theorem firstStrictest_cons (m : Mode) (t : List Mode) (h : t ≠ []) :
    firstStrictest (m :: t) = pickMode m (firstStrictest t) := by
  cases find_strictest_some t h with
  | intro x hx =>
    have hxr : x.rank = maxRank t := by
      have := List.find?_some hx
      simpa using this
    unfold firstStrictest pickMode
    rw [hx]
    simp only [Option.getD_some, maxRank, List.find?_cons]
    by_cases hc : x.rank > m.rank
    · have hmax : Nat.max m.rank (maxRank t) = maxRank t := Nat.max_eq_right (by omega)
      have hne : (m.rank == maxRank t) = false := by
        simp only [beq_eq_false_iff_ne, ne_eq]; omega
      simp only [hmax, hne, hx, Option.getD_some, hc, if_true]
    · have hmax : Nat.max m.rank (maxRank t) = m.rank := Nat.max_eq_left (by omega)
      simp only [hmax, beq_self_eq_true, Option.getD_some, hc, if_false]

theorem firstStrictest_single (m : Mode) : firstStrictest [m] = m := by
  unfold firstStrictest
  simp only [maxRank, List.find?_cons]
  have : Nat.max m.rank 0 = m.rank := Nat.max_eq_left (Nat.zero_le _)
  simp only [this, beq_self_eq_true, Option.getD_some]

theorem combineAll_modes (a : List FSeg) (m : Mode) (l : List GenRoute) (ts : List (List Mode))
    (hne : ∀ t ∈ ts, t ≠ [])
    (h : l.map (fun g => (g.mode, g.regen)) = ts.map fun t => (firstStrictest t, trailRegen t)) :
    (combineAll a m l).map (fun g => (g.mode, g.regen)) =
      (consAll m ts).map fun t => (firstStrictest t, trailRegen t) := by
  induction l generalizing ts with
  | nil =>
    cases ts with
    | nil => rfl
    | cons t ts => simp only [List.map_nil, List.map_cons] at h; cases h
  | cons c cs ih =>
    cases ts with
    | nil => simp only [List.map_nil, List.map_cons] at h; cases h
    | cons t ts =>
      simp only [List.map_cons, List.cons.injEq, Prod.mk.injEq] at h
      simp only [combineAll, consAll, List.map_cons, combine, trailRegen,
        firstStrictest_cons m t (hne t (List.mem_cons_self ..)), h.1.1, h.1.2,
        ih ts (fun t ht => hne t (List.mem_cons_of_mem _ ht)) h.2]

theorem consAll_ne (m : Mode) (ts : List (List Mode)) : ∀ t ∈ consAll m ts, t ≠ [] := by
  induction ts with
  | nil => intro t ht; cases ht
  | cons a as ih =>
    intro t ht
    simp only [consAll, List.mem_cons] at ht
    cases ht with
    | inl e => subst e; intro h; cases h
    | inr ht => exact ih t ht

mutual
theorem trails_ne : (r : RouteM) → ∀ t ∈ r.trails, t ≠ []
  | .mk segs mode children => by
    unfold RouteM.trails
    cases h : children.isEmpty
    · simp only [Bool.false_eq_true, if_false]
      exact consAll_ne _ _
    · simp only [if_true, List.mem_singleton]
      intro t ht; subst ht; intro h; cases h
theorem trailsList_ne : (cs : List RouteM) → ∀ t ∈ trailsList cs, t ≠ []
  | [] => by intro t ht; simp only [trailsList] at ht; cases ht
  | c :: cs => by
    intro t ht
    simp only [trailsList, List.mem_append] at ht
    cases ht with
    | inl ht => exact trails_ne c t ht
    | inr ht => exact trailsList_ne cs t ht
end

mutual
theorem genM_modes : (r : RouteM) →
    r.genM.map (fun g => (g.mode, g.regen)) = r.trails.map fun t => (firstStrictest t, trailRegen t)
  | .mk segs mode children => by
    unfold RouteM.genM RouteM.trails
    cases h : children.isEmpty
    · simp only [Bool.false_eq_true, if_false]
      exact combineAll_modes _ _ _ _ (trailsList_ne children) (genMList_modes children)
    · simp only [if_true, List.map_cons, List.map_nil, firstStrictest_single, trailRegen, List.append_nil]
theorem genMList_modes : (cs : List RouteM) →
    (genMList cs).map (fun g => (g.mode, g.regen)) = (trailsList cs).map fun t => (firstStrictest t, trailRegen t)
  | [] => by simp only [genMList, trailsList, List.map_nil]
  | c :: cs => by
    simp only [genMList, trailsList, List.map_append, genM_modes c, genMList_modes cs]
end

/-- Mode propagation: entry by entry, the mode of a generated route is the FIRST strictest mode on its
root-to-leaf chain (so a stricter child/grandchild wins, and on a tie — two `Static` included — the
ancestor's is kept), and its regeneration fns are those of the chain's `Static` routes, root first.
In particular the entry is as strict as every route on its chain. -/
theorem C14_ssr_mode_is_first_strictest :
    (∀ r : RouteM, r.genM.map (fun g => (g.mode, g.regen)) =
      r.trails.map fun t => (firstStrictest t, trailRegen t)) ∧
    (∀ (parent child : Mode), pickMode parent child = if child.rank > parent.rank then child else parent) ∧
    (∀ (t : List Mode) (m : Mode), m ∈ t → m.rank ≤ (firstStrictest t).rank) := by
  refine ⟨genM_modes, fun _ _ => rfl, ?_⟩
  intro t m hm
  have hne : t ≠ [] := by intro h; subst h; cases hm
  cases find_strictest_some t hne with
  | intro x hx =>
    have hxr : x.rank = maxRank t := by
      have := List.find?_some hx
      simpa using this
    unfold firstStrictest
    rw [hx, Option.getD_some, hxr]
    exact maxRank_ge t m hm

-- non-vacuity: the seeded shape — `/blog` (default mode) with a stricter child `post/:id`; a grandchild
-- stricter than both; Static over Static keeps the ancestor's StaticRoute; the prefix is always there
def blogM (pm cm : Mode) : RouteM :=
  .mk (.st ['b', 'l', 'o', 'g']) pm [.mk (.tup [.st ['p', 'o', 's', 't'], .param ['i', 'd']]) cm []]

example : (blogM .outOfOrder .async).genM =
      [⟨[.st ['b', 'l', 'o', 'g'], .st ['p', 'o', 's', 't'], .param ['i', 'd']], .async, [.get], []⟩] ∧
    (blogM .async .inOrder).genM =
      [⟨[.st ['b', 'l', 'o', 'g'], .st ['p', 'o', 's', 't'], .param ['i', 'd']], .async, [.get], []⟩] ∧
    (blogM (.static 0 true) (.static 1 true)).genM =
      [⟨[.st ['b', 'l', 'o', 'g'], .st ['p', 'o', 's', 't'], .param ['i', 'd']], .static 0 true, [.get], [0, 1]⟩] ∧
    (RouteM.mk (.st ['a']) .inOrder [.mk (.st ['b']) .outOfOrder [.mk (.param ['p']) (.static 2 true) [],
        .mk (.st ['c']) .partiallyBlocked []], .mk (.opt ['o']) .async []]).genM =
      [⟨[.st ['a'], .st ['b'], .param ['p']], .static 2 true, [.get], [2]⟩,
       ⟨[.st ['a'], .st ['b'], .st ['c']], .inOrder, [.get], []⟩,
       ⟨[.st ['a'], .opt ['o']], .async, [.get], []⟩] ∧
    firstStrictest [.inOrder, .static 1 false, .async, .static 3 true] = .static 1 false := by decide

example : (blogM .outOfOrder (.static 1 false)).erase = (blogM .async .inOrder).erase := rfl

end Leptos.Router
