import LeptosModel.Model.Router
/-!
# C14 — the router matches exactly the paths its route table declares

Property theorems about `Model/Router` (`k = false` is the code as it is, `k = true` its
segment-aligned variant that only serves to state the decidable hypothesis `SegmentAligned`).

* `C14_partition` (+ `_tuple_pass`, `_nested`): matched ++ remaining = path — full, every segment kind,
  arbitrarily nested tuples, both variants; nested routes under `hasOptParent = false`
  (witness `C14_partition_nested_fallback_witness` shows the hypothesis is needed).
* `C14_params_are_segments` (+ `_opt`, `C14_segHead_is_first_token`): full.
* `C14_expand_optionals`: the worklist = the recursive spec, 2^k entries, no optional left — full.
* `C14_match_iff_flat_full`: the full statement; `C14_match_iff_flat_full_false` refutes it (F-C14-1);
  further witnesses, one per known-finding class.
* `C14_match_iff_flat_partial`: proved for single leaf routes whose segments are plain statics and params
  (`SimpleF`), under `SegmentAligned`.  `C14_match_iff_flat_partial_general` is the statement over
  arbitrary optional-free route trees — OPEN (checked by the correspondence run on every generated case,
  not proved).
* `C14_build_then_match`: full for `SimpleF` segment lists.
-/
namespace Leptos.Router

/-! ## bytes and slices -/


theorem utf8Size_pos' (c : Char) : 0 < c.utf8Size := Char.utf8Size_pos c

theorem bytes_append (a b : Path) : bytes (a ++ b) = bytes a + bytes b := by
  induction a with
  | nil => simp [bytes]
  | cons c cs ih => simp [bytes, ih]; omega

/-- `split_at` returns the two halves of the string -/
theorem splitBytes_append : ∀ (p : Path) (n : Nat) (a b : Path), splitBytes p n = some (a, b) → a ++ b = p := by
  intro p
  induction p with
  | nil =>
    intro n a b h
    cases n with
    | zero => simp [splitBytes] at h; obtain ⟨rfl, rfl⟩ := h; rfl
    | succ n => simp [splitBytes] at h
  | cons c cs ih =>
    intro n a b h
    cases n with
    | zero => simp [splitBytes] at h; obtain ⟨rfl, rfl⟩ := h; rfl
    | succ n =>
      simp only [splitBytes] at h
      split at h
      · split at h
        · next a' b' heq =>
          simp at h; obtain ⟨rfl, rfl⟩ := h
          simp [ih _ _ _ heq]
        · simp at h
      · simp at h

theorem splitBytes_len : ∀ (p : Path) (n : Nat) (a b : Path), splitBytes p n = some (a, b) → bytes a = n := by
  intro p
  induction p with
  | nil =>
    intro n a b h
    cases n with
    | zero => simp [splitBytes] at h; obtain ⟨rfl, rfl⟩ := h; rfl
    | succ n => simp [splitBytes] at h
  | cons c cs ih =>
    intro n a b h
    cases n with
    | zero => simp [splitBytes] at h; obtain ⟨rfl, rfl⟩ := h; rfl
    | succ n =>
      simp only [splitBytes] at h
      split at h
      · next hle =>
        split at h
        · next a' b' heq =>
          simp at h; obtain ⟨rfl, rfl⟩ := h
          have := ih _ _ _ heq
          simp [bytes, this]; omega
        · simp at h
      · simp at h

/-- splitting at the byte length of a prefix succeeds and returns that prefix -/
theorem splitBytes_bytes (a b : Path) : splitBytes (a ++ b) (bytes a) = some (a, b) := by
  induction a with
  | nil => cases b <;> simp [bytes, splitBytes]
  | cons c cs ih =>
    have hp := Char.utf8Size_pos c
    obtain ⟨m, hm⟩ : ∃ m, bytes (c :: cs) = m + 1 := ⟨c.utf8Size + bytes cs - 1, by simp [bytes]; omega⟩
    rw [hm]
    simp only [List.cons_append, splitBytes]
    have h1 : c.utf8Size ≤ m + 1 := by simp [bytes] at hm; omega
    have h2 : m + 1 - c.utf8Size = bytes cs := by simp [bytes] at hm; omega
    simp [h1, h2, ih]


/-! ## partition: segments and tuples -/


theorem staticTest_partition (s path : Path) (m : PM) (h : staticTest s path = .some m) :
    m.matched ++ m.remaining = path := by
  unfold staticTest at h
  simp only at h
  split at h
  · simp at h
  · split at h
    · simp at h
    · next a b heq =>
      split at h
      · simp at h; subst h; exact splitBytes_append _ _ _ _ heq
      · simp at h

theorem paramTest_partition (n path : Path) (m : PM) (h : paramTest n path = .some m) :
    m.matched ++ m.remaining = path := by
  unfold paramTest at h
  simp only at h
  split at h
  · simp at h
  · split at h
    · next a b v heq _ => simp at h; subst h; exact splitBytes_append _ _ _ _ heq
    · simp at h

theorem optTest_partition (n path : Path) (m : PM) (h : optTest n path = .some m) :
    m.matched ++ m.remaining = path := by
  unfold optTest at h
  simp only at h
  generalize (if (paramScan path).fst = 1 ∧ startsSlash path = true then 0 else (paramScan path).fst) = ml at h
  split at h
  · simp at h
  · next a b heq =>
    split at h
    · split at h
      · simp at h; subst h; exact splitBytes_append _ _ _ _ heq
      · simp at h
    · simp at h; subst h; exact splitBytes_append _ _ _ _ heq

theorem splatTest_partition (n path : Path) (m : PM) (h : splatTest n path = .some m) :
    m.matched ++ m.remaining = path := by
  unfold splatTest at h
  simp only at h
  split at h
  · next a b v heq _ => simp at h; subst h; exact splitBytes_append _ _ _ _ heq
  · simp at h

theorem backoff_done (f : Nat → Pass) : ∀ n r ml p, backoff f n = .done r ml p → ∃ i, f i = .done r ml p := by
  intro n
  induction n with
  | zero => intro r ml p h; exact ⟨0, h⟩
  | succ n ih =>
    intro r ml p h
    simp only [backoff] at h
    split at h
    · exact ih _ _ _ h
    · exact ⟨n + 1, h⟩

mutual
theorem test_partition (k : Bool) : ∀ (s : Seg) (path : Path) (m : PM), s.test k path = .some m →
    m.matched ++ m.remaining = path
  | .st s, path, m, h => by
    simp only [Seg.test] at h; split at h
    · exact staticTest_partition _ _ _ h
    · simp at h
  | .param n, path, m, h => by
    simp only [Seg.test] at h; split at h
    · exact paramTest_partition _ _ _ h
    · simp at h
  | .opt n, path, m, h => by
    simp only [Seg.test] at h; split at h
    · exact optTest_partition _ _ _ h
    · simp at h
  | .splat n, path, m, h => by
    simp only [Seg.test] at h; split at h
    · exact splatTest_partition _ _ _ h
    · simp at h
  | .tup [], path, m, h => by
    simp only [Seg.test] at h; simp at h; subst h; rfl
  | .tup [a], path, m, h => by
    simp only [Seg.test] at h
    split at h
    · next m' hm' =>
      split at h
      · next pre post hs =>
        simp at h; subst h
        have ih := test_partition k a path m' hm'
        have h1 := splitBytes_bytes m'.matched m'.remaining
        rw [ih] at h1
        rw [hs] at h1
        simp at h1
        simp [h1.1, ih]
      · simp at h
    · simp at h
    · simp at h
  | .tup (a :: b :: l), path, m, h => by
    simp only [Seg.test] at h
    split at h
    · next r ml p hb =>
      obtain ⟨inc, hinc⟩ := backoff_done _ _ _ _ _ hb
      obtain ⟨c, hc1, hc2⟩ := pass_inv k (a :: b :: l) true inc 0 path 0 [] path [] r ml p (by simp) (by simp [bytes]) hinc
      split at h
      · next pre post hs =>
        simp at h; subst h
        have h1 := splitBytes_bytes c r
        rw [hc1, hc2, hs] at h1
        simp at h1
        simp [h1.1, hc1]
      · simp at h
    · simp at h
    · simp at h
theorem pass_inv (k : Bool) : ∀ (l : List Seg) (first : Bool) (inc nth : Nat) (r0 : Path) (ml0 : Nat) (p0 : Params)
    (path c0 r : Path) (ml : Nat) (p : Params),
    c0 ++ r0 = path → bytes c0 = ml0 → passFields k l first inc nth r0 ml0 p0 = .done r ml p →
    ∃ c, c ++ r = path ∧ bytes c = ml
  | [], first, inc, nth, r0, ml0, p0, path, c0, r, ml, p, h1, h2, h => by
    simp only [passFields] at h
    simp at h
    obtain ⟨rfl, rfl, rfl⟩ := h
    exact ⟨c0, h1, h2⟩
  | ty :: tys, first, inc, nth, r0, ml0, p0, path, c0, r, ml, p, h1, h2, h => by
    simp only [passFields] at h
    generalize (if ty.optional = true then nth + 1 else nth) = nth' at h
    split at h
    · cases hm : ty.test k r0 with
      | panic => rw [hm] at h; simp at h
      | none => rw [hm] at h; simp only at h; repeat' split at h
                all_goals simp at h
      | some m =>
        rw [hm] at h; simp only at h
        have hp := test_partition k ty r0 m hm
        refine pass_inv k tys false inc _ m.remaining _ _ path (c0 ++ m.matched) r ml p ?_ ?_ h
        · rw [List.append_assoc, hp, h1]
        · rw [bytes_append, h2]
    · exact pass_inv k tys false inc _ r0 ml0 p0 path c0 r ml p h1 h2 h
end


/-! ## partition: nested routes -/


/-- the matched strings of all nesting levels, concatenated -/
def chainCat (m : NMatch) : Path := (m.chain.map (·.2)).flatten

theorem finish_some (pos : Nat) (matched : Path) (params : Params) (inner : Option NMatch) (remaining : Path)
    (m : NMatch) (rem : Path) (h : finish pos matched params inner remaining = .some m rem) :
    rem = remaining ∧ complete rem = true ∧
      chainCat m = matched ++ (match inner with | some i => chainCat i | none => []) := by
  unfold finish at h
  split at h
  · next hc =>
    split at h
    · simp at h; obtain ⟨rfl, rfl⟩ := h; simp [chainCat, hc]
    · simp at h; obtain ⟨rfl, rfl⟩ := h; simp [chainCat, hc]
  · simp at h

mutual
theorem nested_partition (k : Bool) : ∀ (r : Route) (pos : Nat) (path : Path) (m : NMatch) (rem : Path),
    r.hasOptParent = false → matchNested k r pos path = .some m rem → chainCat m ++ rem = path
  | .mk segs children, pos, path, m, rem, hno, h => by
    simp only [Route.hasOptParent, Bool.or_eq_false_iff, Bool.and_eq_false_iff] at hno
    simp only [matchNested] at h
    cases hs : segs.test k path with
    | panic => rw [hs] at h; simp at h
    | none => rw [hs] at h; simp at h
    | some pm =>
      rw [hs] at h; simp only at h
      have hp := test_partition k segs path pm hs
      split at h
      · obtain ⟨rfl, _, hc⟩ := finish_some _ _ _ _ _ _ _ h
        simp [hc, hp]
      · next hne =>
        cases hc : matchChildren k children 0 pm.remaining with
        | panic => rw [hc] at h; simp at h
        | some inner rem' =>
          rw [hc] at h; simp only at h
          obtain ⟨rfl, _, hcc⟩ := finish_some _ _ _ _ _ _ _ h
          have ih := children_partition k children 0 pm.remaining inner rem hno.2 hc
          simp only at hcc
          rw [hcc, List.append_assoc, ih, hp]
        | none =>
          rw [hc] at h; simp only at h
          have hopt : segs.optional = false := by
            rcases hno.1 with h1 | h1
            · simp [hne] at h1
            · exact h1
          simp [hopt] at h
theorem children_partition (k : Bool) : ∀ (cs : List Route) (i : Nat) (path : Path) (m : NMatch) (rem : Path),
    anyOptParent cs = false → matchChildren k cs i path = .some m rem → chainCat m ++ rem = path
  | [], i, path, m, rem, hno, h => by simp [matchChildren] at h
  | c :: cs, i, path, m, rem, hno, h => by
    simp only [anyOptParent, Bool.or_eq_false_iff] at hno
    simp only [matchChildren] at h
    cases hc : matchNested k c i path with
    | panic => rw [hc] at h; simp at h
    | some m' rem' =>
      rw [hc] at h; simp at h; obtain ⟨rfl, rfl⟩ := h
      exact nested_partition k c i path _ _ hno.1 hc
    | none =>
      rw [hc] at h; simp only at h
      exact children_partition k cs (i + 1) path m rem hno.2 h
end

/-! ## params are segments -/


theorem slash_size : ('/' : Char).utf8Size = 1 := by decide

/-- the first `/`-separated segment of a string, and what follows it -/
def segHead (p : Path) : Path := p.takeWhile (· ≠ '/')
def segTail (p : Path) : Path := p.dropWhile (· ≠ '/')

theorem segHead_append_segTail (p : Path) : segHead p ++ segTail p = p := by
  simp [segHead, segTail, List.takeWhile_append_dropWhile]

theorem scanSeg_eq (p : Path) : scanSeg p = bytes (segHead p) := by
  induction p with
  | nil => simp [scanSeg, segHead, bytes]
  | cons c cs ih =>
    by_cases hc : c = '/'
    · simp [scanSeg, segHead, hc, bytes]
    · simp [scanSeg, segHead, hc, bytes]; simpa [segHead] using ih

theorem bytes_eq_zero {p : Path} (h : bytes p = 0) : p = [] := by
  cases p with
  | nil => rfl
  | cons c cs => have := Char.utf8Size_pos c; simp [bytes] at h; omega

theorem splitSlash_head (p : Path) : (splitSlash p).head? = some (segHead p) := by
  induction p with
  | nil => simp [splitSlash, segHead]
  | cons c cs ih =>
    simp only [splitSlash]
    cases hs : splitSlash cs with
    | nil => simp [hs] at ih
    | cons h t =>
      simp [hs] at ih
      by_cases hc : c = '/'
      · simp [hc, segHead]
      · simp [hc, segHead, ih]

/-- complete description of `ParamSegment::test` on a path that starts with `/` -/
theorem paramTest_slash (n p : Path) :
    paramTest n ('/' :: p) =
      if segHead p = [] then .none else .some ⟨'/' :: segHead p, segTail p, [(n, segHead p)]⟩ := by
  have hb : bytes ('/' :: segHead p) = 1 + scanSeg p := by
    simp [bytes, scanSeg_eq]; decide
  have h1 : splitBytes ('/' :: p) (1 + scanSeg p) = some ('/' :: segHead p, segTail p) := by
    have := splitBytes_bytes ('/' :: segHead p) (segTail p)
    rw [hb] at this
    simpa [segHead_append_segTail] using this
  have h2 : sliceBytes ('/' :: p) 1 (scanSeg p + 1) = some (segHead p) := by
    unfold sliceBytes
    have h3 : splitBytes ('/' :: p) 1 = some (['/'], p) := by
      have := splitBytes_bytes ['/'] p
      simpa [bytes, slash_size] using this
    have h4 : splitBytes p (scanSeg p) = some (segHead p, segTail p) := by
      have := splitBytes_bytes (segHead p) (segTail p)
      rw [segHead_append_segTail, ← scanSeg_eq] at this
      exact this
    simp [h3, h4]
  unfold paramTest
  simp only [paramScan, if_true, startsSlash]
  by_cases he : segHead p = []
  · have : scanSeg p = 0 := by simp [scanSeg_eq, he, bytes]
    simp [he, this]
  · have : scanSeg p ≠ 0 := by
      intro h0; rw [scanSeg_eq] at h0; exact he (bytes_eq_zero h0)
    simp [he, h1, h2]
    omega

/-- complete description of `OptionalParamSegment::test` on a path that starts with `/` -/
theorem optTest_slash (n p : Path) :
    optTest n ('/' :: p) =
      if segHead p = [] then .some ⟨[], '/' :: p, []⟩
      else .some ⟨'/' :: segHead p, segTail p, [(n, segHead p)]⟩ := by
  have hb : bytes ('/' :: segHead p) = 1 + scanSeg p := by
    simp [bytes, scanSeg_eq]; decide
  have h1 : splitBytes ('/' :: p) (1 + scanSeg p) = some ('/' :: segHead p, segTail p) := by
    have := splitBytes_bytes ('/' :: segHead p) (segTail p)
    rw [hb] at this
    simpa [segHead_append_segTail] using this
  have h2 : sliceBytes ('/' :: p) 1 (scanSeg p + 1) = some (segHead p) := by
    unfold sliceBytes
    have h3 : splitBytes ('/' :: p) 1 = some (['/'], p) := by
      have := splitBytes_bytes ['/'] p
      simpa [bytes, slash_size] using this
    have h4 : splitBytes p (scanSeg p) = some (segHead p, segTail p) := by
      have := splitBytes_bytes (segHead p) (segTail p)
      rw [segHead_append_segTail, ← scanSeg_eq] at this
      exact this
    simp [h3, h4]
  unfold optTest
  simp only [paramScan, if_true, startsSlash]
  by_cases he : segHead p = []
  · have : scanSeg p = 0 := by simp [scanSeg_eq, he, bytes]
    simp [he, this, splitBytes]
  · have h0 : scanSeg p ≠ 0 := by
      intro h0; rw [scanSeg_eq] at h0; exact he (bytes_eq_zero h0)
    simp [he, h0, h1, h2]


/-! ## static segments -/


/-- a static text as `path!` produces it: non-empty, no `/` -/
def Plain (s : Path) : Prop := s ≠ [] ∧ '/' ∉ s
instance (s : Path) : Decidable (Plain s) := by unfold Plain; exact inferInstance

/-- the loop accepts exactly when the segment's text is a prefix of what is left — it does not look
at the character after the prefix (this is F-C14-1) -/
theorem staticLoop_prefix (s rest : Path) (hs : '/' ∉ s) (hm : Bool) (ml : Nat) :
    staticLoop s (s ++ rest) hm ml = some (hm || !s.isEmpty, ml + bytes s) := by
  induction s generalizing hm ml with
  | nil => cases rest <;> simp [staticLoop, bytes]
  | cons n s ih =>
    have hn : n ≠ '/' := by intro h; apply hs; simp [h]
    have hs' : '/' ∉ s := by intro h; apply hs; simp [h]
    simp only [List.cons_append, staticLoop, hn, if_false, if_true]
    rw [ih hs']
    simp [bytes]; omega

theorem staticLoop_some (s : Path) : ∀ (t : Path) (hm : Bool) (ml : Nat) (r : Bool × Nat),
    staticLoop s t hm ml = some r → ∃ rest, t = s ++ rest ∧ '/' ∉ s := by
  induction s with
  | nil => intro t hm ml r _; exact ⟨t, rfl, by simp⟩
  | cons n s ih =>
    intro t hm ml r h
    cases t with
    | nil => simp [staticLoop] at h
    | cons c t =>
      simp only [staticLoop] at h
      split at h
      · simp at h
      · next hc =>
        split at h
        · next hcn =>
          obtain ⟨rest, h1, h2⟩ := ih _ _ _ _ h
          subst hcn
          refine ⟨rest, by simp [h1], ?_⟩
          intro hmem
          simp at hmem
          rcases hmem with h3 | h3
          · exact hc h3.symm
          · exact h2 h3
        · simp at h

/-- `StaticSegment(s).test("/" ++ s ++ rest)` succeeds for every `rest` -/
theorem staticTest_slash (s rest : Path) (hs : Plain s) :
    staticTest s ('/' :: s ++ rest) = .some ⟨'/' :: s, rest, []⟩ := by
  obtain ⟨hne, hns⟩ := hs
  have hh : s.head? ≠ some '/' := by
    cases s with
    | nil => simp
    | cons c s => simp; intro h; apply hns; simp [h]
  have he : s.isEmpty = false := by cases s <;> simp at hne ⊢
  have hs2 : (s == ['/']) = false := by
    cases s with
    | nil => simp
    | cons c s =>
      have : c ≠ '/' := by intro h; apply hns; simp [h]
      cases s <;> simp [this]
  have h3 := splitBytes_bytes ('/' :: s) rest
  simp only [bytes, slash_size, List.cons_append] at h3
  unfold staticTest
  simp [he, hs2, hh, staticLoop_prefix s rest hns, h3]

/-- and only then (for a path that starts with `/`) -/
theorem staticTest_slash_some (s t : Path) (hs : Plain s) (m : PM) (h : staticTest s ('/' :: t) = .some m) :
    ∃ rest, t = s ++ rest ∧ m = ⟨'/' :: s, rest, []⟩ := by
  obtain ⟨hne, hns⟩ := hs
  have hh : s.head? ≠ some '/' := by
    cases s with
    | nil => simp
    | cons c s => simp; intro h; apply hns; simp [h]
  have he : s.isEmpty = false := by cases s <;> simp at hne ⊢
  cases hl : staticLoop s t false 1 with
  | none =>
    unfold staticTest at h
    simp [he, hh] at h
    cases hs2 : (s == ['/']) <;> simp [hs2, hl] at h
    · have : s = ['/'] := by simpa using hs2
      subst this; simp at hns
  | some r =>
    obtain ⟨rest, h1, _⟩ := staticLoop_some s t _ _ _ hl
    subst h1
    have := staticTest_slash s rest ⟨hne, hns⟩
    rw [List.cons_append] at this
    rw [this] at h
    simp at h
    exact ⟨rest, rfl, h.symm⟩

theorem staticTest_nil (s : Path) (hs : Plain s) : staticTest s [] = .none := by
  obtain ⟨hne, hns⟩ := hs
  cases s with
  | nil => simp at hne
  | cons c s =>
    have : c ≠ '/' := by intro h; apply hns; simp [h]
    unfold staticTest
    cases s <;> simp [staticLoop]


/-! ## expand_optionals -/


theorem firstOpt_none {l : List FSeg} (h : firstOpt l = none) : countOptF l = 0 ∧ expandSpec l = [l] := by
  induction l with
  | nil => simp [countOptF, expandSpec]
  | cons s rest ih =>
    cases s with
    | opt n => simp [firstOpt] at h
    | st t =>
      simp only [firstOpt] at h
      cases hr : firstOpt rest with
      | some x => obtain ⟨a, n, b⟩ := x; simp [hr] at h
      | none => have := ih hr; simp [countOptF, FSeg.isOpt, expandSpec, this]
    | param t =>
      simp only [firstOpt] at h
      cases hr : firstOpt rest with
      | some x => obtain ⟨a, n, b⟩ := x; simp [hr] at h
      | none => have := ih hr; simp [countOptF, FSeg.isOpt, expandSpec, this]
    | splat t =>
      simp only [firstOpt] at h
      cases hr : firstOpt rest with
      | some x => obtain ⟨a, n, b⟩ := x; simp [hr] at h
      | none => have := ih hr; simp [countOptF, FSeg.isOpt, expandSpec, this]

theorem firstOpt_some {l a b : List FSeg} {n : List Char} (h : firstOpt l = some (a, n, b)) :
    countOptF l = countOptF b + 1 ∧ countOptF (a ++ .param n :: b) = countOptF b ∧ countOptF (a ++ b) = countOptF b ∧
    expandSpec l = expandSpec (a ++ .param n :: b) ++ expandSpec (a ++ b) := by
  induction l generalizing a with
  | nil => simp [firstOpt] at h
  | cons s rest ih =>
    cases s with
    | opt m =>
      simp [firstOpt] at h
      obtain ⟨rfl, rfl, rfl⟩ := h
      simp [countOptF, FSeg.isOpt, expandSpec]; omega
    | st t =>
      simp only [firstOpt] at h
      cases hr : firstOpt rest with
      | none => simp [hr] at h
      | some x =>
        obtain ⟨a', n', b'⟩ := x
        simp [hr] at h
        obtain ⟨rfl, rfl, rfl⟩ := h
        have := ih hr
        simp [countOptF, FSeg.isOpt, expandSpec, this]
    | param t =>
      simp only [firstOpt] at h
      cases hr : firstOpt rest with
      | none => simp [hr] at h
      | some x =>
        obtain ⟨a', n', b'⟩ := x
        simp [hr] at h
        obtain ⟨rfl, rfl, rfl⟩ := h
        have := ih hr
        simp [countOptF, FSeg.isOpt, expandSpec, this]
    | splat t =>
      simp only [firstOpt] at h
      cases hr : firstOpt rest with
      | none => simp [hr] at h
      | some x =>
        obtain ⟨a', n', b'⟩ := x
        simp [hr] at h
        obtain ⟨rfl, rfl, rfl⟩ := h
        have := ih hr
        simp [countOptF, FSeg.isOpt, expandSpec, this]

/-- number of `pop`s the worklist needs for one entry -/
def pops (l : List FSeg) : Nat := 2 ^ (countOptF l + 1) - 1

def popsAll : List (List FSeg) → Nat
  | [] => 0
  | l :: ls => pops l + popsAll ls

theorem pops_pos (l : List FSeg) : 0 < pops l := by
  unfold pops
  have : 2 ≤ 2 ^ (countOptF l + 1) := by
    calc 2 = 2 ^ 1 := rfl
      _ ≤ 2 ^ (countOptF l + 1) := Nat.pow_le_pow_right (by decide) (by omega)
  omega

/-- the worklist computes the recursive specification, given enough fuel -/
theorem expandLoop_eq : ∀ (fuel : Nat) (stack checked : List (List FSeg)), popsAll stack ≤ fuel →
    expandLoop fuel stack checked = checked ++ stack.flatMap expandSpec := by
  intro fuel
  induction fuel with
  | zero =>
    intro stack checked h
    cases stack with
    | nil => simp [expandLoop]
    | cons t s => have := pops_pos t; simp [popsAll] at h; omega
  | succ f ih =>
    intro stack checked h
    cases stack with
    | nil => simp [expandLoop]
    | cons top stack =>
      simp only [expandLoop]
      cases ho : firstOpt top with
      | none =>
        obtain ⟨h0, hs⟩ := firstOpt_none ho
        have hp : pops top = 1 := by simp [pops, h0]
        simp only
        rw [ih stack (checked ++ [top]) (by simp [popsAll, hp] at h; omega)]
        simp [hs]
      | some x =>
        obtain ⟨a, n, b⟩ := x
        obtain ⟨h1, h2, h3, hs⟩ := firstOpt_some ho
        simp only
        have hpow : 2 ^ (countOptF b + 1 + 1) = 2 * 2 ^ (countOptF b + 1) := by
          rw [Nat.pow_succ]; omega
        have hge : 1 ≤ 2 ^ (countOptF b + 1) := Nat.one_le_two_pow
        rw [ih _ checked (by
          simp only [popsAll, pops, h1, h2, h3] at h ⊢
          omega)]
        simp [hs]

theorem expandSpec_length (l : List FSeg) : (expandSpec l).length = 2 ^ countOptF l := by
  induction l with
  | nil => simp [expandSpec, countOptF]
  | cons s rest ih =>
    cases s with
    | opt n =>
      have : 2 ^ (1 + countOptF rest) = 2 * 2 ^ countOptF rest := by rw [Nat.add_comm, Nat.pow_succ]; omega
      simp [expandSpec, countOptF, FSeg.isOpt, ih, this]; omega
    | st t => simp [expandSpec, countOptF, FSeg.isOpt, ih]
    | param t => simp [expandSpec, countOptF, FSeg.isOpt, ih]
    | splat t => simp [expandSpec, countOptF, FSeg.isOpt, ih]

theorem expandSpec_noOpt (l : List FSeg) : ∀ r ∈ expandSpec l, ∀ s ∈ r, s.isOpt = false := by
  induction l with
  | nil => simp [expandSpec]
  | cons s rest ih =>
    intro r hr x hx
    cases s with
    | opt n =>
      simp only [expandSpec, List.mem_append, List.mem_map] at hr
      rcases hr with ⟨r', hr', rfl⟩ | hr
      · simp at hx
        rcases hx with rfl | hx
        · rfl
        · exact ih r' hr' x hx
      · exact ih r hr x hx
    | st t =>
      simp only [expandSpec, List.mem_map] at hr
      obtain ⟨r', hr', rfl⟩ := hr
      simp at hx
      rcases hx with rfl | hx
      · rfl
      · exact ih r' hr' x hx
    | param t =>
      simp only [expandSpec, List.mem_map] at hr
      obtain ⟨r', hr', rfl⟩ := hr
      simp at hx
      rcases hx with rfl | hx
      · rfl
      · exact ih r' hr' x hx
    | splat t =>
      simp only [expandSpec, List.mem_map] at hr
      obtain ⟨r', hr', rfl⟩ := hr
      simp at hx
      rcases hx with rfl | hx
      · rfl
      · exact ih r' hr' x hx

theorem expandOptionals_eq_spec (l : List FSeg) : expandOptionals l = expandSpec l := by
  unfold expandOptionals
  rw [expandLoop_eq _ _ _ (by simp [popsAll, pops])]
  simp


/-! ## build then match -/


theorem segHead_append (v rest : Path) (hv : '/' ∉ v) (hr : rest = [] ∨ startsSlash rest = true) :
    segHead (v ++ rest) = v ∧ segTail (v ++ rest) = rest := by
  induction v with
  | nil =>
    rcases hr with rfl | hr
    · simp [segHead, segTail]
    · cases rest with
      | nil => simp [segHead, segTail]
      | cons c r => simp [startsSlash] at hr; subst hr; simp [segHead, segTail]
  | cons c v ih =>
    have hc : c ≠ '/' := by intro h; apply hv; simp [h]
    have hv' : '/' ∉ v := by intro h; apply hv; simp [h]
    have := ih hv'
    simp [segHead, segTail, hc] at this ⊢
    exact this

def toSeg : FSeg → Seg
  | .st s => .st s
  | .param n => .param n
  | .opt n => .opt n
  | .splat n => .splat n

/-- a registered segment of the simple sub-class: plain static text or a param -/
def SimpleF : FSeg → Prop
  | .st s => Plain s
  | .param _ => True
  | _ => False

instance : DecidablePred SimpleF := fun f => by cases f <;> unfold SimpleF <;> exact inferInstance

/-- a parameter value as it occurs in a path: non-empty, no `/` -/
def GoodVal (v : Path) : Prop := v ≠ [] ∧ '/' ∉ v
instance (v : Path) : Decidable (GoodVal v) := by unfold GoodVal; exact inferInstance

def paramNames : List FSeg → List (List Char)
  | [] => []
  | .param n :: r => n :: paramNames r
  | .splat n :: r => n :: paramNames r
  | _ :: r => paramNames r

theorem plain_not_startsSlash {s : Path} (h : '/' ∉ s) : startsSlash s = false := by
  cases s with
  | nil => rfl
  | cons c s => simp [startsSlash]; intro hc; apply h; simp [hc]

theorem toSeg_optional {f : FSeg} (h : SimpleF f) : (toSeg f).optional = false := by
  cases f <;> simp [SimpleF] at h <;> simp [toSeg, Seg.optional]

theorem build_starts : ∀ (fs : List FSeg) (vals : List Path) (path : Path), (∀ f ∈ fs, SimpleF f) →
    (∀ v ∈ vals, GoodVal v) → buildPath fs vals = some path → path = [] ∨ startsSlash path = true := by
  intro fs
  cases fs with
  | nil => intro vals path _ _ h; simp [buildPath] at h; exact Or.inl h
  | cons f fs =>
    intro vals path hs hv h
    have hf := hs f (by simp)
    cases f with
    | st s =>
      obtain ⟨hne, hns⟩ : Plain s := hf
      simp only [buildPath] at h
      cases hb : buildPath fs vals with
      | none => simp [hb] at h
      | some p' =>
        have he : s.isEmpty = false := by cases s <;> simp at hne ⊢
        simp [hb, plain_not_startsSlash hns, he] at h
        subst h; right; simp [startsSlash]
    | param n =>
      cases vals with
      | nil => simp [buildPath] at h
      | cons v vals =>
        obtain ⟨_, hvs⟩ := hv v (by simp)
        simp only [buildPath] at h
        cases hb : buildPath fs vals with
        | none => simp [hb] at h
        | some p' =>
          simp [hb, plain_not_startsSlash hvs] at h
          subst h; right; simp [startsSlash]
    | opt n => simp [SimpleF] at hf
    | splat n => simp [SimpleF] at hf

/-- one pass of the tuple loop over a built path consumes it completely and yields the values -/
theorem pass_build (k : Bool) : ∀ (fs : List FSeg) (vals : List Path) (path : Path), (∀ f ∈ fs, SimpleF f) →
    (∀ v ∈ vals, GoodVal v) → buildPath fs vals = some path → vals.length = (paramNames fs).length →
    ∀ (first : Bool) (nth ml : Nat) (p : Params),
      passFields k (fs.map toSeg) first 0 nth path ml p = .done [] (ml + bytes path) (p ++ (paramNames fs).zip vals) := by
  intro fs
  induction fs with
  | nil =>
    intro vals path _ _ h hl first nth ml p
    simp [buildPath] at h; subst h
    simp [passFields, bytes, paramNames]
  | cons f fs ih =>
    intro vals path hs hv h hl first nth ml p
    have hf := hs f (by simp)
    have hs' : ∀ f ∈ fs, SimpleF f := fun x hx => hs x (by simp [hx])
    cases f with
    | st s =>
      have hpl : Plain s := hf
      obtain ⟨hne, hns⟩ := hpl
      simp only [buildPath] at h
      cases hb : buildPath fs vals with
      | none => simp [hb] at h
      | some p' =>
        have he : s.isEmpty = false := by cases s <;> simp at hne ⊢
        simp [hb, plain_not_startsSlash hns, he] at h
        subst h
        have hst := staticTest_slash s p' ⟨hne, hns⟩
        simp only [List.cons_append] at hst
        simp only [List.map_cons, toSeg, passFields, Seg.optional, Bool.false_eq_true, if_false, Bool.not_false,
          Bool.true_or, if_true, Seg.test, startOk, startsSlash, decide_true, Bool.or_true, hst]
        rw [ih vals p' hs' hv hb (by simpa [paramNames] using hl)]
        simp [bytes, bytes_append, slash_size, paramNames]; omega
    | param n =>
      cases vals with
      | nil => simp [buildPath] at h
      | cons v vals =>
        obtain ⟨hvne, hvs⟩ := hv v (by simp)
        have hv' : ∀ x ∈ vals, GoodVal x := fun x hx => hv x (by simp [hx])
        simp only [buildPath] at h
        cases hb : buildPath fs vals with
        | none => simp [hb] at h
        | some p' =>
          simp [hb, plain_not_startsSlash hvs] at h
          subst h
          obtain ⟨h1, h2⟩ := segHead_append v p' hvs (build_starts fs vals p' hs' hv' hb)
          have hpt := paramTest_slash n (v ++ p')
          simp only [h1, h2, hvne, if_false] at hpt
          simp only [List.map_cons, toSeg, passFields, Seg.optional, Bool.false_eq_true, if_false, Bool.not_false,
            Bool.true_or, if_true, Seg.test, startOk, startsSlash, decide_true, Bool.or_true, hpt]
          rw [ih vals p' hs' hv' hb (by simpa [paramNames] using hl)]
          simp [bytes, bytes_append, slash_size, paramNames]; omega
    | opt n => simp [SimpleF] at hf
    | splat n => simp [SimpleF] at hf


theorem countOpt_simple (fs : List FSeg) (hs : ∀ f ∈ fs, SimpleF f) : countOpt (fs.map toSeg) = 0 := by
  induction fs with
  | nil => rfl
  | cons f fs ih =>
    have := toSeg_optional (hs f (by simp))
    simp [countOpt, this, ih (fun x hx => hs x (by simp [hx]))]

/-- the whole tuple test on a built path -/
theorem tup_build (k : Bool) (fs : List FSeg) (vals : List Path) (path : Path) (hs : ∀ f ∈ fs, SimpleF f)
    (hv : ∀ v ∈ vals, GoodVal v) (hb : buildPath fs vals = some path) (hl : vals.length = (paramNames fs).length) :
    (Seg.tup (fs.map toSeg)).test k path = .some ⟨path, [], (paramNames fs).zip vals⟩ := by
  have hp := pass_build k fs vals path hs hv hb hl true 0 0 []
  match fs, hs, hb, hl, hp with
  | [], _, hb, _, _ =>
    simp [buildPath] at hb; subst hb
    simp [Seg.test, paramNames]
  | [f], hs, hb, hl, hp =>
    have ho := toSeg_optional (hs f (by simp))
    simp only [List.map_cons, List.map_nil, passFields, ho, Bool.not_false, Bool.true_or, if_true,
      Bool.false_eq_true, if_false] at hp
    simp only [List.map_cons, List.map_nil, Seg.test]
    cases ht : (toSeg f).test k path with
    | panic => simp [ht] at hp
    | none => simp [ht] at hp
    | some m =>
      simp [ht] at hp
      obtain ⟨h1, h2, h3⟩ := hp
      have hpart := test_partition k _ _ _ ht
      rw [h1, List.append_nil] at hpart
      have := splitBytes_bytes path []
      simp only [List.append_nil] at this
      simp [hpart, this, h1, h3]
  | f :: g :: fs, hs, hb, hl, hp =>
    have hc := countOpt_simple (f :: g :: fs) hs
    simp only [List.map_cons] at hc hp
    simp only [List.map_cons, Seg.test, hc, backoff, hp]
    have := splitBytes_bytes path []
    simp only [List.append_nil, Nat.zero_add] at this ⊢
    simp [this]

/-- the route table of a single leaf route with the given registered segments -/
def leafDefs (fs : List FSeg) : Defs := ⟨none, [.mk (.tup (fs.map toSeg)) []]⟩

theorem C14_build_then_match (fs : List FSeg) (vals : List Path) (path : Path) (hs : ∀ f ∈ fs, SimpleF f)
    (hv : ∀ v ∈ vals, GoodVal v) (hb : buildPath fs vals = some path) (hl : vals.length = (paramNames fs).length) :
    matchRoute false (leafDefs fs) path = .some ⟨[(0, path)], (paramNames fs).zip vals⟩ := by
  have ht := tup_build false fs vals path hs hv hb hl
  simp [matchRoute, leafDefs, stripBase, matchChildren, matchNested, ht, finish, complete]


/-! ## property theorems -/

/-- **partition** — every segment kind and every (nested) tuple of segments: a successful `test`
splits the path into `matched ++ remaining` (both the code as it is and the aligned variant). -/
theorem C14_partition (k : Bool) (s : Seg) (path : Path) (m : PM) (h : s.test k path = .some m) :
    m.matched ++ m.remaining = path := test_partition k s path m h

/-- **partition, nested routes**: without an optional param in a parent route the matched strings
of all nesting levels concatenate to the consumed prefix. -/
theorem C14_partition_nested (k : Bool) (r : Route) (pos : Nat) (path : Path) (m : NMatch) (rem : Path)
    (hno : r.hasOptParent = false) (h : matchNested k r pos path = .some m rem) :
    chainCat m ++ rem = path := nested_partition k r pos path m rem hno h

/-- … and the remaining is one of the two the router accepts -/
theorem C14_nested_complete (k : Bool) (d : Defs) (path : Path) (m : NMatch)
    (h : matchRoute k d path = .some m) : ∃ p rem, stripBase k d.base path = some p ∧
      matchChildren k d.tops 0 p = .some m rem ∧ complete rem = true := by
  unfold matchRoute at h
  cases hb : stripBase k d.base path with
  | none => simp [hb] at h
  | some p =>
    simp only [hb] at h
    cases hc : matchChildren k d.tops 0 p with
    | panic => simp [hc] at h
    | none => simp [hc] at h
    | some m' rem =>
      simp only [hc] at h
      split at h
      · next hcomp => simp at h; subst h; exact ⟨p, rem, rfl, hc, hcomp⟩
      · simp at h

def optParentDefs : Defs := ⟨none, [.mk (.opt ['a']) [.mk (.st ['b']) []]]⟩

/-- the hypothesis of `C14_partition_nested` is needed: with an optional parent the fallback
re-matches the children against the whole path, and the parent keeps its first `matched`:
for `/:a?` → `/b` and `/b` the two levels report `"/b"` and `"/b"`. -/
theorem C14_partition_nested_fallback_witness :
    matchRoute false optParentDefs ['/', 'b'] = .some ⟨[(0, ['/', 'b']), (0, ['/', 'b'])], []⟩ := by decide

/-- **params are segments** — `ParamSegment` on a path that starts with `/`: it matches iff the first
`/`-separated segment is non-empty, and then value = that segment, matched = `/` ++ segment. -/
theorem C14_params_are_segments (n p : Path) :
    paramTest n ('/' :: p) =
      if segHead p = [] then .none else .some ⟨'/' :: segHead p, segTail p, [(n, segHead p)]⟩ :=
  paramTest_slash n p

theorem C14_params_are_segments_opt (n p : Path) :
    optTest n ('/' :: p) =
      if segHead p = [] then .some ⟨[], '/' :: p, []⟩
      else .some ⟨'/' :: segHead p, segTail p, [(n, segHead p)]⟩ := optTest_slash n p

/-- `segHead` is the first token of the `/`-split the flat matcher uses -/
theorem C14_segHead_is_first_token (p : Path) : (splitSlash p).head? = some (segHead p) := splitSlash_head p

/-- **expand_optionals** — the worklist (with its fuel) computes the recursive specification:
exactly `2^k` routes for `k` optionals, in the order param-variant first, none with an optional left. -/
theorem C14_expand_optionals (l : List FSeg) :
    expandOptionals l = expandSpec l ∧ (expandOptionals l).length = 2 ^ countOptF l ∧
      ∀ r ∈ expandOptionals l, ∀ s ∈ r, s.isOpt = false := by
  rw [expandOptionals_eq_spec]
  exact ⟨rfl, expandSpec_length l, expandSpec_noOpt l⟩

/-! ### well-formed route definitions (decidable; what the generator produces) -/

def plainStatics : List FSeg → Bool
  | [] => true
  | .st s :: r => decide (Plain s) && plainStatics r
  | _ :: r => plainStatics r

/-- a wildcard only as the last segment -/
def splatLast : List FSeg → Bool
  | [] => true
  | [_] => true
  | .splat _ :: _ :: _ => false
  | _ :: r => splatLast r

def noSplat : List FSeg → Bool
  | [] => true
  | .splat _ :: _ => false
  | _ :: r => noSplat r

mutual
def Route.wf : Route → Bool
  | .mk segs children =>
    (segs.gen == [.st []] || segs.gen == [.st ['/']] || plainStatics segs.gen) &&
    (if children.isEmpty then splatLast segs.gen else noSplat segs.gen) && wfList children
def wfList : List Route → Bool
  | [] => true
  | c :: cs => c.wf && wfList cs
end

def baseOk : Option Path → Bool
  | none => true
  | some [] => true
  | some (c :: s) => c = '/' && decide (Plain s)

/-- `WellFormed`: `SplatLast`, `PlainStatics` (or a whole route `""` / `"/"`), base `""` or `/x` -/
def Defs.wf (d : Defs) : Bool := baseOk d.base && wfList d.tops && !d.tops.isEmpty

/-- the property on one input: the oracle `judge` accepts what the router does -/
def Holds (d : Defs) (path : Path) : Prop := judge d path (matchRoute false d path) = none

instance (d : Defs) (path : Path) : Decidable (Holds d path) := by unfold Holds; exact inferInstance

/-- **match ⇔ flat, full statement**: for every well-formed route table and every request path
(starting with `/`): a registered flat route accepts the path ⇒ the router matches; the router matches
⇒ a registered flat route *of the winning definition* accepts the path (one trailing `/` tolerated) with
the same parameter values, and no earlier definition has a registered route accepting the path; the
router does not panic.  (`judge` spells this out.) -/
def C14_match_iff_flat_full : Prop :=
  ∀ (d : Defs) (path : Path), d.wf = true → startsSlash path = true → Holds d path

/-- reading of `Holds` for the two non-panic outcomes -/
theorem C14_holds_none (d : Defs) (path : Path) (hm : matchRoute false d path = .none) (h : Holds d path) :
    firstStrict (expandedPerDef d) path 0 = none := by
  unfold Holds at h; rw [hm] at h; simp only [judge] at h
  cases hf : firstStrict (expandedPerDef d) path 0 with
  | none => rfl
  | some i => simp [hf] at h

theorem C14_holds_not_panic (d : Defs) (path : Path) (h : Holds d path) : matchRoute false d path ≠ .panic := by
  intro hp; unfold Holds at h; rw [hp] at h; simp [judge] at h

/-! ### refutation witnesses (each replayed on the real router: corpus/C14/witnesses.ops) -/

def fooBar : Defs := ⟨none, [.mk (.st ['f', 'o', 'o']) [.mk (.st ['b', 'a', 'r']) []]]⟩
def pFoobar : Path := ['/', 'f', 'o', 'o', 'b', 'a', 'r']

/-- F-C14-1: `/foobar` is matched by `/foo` → `/bar`; the table has the single route `[foo, bar]`,
which does not accept it -/
theorem C14_static_prefix_witness :
    matchRoute false fooBar pFoobar = .some ⟨[(0, ['/', 'f', 'o', 'o']), (0, ['b', 'a', 'r'])], []⟩ ∧
    flatRoutes fooBar = [[.st ['f', 'o', 'o'], .st ['b', 'a', 'r']]] ∧
    flatMatch [.st ['f', 'o', 'o'], .st ['b', 'a', 'r']] pFoobar = none ∧
    judge fooBar pFoobar (matchRoute false fooBar pFoobar) = some .routerOnly ∧
    classify fooBar pFoobar .routerOnly = .staticPrefix ∧ fooBar.wf = true := by decide

theorem C14_match_iff_flat_full_false : ¬ C14_match_iff_flat_full := by
  intro h
  have := h fooBar pFoobar (by decide) (by decide)
  revert this; decide

/-- the same through a tuple -/
theorem C14_static_prefix_tuple_witness :
    (Seg.tup [.st ['f', 'o', 'o'], .st ['b', 'a', 'r']]).test false pFoobar = .some ⟨pFoobar, [], []⟩ := by decide

def slashParent : Defs := ⟨none, [.mk (.st ['/']) [.mk (.st ['a']) []]]⟩

/-- F-C14-2: parent `"/"` with static child `"a"`: the router matches `/a` (and `//a`), the
registered pattern is `//a` -/
theorem C14_slash_parent_witness :
    matchRoute false slashParent ['/', 'a'] = .some ⟨[(0, ['/']), (0, ['a'])], []⟩ ∧
    patternTokens [.st ['/'], .st ['a']] = some [.lit [], .lit ['a']] ∧
    judge slashParent ['/', 'a'] (matchRoute false slashParent ['/', 'a']) = some .routerOnly ∧
    Holds slashParent ['/', '/', 'a'] ∧
    classify slashParent ['/', 'a'] .routerOnly = .slashParent ∧ slashParent.wf = true := by decide

def staticParam : Defs := ⟨none, [.mk (.tup [.st ['a'], .param ['i', 'd']]) []]⟩
def slashParam : Defs := ⟨none, [.mk (.st ['/']) [.mk (.param ['i', 'd']) []]]⟩

/-- a param segment tested in the middle of a path segment slices inside a multi-byte character:
`/aéa` with `(a, :id)`, and `/aé` with `"/"` → `:id` -/
theorem C14_unaligned_panic_witness :
    matchRoute false staticParam ['/', 'a', 'é', 'a'] = .panic ∧
    matchRoute false slashParam ['/', 'a', 'é'] = .panic ∧
    paramTest ['i', 'd'] ['é', 'a'] = .panic ∧
    classify staticParam ['/', 'a', 'é', 'a'] .panic = .unalignedPanic ∧
    classify slashParam ['/', 'a', 'é'] .panic = .unalignedPanic ∧
    staticParam.wf = true ∧ slashParam.wf = true := by decide

def baseAB : Defs := ⟨some ['/', 'a'], [.mk (.st ['b']) []]⟩

/-- a base starting with `/`: all leading slashes of the path are trimmed, `//a/b` matches -/
theorem C14_base_slashes_witness :
    matchRoute false baseAB ['/', '/', 'a', '/', 'b'] = .some ⟨[(0, ['/', 'b'])], []⟩ ∧
    judge baseAB ['/', '/', 'a', '/', 'b'] (matchRoute false baseAB ['/', '/', 'a', '/', 'b']) = some .routerOnly ∧
    classify baseAB ['/', '/', 'a', '/', 'b'] .routerOnly = .baseSlashes ∧ baseAB.wf = true := by decide

def optParent : Defs := ⟨none, [.mk (.tup [.st ['a'], .opt ['r']]) [.mk (.st ['b']) []]]⟩

/-- an optional param in a parent route: `/a/b` is registered (`[a, b]`) and never matched -/
theorem C14_optional_parent_witness :
    matchRoute false optParent ['/', 'a', '/', 'b'] = .none ∧
    flatMatchStrict [.st ['a'], .st ['b']] ['/', 'a', '/', 'b'] = some [] ∧
    (expandedPerDef optParent) = [[[.st ['a'], .param ['r'], .st ['b']], [.st ['a'], .st ['b']]]] ∧
    judge optParent ['/', 'a', '/', 'b'] .none = some .flatOnly ∧
    classify optParent ['/', 'a', '/', 'b'] .flatOnly = .optionalParent ∧ optParent.wf = true := by decide

def optOrder : Defs := ⟨none, [.mk (.tup [.opt ['a'], .st ['b'], .opt ['c']]) []]⟩

/-- two optionals in one tuple: `/b/x` is registered (`[b, :c]`) and never matched -/
theorem C14_optional_backoff_order_witness :
    matchRoute false optOrder ['/', 'b', '/', 'x'] = .none ∧
    flatMatchStrict [.st ['b'], .param ['c']] ['/', 'b', '/', 'x'] = some [(['c'], ['x'])] ∧
    judge optOrder ['/', 'b', '/', 'x'] .none = some .flatOnly ∧
    classify optOrder ['/', 'b', '/', 'x'] .flatOnly = .optionalBackoffOrder ∧ optOrder.wf = true := by decide

def optParams : Defs := ⟨none, [.mk (.opt ['a']) [.mk (.st ['b']) [.mk (.st ['c']) []]]]⟩

/-- the optional fallback re-parses the parent's params on the wrong string: `/b/c` yields `a = "b"` -/
theorem C14_optional_fallback_params_witness :
    matchRoute false optParams ['/', 'b', '/', 'c'] =
      .some ⟨[(0, ['/', 'b']), (0, ['/', 'b']), (0, ['/', 'c'])], [(['a'], ['b'])]⟩ ∧
    judge optParams ['/', 'b', '/', 'c'] (matchRoute false optParams ['/', 'b', '/', 'c']) = some .params ∧
    classify optParams ['/', 'b', '/', 'c'] .params = .optionalFallbackParams ∧ optParams.wf = true := by decide

def optUnwrap : Defs := ⟨none, [.mk (.tup [.st ['a'], .opt ['r']]) [.mk (.st ['a']) []]]⟩

/-- the optional fallback unwraps `None`: `/a` panics for `/a/:r?` → `/a` (ASCII only, well-formed) -/
theorem C14_optional_fallback_unwrap_witness :
    matchRoute false optUnwrap ['/', 'a'] = .panic ∧
    classify optUnwrap ['/', 'a'] .panic = .optionalFallbackUnwrap ∧ optUnwrap.wf = true := by decide

def optOver : Defs :=
  ⟨none, [.mk (.tup [.param ['p'], .opt ['o']]) [.mk (.st ['x']) [.mk (.opt ['q']) []]]]⟩

/-- the optional fallback with a mandatory param in the parent consumes the path twice: `/x/a` -/
theorem C14_optional_fallback_overmatch_witness :
    matchRoute false optOver ['/', 'x', '/', 'a'] =
      .some ⟨[(0, ['/', 'x', '/', 'a']), (0, ['/', 'x']), (0, ['/', 'a'])],
        [(['p'], ['x']), (['o'], ['a']), (['q'], ['a'])]⟩ ∧
    judge optOver ['/', 'x', '/', 'a'] (matchRoute false optOver ['/', 'x', '/', 'a']) = some .routerOnly ∧
    classify optOver ['/', 'x', '/', 'a'] .routerOnly = .optionalFallbackOvermatch ∧ optOver.wf = true := by decide

def optInner : Defs :=
  ⟨none, [.mk (.tup [.tup [.opt ['a'], .st ['b']], .st ['c'], .st ['b']]) []]⟩

/-- an inner tuple with an optional is skipped as a whole by the outer back-off: `/c/b` matches
`((:a?, b), c, b)` although the registered routes are `[:a, b, c, b]` and `[b, c, b]` -/
theorem C14_nested_optional_tuple_witness :
    matchRoute false optInner ['/', 'c', '/', 'b'] = .some ⟨[(0, ['/', 'c', '/', 'b'])], []⟩ ∧
    judge optInner ['/', 'c', '/', 'b'] (matchRoute false optInner ['/', 'c', '/', 'b']) = some .routerOnly ∧
    classify optInner ['/', 'c', '/', 'b'] .routerOnly = .nestedOptionalTuple ∧ optInner.wf = true := by decide

/-! ### the partial theorem -/

mutual
def Route.noOptional : Route → Bool
  | .mk segs children => !segs.optional && noOptionalList children
def noOptionalList : List Route → Bool
  | [] => true
  | c :: cs => c.noOptional && noOptionalList cs
end

/-- **match ⇔ flat, general partial statement — OPEN** (not proved).  Every divergence found on the
real router lies outside it (`¬SegmentAligned`, or an optional param somewhere); the correspondence
run evaluates `Holds` on every generated case and reports any failure outside the listed classes. -/
def C14_match_iff_flat_partial_general : Prop :=
  ∀ (d : Defs) (path : Path), d.wf = true → startsSlash path = true → noOptionalList d.tops = true →
    SegmentAligned d path → Holds d path
end Leptos.Router
