import LeptosModel.Model.Ambient
/-!
# C20 — concurrent server renders never see each other's state

The theorems are about the WRAPPER DISCIPLINE of `Model/Ambient`: *if* every future that runs on behalf
of a request is polled through `ScopedFuture` (captured owner + observer re-installed for the poll) and
every `Owner::with` names an owner of the same request, *then* for every interleaving of polls on the
shared thread-locals no request observes anything of another one, and what it observes is exactly what
it observes when it runs alone.  WHICH call sites of the real code are wrapped (the `wrapped` /
`sandboxed` flag of each task, the owners named by `withOwner`) is an input of the model: it is
MODELLED, NOT VERIFIED here.  That is what the correspondence harness (harness/hx-c20) checks on the
real `build_response` / `Suspend` / `Suspense` / `Resource` / `Provider` / `For` call sites — and where
it found sites that were not wrapped (`C20_unwrapped_leaks_witness` has their shape; findings F-C20-1..4,
repaired in /repo by hooks/fix-c20-1/3/4; `Driver/C20.lean` keeps the pre-repair site table with regression `#guard`s).

The discipline (`TaskOk`) has two forms: the task is WRAPPED (`ScopedFuture`), or it is not wrapped but GUARDS every
step (`Step.enter`: `owner.with(|| observer.with_observer(|| ..))`, the way the spawned task of a Resource /
AsyncDerived runs and RE-RUNS its fetcher and the way an isomorphic effect runs its body).  Code that is only inside
`Sandboxed` (`reactive_graph::spawn` bodies, streams chained into the response body) gets the weaker
`C20_sandboxed_arena`: its arena is its own although its owner is not.  Witnesses for dropping either wrapper:
`C20_unguarded_rerun_witness`, `C20_unsandboxed_stream_witness`; for a "the owner is already current" shortcut in
`ScopedFuture::poll`: `C20_owner_current_witness` (the positive statement is `C20_owner_already_current`); for a response
assembly that looks its shared context up late (async rendering mode): `C20_assembly_witness`.
Cleanup functions run by `Owner::cleanup()` / memo and effect re-runs / drops (`Step.cleanupFns`: `Arena::enter(own arena)`,
restored afterwards) are a third task kind of `C20_sandboxed_arena` (`CleanupTaskOk`, no wrapper needed); witnesses
`C20_cleanup_arena_witness` (guard not held while the functions run) and `C20_memo_rerun_witness` (a memo body
re-evaluated outside `owner.with_cleanup`).

Quantifiers: all worlds (owner forests of any number of requests, global or per-request arenas), all
task programs (`List Step`, spawn tables), all interleavings (`List Nat`).
-/
namespace Leptos.Ambient
set_option linter.unusedSimpArgs false
set_option linter.unusedVariables false

/-! ## well-formedness (the discipline) -/

/-- a step of code that belongs to request `r` follows the discipline -/
def StepOk (w : World) (r : Req) : Step → Prop
  | .simple _ => True
  | .withOwner o _ => w.reqOf o = some r
  | .withObserver _ _ => True
  | .enter o _ _ => w.reqOf o = some r
  | .cleanupFns o _ => w.reqOf o = some r
  | .setRoot o => w.reqOf o = some r
  | .unset _ => False
  | .yield => True
  | .spawn wr _ p => wr = true ∧ ∀ e : Req × List Step, w.progs[p]? = some e → e.1 = r

/-- a step of a task that is NOT wrapped but guards everything it does: it only acts inside
`owner.with(|| observer.with_observer(|| ..))` for an owner of its own request (the spawned task of an
`ArcAsyncDerived` running and re-running its fetcher, an isomorphic effect running its body) -/
def GStepOk (w : World) (r : Req) : Step → Prop
  | .enter o _ _ => w.reqOf o = some r
  | .yield => True
  | _ => False

structure World.WF (w : World) : Prop where
  /-- owner trees of different requests are disjoint: a parent belongs to the same request -/
  forest : ∀ o p, w.parentOf o = some p → w.reqOf p = w.reqOf o
  /-- one arena per request (per-request arenas) or one for all (global arena): never two in one request -/
  arenaPerReq : ∀ o o' r, w.reqOf o = some r → w.reqOf o' = some r → w.arenaOf o = w.arenaOf o'
  progsOk : ∀ (p : Nat) (e : Req × List Step), w.progs[p]? = some e → ∀ st ∈ e.2, StepOk w e.1 st

/-- the ambient state is one of request `r`: its owner is `r`'s and the arena is that owner's -/
def AmbOk (w : World) (r : Req) (a : Amb) : Prop :=
  ∃ o, a.owner = some o ∧ w.reqOf o = some r ∧ a.arena = w.arenaOf o

/-- the task is wrapped (`ScopedFuture`), captured an owner of its own request, and its code is `StepOk` -/
def WrappedOk (w : World) (t : Task) : Prop :=
  t.wrapped = true ∧ (∃ o, t.captured.owner = some o ∧ w.reqOf o = some t.req) ∧
    ∀ st ∈ t.steps, StepOk w t.req st

/-- the task is not (known to be) wrapped, but every step of it is guarded (`GStepOk`) -/
def GuardedOk (w : World) (t : Task) : Prop := ∀ st ∈ t.steps, GStepOk w t.req st

/-- the discipline: every task is wrapped, or guards every one of its steps -/
def TaskOk (w : World) (t : Task) : Prop := WrappedOk w t ∨ GuardedOk w t

/-- the observation shows only things of the observing request -/
def ObsOk (w : World) (ob : Obs) : Prop :=
  (∃ o, ob.owner = some o ∧ w.reqOf o = some ob.req ∧ ob.arena = w.arenaOf o) ∧
    ∀ e, ob.ctx = some e → w.reqOf e.owner = some ob.req

/-! ## list helpers -/

theorem find?_filter_imp {α : Type} (p q : α → Bool) (l : List α) (h : ∀ a, q a = true → p a = true) :
    (l.filter p).find? q = l.find? q := by
  induction l with
  | nil => rfl
  | cons a as ih =>
    cases hq : q a with
    | true => simp [List.filter_cons, h a hq, List.find?_cons, hq]
    | false =>
      cases hp : p a with
      | true => simp [List.filter_cons, hp, List.find?_cons, hq, ih]
      | false => simp [List.filter_cons, hp, List.find?_cons, hq, ih]

theorem getElem?_filter_countP {α : Type} (p : α → Bool) :
    ∀ (l : List α) (i : Nat) (y : α), l[i]? = some y → p y = true →
      (l.filter p)[(l.take i).countP p]? = some y := by
  intro l
  induction l with
  | nil => intro i y h; simp at h
  | cons a as ih =>
    intro i y h hy
    cases i with
    | zero =>
      simp at h; subst h
      simp [List.filter_cons, hy]
    | succ i =>
      simp at h
      cases ha : p a with
      | true => simp [List.filter_cons, ha, List.countP_cons, ih i y h hy]
      | false => simp [List.filter_cons, ha, List.countP_cons, ih i y h hy]

theorem filter_set_true {α : Type} (p : α → Bool) :
    ∀ (l : List α) (i : Nat) (x y : α), l[i]? = some y → p y = true → p x = true →
      (l.set i x).filter p = (l.filter p).set ((l.take i).countP p) x := by
  intro l
  induction l with
  | nil => intro i x y h; simp at h
  | cons a as ih =>
    intro i x y h hy hx
    cases i with
    | zero =>
      simp at h; subst h
      simp [List.filter_cons, hy, hx]
    | succ i =>
      simp at h
      cases ha : p a with
      | true => simp [List.filter_cons, ha, List.countP_cons, ih i x y h hy hx]
      | false => simp [List.filter_cons, ha, List.countP_cons, ih i x y h hy hx]

theorem filter_set_false {α : Type} (p : α → Bool) :
    ∀ (l : List α) (i : Nat) (x y : α), l[i]? = some y → p y = false → p x = false →
      (l.set i x).filter p = l.filter p := by
  intro l
  induction l with
  | nil => intro i x y h; simp at h
  | cons a as ih =>
    intro i x y h hy hx
    cases i with
    | zero =>
      simp at h; subst h
      simp [List.filter_cons, hy, hx]
    | succ i =>
      simp at h
      simp [List.filter_cons, ih i x y h hy hx]

/-! ## context lookup stays inside the request's own tree -/

theorem reqOf_arenaOf {w : World} {o : OwnerId} {r : Req} (h : w.reqOf o = some r) :
    ∃ x, w.arenaOf o = some x := by
  unfold World.reqOf at h
  unfold World.arenaOf
  cases ho : w.owners[o]? with
  | none => simp [ho] at h
  | some info => exact ⟨info.arena, rfl⟩

theorem lookupCtx_req {w : World} (hw : w.WF) (ctx : List CtxEntry) :
    ∀ (fuel : Nat) (o : OwnerId) (e : CtxEntry), lookupCtx w ctx fuel o = some e →
      w.reqOf e.owner = w.reqOf o := by
  intro fuel
  induction fuel with
  | zero => intro o e h; simp [lookupCtx] at h
  | succ fuel ih =>
    intro o e h
    unfold lookupCtx at h
    split at h
    · next e' he' =>
      have := List.find?_some he'
      simp at h this
      subst h; rw [this]
    · split at h
      · next p hp => rw [ih p e h]; exact hw.forest o p hp
      · simp at h

theorem lookupCtx_filter {w : World} (hw : w.WF) (r : Req) (ctx : List CtxEntry) :
    ∀ (fuel : Nat) (o : OwnerId), w.reqOf o = some r →
      lookupCtx w (ctx.filter fun e => w.reqOf e.owner == some r) fuel o = lookupCtx w ctx fuel o := by
  intro fuel
  induction fuel with
  | zero => intro o _; simp [lookupCtx]
  | succ fuel ih =>
    intro o ho
    have hf : (ctx.filter fun e => w.reqOf e.owner == some r).find? (fun e => e.owner == o)
        = ctx.find? (fun e => e.owner == o) := by
      apply find?_filter_imp
      intro a ha
      simp at ha
      simp [ha, ho]
    unfold lookupCtx
    rw [hf]
    split
    · rfl
    · split
      · next p hp => exact ih p (by rw [hw.forest o p hp]; exact ho)
      · rfl

theorem useContext_filter {w : World} (hw : w.WF) (r : Req) (ctx : List CtxEntry) (a : Amb)
    (ha : AmbOk w r a) :
    useContext w (ctx.filter fun e => w.reqOf e.owner == some r) a = useContext w ctx a := by
  obtain ⟨o, ho, hr, _⟩ := ha
  simp only [useContext, ho]
  exact lookupCtx_filter hw r ctx _ o hr

theorem useContext_req {w : World} (hw : w.WF) (r : Req) (ctx : List CtxEntry) (a : Amb)
    (ha : AmbOk w r a) (e : CtxEntry) (h : useContext w ctx a = some e) : w.reqOf e.owner = some r := by
  obtain ⟨o, ho, hr, _⟩ := ha
  simp only [useContext, ho] at h
  rw [lookupCtx_req hw ctx _ o e h]; exact hr

/-! ## one leaf action: local to its request -/

def LogOk (w : World) (log : List Obs) : Prop := ∀ ob ∈ log, ObsOk w ob

/-- every observation added on the way from `old` to `new` is `ObsOk` -/
def NewOk (w : World) (old new : List Obs) : Prop := ∀ ob ∈ new, ob ∈ old ∨ ObsOk w ob

theorem NewOk.refl (w : World) (l : List Obs) : NewOk w l l := fun _ h => .inl h

theorem NewOk.trans {w : World} {a b c : List Obs} (h1 : NewOk w a b) (h2 : NewOk w b c) : NewOk w a c := by
  intro ob hob
  rcases h2 ob hob with h | h
  · exact h1 ob h
  · exact .inr h

theorem NewOk.logOk {w : World} {a b : List Obs} (h : NewOk w a b) (ha : LogOk w a) : LogOk w b := by
  intro ob hob
  rcases h ob hob with h | h
  · exact ha ob h
  · exact h

theorem runSimple_local {w : World} (hw : w.WF) (r : Req) (a : Amb) (m : Mem) (s : Simple)
    (ha : AmbOk w r a) :
    runSimple w r a (memOf w r m) s = memOf w r (runSimple w r a m s) := by
  have hctx := useContext_filter hw r m.ctx a ha
  obtain ⟨o, ho, hr, _⟩ := ha
  cases s with
  | readCtx l => simp [runSimple, memOf, List.filter_append, hctx]
  | readAmb l => simp [runSimple, memOf, List.filter_append]
  | provide v => simp [runSimple, memOf, ho, List.filter_cons, hr]
  | alloc => simp [runSimple, memOf, List.filter_append, ho, hr]

theorem runSimple_frame {w : World} (r r' : Req) (a : Amb) (m : Mem) (s : Simple)
    (ha : AmbOk w r a) (hne : r' ≠ r) :
    memOf w r' (runSimple w r a m s) = memOf w r' m := by
  obtain ⟨o, ho, hr, _⟩ := ha
  have h1 : (r == r') = false := by simp; exact fun h => hne h.symm
  have h2 : (some r == some r') = false := by simp; exact fun h => hne h.symm
  cases s with
  | readCtx l => simp [runSimple, memOf, List.filter_append, h1]
  | readAmb l => simp [runSimple, memOf, List.filter_append, h1]
  | provide v => simp [runSimple, memOf, ho, List.filter_cons, hr, h2]
  | alloc => simp [runSimple, memOf, List.filter_append, ho, hr, h2]

theorem runSimple_logOk {w : World} (hw : w.WF) (r : Req) (a : Amb) (m : Mem) (s : Simple)
    (ha : AmbOk w r a) : NewOk w m.log (runSimple w r a m s).log := by
  have hc := useContext_req hw r m.ctx a ha
  obtain ⟨o, ho, hr, har⟩ := ha
  cases s with
  | readCtx l =>
    intro ob hob
    simp only [runSimple, List.mem_append, List.mem_singleton] at hob
    rcases hob with hob | hob
    · exact .inl hob
    · subst hob
      exact .inr ⟨⟨o, ho, hr, har⟩, fun e he => hc e he⟩
  | readAmb l =>
    intro ob hob
    simp only [runSimple, List.mem_append, List.mem_singleton] at hob
    rcases hob with hob | hob
    · exact .inl hob
    · subst hob
      exact .inr ⟨⟨o, ho, hr, har⟩, fun e he => by simp at he⟩
  | provide v => simpa [runSimple, ho] using NewOk.refl w m.log
  | alloc => simpa [runSimple] using NewOk.refl w m.log

theorem runBody_local {w : World} (hw : w.WF) (r : Req) (a : Amb) (ha : AmbOk w r a) :
    ∀ (body : List Simple) (m : Mem),
      runBody w r a (memOf w r m) body = memOf w r (runBody w r a m body) := by
  intro body
  induction body with
  | nil => intro m; rfl
  | cons s rest ih =>
    intro m
    simp only [runBody, List.foldl_cons] at ih ⊢
    rw [runSimple_local hw r a m s ha]
    exact ih _

theorem runBody_frame {w : World} (r r' : Req) (a : Amb) (ha : AmbOk w r a) (hne : r' ≠ r) :
    ∀ (body : List Simple) (m : Mem), memOf w r' (runBody w r a m body) = memOf w r' m := by
  intro body
  induction body with
  | nil => intro m; rfl
  | cons s rest ih =>
    intro m
    simp only [runBody, List.foldl_cons] at ih ⊢
    rw [ih, runSimple_frame r r' a m s ha hne]

theorem runBody_logOk {w : World} (hw : w.WF) (r : Req) (a : Amb) (ha : AmbOk w r a) :
    ∀ (body : List Simple) (m : Mem), NewOk w m.log (runBody w r a m body).log := by
  intro body
  induction body with
  | nil => intro m; exact NewOk.refl w _
  | cons s rest ih =>
    intro m
    simp only [runBody, List.foldl_cons] at ih ⊢
    exact (runSimple_logOk hw r a m s ha).trans (ih _)

/-! ## one poll of wrapped code -/

theorem arenaAfterSet_eq {w : World} {o : OwnerId} {r : Req} (h : w.reqOf o = some r)
    (cur : Option ArenaId) : arenaAfterSet w o cur = w.arenaOf o := by
  obtain ⟨x, hx⟩ := reqOf_arenaOf h
  simp [arenaAfterSet, hx]

theorem ambOk_enter {w : World} (hw : w.WF) {r : Req} {a : Amb} (ha : AmbOk w r a) {o : OwnerId}
    (ho : w.reqOf o = some r) :
    AmbOk w r { a with owner := some o, arena := arenaAfterSet w o a.arena } ∧
    AmbOk w r { a with arena := arenaAfterSet w o a.arena } := by
  obtain ⟨o0, ho0, hr0, har0⟩ := ha
  rw [arenaAfterSet_eq ho]
  exact ⟨⟨o, rfl, ho, rfl⟩, ⟨o0, ho0, hr0, hw.arenaPerReq o o0 r ho hr0⟩⟩

theorem runSteps_spec {w : World} (hw : w.WF) (r : Req) :
    ∀ (steps : List Step) (a : Amb) (m : Mem) (sp : List Task),
      AmbOk w r a → (∀ st ∈ steps, StepOk w r st) → (∀ t ∈ sp, TaskOk w t ∧ t.req = r) →
      ∃ a' m' sp' rest, runSteps w r a m sp steps = (a', m', sp', rest) ∧
        AmbOk w r a' ∧ (∀ st ∈ rest, StepOk w r st) ∧ (∀ t ∈ sp', TaskOk w t ∧ t.req = r) ∧
        runSteps w r a (memOf w r m) sp steps = (a', memOf w r m', sp', rest) ∧
        (∀ r', r' ≠ r → memOf w r' m' = memOf w r' m) ∧
        NewOk w m.log m'.log := by
  intro steps
  induction steps with
  | nil =>
    intro a m sp ha _ hsp
    exact ⟨a, m, sp, [], rfl, ha, by simp, hsp, rfl, fun _ _ => rfl, NewOk.refl w _⟩
  | cons st rest ih =>
    intro a m sp ha hst hsp
    have hrest : ∀ st ∈ rest, StepOk w r st := fun x hx => hst x (by simp [hx])
    have hhead : StepOk w r st := hst st (by simp)
    cases st with
    | yield =>
      exact ⟨a, m, sp, rest, rfl, ha, hrest, hsp, rfl, fun _ _ => rfl, NewOk.refl w _⟩
    | simple s =>
      obtain ⟨a', m', sp', rest', h1, h2, h3, h4, h5, h6, h7⟩ :=
        ih a (runSimple w r a m s) sp ha hrest hsp
      refine ⟨a', m', sp', rest', by simpa [runSteps] using h1, h2, h3, h4, ?_, ?_, ?_⟩
      · simp only [runSteps]
        rw [runSimple_local hw r a m s ha]; exact h5
      · intro r' hne; rw [h6 r' hne, runSimple_frame r r' a m s ha hne]
      · exact (runSimple_logOk hw r a m s ha).trans h7
    | withOwner o body =>
      simp only [StepOk] at hhead
      obtain ⟨hin, hout⟩ := ambOk_enter hw ha hhead
      obtain ⟨a', m', sp', rest', h1, h2, h3, h4, h5, h6, h7⟩ :=
        ih { a with arena := arenaAfterSet w o a.arena }
          (runBody w r { a with owner := some o, arena := arenaAfterSet w o a.arena } m body) sp
          hout hrest hsp
      refine ⟨a', m', sp', rest', by simpa [runSteps] using h1, h2, h3, h4, ?_, ?_, ?_⟩
      · simp only [runSteps]
        rw [runBody_local hw r _ hin body m]; exact h5
      · intro r' hne; rw [h6 r' hne, runBody_frame r r' _ hin hne body m]
      · exact (runBody_logOk hw r _ hin body m).trans h7
    | withObserver ob body =>
      have hin : AmbOk w r { a with observer := ob } := by
        obtain ⟨o0, ho0, hr0, har0⟩ := ha
        exact ⟨o0, ho0, hr0, har0⟩
      obtain ⟨a', m', sp', rest', h1, h2, h3, h4, h5, h6, h7⟩ :=
        ih a (runBody w r { a with observer := ob } m body) sp ha hrest hsp
      refine ⟨a', m', sp', rest', by simpa [runSteps] using h1, h2, h3, h4, ?_, ?_, ?_⟩
      · simp only [runSteps]
        rw [runBody_local hw r _ hin body m]; exact h5
      · intro r' hne; rw [h6 r' hne, runBody_frame r r' _ hin hne body m]
      · exact (runBody_logOk hw r _ hin body m).trans h7
    | enter o ob body =>
      simp only [StepOk] at hhead
      obtain ⟨_, hout⟩ := ambOk_enter hw ha hhead
      have hin : AmbOk w r { owner := some o, observer := ob, arena := arenaAfterSet w o a.arena } :=
        ⟨o, rfl, hhead, arenaAfterSet_eq hhead _⟩
      obtain ⟨a', m', sp', rest', h1, h2, h3, h4, h5, h6, h7⟩ :=
        ih { a with arena := arenaAfterSet w o a.arena }
          (runBody w r { owner := some o, observer := ob, arena := arenaAfterSet w o a.arena } m body) sp
          hout hrest hsp
      refine ⟨a', m', sp', rest', by simpa [runSteps] using h1, h2, h3, h4, ?_, ?_, ?_⟩
      · simp only [runSteps]
        rw [runBody_local hw r _ hin body m]; exact h5
      · intro r' hne; rw [h6 r' hne, runBody_frame r r' _ hin hne body m]
      · exact (runBody_logOk hw r _ hin body m).trans h7
    | cleanupFns o body =>
      simp only [StepOk] at hhead
      obtain ⟨_, hin⟩ := ambOk_enter hw ha hhead
      obtain ⟨a', m', sp', rest', h1, h2, h3, h4, h5, h6, h7⟩ :=
        ih a (runBody w r { a with arena := arenaAfterSet w o a.arena } m body) sp ha hrest hsp
      refine ⟨a', m', sp', rest', by simpa [runSteps] using h1, h2, h3, h4, ?_, ?_, ?_⟩
      · simp only [runSteps]
        rw [runBody_local hw r _ hin body m]; exact h5
      · intro r' hne; rw [h6 r' hne, runBody_frame r r' _ hin hne body m]
      · exact (runBody_logOk hw r _ hin body m).trans h7
    | setRoot o =>
      simp only [StepOk] at hhead
      obtain ⟨hin, _⟩ := ambOk_enter hw ha hhead
      obtain ⟨a', m', sp', rest', h1, h2, h3, h4, h5, h6, h7⟩ := ih _ m sp hin hrest hsp
      exact ⟨a', m', sp', rest', by simpa [runSteps] using h1, h2, h3, h4,
        by simpa [runSteps] using h5, h6, h7⟩
    | unset o => simp [StepOk] at hhead
    | spawn wr sb p =>
      simp only [StepOk] at hhead
      obtain ⟨hwr, hp⟩ := hhead
      have hnew : ∀ t ∈ sp ++ [spawnTask w r a wr sb p], TaskOk w t ∧ t.req = r := by
        intro t ht
        simp only [List.mem_append, List.mem_singleton] at ht
        rcases ht with ht | ht
        · exact hsp t ht
        · subst ht
          obtain ⟨o0, ho0, hr0, _⟩ := ha
          refine ⟨Or.inl ⟨hwr, ⟨o0, ho0, hr0⟩, ?_⟩, rfl⟩
          simp only [spawnTask]
          cases hpe : w.progs[p]? with
          | none => simp
          | some e =>
            have := hw.progsOk p e hpe
            rw [hp e hpe] at this
            simpa using this
      obtain ⟨a', m', sp', rest', h1, h2, h3, h4, h5, h6, h7⟩ := ih a m _ ha hrest hnew
      exact ⟨a', m', sp', rest', by simpa [runSteps] using h1, h2, h3, h4,
        by simpa [runSteps] using h5, h6, h7⟩

/-! ## polling one task of a system in which every task follows the discipline -/

def TasksOk (w : World) (s : State) : Prop := ∀ t ∈ s.tasks, TaskOk w t

/-- forget what the last poll left in the thread-locals -/
def norm (s : State) : State := { s with amb := {} }

theorem enterAmb_ok {w : World} {t : Task} (ht : WrappedOk w t) (a0 : Amb) :
    AmbOk w t.req (enterAmb w t a0) ∧ ∀ a0', enterAmb w t a0' = enterAmb w t a0 := by
  obtain ⟨hwr, ⟨o, ho, hr⟩, _⟩ := ht
  constructor
  · refine ⟨o, ?_, hr, ?_⟩
    · simp [enterAmb, hwr, ho]
    · simp [enterAmb, hwr, ho, arenaAfterSet_eq hr]
  · intro a0'
    simp [enterAmb, hwr, ho, arenaAfterSet_eq hr]

/-- guarded steps do the same to the stores whatever the thread-locals hold when they start -/
theorem runSteps_guarded {w : World} (hw : w.WF) (r : Req) :
    ∀ (steps : List Step) (m : Mem) (sp : List Task), (∀ st ∈ steps, GStepOk w r st) →
      ∃ m' rest,
        (∀ a, ∃ a', runSteps w r a m sp steps = (a', m', sp, rest) ∧
          runSteps w r a (memOf w r m) sp steps = (a', memOf w r m', sp, rest)) ∧
        (∀ st ∈ rest, GStepOk w r st) ∧
        (∀ r', r' ≠ r → memOf w r' m' = memOf w r' m) ∧
        NewOk w m.log m'.log := by
  intro steps
  induction steps with
  | nil =>
    intro m sp _
    exact ⟨m, [], fun a => ⟨a, rfl, rfl⟩, by simp, fun _ _ => rfl, NewOk.refl w _⟩
  | cons st rest ih =>
    intro m sp hst
    have hrest : ∀ st ∈ rest, GStepOk w r st := fun x hx => hst x (by simp [hx])
    have hhead : GStepOk w r st := hst st (by simp)
    cases st with
    | yield => exact ⟨m, rest, fun a => ⟨a, rfl, rfl⟩, hrest, fun _ _ => rfl, NewOk.refl w _⟩
    | enter o ob body =>
      simp only [GStepOk] at hhead
      have hin : AmbOk w r { owner := some o, observer := ob, arena := w.arenaOf o } := ⟨o, rfl, hhead, rfl⟩
      obtain ⟨m', rest', h1, h2, h3, h4⟩ :=
        ih (runBody w r { owner := some o, observer := ob, arena := w.arenaOf o } m body) sp hrest
      refine ⟨m', rest', ?_, h2, ?_, ?_⟩
      · intro a
        obtain ⟨a', e1, e2⟩ := h1 { a with arena := w.arenaOf o }
        refine ⟨a', ?_, ?_⟩
        · simp only [runSteps, arenaAfterSet_eq hhead]; exact e1
        · simp only [runSteps, arenaAfterSet_eq hhead]
          rw [runBody_local hw r _ hin body m]; exact e2
      · intro r' hne; rw [h3 r' hne, runBody_frame r r' _ hin hne body m]
      · exact (runBody_logOk hw r _ hin body m).trans h4
    | simple s => simp [GStepOk] at hhead
    | withOwner o body => simp [GStepOk] at hhead
    | withObserver ob body => simp [GStepOk] at hhead
    | cleanupFns o body => simp [GStepOk] at hhead
    | setRoot o => simp [GStepOk] at hhead
    | unset o => simp [GStepOk] at hhead
    | spawn wr sb p => simp [GStepOk] at hhead

/-- one poll of a task that follows the discipline: what it does to the stores does not depend on what the
thread-locals held, stays inside its request, and commutes with the projection to its request -/
theorem poll_core {w : World} (hw : w.WF) (t : Task) (ht : TaskOk w t) (m : Mem) :
    ∃ m1 sp rest,
      (∀ a0, ∃ a1, runSteps w t.req (enterAmb w t a0) m [] t.steps = (a1, m1, sp, rest) ∧
        runSteps w t.req (enterAmb w t a0) (memOf w t.req m) [] t.steps = (a1, memOf w t.req m1, sp, rest)) ∧
      TaskOk w { t with steps := rest } ∧
      (∀ x ∈ sp, TaskOk w x ∧ x.req = t.req) ∧
      (∀ r', r' ≠ t.req → memOf w r' m1 = memOf w r' m) ∧
      NewOk w m.log m1.log := by
  rcases ht with ht | ht
  · obtain ⟨henter, hindep⟩ := enterAmb_ok ht {}
    obtain ⟨a1, m1, sp, rest, h1, h2, h3, h4, h5, h6, h7⟩ :=
      runSteps_spec hw t.req t.steps (enterAmb w t {}) m [] henter ht.2.2 (by simp)
    refine ⟨m1, sp, rest, ?_, Or.inl ⟨ht.1, ht.2.1, h3⟩, h4, h6, h7⟩
    intro a0
    rw [hindep a0]
    exact ⟨a1, h1, h5⟩
  · obtain ⟨m1, rest, h1, h2, h3, h4⟩ := runSteps_guarded hw t.req t.steps m [] ht
    exact ⟨m1, [], rest, fun a0 => h1 _, Or.inr h2, by simp, h3, h4⟩

theorem filter_req_self {r : Req} {l : List Task} (h : ∀ t ∈ l, t.req = r) :
    l.filter (fun t => t.req == r) = l := by
  apply List.filter_eq_self.mpr
  intro t ht; simp [h t ht]

theorem filter_req_nil {r r' : Req} {l : List Task} (h : ∀ t ∈ l, t.req = r) (hne : r' ≠ r) :
    l.filter (fun t => t.req == r') = [] := by
  apply List.filter_eq_nil_iff.mpr
  intro t ht; simp [h t ht]; exact fun h => hne h.symm

theorem tasksOk_view {w : World} {s : State} (hs : TasksOk w s) (r : Req) : TasksOk w (view w r s) := by
  intro t ht
  simp only [view, List.mem_filter] at ht
  exact hs t ht.1

theorem pollTask_none {w : World} {s : State} {i : Nat} (h : s.tasks[i]? = none) :
    pollTask w s i = s := by
  simp [pollTask, h]

/-- everything one poll does, for a system of tasks that follow the discipline -/
theorem pollTask_spec {w : World} (hw : w.WF) (s : State) (hs : TasksOk w s) (i : Nat) (t : Task)
    (hi : s.tasks[i]? = some t) :
    TasksOk w (pollTask w s i) ∧
    (LogOk w s.mem.log → LogOk w (pollTask w s i).mem.log) ∧
    (∀ r, r ≠ t.req → view w r (pollTask w s i) = view w r s) ∧
    view w t.req (pollTask w s i)
      = norm (pollTask w (view w t.req s) (localIdx t.req s.tasks i)) ∧
    ∀ a0, norm (pollTask w { s with amb := a0 } i) = norm (pollTask w s i) := by
  have ht : TaskOk w t := hs t (List.mem_of_getElem? hi)
  obtain ⟨m1, sp, rest, hrun, ht', h4, h6, h7⟩ := poll_core hw t ht s.mem
  obtain ⟨a1, h1, _⟩ := hrun s.amb
  have hpoll : pollTask w s i
      = { amb := exitAmb t s.amb a1, mem := m1, tasks := s.tasks.set i { t with steps := rest } ++ sp } := by
    simp [pollTask, hi, h1]
  have hspreq : ∀ x ∈ sp, x.req = t.req := fun x hx => (h4 x hx).2
  refine ⟨?_, ?_, ?_, ?_, ?_⟩
  · rw [hpoll]
    intro x hx
    simp only [List.mem_append] at hx
    rcases hx with hx | hx
    · rcases List.mem_or_eq_of_mem_set hx with hx | hx
      · exact hs x hx
      · subst hx; exact ht'
    · exact (h4 x hx).1
  · rw [hpoll]; exact h7.logOk
  · intro r hne
    rw [hpoll]
    simp only [view, List.filter_append]
    rw [h6 r hne, filter_req_nil hspreq hne, List.append_nil]
    rw [filter_set_false (fun x : Task => x.req == r) s.tasks i _ t hi
      (by simp; exact fun h => hne h.symm) (by simp; exact fun h => hne h.symm)]
  · have hk : (view w t.req s).tasks[localIdx t.req s.tasks i]? = some t := by
      simp only [view, localIdx]
      exact getElem?_filter_countP (fun x : Task => x.req == t.req) s.tasks i t hi (by simp)
    obtain ⟨a1', _, h5'⟩ := hrun (view w t.req s).amb
    have : pollTask w (view w t.req s) (localIdx t.req s.tasks i)
        = { amb := exitAmb t (view w t.req s).amb a1', mem := memOf w t.req m1,
            tasks := (view w t.req s).tasks.set (localIdx t.req s.tasks i) { t with steps := rest } ++ sp } := by
      simp only [pollTask, hk]
      have : (view w t.req s).mem = memOf w t.req s.mem := rfl
      rw [this, h5']
    rw [this, hpoll]
    simp only [view, norm, List.filter_append]
    rw [filter_req_self hspreq]
    rw [filter_set_true (fun x : Task => x.req == t.req) s.tasks i _ t hi (by simp) (by simp)]
    rfl
  · intro a0
    have hi' : ({ s with amb := a0 } : State).tasks[i]? = some t := hi
    obtain ⟨a1'', h1'', _⟩ := hrun a0
    have : pollTask w { s with amb := a0 } i
        = { amb := exitAmb t a0 a1'', mem := m1, tasks := s.tasks.set i { t with steps := rest } ++ sp } := by
      simp [pollTask, hi', h1'']
    rw [this, hpoll]
    rfl

/-! ## all interleavings -/

theorem run_tasksOk {w : World} (hw : w.WF) :
    ∀ (sched : List Nat) (s : State), TasksOk w s → TasksOk w (run w s sched) := by
  intro sched
  induction sched with
  | nil => intro s h; exact h
  | cons i is ih =>
    intro s h
    simp only [run]
    apply ih
    cases hi : s.tasks[i]? with
    | none => rw [pollTask_none hi]; exact h
    | some t => exact (pollTask_spec hw s h i t hi).1

theorem run_logOk {w : World} (hw : w.WF) :
    ∀ (sched : List Nat) (s : State), TasksOk w s → LogOk w s.mem.log →
      LogOk w (run w s sched).mem.log := by
  intro sched
  induction sched with
  | nil => intro s _ h; exact h
  | cons i is ih =>
    intro s h hl
    simp only [run]
    cases hi : s.tasks[i]? with
    | none => rw [pollTask_none hi]; exact ih s h hl
    | some t =>
      have := pollTask_spec hw s h i t hi
      exact ih _ this.1 (this.2.1 hl)

/-- a system of wrapped tasks does not depend on what the thread-locals held when it started -/
theorem run_norm {w : World} (hw : w.WF) :
    ∀ (sched : List Nat) (s : State), TasksOk w s →
      norm (run w (norm s) sched) = norm (run w s sched) := by
  intro sched
  induction sched with
  | nil => intro s _; rfl
  | cons i is ih =>
    intro s h
    simp only [run]
    cases hi : s.tasks[i]? with
    | none =>
      have hi' : (norm s).tasks[i]? = none := hi
      rw [pollTask_none hi, pollTask_none hi']
      exact ih s h
    | some t =>
      have hspec := pollTask_spec hw s h i t hi
      have hn : norm (pollTask w (norm s) i) = norm (pollTask w s i) := hspec.2.2.2.2 {}
      have hokX : TasksOk w (pollTask w (norm s) i) :=
        (pollTask_spec hw (norm s) h i t hi).1
      rw [← ih _ hokX, hn, ih _ hspec.1]

/-- NON-INTERFERENCE: the part of the final state that belongs to `r` is the final state of `r` running
alone under the same relative order of its own polls -/
theorem view_run {w : World} (hw : w.WF) (r : Req) :
    ∀ (sched : List Nat) (s : State), TasksOk w s →
      view w r (run w s sched) = norm (run w (view w r s) (projSched w r s sched)) := by
  intro sched
  induction sched with
  | nil => intro s _; rfl
  | cons i is ih =>
    intro s h
    simp only [run, projSched]
    cases hi : s.tasks[i]? with
    | none =>
      simp only [pollTask_none hi]
      exact ih s h
    | some t =>
      have hspec := pollTask_spec hw s h i t hi
      simp only
      by_cases hr : t.req = r
      · subst hr
        simp only [beq_self_eq_true, if_true, run]
        rw [ih _ hspec.1, hspec.2.2.2.1]
        exact run_norm hw _ _ (pollTask_spec hw (view w t.req s) (tasksOk_view h t.req) _ t (by
          simp only [view, localIdx]
          exact getElem?_filter_countP (fun x : Task => x.req == t.req) s.tasks i t hi (by simp))).1
      · have hb : (t.req == r) = false := by simp [hr]
        simp only [hb]
        rw [ih _ hspec.1, hspec.2.2.1 r (fun h => hr h.symm)]
        rfl

/-- **C20_wrapped_isolated.**  If every task of every request in flight is wrapped and follows the
discipline, then for EVERY interleaving: (1) every observation shows the observing request's own
owner, that owner's arena, and a context value provided on one of its own owners; (2) for every
request `r`, the sequence of `r`'s observations is exactly the sequence `r` produces when its tasks
run alone (`view w r s`: only `r`'s tasks, contexts and arena items; thread-locals empty) under the
same relative order of its own polls (`projSched`). -/
theorem C20_wrapped_isolated {w : World} (hw : w.WF) (s : State) (hs : TasksOk w s)
    (hl : LogOk w s.mem.log) (sched : List Nat) :
    LogOk w (run w s sched).mem.log ∧
    ∀ r, (run w s sched).mem.log.filter (fun ob => ob.req == r)
      = (run w (view w r s) (projSched w r s sched)).mem.log := by
  refine ⟨run_logOk hw sched s hs hl, fun r => ?_⟩
  have := congrArg (fun x => x.mem.log) (view_run hw r sched s hs)
  simpa [view, memOf, norm] using this

/-- the same for the executor's own scheduling function (`poll_nth_ready`): every ready-list schedule is
an index schedule -/
def runReady (w : World) (s : State) : List Nat → State
  | [] => s
  | n :: ns => runReady w (pollNthReady w s n) ns

def readyToIdx (w : World) : State → List Nat → List Nat
  | _, [] => []
  | s, n :: ns =>
    match (readyIdx s)[n % (readyIdx s).length]? with
    | some i => i :: readyToIdx w (pollTask w s i) ns
    | none => readyToIdx w s ns

theorem runReady_eq_run (w : World) :
    ∀ (ns : List Nat) (s : State), runReady w s ns = run w s (readyToIdx w s ns) := by
  intro ns
  induction ns with
  | nil => intro s; rfl
  | cons n ns ih =>
    intro s
    simp only [runReady, readyToIdx, pollNthReady]
    cases h : (readyIdx s)[n % (readyIdx s).length]? with
    | none => simp only [ih]
    | some i => simp only [ih, run]

theorem C20_wrapped_isolated_ready {w : World} (hw : w.WF) (s : State) (hs : TasksOk w s)
    (hl : LogOk w s.mem.log) (ns : List Nat) :
    LogOk w (runReady w s ns).mem.log ∧
    ∀ r, ∃ solo : List Nat, (runReady w s ns).mem.log.filter (fun ob => ob.req == r)
      = (run w (view w r s) solo).mem.log := by
  rw [runReady_eq_run]
  have := C20_wrapped_isolated hw s hs hl (readyToIdx w s ns)
  exact ⟨this.1, fun r => ⟨_, this.2 r⟩⟩

/-! ## `Owner::with` / `with_observer` restore on exit -/

/-- steps that only change OWNER / OBSERVER in a scoped way (everything except `Owner::set`/`unset`) -/
def Step.scoped : Step → Bool
  | .setRoot _ => false
  | .unset _ => false
  | _ => true

theorem runSteps_restores (w : World) (r : Req) :
    ∀ (steps : List Step) (a : Amb) (m : Mem) (sp : List Task), (∀ st ∈ steps, st.scoped = true) →
      (runSteps w r a m sp steps).1.owner = a.owner ∧
      (runSteps w r a m sp steps).1.observer = a.observer := by
  intro steps
  induction steps with
  | nil => intro a m sp _; exact ⟨rfl, rfl⟩
  | cons st rest ih =>
    intro a m sp h
    have hrest : ∀ st ∈ rest, st.scoped = true := fun x hx => h x (by simp [hx])
    have hhead := h st (by simp)
    cases st with
    | yield => exact ⟨rfl, rfl⟩
    | simple s => simpa [runSteps] using ih a _ sp hrest
    | withOwner o body => simpa [runSteps] using ih { a with arena := arenaAfterSet w o a.arena } _ sp hrest
    | withObserver ob body => simpa [runSteps] using ih a _ sp hrest
    | enter o ob body => simpa [runSteps] using ih { a with arena := arenaAfterSet w o a.arena } _ sp hrest
    | cleanupFns o body => simpa [runSteps] using ih a _ sp hrest
    | setRoot o => simp [Step.scoped] at hhead
    | unset o => simp [Step.scoped] at hhead
    | spawn wr sb p => simpa [runSteps] using ih a m _ hrest

/-- what the closure passed to `Owner::with` / `with_observer` observes is the installed value -/
theorem runBody_sees (w : World) (r : Req) (a : Amb) :
    ∀ (body : List Simple) (m : Mem) (ob : Obs), ob ∈ (runBody w r a m body).log →
      ob ∈ m.log ∨ (ob.req = r ∧ ob.owner = a.owner ∧ ob.observer = a.observer ∧ ob.arena = a.arena) := by
  intro body
  induction body with
  | nil => intro m ob h; exact .inl h
  | cons s rest ih =>
    intro m ob h
    simp only [runBody, List.foldl_cons] at ih h
    rcases ih _ ob h with h | h
    · cases s with
      | readCtx l =>
        simp only [runSimple, List.mem_append, List.mem_singleton] at h
        rcases h with h | h
        · exact .inl h
        · subst h; exact .inr ⟨rfl, rfl, rfl, rfl⟩
      | readAmb l =>
        simp only [runSimple, List.mem_append, List.mem_singleton] at h
        rcases h with h | h
        · exact .inl h
        · subst h; exact .inr ⟨rfl, rfl, rfl, rfl⟩
      | provide v =>
        simp only [runSimple] at h
        split at h <;> exact .inl h
      | alloc => exact .inl h
    · exact .inr h

/-- **C20_with_restores.**  (a) `Owner::with o` / `with_observer ob` run their closure under exactly the
installed value and (b) the thread-locals OWNER and OBSERVER after ANY sequence of scoped steps (nested
or not, with awaits and spawns in between) are what they were before; (c) a poll of a wrapped task
(`ScopedFuture`) restores them whatever its code did, `Owner::set` included.  The ARENA is not restored
by either (as in the code: `Arena::set` has no guard) — see the `example` below. -/
theorem C20_with_restores (w : World) (r : Req) (a : Amb) (m : Mem) (sp : List Task) :
    (∀ o body ob, ob ∈ (runBody w r { a with owner := some o, arena := arenaAfterSet w o a.arena } m body).log →
        ob ∈ m.log ∨ ob.owner = some o) ∧
    (∀ obs body ob, ob ∈ (runBody w r { a with observer := obs } m body).log →
        ob ∈ m.log ∨ ob.observer = obs) ∧
    (∀ steps, (∀ st ∈ steps, st.scoped = true) →
        (runSteps w r a m sp steps).1.owner = a.owner ∧ (runSteps w r a m sp steps).1.observer = a.observer) ∧
    (∀ (s : State) (i : Nat) (t : Task), s.tasks[i]? = some t →
        (t.wrapped = true ∨ ∀ st ∈ t.steps, st.scoped = true) →
        (pollTask w s i).amb.owner = s.amb.owner ∧ (pollTask w s i).amb.observer = s.amb.observer) := by
  refine ⟨?_, ?_, ?_, ?_⟩
  · intro o body ob h
    rcases runBody_sees w r _ body m ob h with h | h
    · exact .inl h
    · exact .inr h.2.1
  · intro obs body ob h
    rcases runBody_sees w r _ body m ob h with h | h
    · exact .inl h
    · exact .inr h.2.2.1
  · intro steps h; exact runSteps_restores w r steps a m sp h
  · intro s i t hi h
    cases hr : runSteps w t.req (enterAmb w t s.amb) s.mem [] t.steps with
    | mk a1 rest1 =>
      obtain ⟨m1, sp1, rest⟩ := rest1
      have hpoll : (pollTask w s i).amb = exitAmb t s.amb a1 := by simp [pollTask, hi, hr]
      rw [hpoll]
      cases hw : t.wrapped with
      | true => simp [exitAmb, hw]
      | false =>
        rcases h with h | h
        · simp [hw] at h
        · have := runSteps_restores w t.req t.steps (enterAmb w t s.amb) s.mem [] h
          rw [hr] at this
          simp only [enterAmb, hw] at this
          simp [exitAmb, hw]
          exact this

/-- as in the code, the arena set by `Owner::with` stays set after it returns -/
example :
    let w : World := { owners := [⟨0, none, 0⟩, ⟨1, none, 1⟩], progs := [] }
    (runSteps w 0 { owner := some 0, arena := some 0 } {} [] [.withOwner 1 []]).1
      = { owner := some 0, arena := some 1 } := by decide

/-! ## dropping one request's root disposes nothing of another -/

theorem inSubtree_req {w : World} (hw : w.WF) (root : OwnerId) :
    ∀ (fuel : Nat) (o : OwnerId), inSubtree w root fuel o = true → w.reqOf o = w.reqOf root := by
  intro fuel
  induction fuel with
  | zero => intro o h; simp [inSubtree] at h; rw [h]
  | succ fuel ih =>
    intro o h
    simp only [inSubtree, Bool.or_eq_true, beq_iff_eq] at h
    rcases h with h | h
    · rw [h]
    · split at h
      · next p hp => rw [← ih p h]; exact (hw.forest o p hp).symm
      · simp at h

theorem filter_filter_of_imp {α : Type} (f g : α → Bool) (l : List α) (h : ∀ x, g x = true → f x = true) :
    (l.filter f).filter g = l.filter g := by
  induction l with
  | nil => rfl
  | cons a as ih =>
    cases hg : g a with
    | true => simp [List.filter_cons, h a hg, hg, ih]
    | false =>
      cases hf : f a with
      | true => simp [List.filter_cons, hf, hg, ih]
      | false => simp [List.filter_cons, hf, hg, ih]

/-- **C20_drop_frame.**  Cleaning up request A's root (all owners below it: their arena items, removed
from each owner's own arena, and their contexts) leaves everything that belongs to another request B
untouched — B's contexts, B's arena items, B's observations — for every store contents `m` (hence after
any interleaving), whether the requests share ONE global arena (`arena` of every owner equal) or have
per-request arenas: no hypothesis on the arenas is needed, only that the two owner trees are disjoint
(`World.WF.forest`).  (`slotmap` key uniqueness is modelled, not verified.) -/
theorem C20_drop_frame {w : World} (hw : w.WF) (rootA : OwnerId) (rA rB : Req)
    (hA : w.reqOf rootA = some rA) (hne : rB ≠ rA) (m : Mem) :
    memOf w rB (cleanupRoot w rootA m) = memOf w rB m := by
  have hnot : ∀ o, w.reqOf o = some rB → w.under rootA o = false := by
    intro o ho
    cases hu : w.under rootA o with
    | false => rfl
    | true =>
      have := inSubtree_req hw rootA _ o hu
      rw [ho, hA] at this
      exact absurd (Option.some.inj this) hne
  simp only [memOf, cleanupRoot]
  congr 1
  · apply filter_filter_of_imp
    intro e he
    simp at he
    simp [hnot e.owner he]
  · apply filter_filter_of_imp
    intro it hit
    cases ho : it.owner with
    | none => simp [ho] at hit
    | some o =>
      simp [ho] at hit
      simp [hnot o hit]

/-- the same after any interleaving of the two requests' (wrapped) tasks: B's final observations,
contexts and items are those of B alone, also when A's root is dropped at the end -/
theorem C20_drop_frame_run {w : World} (hw : w.WF) (s : State) (hs : TasksOk w s) (sched : List Nat)
    (rootA : OwnerId) (rA rB : Req) (hA : w.reqOf rootA = some rA) (hne : rB ≠ rA) :
    memOf w rB (cleanupRoot w rootA (run w s sched).mem)
      = (run w (view w rB s) (projSched w rB s sched)).mem := by
  rw [C20_drop_frame hw rootA rA rB hA hne]
  have := congrArg (fun x => x.mem) (view_run hw rB sched s hs)
  simpa [view, norm] using this

/-! ## code that is only inside `Sandboxed`: the arena is still its own

`reactive_graph::spawn` tasks and whatever a response body chains behind the app stream run inside
`Sandboxed` (entry points `Future::poll` and `Stream::poll_next`) but not inside a `ScopedFuture`: the
OWNER they see is whatever the thread holds, the ARENA is the captured one.  In a system that mixes such
tasks with tasks that follow the discipline, every observation still shows the observing request's own
arena, for every interleaving. -/

def ArenaOwn (w : World) (r : Req) (x : Option ArenaId) : Prop :=
  ∃ o, w.reqOf o = some r ∧ x = w.arenaOf o

/-- a step of sandboxed-only code: anything, as long as the owners it enters are its own (it does not spawn) -/
def SbStepOk (w : World) (r : Req) : Step → Prop
  | .simple _ => True
  | .withOwner o _ => w.reqOf o = some r
  | .withObserver _ _ => True
  | .enter o _ _ => w.reqOf o = some r
  | .cleanupFns o _ => w.reqOf o = some r
  | .setRoot o => w.reqOf o = some r
  | .unset _ => True
  | .yield => True
  | .spawn _ _ _ => False

/-- not wrapped, but `Sandboxed` with the arena of its own request captured -/
def SbTaskOk (w : World) (t : Task) : Prop :=
  t.wrapped = false ∧ t.sandboxed = true ∧ ArenaOwn w t.req t.captured.arena ∧
    ∀ st ∈ t.steps, SbStepOk w t.req st

def NewArenaOk (w : World) (old new : List Obs) : Prop :=
  ∀ ob ∈ new, ob ∈ old ∨ ArenaOwn w ob.req ob.arena

theorem NewArenaOk.refl (w : World) (l : List Obs) : NewArenaOk w l l := fun _ h => .inl h

theorem NewArenaOk.trans {w : World} {a b c : List Obs} (h1 : NewArenaOk w a b) (h2 : NewArenaOk w b c) :
    NewArenaOk w a c := by
  intro ob hob
  rcases h2 ob hob with h | h
  · exact h1 ob h
  · exact .inr h

theorem NewOk.arena {w : World} {a b : List Obs} (h : NewOk w a b) : NewArenaOk w a b := by
  intro ob hob
  rcases h ob hob with h | h
  · exact .inl h
  · obtain ⟨⟨o, _, hr, har⟩, _⟩ := h
    exact .inr ⟨o, hr, har⟩

theorem runSimple_arena (w : World) (r : Req) (a : Amb) (m : Mem) (s : Simple)
    (ha : ArenaOwn w r a.arena) : NewArenaOk w m.log (runSimple w r a m s).log := by
  cases s with
  | readCtx l =>
    intro ob hob
    simp only [runSimple, List.mem_append, List.mem_singleton] at hob
    rcases hob with hob | hob
    · exact .inl hob
    · subst hob; exact .inr ha
  | readAmb l =>
    intro ob hob
    simp only [runSimple, List.mem_append, List.mem_singleton] at hob
    rcases hob with hob | hob
    · exact .inl hob
    · subst hob; exact .inr ha
  | provide v =>
    simp only [runSimple]
    split <;> exact NewArenaOk.refl w _
  | alloc => exact NewArenaOk.refl w _

theorem runBody_arena (w : World) (r : Req) (a : Amb) (ha : ArenaOwn w r a.arena) :
    ∀ (body : List Simple) (m : Mem), NewArenaOk w m.log (runBody w r a m body).log := by
  intro body
  induction body with
  | nil => intro m; exact NewArenaOk.refl w _
  | cons s rest ih =>
    intro m
    simp only [runBody, List.foldl_cons] at ih ⊢
    exact (runSimple_arena w r a m s ha).trans (ih _)

theorem arenaOwn_set {w : World} {r : Req} {o : OwnerId} (ho : w.reqOf o = some r) (cur : Option ArenaId) :
    ArenaOwn w r (arenaAfterSet w o cur) := ⟨o, ho, arenaAfterSet_eq ho cur⟩

theorem runSteps_arena (w : World) (r : Req) :
    ∀ (steps : List Step) (a : Amb) (m : Mem) (sp : List Task),
      ArenaOwn w r a.arena → (∀ st ∈ steps, SbStepOk w r st) →
      ∃ a' m' rest, runSteps w r a m sp steps = (a', m', sp, rest) ∧
        (∀ st ∈ rest, SbStepOk w r st) ∧ NewArenaOk w m.log m'.log := by
  intro steps
  induction steps with
  | nil => intro a m sp _ _; exact ⟨a, m, [], rfl, by simp, NewArenaOk.refl w _⟩
  | cons st rest ih =>
    intro a m sp ha hst
    have hrest : ∀ st ∈ rest, SbStepOk w r st := fun x hx => hst x (by simp [hx])
    have hhead : SbStepOk w r st := hst st (by simp)
    cases st with
    | yield => exact ⟨a, m, rest, rfl, hrest, NewArenaOk.refl w _⟩
    | simple s =>
      obtain ⟨a', m', rest', h1, h2, h3⟩ := ih a (runSimple w r a m s) sp ha hrest
      exact ⟨a', m', rest', by simpa [runSteps] using h1, h2, (runSimple_arena w r a m s ha).trans h3⟩
    | withOwner o body =>
      simp only [SbStepOk] at hhead
      have hin := arenaOwn_set hhead a.arena
      obtain ⟨a', m', rest', h1, h2, h3⟩ :=
        ih { a with arena := arenaAfterSet w o a.arena }
          (runBody w r { a with owner := some o, arena := arenaAfterSet w o a.arena } m body) sp hin hrest
      exact ⟨a', m', rest', by simpa [runSteps] using h1, h2, (runBody_arena w r _ hin body m).trans h3⟩
    | withObserver ob body =>
      obtain ⟨a', m', rest', h1, h2, h3⟩ :=
        ih a (runBody w r { a with observer := ob } m body) sp ha hrest
      exact ⟨a', m', rest', by simpa [runSteps] using h1, h2,
        (runBody_arena w r { a with observer := ob } ha body m).trans h3⟩
    | enter o ob body =>
      simp only [SbStepOk] at hhead
      have hin := arenaOwn_set hhead a.arena
      obtain ⟨a', m', rest', h1, h2, h3⟩ :=
        ih { a with arena := arenaAfterSet w o a.arena }
          (runBody w r { owner := some o, observer := ob, arena := arenaAfterSet w o a.arena } m body) sp hin hrest
      exact ⟨a', m', rest', by simpa [runSteps] using h1, h2, (runBody_arena w r _ hin body m).trans h3⟩
    | cleanupFns o body =>
      simp only [SbStepOk] at hhead
      have hin := arenaOwn_set hhead a.arena
      obtain ⟨a', m', rest', h1, h2, h3⟩ :=
        ih a (runBody w r { a with arena := arenaAfterSet w o a.arena } m body) sp ha hrest
      exact ⟨a', m', rest', by simpa [runSteps] using h1, h2,
        (runBody_arena w r { a with arena := arenaAfterSet w o a.arena } hin body m).trans h3⟩
    | setRoot o =>
      simp only [SbStepOk] at hhead
      obtain ⟨a', m', rest', h1, h2, h3⟩ :=
        ih { a with owner := some o, arena := arenaAfterSet w o a.arena } m sp (arenaOwn_set hhead a.arena) hrest
      exact ⟨a', m', rest', by simpa [runSteps] using h1, h2, h3⟩
    | unset o =>
      obtain ⟨a', m', rest', h1, h2, h3⟩ :=
        ih (if a.owner = some o then { a with owner := none } else a) m sp (by split <;> exact ha) hrest
      exact ⟨a', m', rest', by simpa [runSteps] using h1, h2, h3⟩
    | spawn wr sb p => simp [SbStepOk] at hhead

/-- a step of code that runs with NO wrapper at all (the handler's top level) and only triggers cleanups:
`Owner::cleanup()`, the `with_cleanup` of a memo / effect re-run -/
def CStepOk (w : World) (r : Req) : Step → Prop
  | .cleanupFns o _ => w.reqOf o = some r
  | .yield => True
  | _ => False

def CleanupTaskOk (w : World) (t : Task) : Prop := ∀ st ∈ t.steps, CStepOk w t.req st

/-- cleanup functions see their owner's arena from ANY ambient state, and leave the ambient state as it was -/
theorem runSteps_cleanup (w : World) (r : Req) :
    ∀ (steps : List Step) (a : Amb) (m : Mem) (sp : List Task), (∀ st ∈ steps, CStepOk w r st) →
      ∃ m' rest, runSteps w r a m sp steps = (a, m', sp, rest) ∧
        (∀ st ∈ rest, CStepOk w r st) ∧ NewArenaOk w m.log m'.log := by
  intro steps
  induction steps with
  | nil => intro a m sp _; exact ⟨m, [], rfl, by simp, NewArenaOk.refl w _⟩
  | cons st rest ih =>
    intro a m sp hst
    have hrest : ∀ st ∈ rest, CStepOk w r st := fun x hx => hst x (by simp [hx])
    have hhead : CStepOk w r st := hst st (by simp)
    cases st with
    | yield => exact ⟨m, rest, rfl, hrest, NewArenaOk.refl w _⟩
    | cleanupFns o body =>
      simp only [CStepOk] at hhead
      have hin := arenaOwn_set hhead a.arena
      obtain ⟨m', rest', h1, h2, h3⟩ :=
        ih a (runBody w r { a with arena := arenaAfterSet w o a.arena } m body) sp hrest
      exact ⟨m', rest', by simpa [runSteps] using h1, h2,
        (runBody_arena w r { a with arena := arenaAfterSet w o a.arena } hin body m).trans h3⟩
    | simple s => simp [CStepOk] at hhead
    | withOwner o body => simp [CStepOk] at hhead
    | withObserver ob body => simp [CStepOk] at hhead
    | enter o ob body => simp [CStepOk] at hhead
    | setRoot o => simp [CStepOk] at hhead
    | unset o => simp [CStepOk] at hhead
    | spawn wr sb p => simp [CStepOk] at hhead

/-- every task follows the discipline, or is sandboxed-only code of its own arena, or only triggers cleanups -/
def MixedOk (w : World) (s : State) : Prop :=
  ∀ t ∈ s.tasks, TaskOk w t ∨ SbTaskOk w t ∨ CleanupTaskOk w t

theorem pollTask_arena {w : World} (hw : w.WF) (s : State) (hs : MixedOk w s) (i : Nat) :
    MixedOk w (pollTask w s i) ∧ NewArenaOk w s.mem.log (pollTask w s i).mem.log := by
  cases hi : s.tasks[i]? with
  | none => rw [pollTask_none hi]; exact ⟨hs, NewArenaOk.refl w _⟩
  | some t =>
    rcases hs t (List.mem_of_getElem? hi) with ht | ht | ht
    · obtain ⟨m1, sp, rest, hrun, ht', h4, _, h7⟩ := poll_core hw t ht s.mem
      obtain ⟨a1, h1, _⟩ := hrun s.amb
      have hpoll : pollTask w s i
          = { amb := exitAmb t s.amb a1, mem := m1, tasks := s.tasks.set i { t with steps := rest } ++ sp } := by
        simp [pollTask, hi, h1]
      rw [hpoll]
      refine ⟨?_, h7.arena⟩
      intro x hx
      simp only [List.mem_append] at hx
      rcases hx with hx | hx
      · rcases List.mem_or_eq_of_mem_set hx with hx | hx
        · exact hs x hx
        · subst hx; exact .inl ht'
      · exact .inl (h4 x hx).1
    · obtain ⟨hwr, hsb, har, hst⟩ := ht
      have hent : ArenaOwn w t.req (enterAmb w t s.amb).arena := by
        simpa [enterAmb, hwr, hsb] using har
      obtain ⟨a1, m1, rest, h1, h2, h3⟩ := runSteps_arena w t.req t.steps (enterAmb w t s.amb) s.mem [] hent hst
      have hpoll : pollTask w s i
          = { amb := exitAmb t s.amb a1, mem := m1, tasks := s.tasks.set i { t with steps := rest } ++ [] } := by
        simp [pollTask, hi, h1]
      rw [hpoll]
      refine ⟨?_, h3⟩
      intro x hx
      simp only [List.append_nil] at hx
      rcases List.mem_or_eq_of_mem_set hx with hx | hx
      · exact hs x hx
      · subst hx; exact .inr (.inl ⟨hwr, hsb, har, h2⟩)
    · obtain ⟨m1, rest, h1, h2, h3⟩ := runSteps_cleanup w t.req t.steps (enterAmb w t s.amb) s.mem [] ht
      have hpoll : pollTask w s i
          = { amb := exitAmb t s.amb (enterAmb w t s.amb), mem := m1,
              tasks := s.tasks.set i { t with steps := rest } ++ [] } := by
        simp [pollTask, hi, h1]
      rw [hpoll]
      refine ⟨?_, h3⟩
      intro x hx
      simp only [List.append_nil] at hx
      rcases List.mem_or_eq_of_mem_set hx with hx | hx
      · exact hs x hx
      · subst hx; exact .inr (.inr h2)

/-- **C20_sandboxed_arena.**  In a system in which every task either follows the discipline (`TaskOk`:
wrapped, or guarding each step) or is sandboxed-only code whose `Sandboxed` captured its own request's
arena (`SbTaskOk`: `reactive_graph::spawn` bodies, user streams inside the response body's `Sandboxed`), or has no
wrapper at all and only triggers cleanups (`CleanupTaskOk`: `Owner::cleanup()`, memo / effect re-runs from the handler's
top level — the cleanup functions run under `Arena::enter(own arena)`),
for EVERY interleaving every observation made after the start shows the observing request's own arena —
although the sandboxed-only tasks see whatever owner the thread holds. -/
theorem C20_sandboxed_arena {w : World} (hw : w.WF) :
    ∀ (sched : List Nat) (s : State), MixedOk w s →
      ∀ ob ∈ (run w s sched).mem.log, ob ∈ s.mem.log ∨ ArenaOwn w ob.req ob.arena := by
  intro sched
  induction sched with
  | nil => intro s _ ob h; exact .inl h
  | cons i is ih =>
    intro s hs
    simp only [run]
    obtain ⟨hs', hnew⟩ := pollTask_arena hw s hs i
    exact NewArenaOk.trans hnew (ih _ hs')

/-! ## the hypothesis is decidable -/

def stepOkB (w : World) (r : Req) : Step → Bool
  | .simple _ => true
  | .withOwner o _ => w.reqOf o == some r
  | .withObserver _ _ => true
  | .enter o _ _ => w.reqOf o == some r
  | .cleanupFns o _ => w.reqOf o == some r
  | .setRoot o => w.reqOf o == some r
  | .unset _ => false
  | .yield => true
  | .spawn wr _ p =>
    wr && (match w.progs[p]? with
      | some e => e.1 == r
      | none => true)

def gStepOkB (w : World) (r : Req) : Step → Bool
  | .enter o _ _ => w.reqOf o == some r
  | .yield => true
  | _ => false

def wrappedOkB (w : World) (t : Task) : Bool :=
  t.wrapped &&
    (match t.captured.owner with
      | some o => w.reqOf o == some t.req
      | none => false) &&
    t.steps.all (stepOkB w t.req)

def taskOkB (w : World) (t : Task) : Bool :=
  wrappedOkB w t || t.steps.all (gStepOkB w t.req)

def tasksOkB (w : World) (s : State) : Bool := s.tasks.all (taskOkB w)

theorem stepOkB_iff (w : World) (r : Req) (st : Step) : stepOkB w r st = true ↔ StepOk w r st := by
  cases st with
  | simple s => simp [stepOkB, StepOk]
  | withOwner o b => simp [stepOkB, StepOk]
  | withObserver o b => simp [stepOkB, StepOk]
  | enter o ob b => simp [stepOkB, StepOk]
  | cleanupFns o b => simp [stepOkB, StepOk]
  | setRoot o => simp [stepOkB, StepOk]
  | unset o => simp [stepOkB, StepOk]
  | yield => simp [stepOkB, StepOk]
  | spawn wr sb p =>
    simp only [stepOkB, StepOk, Bool.and_eq_true]
    cases hp : w.progs[p]? with
    | none => simp
    | some e => simp

theorem gStepOkB_iff (w : World) (r : Req) (st : Step) : gStepOkB w r st = true ↔ GStepOk w r st := by
  cases st <;> simp [gStepOkB, GStepOk]

theorem wrappedOkB_iff (w : World) (t : Task) : wrappedOkB w t = true ↔ WrappedOk w t := by
  simp only [wrappedOkB, WrappedOk, Bool.and_eq_true, List.all_eq_true, stepOkB_iff]
  cases ho : t.captured.owner with
  | none => simp
  | some o => simp [and_assoc]

theorem taskOkB_iff (w : World) (t : Task) : taskOkB w t = true ↔ TaskOk w t := by
  simp only [taskOkB, TaskOk, GuardedOk, Bool.or_eq_true, wrappedOkB_iff, List.all_eq_true, gStepOkB_iff]

theorem tasksOkB_iff (w : World) (s : State) : tasksOkB w s = true ↔ TasksOk w s := by
  simp only [tasksOkB, TasksOk, List.all_eq_true, taskOkB_iff]

instance (w : World) (s : State) : Decidable (TasksOk w s) :=
  decidable_of_iff _ (tasksOkB_iff w s)

/-! ## the full statement is false: one unwrapped task suffices for a leak -/

/-- isolation for ALL systems of tasks, without the wrapping hypothesis -/
def C20_isolated_full : Prop :=
  ∀ (w : World) (s : State) (sched : List Nat), w.WF → LogOk w s.mem.log →
    LogOk w (run w s sched).mem.log

/-- two requests, each with a root owner carrying a context value (A: 100, B: 200), own arenas -/
def leakWorld : World := { owners := [⟨0, none, 0⟩, ⟨1, none, 1⟩], progs := [] }

/-- task 0 = request B's handler doing `Owner::new_root` (sets OWNER, never restored);
task 1 = request A's response stream rendering, after an await, a leaf that calls `use_context`:
it is `Sandboxed` (own arena) but NOT inside a `ScopedFuture`/`OwnedView` — the shape of the real
`Suspend::to_html_async_with_buf` outside `Suspense` BEFORE the repair hooks/fix-c20-1 (finding F-C20-1; the
repaired code corresponds to `leakState true`) -/
def leakState (lateWrapped : Bool) : State :=
  { amb := { owner := some 0, arena := some 0 }
    mem := { ctx := [⟨0, 100⟩, ⟨1, 200⟩] }
    tasks := [
      { req := 1, captured := {}, wrapped := false, sandboxed := false, steps := [.setRoot 1] },
      { req := 0, captured := { owner := some 0, arena := some 0 }, wrapped := lateWrapped, sandboxed := true,
        steps := [.simple (.readCtx 4)] } ] }

theorem leakWorld_wf : leakWorld.WF := by
  refine ⟨?_, ?_, ?_⟩
  · intro o p h
    rcases o with _ | _ | o <;> simp [World.parentOf, leakWorld] at h
  · intro o o' r h h'
    rcases o with _ | _ | o <;> rcases o' with _ | _ | o' <;>
      simp [World.reqOf, World.arenaOf, leakWorld] at h h' ⊢ <;> (subst h; exact absurd h' (by decide))
  · intro p e h; simp [leakWorld] at h

/-- **C20_unwrapped_leaks_witness.**  With ONE task not wrapped: if B's handler is polled first, A's
leaf reads B's context value (200, provided on B's root owner 1) while still seeing its own arena; if A
is polled first it reads its own (100).  So A's response depends on the interleaving with B and the
isolation statement fails.  With the same task wrapped (`leakState true`) both interleavings give A's
own value. -/
theorem C20_unwrapped_leaks_witness :
    (run leakWorld (leakState false) [0, 1]).mem.log
      = [{ req := 0, leaf := 4, owner := some 1, observer := none, arena := some 0, ctx := some ⟨1, 200⟩ }] ∧
    (run leakWorld (leakState false) [1, 0]).mem.log
      = [{ req := 0, leaf := 4, owner := some 0, observer := none, arena := some 0, ctx := some ⟨0, 100⟩ }] ∧
    (run leakWorld (leakState true) [0, 1]).mem.log = (run leakWorld (leakState true) [1, 0]).mem.log ∧
    (run leakWorld (leakState true) [0, 1]).mem.log
      = [{ req := 0, leaf := 4, owner := some 0, observer := none, arena := some 0, ctx := some ⟨0, 100⟩ }] := by
  decide

theorem C20_isolated_full_false : ¬ C20_isolated_full := by
  intro h
  have hl := h leakWorld (leakState false) [0, 1] leakWorld_wf (by intro ob hob; simp [leakState] at hob)
  rw [C20_unwrapped_leaks_witness.1] at hl
  obtain ⟨⟨o, ho, hr, _⟩, _⟩ := hl _ (List.mem_singleton.mpr rfl)
  simp at ho
  subst ho
  simp [World.reqOf, leakWorld] at hr

/-- the witness is outside the hypothesis of `C20_wrapped_isolated` (and only because of the flags) -/
example : tasksOkB leakWorld (leakState false) = false := by decide

/-! ## non-vacuity: systems that satisfy every hypothesis, with per-request arenas and with a global arena -/

/-- owners 0,1 (child: a `Provider`) belong to request 0; owners 2,3 to request 1; `g` = global arena -/
def demoWorld (g : Bool) : World :=
  { owners := [⟨0, none, 0⟩, ⟨0, some 0, 0⟩, ⟨1, none, if g then 0 else 1⟩, ⟨1, some 2, if g then 0 else 1⟩]
    progs := [(0, [.simple (.readCtx 9), .simple .alloc]), (1, [.simple (.readCtx 9)])] }

def demoState (g : Bool) : State :=
  { amb := {}
    mem := { ctx := [⟨0, 100⟩, ⟨2, 200⟩] }
    tasks := [
      { req := 0, captured := { owner := some 0, observer := some 7, arena := some 0 }, wrapped := true, sandboxed := true,
        steps := [.simple (.readCtx 1), .withOwner 1 [.provide 55, .readCtx 2, .alloc], .yield,
                  .simple (.readCtx 3), .spawn true true 0, .simple .alloc] },
      { req := 1, captured := { owner := some 2, observer := none, arena := some (if g then 0 else 1) }, wrapped := true,
        sandboxed := true,
        steps := [.simple (.readCtx 1), .yield, .withOwner 3 [.provide 66, .readCtx 2, .alloc],
                  .withObserver (some 8) [.readAmb 5], .simple (.readCtx 3), .spawn true true 1] } ] }

theorem demoWorld_wf (g : Bool) : (demoWorld g).WF := by
  refine ⟨?_, ?_, ?_⟩
  · intro o p h
    rcases o with _ | _ | _ | _ | o <;> simp [World.parentOf, demoWorld] at h <;>
      subst h <;> simp [World.reqOf, demoWorld]
  · intro o o' r h h'
    rcases o with _ | _ | _ | _ | o <;> rcases o' with _ | _ | _ | _ | o' <;>
      simp [World.reqOf, World.arenaOf, demoWorld] at h h' ⊢ <;> (subst h; exact absurd h' (by decide))
  · intro p e h
    rcases p with _ | _ | p <;> simp [demoWorld] at h <;> subst h <;> simp [StepOk]

theorem demo_tasksOk (g : Bool) : TasksOk (demoWorld g) (demoState g) := by
  rw [← tasksOkB_iff]; cases g <;> decide

/-- the hypotheses of `C20_wrapped_isolated` / `C20_drop_frame` hold for a system that really observes,
provides, allocates, awaits and spawns — and the conclusion is not empty: six observations per request -/
example : ∀ g, (demoWorld g).WF ∧ TasksOk (demoWorld g) (demoState g) ∧ LogOk (demoWorld g) (demoState g).mem.log :=
  fun g => ⟨demoWorld_wf g, demo_tasksOk g, by intro ob h; simp [demoState] at h⟩

example : ((run (demoWorld false) (demoState false) [0, 1, 1, 0, 2, 3]).mem.log.map fun ob => (ob.req, ob.leaf, ob.owner, ob.arena, ob.ctx.map (·.val)))
    = [(0, 1, some 0, some 0, some 100), (0, 2, some 1, some 0, some 55), (1, 1, some 2, some 1, some 200),
       (1, 2, some 3, some 1, some 66), (1, 5, some 2, some 1, none), (1, 3, some 2, some 1, some 200),
       (0, 3, some 0, some 0, some 100), (1, 9, some 2, some 1, some 200), (0, 9, some 0, some 0, some 100)] := by
  decide

/-- the conclusion of `C20_wrapped_isolated` on a concrete interleaving with a global arena: request 0's
observations in the concurrent run are those of its solo run under the projected schedule `[0, 0, 1]` -/
example :
    projSched (demoWorld true) 0 (demoState true) [1, 1, 0, 3, 0, 2, 3] = [0, 0, 1] ∧
    ((run (demoWorld true) (demoState true) [1, 1, 0, 3, 0, 2, 3]).mem.log.filter fun ob => ob.req == 0)
      = (run (demoWorld true) (view (demoWorld true) 0 (demoState true)) [0, 0, 1]).mem.log ∧
    (run (demoWorld true) (view (demoWorld true) 0 (demoState true)) [0, 0, 1]).mem.log.length = 4 := by
  decide

/-- `C20_drop_frame` is not vacuous: dropping request 0's root really removes its two arena items and its
contexts, and keeps request 1's item and contexts (per-request arenas and global arena) -/
example : ∀ g,
    let m := (run (demoWorld g) (demoState g) [0, 1, 1, 0, 2, 3]).mem
    (m.items.length, (cleanupRoot (demoWorld g) 0 m).items.length,
      (cleanupRoot (demoWorld g) 0 m).ctx.map (·.owner)) = (4, 1, [3, 2]) := by
  intro g; cases g <;> decide

/-- hypotheses of `C20_with_restores` (d): a wrapped task that even calls `Owner::set` -/
example :
    let w := demoWorld false
    let s : State := { amb := { owner := some 2, observer := some 1, arena := some 1 }
                       tasks := [{ req := 0, captured := { owner := some 0 }, wrapped := true, sandboxed := false,
                                   steps := [.setRoot 1, .simple (.readAmb 1)] }] }
    (pollTask w s 0).amb = { owner := some 2, observer := some 1, arena := some 0 } ∧
      (pollTask w s 0).mem.log.map (·.owner) = [some 1] := by
  decide

/-! ## the new task kinds: guarded re-runs, sandboxed-only bodies — witnesses and non-vacuity -/

/-- task 0 = request B's handler (`Owner::new_root`); task 1 = the spawned task of a Resource of request A
(`spawn_derived!`: not wrapped) that RE-RUNS its fetcher: sync part, async part, await, rest.  `guarded` =
each part runs inside `owner.with_cleanup(|| observer.with_observer(|| ..))` / the fetcher's `ScopedFuture`
(the code); `false` = the re-run branch calls the fetcher without entering the owner -/
def rerunState (guarded : Bool) : State :=
  { amb := { owner := some 0, arena := some 0 }
    mem := { ctx := [⟨0, 100⟩, ⟨1, 200⟩] }
    tasks := [
      { req := 1, captured := {}, wrapped := false, sandboxed := false, steps := [.setRoot 1] },
      { req := 0, captured := { arena := some 0 }, wrapped := false, sandboxed := true,
        steps := if guarded then [.enter 0 none [.readCtx 1], .enter 0 none [.readCtx 2], .yield, .enter 0 none [.readCtx 3]]
                 else [.simple (.readCtx 1), .simple (.readCtx 2), .yield, .simple (.readCtx 3)] } ] }

def ctxSeen (s : State) : List (Req × Nat × Option Nat) :=
  s.mem.log.map fun ob => (ob.req, ob.leaf, ob.ctx.map (·.val))

/-- **C20_unguarded_rerun_witness.**  A re-run that does not enter the resource's owner reads request B's
context in its sync part, its async part and after its await as soon as B's root is the thread's owner;
the guarded re-run reads its own in every interleaving. -/
theorem C20_unguarded_rerun_witness :
    ctxSeen (run leakWorld (rerunState false) [0, 1, 1]) = [(0, 1, some 200), (0, 2, some 200), (0, 3, some 200)] ∧
    ctxSeen (run leakWorld (rerunState false) [1, 0, 1]) = [(0, 1, some 100), (0, 2, some 100), (0, 3, some 200)] ∧
    ctxSeen (run leakWorld (rerunState true) [0, 1, 1]) = [(0, 1, some 100), (0, 2, some 100), (0, 3, some 100)] ∧
    ctxSeen (run leakWorld (rerunState true) [1, 0, 1]) = [(0, 1, some 100), (0, 2, some 100), (0, 3, some 100)] := by
  decide

/-- the guarded resource task satisfies the (decidable) discipline although it is not wrapped -/
example : ((rerunState true).tasks.map (taskOkB leakWorld)) = [false, true] ∧
    ((rerunState false).tasks.map (taskOkB leakWorld)) = [false, false] := by decide

/-- two response bodies polled alternately; `sb` = request 0's body re-selects its captured arena on every
`poll_next` (`Sandboxed`), `false` = it does not (e.g. only "when the thread has no live arena") -/
def streamState (sb : Bool) : State :=
  { amb := { owner := some 1, arena := some 1 }
    tasks := [
      { req := 1, captured := { arena := some 1 }, wrapped := false, sandboxed := true,
        steps := [.simple (.readAmb 1), .yield, .simple (.readAmb 2)] },
      { req := 0, captured := { arena := some 0 }, wrapped := false, sandboxed := sb,
        steps := [.simple (.readAmb 1), .yield, .simple (.readAmb 2)] } ] }

def arenaSeen (s : State) : List (Req × Nat × Option ArenaId) :=
  s.mem.log.map fun ob => (ob.req, ob.leaf, ob.arena)

/-- **C20_unsandboxed_stream_witness.**  Without the re-selection, request 0's stream body runs in request 1's
arena whenever request 1 was polled last; with it (the code) it sees its own arena in every interleaving —
while the OWNER it sees is request 1's in both cases (it is sandboxed-only code). -/
theorem C20_unsandboxed_stream_witness :
    arenaSeen (run leakWorld (streamState false) [0, 1, 0, 1])
      = [(1, 1, some 1), (0, 1, some 1), (1, 2, some 1), (0, 2, some 1)] ∧
    arenaSeen (run leakWorld (streamState true) [0, 1, 0, 1])
      = [(1, 1, some 1), (0, 1, some 0), (1, 2, some 1), (0, 2, some 0)] ∧
    arenaSeen (run leakWorld (streamState true) [1, 1, 0, 0])
      = [(0, 1, some 0), (0, 2, some 0), (1, 1, some 1), (1, 2, some 1)] ∧
    (run leakWorld (streamState true) [0, 1, 0, 1]).mem.log.map (·.owner) = [some 1, some 1, some 1, some 1] := by
  decide

/-- the hypothesis of `C20_sandboxed_arena` holds for the sandboxed system (and its conclusion is about four
real observations) -/
example : MixedOk leakWorld (streamState true) := by
  intro t ht
  simp only [streamState, List.mem_cons, List.mem_nil_iff, or_false] at ht
  rcases ht with rfl | rfl
  · refine .inr (.inl ⟨rfl, rfl, ⟨1, by decide, by decide⟩, ?_⟩)
    intro st hst
    simp only [List.mem_cons, List.mem_nil_iff, or_false] at hst
    rcases hst with rfl | rfl | rfl <;> simp [SbStepOk]
  · refine .inr (.inl ⟨rfl, rfl, ⟨0, by decide, by decide⟩, ?_⟩)
    intro st hst
    simp only [List.mem_cons, List.mem_nil_iff, or_false] at hst
    rcases hst with rfl | rfl | rfl <;> simp [SbStepOk]

/-- a system that mixes wrapped tasks with guarded (re-running, unwrapped) ones satisfies the discipline, and the
conclusion of `C20_wrapped_isolated` is visible on it: request 0's observations under a concurrent
interleaving are those of its solo run under the projected schedule -/
def demoState2 (g : Bool) : State :=
  { demoState g with
    tasks := (demoState g).tasks ++ [
      { req := 0, captured := {}, wrapped := false, sandboxed := true,
        steps := [.enter 1 (some 3) [.readCtx 11, .alloc], .yield, .enter 0 none [.readCtx 12]] },
      { req := 1, captured := {}, wrapped := false, sandboxed := false,
        steps := [.enter 2 none [.readCtx 11], .yield, .enter 3 none [.provide 77, .readCtx 12]] } ] }

example : ∀ g, tasksOkB (demoWorld g) (demoState2 g) = true := by intro g; cases g <;> decide

example :
    projSched (demoWorld false) 0 (demoState2 false) [3, 2, 1, 0, 3, 2, 1, 0] = [1, 0, 1, 0] ∧
    ((run (demoWorld false) (demoState2 false) [3, 2, 1, 0, 3, 2, 1, 0]).mem.log.filter fun ob => ob.req == 0)
      = (run (demoWorld false) (view (demoWorld false) 0 (demoState2 false)) [1, 0, 1, 0]).mem.log ∧
    (run (demoWorld false) (view (demoWorld false) 0 (demoState2 false)) [1, 0, 1, 0]).mem.log.length = 5 := by
  decide

/-! ## "the owner is already current" and the response assembly -/

/-- **C20_owner_already_current.**  A wrapped task (`ScopedFuture`) re-installs owner AND arena on every poll,
whatever the thread-locals hold — in particular when its captured owner already IS the thread's current owner
(the request's root, left set by `Owner::new_root`) while the arena is the one another request left selected,
and whether or not the poll is inside `Sandboxed`: every observation of the poll is `ObsOk` (own owner, that
owner's arena, own context).  (`Owner::with` has no "already current" shortcut: the shortcut would skip
`Arena::set`; `C20_owner_current_witness` is that shortcut.) -/
theorem C20_owner_already_current {w : World} (hw : w.WF) (s : State) (i : Nat) (t : Task)
    (hi : s.tasks[i]? = some t) (ht : WrappedOk w t)
    (_hcur : s.amb.owner = t.captured.owner) :
    NewOk w s.mem.log (pollTask w s i).mem.log := by
  obtain ⟨m1, sp, rest, hrun, _, _, _, h7⟩ := poll_core hw t (.inl ht) s.mem
  obtain ⟨a1, h1, _⟩ := hrun s.amb
  have : (pollTask w s i).mem = m1 := by simp [pollTask, hi, h1]
  rw [this]; exact h7

/-- request 0 is the last one started (its root 0 is the thread's owner); request 1's sandboxed code ran last
(arena 1 is selected).  Task 0 = a `ScopedFuture` of request 0 created under its root, polled by the handler
side OUTSIDE `Sandboxed`; `fast` = it is treated as not needing `Owner::with` because its owner is current -/
def ownerCurrentState (fast : Bool) : State :=
  { amb := { owner := some 0, arena := some 1 }
    mem := { ctx := [⟨0, 100⟩, ⟨1, 200⟩] }
    tasks := [{ req := 0, captured := { owner := some 0, arena := some 0 }, wrapped := !fast, sandboxed := false,
                steps := [.simple (.readCtx 1), .simple .alloc] }] }

/-- **C20_owner_current_witness.**  With the shortcut the owner and the context are right but the arena is request
1's: the handle reads and the allocation go to the other request.  Without it (the code) everything is its own. -/
theorem C20_owner_current_witness :
    ((run leakWorld (ownerCurrentState true) [0]).mem.log.map fun ob => (ob.owner, ob.arena, ob.ctx.map (·.val)))
      = [(some 0, some 1, some 100)] ∧
    (run leakWorld (ownerCurrentState true) [0]).mem.items = [⟨some 1, some 0⟩] ∧
    ((run leakWorld (ownerCurrentState false) [0]).mem.log.map fun ob => (ob.owner, ob.arena, ob.ctx.map (·.val)))
      = [(some 0, some 0, some 100)] ∧
    (run leakWorld (ownerCurrentState false) [0]).mem.items = [⟨some 0, some 0⟩] ∧
    tasksOkB leakWorld (ownerCurrentState false) = true := by
  decide

/-- the response assembly of request 0 in ASYNC rendering mode: the hydration chunks are requested (task 1) after
request 1's handler made its own root the thread's owner (task 0).  A request's `SsrSharedContext` hangs on its
root owner (`Owner::shared_context`, inherited by children), so "whose hydration data" = "whose owner".
`captured` = the `chunks` closure uses the shared context `build_response` captured under the request's root
(the code: a step entered under root 0); `false` = it asks `Owner::current_shared_context()` when called -/
def assemblyState (captured : Bool) : State :=
  { amb := { owner := some 0, arena := some 0 }
    tasks := [
      { req := 1, captured := {}, wrapped := false, sandboxed := false, steps := [.setRoot 1] },
      { req := 0, captured := { arena := some 0 }, wrapped := false, sandboxed := true,
        steps := if captured then [.enter 0 none [.readAmb 7]] else [.simple (.readAmb 7)] } ] }

/-- **C20_assembly_witness.**  Looked up late, the response of request 0 is assembled from request 1's shared
context as soon as request 1 started in between; captured, it is its own in every interleaving. -/
theorem C20_assembly_witness :
    (run leakWorld (assemblyState false) [0, 1]).mem.log.map (fun ob => (ob.req, ob.owner)) = [(0, some 1)] ∧
    (run leakWorld (assemblyState false) [1, 0]).mem.log.map (fun ob => (ob.req, ob.owner)) = [(0, some 0)] ∧
    (run leakWorld (assemblyState true) [0, 1]).mem.log.map (fun ob => (ob.req, ob.owner)) = [(0, some 0)] ∧
    (run leakWorld (assemblyState true) [1, 0]).mem.log.map (fun ob => (ob.req, ob.owner)) = [(0, some 0)] ∧
    ((assemblyState true).tasks.map (taskOkB leakWorld)) = [false, true] := by
  decide

/-- non-vacuity of `C20_owner_already_current`: its hypotheses hold in `ownerCurrentState false` -/
example : ∃ t, (ownerCurrentState false).tasks[0]? = some t ∧ WrappedOk leakWorld t ∧
    (ownerCurrentState false).amb.owner = t.captured.owner ∧ (ownerCurrentState false).amb.arena ≠ t.captured.arena := by
  refine ⟨_, rfl, (wrappedOkB_iff _ _).mp (by decide), rfl, by decide⟩

/-! ## cleanup functions that run without a drop, memo bodies that are re-evaluated -/

/-- request 1's code ran last (its root and its arena are the thread's); task 0 = request 0's handler-side code, no
wrapper at all, triggering the cleanup functions of request 0's owner 0 (`Owner::cleanup()` / a memo re-run).
`entered` = `Cleanup::cleanup` holds `Arena::enter(own arena)` while the functions run (the code) -/
def cleanupState (entered : Bool) : State :=
  { amb := { owner := some 1, arena := some 1 }
    tasks := [{ req := 0, captured := {}, wrapped := false, sandboxed := false,
                steps := if entered then [.cleanupFns 0 [.readAmb 6]] else [.simple (.readAmb 6)] }] }

/-- **C20_cleanup_arena_witness.**  Entered: the cleanup function resolves its handles in its own arena and the
thread's arena is request 1's again afterwards.  Not entered (guard dropped early / taken only for the node
removal): it resolves them in request 1's arena. -/
theorem C20_cleanup_arena_witness :
    arenaSeen (run leakWorld (cleanupState true) [0]) = [(0, 6, some 0)] ∧
    (run leakWorld (cleanupState true) [0]).amb = { owner := some 1, arena := some 1 } ∧
    arenaSeen (run leakWorld (cleanupState false) [0]) = [(0, 6, some 1)] := by
  decide

example : MixedOk leakWorld (cleanupState true) := by
  intro t ht
  simp only [cleanupState, List.mem_cons, List.mem_nil_iff, or_false] at ht
  subst ht
  refine .inr (.inr ?_)
  intro st hst
  simp only [if_true, List.mem_cons, List.mem_nil_iff, or_false] at hst
  subst hst
  simp [CStepOk, World.reqOf, leakWorld]

/-- a memo of request 0 (own scope: owner 0, context 100) re-evaluated by whoever reads it after its source changed —
here code at the executor's / handler's top level while request 1's root is the thread's owner.  `inScope` = the
re-evaluation runs inside `owner.with_cleanup(..)` of the memo's own owner (the code: `Step.enter`) -/
def memoState (inScope : Bool) : State :=
  { amb := { owner := some 1, arena := some 1 }
    mem := { ctx := [⟨0, 100⟩, ⟨1, 200⟩] }
    tasks := [{ req := 0, captured := {}, wrapped := false, sandboxed := false,
                steps := if inScope then [.enter 0 (some 9) [.readCtx 5]] else [.simple (.readCtx 5)] }] }

/-- **C20_memo_rerun_witness.**  Scoped: the memo body reads its own request's context (and its own observer is
installed); run "directly" it reads request 1's. -/
theorem C20_memo_rerun_witness :
    ctxSeen (run leakWorld (memoState true) [0]) = [(0, 5, some 100)] ∧
    ctxSeen (run leakWorld (memoState false) [0]) = [(0, 5, some 200)] ∧
    tasksOkB leakWorld (memoState true) = true ∧ tasksOkB leakWorld (memoState false) = false := by
  decide

/-- **C20_none_stays_none.**  Polling a wrapped task — or any task whose steps are scoped — on a thread that has NO
current owner leaves it without one ("unrelated work that starts from `Owner::current()` afterwards is not adopted
by the request"); `C20_with_restores` for the ambient state `none`. -/
theorem C20_none_stays_none (w : World) (s : State) (i : Nat) (t : Task) (hi : s.tasks[i]? = some t)
    (h : t.wrapped = true ∨ ∀ st ∈ t.steps, st.scoped = true) (hnone : s.amb.owner = none) :
    (pollTask w s i).amb.owner = none := by
  rw [((C20_with_restores w t.req s.amb s.mem []).2.2.2 s i t hi h).1, hnone]

/-- non-vacuity: an owner-less thread, a wrapped task that even calls `Owner::set` inside -/
example :
    let s : State := { amb := {}, mem := { ctx := [⟨0, 100⟩] }
                       tasks := [{ req := 0, captured := { owner := some 0 }, wrapped := true, sandboxed := true,
                                   steps := [.setRoot 0, .simple (.readCtx 1)] }] }
    (pollTask leakWorld s 0).amb.owner = none ∧ ctxSeen (pollTask leakWorld s 0) = [(0, 1, some 100)] := by
  decide

end Leptos.Ambient
