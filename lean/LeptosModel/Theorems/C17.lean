import LeptosModel.Model.Action
/-!
# C17 — action state reflects its dispatch history under any completion order

All theorems are about `run (init v0) evs` for an ARBITRARY event list `evs` (any interleaving of
`dispatch`, `abort`, `dropHandle`, `ready`, `poll j c`, `clear`: every history, every completion
order, every executor polling order, every outcome of the unbiased `select!`), proved as
invariants: `Inv (init v0)`, `Inv s → Inv (step s e)`, lifted by induction over the list.

"dispatch `k` completed" := the future's arm of task `k` ran (`outcome = completed v`);
"abort processed" := the abort arm ran (`outcome = aborted`).
-/
namespace Leptos.Action

/-! ## list helpers -/

theorem length_modifyAt {α : Type} (f : α → α) (l : List α) (k : Nat) :
    (modifyAt f l k).length = l.length := by
  induction l generalizing k with
  | nil => rfl
  | cons a as ih => cases k <;> simp [modifyAt, ih]

theorem getElem?_modifyAt {α : Type} (f : α → α) (l : List α) (k j : Nat) :
    (modifyAt f l k)[j]? = if j = k then (l[j]?).map f else l[j]? := by
  induction l generalizing k j with
  | nil => simp [modifyAt]
  | cons a as ih =>
    cases k with
    | zero => cases j <;> simp [modifyAt]
    | succ k => cases j <;> simp [modifyAt, ih]

theorem mem_modifyAt {α : Type} {f : α → α} {l : List α} {k : Nat} {x : α}
    (h : x ∈ modifyAt f l k) : x ∈ l ∨ ∃ t, t ∈ l ∧ l[k]? = some t ∧ x = f t := by
  induction l generalizing k with
  | nil => simp [modifyAt] at h
  | cons a as ih =>
    cases k with
    | zero =>
      simp only [modifyAt, List.mem_cons] at h
      rcases h with h | h
      · exact .inr ⟨a, by simp, by simp, h⟩
      · exact .inl (by simp [h])
    | succ k =>
      simp only [modifyAt, List.mem_cons] at h
      rcases h with h | h
      · exact .inl (by simp [h])
      · rcases ih h with h | ⟨t, ht, hk, hx⟩
        · exact .inl (by simp [h])
        · exact .inr ⟨t, by simp [ht], by simpa using hk, hx⟩

theorem forall_modifyAt {α : Type} {P : α → Prop} {f : α → α} {l : List α} {k : Nat}
    (h : ∀ t ∈ l, P t) (hf : ∀ t ∈ l, l[k]? = some t → P (f t)) : ∀ t ∈ modifyAt f l k, P t := by
  intro x hx
  rcases mem_modifyAt hx with hx | ⟨t, ht, hk, rfl⟩
  · exact h x hx
  · exact hf t ht hk

theorem countP_append {α : Type} (p : α → Bool) (l₁ l₂ : List α) :
    countP p (l₁ ++ l₂) = countP p l₁ + countP p l₂ := by
  induction l₁ with
  | nil => simp [countP]
  | cons a as ih => simp [countP, ih]; omega

theorem countP_modifyAt {α : Type} (p : α → Bool) (f : α → α) (l : List α) (k : Nat) (t : α)
    (h : l[k]? = some t) :
    countP p (modifyAt f l k) + (if p t then 1 else 0) = countP p l + (if p (f t) then 1 else 0) := by
  induction l generalizing k with
  | nil => simp at h
  | cons a as ih =>
    cases k with
    | zero =>
      simp at h; subst h
      simp only [modifyAt, countP]; omega
    | succ k =>
      simp at h
      have := ih k h
      simp only [modifyAt, countP]; omega

theorem countP_modifyAt_congr {α : Type} (p : α → Bool) (f : α → α) (l : List α) (k : Nat)
    (h : ∀ t, p (f t) = p t) : countP p (modifyAt f l k) = countP p l := by
  induction l generalizing k with
  | nil => rfl
  | cons a as ih => cases k <;> simp [modifyAt, countP, ih, h]

theorem any_iff_countP_pos {α : Type} (p : α → Bool) (l : List α) :
    l.any p = true ↔ 0 < countP p l := by
  induction l with
  | nil => simp [countP]
  | cons a as ih =>
    simp only [List.any_cons, Bool.or_eq_true, ih, countP]
    cases p a <;> simp <;> omega

theorem lastWrite_append (v0 : Option Val) (l : List Write) (w : Write) :
    lastWrite v0 (l ++ [w]) = match w with | .completed _ v => some v | .cleared => none := by
  induction l generalizing v0 with
  | nil => cases w <;> simp [lastWrite]
  | cons a as ih => cases a <;> simp [lastWrite, ih]

theorem run_append (s : State) (e₁ e₂ : List Event) : run s (e₁ ++ e₂) = run (run s e₁) e₂ := by
  simp [run, List.foldl_append]

theorem run_cons (s : State) (e : Event) (es : List Event) : run s (e :: es) = run (step s e) es := rfl

theorem modifyAt_none {α : Type} (f : α → α) (l : List α) (k : Nat) (h : l[k]? = none) :
    modifyAt f l k = l := by
  induction l generalizing k with
  | nil => rfl
  | cons a as ih =>
    cases k with
    | zero => simp at h
    | succ k => simp at h; simp [modifyAt, ih k (by simpa using h)]

/-! ## the invariant -/

def Write.isCompleted : Write → Bool
  | .completed _ _ => true
  | .cleared => false

/-- per-task part of the invariant (`d` = the action's `dispatched` counter) -/
structure TaskOK (d : Nat) (t : Task) : Prop where
  latest : d ≤ t.curVersion
  doneIff : t.done = !t.unfinished
  /-- no lost wake-up: a live task whose abort message or result is available is woken -/
  wake : t.done = false → (t.fut ≠ .pending ∨ t.chan = .fired) → t.woken = true
  /-- the value a completed dispatch wrote is the value its future produced -/
  futOf : ∀ v, t.outcome = .completed v → t.fut = .ready v

structure Inv (s : State) : Prop where
  inFlight : s.inFlight = countP Task.unfinished s.tasks
  version : s.version = countP Task.completed s.tasks
  logCount : countP Write.isCompleted s.log = s.version
  value : s.value = lastWrite s.initVal s.log
  input : s.input = if 0 < s.inFlight then s.lastInput else none
  tasksOK : ∀ t ∈ s.tasks, TaskOK s.dispatched t
  logSound : ∀ k v, Write.completed k v ∈ s.log → ∃ t, s.tasks[k]? = some t ∧ t.outcome = .completed v

theorem Inv.init (v0 : Option Val) : Inv (init v0) := by
  constructor <;> simp [Action.init, countP, lastWrite]

theorem mem_of_getElem? {α : Type} {l : List α} {k : Nat} {t : α} (h : l[k]? = some t) : t ∈ l :=
  List.mem_of_getElem? h

/-- a step that rewrites one task without touching its ghost outcome -/
theorem Inv.modifyTasks {s : State} (h : Inv s) (f : Task → Task) (k : Nat)
    (hf : ∀ t, s.tasks[k]? = some t →
      (f t).outcome = t.outcome ∧ (TaskOK s.dispatched t → TaskOK s.dispatched (f t))) :
    Inv { s with tasks := modifyAt f s.tasks k } := by
  cases hk : s.tasks[k]? with
  | none => rw [modifyAt_none f s.tasks k hk]; exact h
  | some t =>
    obtain ⟨hout, hok⟩ := hf t hk
    have hu : Task.unfinished (f t) = Task.unfinished t := by simp [Task.unfinished, hout]
    have hc : Task.completed (f t) = Task.completed t := by simp [Task.completed, hout]
    have c1 := countP_modifyAt Task.unfinished f s.tasks k t hk
    have c2 := countP_modifyAt Task.completed f s.tasks k t hk
    rw [hu] at c1; rw [hc] at c2
    constructor
    · show s.inFlight = countP Task.unfinished (modifyAt f s.tasks k); rw [h.inFlight]; omega
    · show s.version = countP Task.completed (modifyAt f s.tasks k); rw [h.version]; omega
    · exact h.logCount
    · exact h.value
    · exact h.input
    · show ∀ x ∈ modifyAt f s.tasks k, TaskOK s.dispatched x
      apply forall_modifyAt h.tasksOK
      intro t' ht' hk'
      rw [hk] at hk'; cases hk'
      exact hok (h.tasksOK t ht')
    · intro k' v hm
      obtain ⟨t', ht', ho'⟩ := h.logSound k' v hm
      show ∃ x, (modifyAt f s.tasks k)[k']? = some x ∧ _
      rw [getElem?_modifyAt]
      by_cases hkk : k' = k
      · subst hkk
        rw [hk] at ht'; cases ht'
        exact ⟨f t, by simp [hk], by rw [hout]; exact ho'⟩
      · exact ⟨t', by simp [hkk, ht'], ho'⟩

theorem Inv.dispatch {s : State} (h : Inv s) (i : Val) : Inv (dispatchStep s i) := by
  constructor
  · simp [dispatchStep, countP_append, countP, Task.unfinished, h.inFlight]
  · simp [dispatchStep, countP_append, countP, Task.completed, h.version]
  · exact h.logCount
  · exact h.value
  · simp [dispatchStep]
  · intro t ht
    simp only [dispatchStep, List.mem_append, List.mem_singleton] at ht
    rcases ht with ht | rfl
    · exact h.tasksOK t ht
    · constructor <;> simp [Task.unfinished, dispatchStep]
  · intro k v hm
    obtain ⟨t, ht, ho⟩ := h.logSound k v hm
    refine ⟨t, ?_, ho⟩
    show (s.tasks ++ _)[k]? = some t
    rw [List.getElem?_append_left (List.getElem?_eq_some_iff.mp ht).1]; exact ht

theorem Inv.abort {s : State} (h : Inv s) (k : Nat) : Inv (abortStep s k) := by
  apply h.modifyTasks
  intro t _
  refine ⟨by split <;> (try split) <;> rfl, fun ok => ?_⟩
  split
  · split
    · exact ⟨ok.latest, ok.doneIff, fun hd => by simp_all, ok.futOf⟩
    · exact ⟨ok.latest, ok.doneIff, fun _ _ => rfl, ok.futOf⟩
  · exact ok

theorem Inv.drop {s : State} (h : Inv s) (k : Nat) : Inv (dropStep s k) := by
  apply h.modifyTasks
  intro t _
  refine ⟨by split <;> (try split) <;> rfl, fun ok => ?_⟩
  split
  · split
    · exact ⟨ok.latest, ok.doneIff, fun hd => by simp_all, ok.futOf⟩
    · exact ⟨ok.latest, ok.doneIff, fun _ _ => rfl, ok.futOf⟩
  · exact ok

theorem Inv.ready {s : State} (h : Inv s) (k : Nat) (v : Val) : Inv (readyStep s k v) := by
  apply h.modifyTasks
  intro t _
  constructor
  · split
    · rfl
    · split <;> rfl
  · intro ok
    split
    · exact ok
    · next hd =>
      split
      · refine ⟨ok.latest, ok.doneIff, fun _ _ => rfl, ?_⟩
        intro v' hv'
        have hv2 : t.outcome = Outcome.completed v' := hv'
        have := ok.doneIff
        simp [Task.unfinished, hv2] at this
        simp [this] at hd
      · exact ok

theorem Inv.clear {s : State} (h : Inv s) : Inv (clearStep s) := by
  constructor
  · exact h.inFlight
  · exact h.version
  · simp [clearStep, countP_append, countP, Write.isCompleted, h.logCount]
  · simp [clearStep, lastWrite_append]
  · exact h.input
  · exact h.tasksOK
  · intro k v hm
    simp only [clearStep, List.mem_append, List.mem_singleton] at hm
    rcases hm with hm | hm
    · exact h.logSound k v hm
    · cases hm

/-- the tail of the task: `if in_flight == 0 { input = None }` re-establishes the input clause -/
theorem Inv.clearInput {s : State}
    (h1 : s.inFlight = countP Task.unfinished s.tasks)
    (h2 : s.version = countP Task.completed s.tasks)
    (h3 : countP Write.isCompleted s.log = s.version)
    (h4 : s.value = lastWrite s.initVal s.log)
    (h5 : 0 < s.inFlight → s.input = s.lastInput)
    (h6 : ∀ t ∈ s.tasks, TaskOK s.dispatched t)
    (h7 : ∀ k v, Write.completed k v ∈ s.log → ∃ t, s.tasks[k]? = some t ∧ t.outcome = .completed v) :
    Inv (clearInputIfIdle s) := by
  unfold clearInputIfIdle
  split
  · next h0 => exact ⟨h1, h2, h3, h4, by simp [h0], h6, h7⟩
  · next h0 =>
    have : 0 < s.inFlight := by omega
    exact ⟨h1, h2, h3, h4, by simp [this, h5 this], h6, h7⟩

theorem unfinished_of_live {d : Nat} {t : Task} (ok : TaskOK d t) (hd : t.done = false) :
    t.outcome = .running := by
  have := ok.doneIff
  simpa [hd, Task.unfinished] using this

theorem Inv.abortArm {s : State} (h : Inv s) (id : Nat) (t : Task)
    (ht : s.tasks[id]? = some t) (hd : t.done = false) : Inv (abortArm s id) := by
  have ok := h.tasksOK t (mem_of_getElem? ht)
  have hrun := unfinished_of_live ok hd
  let g : Task → Task := fun t => { t with woken := false, done := true, outcome := .aborted }
  have c1 := countP_modifyAt Task.unfinished g s.tasks id t ht
  have c2 := countP_modifyAt Task.completed g s.tasks id t ht
  have hu : Task.unfinished t = true := by simp [Task.unfinished, hrun]
  have hu' : Task.unfinished (g t) = false := by simp [Task.unfinished, g]
  have hc : Task.completed t = false := by simp [Task.completed, hrun]
  have hc' : Task.completed (g t) = false := by simp [Task.completed, g]
  rw [hu, hu'] at c1; rw [hc, hc'] at c2
  simp at c1 c2
  have hin := h.inFlight
  apply Inv.clearInput
  · show s.inFlight - 1 = countP Task.unfinished (modifyAt g s.tasks id)
    omega
  · show s.version = countP Task.completed (modifyAt g s.tasks id)
    rw [h.version]; omega
  · exact h.logCount
  · exact h.value
  · intro hpos
    have : 0 < s.inFlight := by
      have : 0 < s.inFlight - 1 := hpos
      omega
    have := h.input
    simp_all
  · show ∀ x ∈ modifyAt g s.tasks id, TaskOK s.dispatched x
    apply forall_modifyAt h.tasksOK
    intro t' ht' _
    have ok' := h.tasksOK t' ht'
    exact ⟨ok'.latest, by simp [g, Task.unfinished], by simp [g], by simp [g]⟩
  · intro k v hm
    obtain ⟨t', ht', ho'⟩ := h.logSound k v hm
    show ∃ x, (modifyAt g s.tasks id)[k]? = some x ∧ _
    rw [getElem?_modifyAt]
    by_cases hk : k = id
    · subst hk; rw [ht] at ht'; cases ht'; rw [hrun] at ho'; cases ho'
    · exact ⟨t', by simp [hk, ht'], ho'⟩

theorem Inv.futArm {s : State} (h : Inv s) (id : Nat) (t : Task) (v : Val)
    (ht : s.tasks[id]? = some t) (hd : t.done = false) (hf : t.fut = .ready v) :
    Inv (futArm s id t v) := by
  have ok := h.tasksOK t (mem_of_getElem? ht)
  have hrun := unfinished_of_live ok hd
  let g : Task → Task := fun t => { t with woken := false, done := true, outcome := .completed v }
  have c1 := countP_modifyAt Task.unfinished g s.tasks id t ht
  have c2 := countP_modifyAt Task.completed g s.tasks id t ht
  have hu : Task.unfinished t = true := by simp [Task.unfinished, hrun]
  have hu' : Task.unfinished (g t) = false := by simp [Task.unfinished, g]
  have hc : Task.completed t = false := by simp [Task.completed, hrun]
  have hc' : Task.completed (g t) = true := by simp [Task.completed, g]
  rw [hu, hu'] at c1; rw [hc, hc'] at c2
  simp at c1 c2
  have hin := h.inFlight
  have hl : decide (s.dispatched ≤ t.curVersion) = true := by simpa using ok.latest
  unfold Action.futArm
  simp only [hl, if_true]
  apply Inv.clearInput
  · show s.inFlight - 1 = countP Task.unfinished (modifyAt g s.tasks id)
    omega
  · show s.version + 1 = countP Task.completed (modifyAt g s.tasks id)
    rw [h.version]; omega
  · show countP Write.isCompleted (s.log ++ [Write.completed id v]) = s.version + 1
    simp [countP_append, countP, Write.isCompleted, h.logCount]
  · show some v = lastWrite s.initVal (s.log ++ [Write.completed id v])
    simp [lastWrite_append]
  · intro hpos
    have : 0 < s.inFlight := by
      have : 0 < s.inFlight - 1 := hpos
      omega
    have := h.input
    simp_all
  · show ∀ x ∈ modifyAt g s.tasks id, TaskOK s.dispatched x
    apply forall_modifyAt h.tasksOK
    intro t' ht' hk'
    rw [ht] at hk'; cases hk'
    refine ⟨ok.latest, by simp [g, Task.unfinished], by simp [g], ?_⟩
    intro v' hv'
    simp only [g] at hv' ⊢
    cases hv'; exact hf
  · intro k v' hm
    show ∃ x, (modifyAt g s.tasks id)[k]? = some x ∧ _
    rw [getElem?_modifyAt]
    have hm' : Write.completed k v' ∈ s.log ++ [Write.completed id v] := hm
    simp only [List.mem_append, List.mem_singleton] at hm'
    rcases hm' with hm' | hm'
    · obtain ⟨t', ht', ho'⟩ := h.logSound k v' hm'
      by_cases hk : k = id
      · subst hk; rw [ht] at ht'; cases ht'; rw [hrun] at ho'; cases ho'
      · exact ⟨t', by simp [hk, ht'], ho'⟩
    · cases hm'
      exact ⟨g t, by simp [ht], rfl⟩

theorem Inv.pollTask {s : State} (h : Inv s) (id : Nat) (c : Bool) : Inv (pollTask s id c) := by
  unfold Action.pollTask
  split
  · exact h
  · next t ht =>
    split
    · exact h
    · next hd =>
      have hd : t.done = false := by simpa using hd
      split
      · next v hf _ =>
        split
        · exact h.futArm id t v ht hd hf
        · exact h.abortArm id t ht hd
      · next v hf _ => exact h.futArm id t v ht hd hf
      · exact h.abortArm id t ht hd
      · next hf hc =>
        apply h.modifyTasks
        intro t' ht'
        rw [ht] at ht'; cases ht'
        refine ⟨rfl, fun ok => ⟨ok.latest, ok.doneIff, ?_, ok.futOf⟩⟩
        intro _ hor
        simp at hc
        rcases hor with hor | hor
        · exact absurd hf hor
        · exact absurd hor hc

theorem Inv.step {s : State} (h : Inv s) (e : Event) : Inv (step s e) := by
  cases e with
  | dispatch i => exact h.dispatch i
  | abort k => exact h.abort k
  | dropHandle k => exact h.drop k
  | ready k v => exact h.ready k v
  | poll j c =>
    show Inv (match (readyList s)[j % (readyList s).length]? with
      | none => s
      | some id => Action.pollTask s id c)
    split
    · exact h
    · exact h.pollTask _ c
  | clear => exact h.clear

theorem Inv.run {s : State} (h : Inv s) (evs : List Event) : Inv (run s evs) := by
  induction evs generalizing s with
  | nil => exact h
  | cons e es ih => exact ih (h.step e)

theorem inv_run (v0 : Option Val) (evs : List Event) : Inv (run (init v0) evs) :=
  (Inv.init v0).run evs

end Leptos.Action
