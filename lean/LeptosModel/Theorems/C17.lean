import LeptosModel.Model.Action
/-!
# C17 — action state reflects its dispatch history under any completion order

All theorems are about `run (init v0) evs` for an ARBITRARY event list `evs` (any interleaving of
`dispatch`, `abort`, `dropHandle`, `ready`, `poll j`, `clear`: every history, every completion
order, every executor polling order), proved as invariants: `Inv (init v0)`,
`Inv s → Inv (step s e)`, lifted by induction over the list.  The model is the code AFTER the repair
of F-C17-1 (`select_biased!`, abort arm first); the unbiased `select!` of the old code survives as
`pollTaskOld`/`runOld` with the abort-race witness as a regression theorem (bottom of the file).

"dispatch `k` completed" := the future's arm of task `k` ran (`outcome = completed v`);
"abort processed" := the abort arm ran (`outcome = aborted`).
-/
namespace Leptos.Action

/-! ## list helpers -/

theorem length_modifyAt {α : Type} (f : α → α) (l : List α) (k : Nat) :
    (modifyAt f l k).length = l.length := by
  induction l generalizing k with
  | nil => rfl
  | cons a as ih => cases k <;> simp [modifyAt, ih]

theorem getElem?_modifyAt {α : Type} (f : α → α) (l : List α) (k j : Nat) :
    (modifyAt f l k)[j]? = if j = k then (l[j]?).map f else l[j]? := by
  induction l generalizing k j with
  | nil => simp [modifyAt]
  | cons a as ih =>
    cases k with
    | zero => cases j <;> simp [modifyAt]
    | succ k => cases j <;> simp [modifyAt, ih]

theorem mem_modifyAt {α : Type} {f : α → α} {l : List α} {k : Nat} {x : α}
    (h : x ∈ modifyAt f l k) : x ∈ l ∨ ∃ t, t ∈ l ∧ l[k]? = some t ∧ x = f t := by
  induction l generalizing k with
  | nil => simp [modifyAt] at h
  | cons a as ih =>
    cases k with
    | zero =>
      simp only [modifyAt, List.mem_cons] at h
      rcases h with h | h
      · exact .inr ⟨a, by simp, by simp, h⟩
      · exact .inl (by simp [h])
    | succ k =>
      simp only [modifyAt, List.mem_cons] at h
      rcases h with h | h
      · exact .inl (by simp [h])
      · rcases ih h with h | ⟨t, ht, hk, hx⟩
        · exact .inl (by simp [h])
        · exact .inr ⟨t, by simp [ht], by simpa using hk, hx⟩

theorem forall_modifyAt {α : Type} {P : α → Prop} {f : α → α} {l : List α} {k : Nat}
    (h : ∀ t ∈ l, P t) (hf : ∀ t ∈ l, l[k]? = some t → P (f t)) : ∀ t ∈ modifyAt f l k, P t := by
  intro x hx
  rcases mem_modifyAt hx with hx | ⟨t, ht, hk, rfl⟩
  · exact h x hx
  · exact hf t ht hk

theorem countP_append {α : Type} (p : α → Bool) (l₁ l₂ : List α) :
    countP p (l₁ ++ l₂) = countP p l₁ + countP p l₂ := by
  induction l₁ with
  | nil => simp [countP]
  | cons a as ih => simp [countP, ih]; omega

theorem countP_modifyAt {α : Type} (p : α → Bool) (f : α → α) (l : List α) (k : Nat) (t : α)
    (h : l[k]? = some t) :
    countP p (modifyAt f l k) + (if p t then 1 else 0) = countP p l + (if p (f t) then 1 else 0) := by
  induction l generalizing k with
  | nil => simp at h
  | cons a as ih =>
    cases k with
    | zero =>
      simp at h; subst h
      simp only [modifyAt, countP]; omega
    | succ k =>
      simp at h
      have := ih k h
      simp only [modifyAt, countP]; omega

theorem countP_modifyAt_congr {α : Type} (p : α → Bool) (f : α → α) (l : List α) (k : Nat)
    (h : ∀ t, p (f t) = p t) : countP p (modifyAt f l k) = countP p l := by
  induction l generalizing k with
  | nil => rfl
  | cons a as ih => cases k <;> simp [modifyAt, countP, ih, h]

theorem any_iff_countP_pos {α : Type} (p : α → Bool) (l : List α) :
    l.any p = true ↔ 0 < countP p l := by
  induction l with
  | nil => simp [countP]
  | cons a as ih =>
    simp only [List.any_cons, Bool.or_eq_true, ih, countP]
    cases p a <;> simp <;> omega

theorem lastWrite_append (v0 : Option Val) (l : List Write) (w : Write) :
    lastWrite v0 (l ++ [w]) = match w with | .completed _ v => some v | .cleared => none := by
  induction l generalizing v0 with
  | nil => cases w <;> simp [lastWrite]
  | cons a as ih => cases a <;> simp [lastWrite, ih]

theorem run_append (s : State) (e₁ e₂ : List Event) : run s (e₁ ++ e₂) = run (run s e₁) e₂ := by
  simp [run, List.foldl_append]

theorem run_cons (s : State) (e : Event) (es : List Event) : run s (e :: es) = run (step s e) es := rfl

theorem modifyAt_none {α : Type} (f : α → α) (l : List α) (k : Nat) (h : l[k]? = none) :
    modifyAt f l k = l := by
  induction l generalizing k with
  | nil => rfl
  | cons a as ih =>
    cases k with
    | zero => simp at h
    | succ k => simp at h; simp [modifyAt, ih k (by simpa using h)]

/-! ## the invariant -/

def Write.isCompleted : Write → Bool
  | .completed _ _ => true
  | .cleared => false

/-- per-task part of the invariant (`d` = the action's `dispatched` counter) -/
structure TaskOK (d : Nat) (t : Task) : Prop where
  latest : d ≤ t.curVersion
  doneIff : t.done = !t.unfinished
  /-- no lost wake-up: a live task whose abort message or result is available is woken -/
  wake : t.done = false → (t.fut ≠ .pending ∨ t.chan = .fired) → t.woken = true
  /-- the value a completed dispatch wrote is the value its future produced -/
  futOf : ∀ v, t.outcome = .completed v → t.fut = .ready v

structure Inv (s : State) : Prop where
  inFlight : s.inFlight = countP Task.unfinished s.tasks
  version : s.version = countP Task.completed s.tasks
  logCount : countP Write.isCompleted s.log = s.version
  value : s.value = lastWrite s.initVal s.log
  input : s.input = if 0 < s.inFlight then s.lastInput else none
  tasksOK : ∀ t ∈ s.tasks, TaskOK s.dispatched t
  logSound : ∀ k v, Write.completed k v ∈ s.log → ∃ t, s.tasks[k]? = some t ∧ t.outcome = .completed v

theorem Inv.init (v0 : Option Val) : Inv (init v0) := by
  constructor <;> simp [Action.init, countP, lastWrite]

theorem mem_of_getElem? {α : Type} {l : List α} {k : Nat} {t : α} (h : l[k]? = some t) : t ∈ l :=
  List.mem_of_getElem? h

/-- a step that rewrites one task without touching its ghost outcome -/
theorem Inv.modifyTasks {s : State} (h : Inv s) (f : Task → Task) (k : Nat)
    (hf : ∀ t, s.tasks[k]? = some t →
      (f t).outcome = t.outcome ∧ (TaskOK s.dispatched t → TaskOK s.dispatched (f t))) :
    Inv { s with tasks := modifyAt f s.tasks k } := by
  cases hk : s.tasks[k]? with
  | none => rw [modifyAt_none f s.tasks k hk]; exact h
  | some t =>
    obtain ⟨hout, hok⟩ := hf t hk
    have hu : Task.unfinished (f t) = Task.unfinished t := by simp [Task.unfinished, hout]
    have hc : Task.completed (f t) = Task.completed t := by simp [Task.completed, hout]
    have c1 := countP_modifyAt Task.unfinished f s.tasks k t hk
    have c2 := countP_modifyAt Task.completed f s.tasks k t hk
    rw [hu] at c1; rw [hc] at c2
    constructor
    · show s.inFlight = countP Task.unfinished (modifyAt f s.tasks k); rw [h.inFlight]; omega
    · show s.version = countP Task.completed (modifyAt f s.tasks k); rw [h.version]; omega
    · exact h.logCount
    · exact h.value
    · exact h.input
    · show ∀ x ∈ modifyAt f s.tasks k, TaskOK s.dispatched x
      apply forall_modifyAt h.tasksOK
      intro t' ht' hk'
      rw [hk] at hk'; cases hk'
      exact hok (h.tasksOK t ht')
    · intro k' v hm
      obtain ⟨t', ht', ho'⟩ := h.logSound k' v hm
      show ∃ x, (modifyAt f s.tasks k)[k']? = some x ∧ _
      rw [getElem?_modifyAt]
      by_cases hkk : k' = k
      · subst hkk
        rw [hk] at ht'; cases ht'
        exact ⟨f t, by simp [hk], by rw [hout]; exact ho'⟩
      · exact ⟨t', by simp [hkk, ht'], ho'⟩

theorem Inv.dispatchCore {s : State} (h : Inv s) (i : Val) : Inv (dispatchCore s i) := by
  constructor
  · simp [Action.dispatchCore, countP_append, countP, Task.unfinished, h.inFlight]
  · simp [Action.dispatchCore, countP_append, countP, Task.completed, h.version]
  · exact h.logCount
  · exact h.value
  · simp [Action.dispatchCore]
  · intro t ht
    simp only [Action.dispatchCore, List.mem_append, List.mem_singleton] at ht
    rcases ht with ht | rfl
    · exact h.tasksOK t ht
    · constructor <;> simp [Task.unfinished, Action.dispatchCore]
  · intro k v hm
    obtain ⟨t, ht, ho⟩ := h.logSound k v hm
    refine ⟨t, ?_, ho⟩
    show (s.tasks ++ _)[k]? = some t
    rw [List.getElem?_append_left (List.getElem?_eq_some_iff.mp ht).1]; exact ht

theorem Inv.abort {s : State} (h : Inv s) (k : Nat) : Inv (abortStep s k) := by
  apply h.modifyTasks
  intro t _
  refine ⟨by split <;> (try split) <;> rfl, fun ok => ?_⟩
  split
  · split
    · exact ⟨ok.latest, ok.doneIff, fun hd => by simp_all, ok.futOf⟩
    · exact ⟨ok.latest, ok.doneIff, fun _ _ => rfl, ok.futOf⟩
  · exact ok

theorem Inv.drop {s : State} (h : Inv s) (k : Nat) : Inv (dropStep s k) := by
  apply h.modifyTasks
  intro t _
  refine ⟨by split <;> (try split) <;> rfl, fun ok => ?_⟩
  split
  · split
    · exact ⟨ok.latest, ok.doneIff, fun hd => by simp_all, ok.futOf⟩
    · exact ⟨ok.latest, ok.doneIff, fun _ _ => rfl, ok.futOf⟩
  · exact ok

theorem Inv.ready {s : State} (h : Inv s) (k : Nat) (v : Val) : Inv (readyStep s k v) := by
  apply h.modifyTasks
  intro t _
  constructor
  · split
    · rfl
    · split <;> rfl
  · intro ok
    split
    · exact ok
    · next hd =>
      split
      · refine ⟨ok.latest, ok.doneIff, fun _ _ => rfl, ?_⟩
        intro v' hv'
        have hv2 : t.outcome = Outcome.completed v' := hv'
        have := ok.doneIff
        simp [Task.unfinished, hv2] at this
        simp [this] at hd
      · exact ok

/-- a step that touches none of the fields the invariant reads -/
theorem Inv.congr {s s' : State} (h : Inv s)
    (h1 : s'.inFlight = s.inFlight) (h2 : s'.input = s.input) (h3 : s'.value = s.value)
    (h4 : s'.version = s.version) (h5 : s'.dispatched = s.dispatched) (h6 : s'.tasks = s.tasks)
    (h7 : s'.initVal = s.initVal) (h8 : s'.lastInput = s.lastInput) (h9 : s'.log = s.log) : Inv s' := by
  constructor
  · rw [h1, h6]; exact h.inFlight
  · rw [h4, h6]; exact h.version
  · rw [h9, h4]; exact h.logCount
  · rw [h3, h7, h9]; exact h.value
  · rw [h2, h1, h8]; exact h.input
  · rw [h6, h5]; exact h.tasksOK
  · rw [h9, h6]; exact h.logSound

/-- the tail of the task: `if in_flight == 0 { input = None }` re-establishes the input clause -/
theorem Inv.clearInput {s : State}
    (h1 : s.inFlight = countP Task.unfinished s.tasks)
    (h2 : s.version = countP Task.completed s.tasks)
    (h3 : countP Write.isCompleted s.log = s.version)
    (h4 : s.value = lastWrite s.initVal s.log)
    (h5 : 0 < s.inFlight → s.input = s.lastInput)
    (h6 : ∀ t ∈ s.tasks, TaskOK s.dispatched t)
    (h7 : ∀ k v, Write.completed k v ∈ s.log → ∃ t, s.tasks[k]? = some t ∧ t.outcome = .completed v) :
    Inv (clearInputIfIdle s) := by
  unfold clearInputIfIdle
  split
  · next h0 => exact ⟨h1, h2, h3, h4, by simp [h0], h6, h7⟩
  · next h0 =>
    have : 0 < s.inFlight := by omega
    exact ⟨h1, h2, h3, h4, by simp [this, h5 this], h6, h7⟩

theorem unfinished_of_live {d : Nat} {t : Task} (ok : TaskOK d t) (hd : t.done = false) :
    t.outcome = .running := by
  have := ok.doneIff
  simpa [hd, Task.unfinished] using this


/-! ### re-entrant dispatch from a synchronous observer -/

theorem Inv.parkNew {s : State} (h : Inv s) (i : Val) :
    Inv (parkTask (Action.dispatchCore s i) s.tasks.length) := by
  have h' := h.dispatchCore i
  unfold parkTask
  apply h'.modifyTasks
  intro t ht
  have ht' : (s.tasks ++ [({ curVersion := s.dispatched } : Task)])[s.tasks.length]? = some t := ht
  simp at ht'
  subst ht'
  refine ⟨rfl, fun ok => ⟨ok.latest, ok.doneIff, ?_, ok.futOf⟩⟩
  intro _ hor
  simp at hor

theorem Inv.hookDispatch {s : State} (h : Inv s) (i : Val) : Inv (Action.hookDispatch s i) := by
  unfold Action.hookDispatch
  split
  · exact h
  · split
    · exact h.parkNew i
    · exact h.dispatchCore i

theorem Inv.fireVersion {s : State} (h : Inv s) : Inv (Action.fireVersion s) := by
  unfold Action.fireVersion
  split
  · exact h
  · split
    · exact h
    · refine Inv.hookDispatch ?_ _
      exact h.congr rfl rfl rfl rfl rfl rfl rfl rfl rfl

theorem Inv.fireValue {s : State} (h : Inv s) : Inv (Action.fireValue s) := by
  unfold Action.fireValue
  split
  · exact h
  · split
    · exact h
    · refine Inv.hookDispatch ?_ _
      exact h.congr rfl rfl rfl rfl rfl rfl rfl rfl rfl

/-- the state with its `input` put into the form the invariant expects -/
def normInput (s : State) : State :=
  { s with input := if 0 < s.inFlight then s.lastInput else none }

/-- the invariant in the middle of a task's poll, before the tail `if in_flight == 0 { input = None }` -/
structure PreInv (s : State) : Prop where
  inv : Inv (normInput s)
  inputW : 0 < s.inFlight → s.input = s.lastInput

theorem PreInv.mk' {s : State}
    (h1 : s.inFlight = countP Task.unfinished s.tasks)
    (h2 : s.version = countP Task.completed s.tasks)
    (h3 : countP Write.isCompleted s.log = s.version)
    (h4 : s.value = lastWrite s.initVal s.log)
    (h5 : 0 < s.inFlight → s.input = s.lastInput)
    (h6 : ∀ t ∈ s.tasks, TaskOK s.dispatched t)
    (h7 : ∀ k v, Write.completed k v ∈ s.log → ∃ t, s.tasks[k]? = some t ∧ t.outcome = .completed v) :
    PreInv s :=
  ⟨⟨h1, h2, h3, h4, rfl, h6, h7⟩, h5⟩

theorem PreInv.clearInput {s : State} (h : PreInv s) : Inv (clearInputIfIdle s) :=
  Inv.clearInput h.inv.inFlight h.inv.version h.inv.logCount h.inv.value h.inputW h.inv.tasksOK h.inv.logSound

theorem normInput_hookDispatch (s : State) (i : Val) :
    normInput (hookDispatch s i) = hookDispatch (normInput s) i := by
  unfold Action.hookDispatch
  show normInput (if s.suppress = true then s else if s.eager = true then _ else _) =
    (if s.suppress = true then normInput s else if s.eager = true then _ else _)
  split
  · rfl
  · split <;> simp [normInput, Action.dispatchCore, parkTask]

theorem PreInv.hookDispatch {s : State} (h : PreInv s) (i : Val) : PreInv (Action.hookDispatch s i) := by
  refine ⟨by rw [normInput_hookDispatch]; exact h.inv.hookDispatch i, ?_⟩
  unfold Action.hookDispatch
  split
  · exact h.inputW
  · split <;> (intro _; rfl)

theorem PreInv.congrHooks {s s' : State} (h : PreInv s)
    (h1 : s'.inFlight = s.inFlight) (h2 : s'.input = s.input) (h3 : s'.value = s.value)
    (h4 : s'.version = s.version) (h5 : s'.dispatched = s.dispatched) (h6 : s'.tasks = s.tasks)
    (h7 : s'.initVal = s.initVal) (h8 : s'.lastInput = s.lastInput) (h9 : s'.log = s.log) : PreInv s' := by
  refine ⟨h.inv.congr h1 ?_ h3 h4 h5 h6 h7 h8 h9, ?_⟩
  · show (if 0 < s'.inFlight then s'.lastInput else none) = (if 0 < s.inFlight then s.lastInput else none)
    rw [h1, h8]
  · rw [h1, h2, h8]; exact h.inputW

theorem PreInv.fireVersion {s : State} (h : PreInv s) : PreInv (Action.fireVersion s) := by
  unfold Action.fireVersion
  split
  · exact h
  · split
    · exact h
    · refine PreInv.hookDispatch ?_ _
      exact h.congrHooks rfl rfl rfl rfl rfl rfl rfl rfl rfl

theorem PreInv.fireValue {s : State} (h : PreInv s) : PreInv (Action.fireValue s) := by
  unfold Action.fireValue
  split
  · exact h
  · split
    · exact h
    · refine PreInv.hookDispatch ?_ _
      exact h.congrHooks rfl rfl rfl rfl rfl rfl rfl rfl rfl

/-- the observer of `version` reads neither `value` nor the ghost log: the two writes of the
completion arm commute with it -/
theorem fireVersion_comm (s : State) (a : Option Val) (l : List Write) :
    fireVersion { s with value := a, log := l } = { fireVersion s with value := a, log := l } := by
  cases hd : s.disposed <;> cases hb : s.hookVersion.budget <;> cases hs : s.suppress <;> cases he : s.eager <;>
    simp [Action.fireVersion, Action.hookDispatch, hd, hb, hs, he, Action.dispatchCore, parkTask]

theorem Inv.clearWrite {s : State} (h : Inv s) : Inv { s with value := none, log := s.log ++ [.cleared] } := by
  constructor
  · exact h.inFlight
  · exact h.version
  · simp [countP_append, countP, Write.isCompleted, h.logCount]
  · simp [lastWrite_append]
  · exact h.input
  · exact h.tasksOK
  · intro k v hm
    simp only [List.mem_append, List.mem_singleton] at hm
    rcases hm with hm | hm
    · exact h.logSound k v hm
    · cases hm


theorem Inv.clearCore {s : State} (h : Inv s) : Inv (clearCore s) :=
  h.clearWrite.fireValue

theorem Inv.clear {s : State} (h : Inv s) : Inv (clearStep s) := by
  unfold clearStep; split
  · exact h
  · exact h.clearCore

theorem Inv.abortArm {s : State} (h : Inv s) (id : Nat) (t : Task)
    (ht : s.tasks[id]? = some t) (hd : t.done = false) : Inv (abortArm s id) := by
  have ok := h.tasksOK t (mem_of_getElem? ht)
  have hrun := unfinished_of_live ok hd
  let g : Task → Task := fun t => { t with woken := false, done := true, outcome := .aborted }
  have c1 := countP_modifyAt Task.unfinished g s.tasks id t ht
  have c2 := countP_modifyAt Task.completed g s.tasks id t ht
  have hu : Task.unfinished t = true := by simp [Task.unfinished, hrun]
  have hu' : Task.unfinished (g t) = false := by simp [Task.unfinished, g]
  have hc : Task.completed t = false := by simp [Task.completed, hrun]
  have hc' : Task.completed (g t) = false := by simp [Task.completed, g]
  rw [hu, hu'] at c1; rw [hc, hc'] at c2
  simp at c1 c2
  have hin := h.inFlight
  apply Inv.clearInput
  · show s.inFlight - 1 = countP Task.unfinished (modifyAt g s.tasks id)
    omega
  · show s.version = countP Task.completed (modifyAt g s.tasks id)
    rw [h.version]; omega
  · exact h.logCount
  · exact h.value
  · intro hpos
    have : 0 < s.inFlight := by
      have : 0 < s.inFlight - 1 := hpos
      omega
    have := h.input
    simp_all
  · show ∀ x ∈ modifyAt g s.tasks id, TaskOK s.dispatched x
    apply forall_modifyAt h.tasksOK
    intro t' ht' _
    have ok' := h.tasksOK t' ht'
    exact ⟨ok'.latest, by simp [g, Task.unfinished], by simp [g], by simp [g]⟩
  · intro k v hm
    obtain ⟨t', ht', ho'⟩ := h.logSound k v hm
    show ∃ x, (modifyAt g s.tasks id)[k]? = some x ∧ _
    rw [getElem?_modifyAt]
    by_cases hk : k = id
    · subst hk; rw [ht] at ht'; cases ht'; rw [hrun] at ho'; cases ho'
    · exact ⟨t', by simp [hk, ht'], ho'⟩

theorem Inv.futArm {s : State} (h : Inv s) (id : Nat) (t : Task) (v : Val)
    (ht : s.tasks[id]? = some t) (hd : t.done = false) (hf : t.fut = .ready v) :
    Inv (futArm s id t v) := by
  have ok := h.tasksOK t (mem_of_getElem? ht)
  have hrun := unfinished_of_live ok hd
  let g : Task → Task := fun t => { t with woken := false, done := true, outcome := .completed v }
  have c1 := countP_modifyAt Task.unfinished g s.tasks id t ht
  have c2 := countP_modifyAt Task.completed g s.tasks id t ht
  have hu : Task.unfinished t = true := by simp [Task.unfinished, hrun]
  have hu' : Task.unfinished (g t) = false := by simp [Task.unfinished, g]
  have hc : Task.completed t = false := by simp [Task.completed, hrun]
  have hc' : Task.completed (g t) = true := by simp [Task.completed, g]
  rw [hu, hu'] at c1; rw [hc, hc'] at c2
  simp at c1 c2
  have hin := h.inFlight
  have hl : decide (s.dispatched ≤ t.curVersion) = true := by simpa using ok.latest
  have hp : PreInv ({ s with
      inFlight := s.inFlight - 1
      version := s.version + 1
      value := some v
      log := s.log ++ [Write.completed id v]
      tasks := modifyAt g s.tasks id } : State) := by
    apply PreInv.mk'
    · show s.inFlight - 1 = countP Task.unfinished (modifyAt g s.tasks id)
      omega
    · show s.version + 1 = countP Task.completed (modifyAt g s.tasks id)
      rw [h.version]; omega
    · show countP Write.isCompleted (s.log ++ [Write.completed id v]) = s.version + 1
      simp [countP_append, countP, Write.isCompleted, h.logCount]
    · show some v = lastWrite s.initVal (s.log ++ [Write.completed id v])
      simp [lastWrite_append]
    · intro hpos
      have : 0 < s.inFlight := by
        have : 0 < s.inFlight - 1 := hpos
        omega
      have := h.input
      simp_all
    · show ∀ x ∈ modifyAt g s.tasks id, TaskOK s.dispatched x
      apply forall_modifyAt h.tasksOK
      intro t' ht' hk'
      rw [ht] at hk'; cases hk'
      refine ⟨ok.latest, by simp [g, Task.unfinished], by simp [g], ?_⟩
      intro v' hv'
      simp only [g] at hv' ⊢
      cases hv'; exact hf
    · intro k v' hm
      show ∃ x, (modifyAt g s.tasks id)[k]? = some x ∧ _
      rw [getElem?_modifyAt]
      have hm' : Write.completed k v' ∈ s.log ++ [Write.completed id v] := hm
      simp only [List.mem_append, List.mem_singleton] at hm'
      rcases hm' with hm' | hm'
      · obtain ⟨t', ht', ho'⟩ := h.logSound k v' hm'
        by_cases hk : k = id
        · subst hk; rw [ht] at ht'; cases ht'; rw [hrun] at ho'; cases ho'
        · exact ⟨t', by simp [hk, ht'], ho'⟩
      · cases hm'
        exact ⟨g t, by simp [ht], rfl⟩
  unfold Action.futArm
  simp only [hl, if_true]
  have e : (Action.fireVersion ({ s with
      inFlight := s.inFlight - 1
      tasks := modifyAt g s.tasks id
      version := s.version + 1 } : State)).log = s.log := by
    cases hd : s.disposed <;> cases hb : s.hookVersion.budget <;> cases hs : s.suppress <;> cases he : s.eager <;>
      simp [Action.fireVersion, Action.hookDispatch, hd, hb, hs, he, Action.dispatchCore, parkTask]
  show Inv (clearInputIfIdle (Action.fireValue { Action.fireVersion ({ s with
      inFlight := s.inFlight - 1
      tasks := modifyAt g s.tasks id
      version := s.version + 1 } : State) with value := some v, log := _ }))
  rw [e, ← fireVersion_comm]
  exact hp.fireVersion.fireValue.clearInput

theorem Inv.pollTask {s : State} (h : Inv s) (id : Nat) : Inv (pollTask s id) := by
  unfold Action.pollTask
  split
  · exact h
  · next t ht =>
    split
    · exact h
    · next hd =>
      have hd : t.done = false := by simpa using hd
      split
      · exact h.abortArm id t ht hd
      · next hc =>
        split
        · next v hf => exact h.futArm id t v ht hd hf
        · next hf =>
          unfold parkTask
          apply h.modifyTasks
          intro t' ht'
          rw [ht] at ht'; cases ht'
          refine ⟨rfl, fun ok => ⟨ok.latest, ok.doneIff, ?_, ok.futOf⟩⟩
          intro _ hor
          rcases hor with hor | hor
          · exact absurd hf hor
          · exact absurd hor hc

theorem Inv.dispatch {s : State} (h : Inv s) (i : Val) : Inv (dispatchStep s i) := by
  unfold dispatchStep; split
  · exact h
  · split
    · exact (h.dispatchCore i).pollTask _
    · exact h.dispatchCore i

theorem Inv.dispatchReady {s : State} (h : Inv s) (i v : Val) : Inv (dispatchReadyStep s i v) := by
  unfold dispatchReadyStep; split
  · exact h
  · show Inv (if s.eager = true then _ else _)
    split
    · exact ((h.dispatchCore i).ready _ v).pollTask _
    · exact (h.dispatchCore i).ready _ v

theorem Inv.step {s : State} (h : Inv s) (e : Event) : Inv (step s e) := by
  cases e with
  | dispatch i => exact h.dispatch i
  | abort k => exact h.abort k
  | dropHandle k => exact h.drop k
  | ready k v => exact h.ready k v
  | poll j =>
    show Inv (match (readyList s)[j % (readyList s).length]? with
      | none => s
      | some id => Action.pollTask s id)
    split
    · exact h
    · exact h.pollTask _
  | clear => exact h.clear
  | suppress b => exact h.congr rfl rfl rfl rfl rfl rfl rfl rfl rfl
  | dispose => exact h.congr rfl rfl rfl rfl rfl rfl rfl rfl rfl
  | eager b => exact h.congr rfl rfl rfl rfl rfl rfl rfl rfl rfl
  | dispatchReady i v => exact h.dispatchReady i v
  | hook tr b i => cases tr <;> exact h.congr rfl rfl rfl rfl rfl rfl rfl rfl rfl

theorem Inv.run {s : State} (h : Inv s) (evs : List Event) : Inv (run s evs) := by
  induction evs generalizing s with
  | nil => exact h
  | cons e es ih => exact ih (h.step e)

theorem inv_run (v0 : Option Val) (evs : List Event) : Inv (run (init v0) evs) :=
  (Inv.init v0).run evs

/-! ## ghost bookkeeping is what it says -/

theorem initVal_clearInput (s : State) : (clearInputIfIdle s).initVal = s.initVal := by
  unfold clearInputIfIdle; split <;> rfl

theorem initVal_hookDispatch (s : State) (i : Val) : (hookDispatch s i).initVal = s.initVal := by
  unfold hookDispatch; split
  · rfl
  · split <;> rfl

theorem initVal_fireVersion (s : State) : (fireVersion s).initVal = s.initVal := by
  unfold fireVersion; split
  · rfl
  · split
    · rfl
    · exact initVal_hookDispatch _ _

theorem initVal_fireValue (s : State) : (fireValue s).initVal = s.initVal := by
  unfold fireValue; split
  · rfl
  · split
    · rfl
    · exact initVal_hookDispatch _ _

theorem initVal_futArm (s : State) (id : Nat) (t : Task) (v : Val) : (futArm s id t v).initVal = s.initVal := by
  simp only [futArm]
  split <;> simp only [initVal_clearInput, initVal_fireValue, initVal_fireVersion]

theorem initVal_pollTask (s : State) (id : Nat) : (Action.pollTask s id).initVal = s.initVal := by
  unfold Action.pollTask
  split
  · rfl
  · split
    · rfl
    · split
      · simp [Action.abortArm, initVal_clearInput]
      · split
        · exact initVal_futArm _ _ _ _
        · rfl

theorem initVal_step (s : State) (e : Event) : (step s e).initVal = s.initVal := by
  cases e with
  | poll j =>
    show (match (readyList s)[j % (readyList s).length]? with
      | none => s
      | some id => Action.pollTask s id).initVal = _
    split
    · rfl
    · exact initVal_pollTask s _
  | dispatch i =>
    simp only [step, dispatchStep]; split
    · rfl
    · split
      · rw [initVal_pollTask]; rfl
      · rfl
  | dispatchReady i v =>
    simp only [step, dispatchReadyStep]; split
    · rfl
    · split
      · rw [initVal_pollTask]; rfl
      · rfl
  | clear =>
    simp only [step, clearStep]; split
    · rfl
    · exact initVal_fireValue _
  | hook tr b i => cases tr <;> rfl
  | _ => rfl

theorem initVal_run (s : State) (evs : List Event) : (run s evs).initVal = s.initVal := by
  induction evs generalizing s with
  | nil => rfl
  | cons e es ih => rw [run_cons, ih, initVal_step]

theorem readyFrom_nil {i : Nat} {l : List Task} (h : readyFrom i l = []) :
    ∀ t ∈ l, t.done = false → t.woken = false := by
  induction l generalizing i with
  | nil => simp
  | cons a as ih =>
    simp only [readyFrom] at h
    split at h
    · simp at h
    · next hc =>
      intro t ht hd
      simp only [List.mem_cons] at ht
      rcases ht with rfl | ht
      · cases hw : t.woken <;> simp_all
      · exact ih h t ht hd

/-! ## property theorems — single action -/

/-- **pending ↔ some dispatch is unfinished**: for every history and schedule, the action reports
pending exactly when some dispatched `k` has neither completed (its future's arm never ran) nor had
its abort processed (the abort arm never ran). Holds at every point, idle or not. -/
theorem C17_pending_iff_unfinished (v0 : Option Val) (evs : List Event) :
    (run (init v0) evs).pending = true ↔
      ∃ (k : Nat) (t : Task), (run (init v0) evs).tasks[k]? = some t ∧ t.outcome = .running := by
  have h := inv_run v0 evs
  simp only [State.pending, decide_eq_true_eq, h.inFlight, ← any_iff_countP_pos, List.any_eq_true]
  constructor
  · rintro ⟨t, ht, hu⟩
    obtain ⟨k, hk⟩ := List.mem_iff_getElem?.mp ht
    exact ⟨k, t, hk, by simpa [Task.unfinished] using hu⟩
  · rintro ⟨k, t, hk, hu⟩
    exact ⟨t, mem_of_getElem? hk, by simp [Task.unfinished, hu]⟩

/-- at an **idle point** (no woken task left) "unfinished" is a fact about the history alone:
every unfinished dispatch has neither been resolved by `ready` nor had `abort()` called on it -/
theorem C17_idle_unfinished_untouched (v0 : Option Val) (evs : List Event)
    (hidle : (run (init v0) evs).idle = true) :
    ∀ t ∈ (run (init v0) evs).tasks, t.outcome = .running → t.fut = .pending ∧ t.chan ≠ .fired := by
  have h := inv_run v0 evs
  intro t ht hrun
  have ok := h.tasksOK t ht
  have hd : t.done = false := by have := ok.doneIff; simpa [Task.unfinished, hrun] using this
  have hw : t.woken = false := by
    apply readyFrom_nil (i := 0) _ t ht hd
    simpa [State.idle, readyList] using hidle
  constructor
  · cases hf : t.fut with
    | pending => rfl
    | ready v => have := ok.wake hd (.inl (by simp [hf])); simp [hw] at this
  · intro hc
    have := ok.wake hd (.inr hc); simp [hw] at this

/-- the same statement in the form of the property: at an idle point the action is pending iff some
dispatch was neither resolved nor aborted -/
theorem C17_pending_iff_untouched_at_idle (v0 : Option Val) (evs : List Event)
    (hidle : (run (init v0) evs).idle = true) :
    (run (init v0) evs).pending = true ↔
      ∃ (k : Nat) (t : Task), (run (init v0) evs).tasks[k]? = some t ∧ t.done = false ∧ t.fut = .pending ∧ t.chan ≠ .fired := by
  rw [C17_pending_iff_unfinished]
  have h := inv_run v0 evs
  constructor
  · rintro ⟨k, t, hk, hrun⟩
    have ok := h.tasksOK t (mem_of_getElem? hk)
    have hd : t.done = false := by have := ok.doneIff; simpa [Task.unfinished, hrun] using this
    obtain ⟨a, b⟩ := C17_idle_unfinished_untouched v0 evs hidle t (mem_of_getElem? hk) hrun
    exact ⟨k, t, hk, hd, a, b⟩
  · rintro ⟨k, t, hk, hd, _, _⟩
    exact ⟨k, t, hk, unfinished_of_live (h.tasksOK t (mem_of_getElem? hk)) hd⟩

/-- **version = number of dispatches that completed** (= number of completion entries in the write log) -/
theorem C17_version_counts_completions (v0 : Option Val) (evs : List Event) :
    (run (init v0) evs).version = countP Task.completed (run (init v0) evs).tasks ∧
    (run (init v0) evs).version = countP Write.isCompleted (run (init v0) evs).log :=
  ⟨(inv_run v0 evs).version, (inv_run v0 evs).logCount.symm⟩

/-- **value = result of the most recently completed dispatch**: the value is the last write of the log
(completions in the order their tasks were polled, `clear` writes `None`, initially `v0`); every
completion entry `(k, v)` belongs to a dispatch `k` whose own future produced `v` -/
theorem C17_value_is_last_completed (v0 : Option Val) (evs : List Event) :
    (run (init v0) evs).value = lastWrite v0 (run (init v0) evs).log ∧
    ∀ k v, Write.completed k v ∈ (run (init v0) evs).log →
      ∃ t, (run (init v0) evs).tasks[k]? = some t ∧ t.outcome = .completed v ∧ t.fut = .ready v := by
  have h := inv_run v0 evs
  constructor
  · have := h.value; rwa [initVal_run] at this
  · intro k v hm
    obtain ⟨t, ht, ho⟩ := h.logSound k v hm
    exact ⟨t, ht, ho, (h.tasksOK t (mem_of_getElem? ht)).futOf v ho⟩

/-- reading of the previous theorem: right after dispatch `k` completes with `v`, the value is `v` -/
theorem C17_value_after_completion (v0 : Option Val) (evs : List Event) (l : List Write) (k : Nat) (v : Val)
    (hl : (run (init v0) evs).log = l ++ [.completed k v]) : (run (init v0) evs).value = some v := by
  rw [(C17_value_is_last_completed v0 evs).1, hl, lastWrite_append]

/-- **input is cleared once nothing is pending** -/
theorem C17_input_cleared_when_idle (v0 : Option Val) (evs : List Event)
    (h : (run (init v0) evs).pending = false) : (run (init v0) evs).input = none := by
  have hi := (inv_run v0 evs).input
  simp only [State.pending, decide_eq_false_iff_not] at h
  simp [hi, h]

/-- … and while something is pending it is the input of the most recent dispatch -/
theorem C17_input_latest_while_pending (v0 : Option Val) (evs : List Event)
    (h : (run (init v0) evs).pending = true) :
    (run (init v0) evs).input = (run (init v0) evs).lastInput := by
  have hi := (inv_run v0 evs).input
  simp only [State.pending, decide_eq_true_eq] at h
  simp [hi, h]

/-! ## abort before ready -/

def AbortOK (t : Task) : Prop :=
  t.abortFirst = true → t.completed = false ∧ (t.done = false → t.chan = .fired)

theorem abortOK_modify {s : State} (hj : ∀ t ∈ s.tasks, AbortOK t) (f : Task → Task) (k : Nat)
    (hf : ∀ t, s.tasks[k]? = some t → AbortOK t → AbortOK (f t)) :
    ∀ t ∈ modifyAt f s.tasks k, AbortOK t :=
  forall_modifyAt hj fun t ht hk => hf t hk (hj t ht)

theorem abortOK_clearInput {s : State} {P : Task → Prop} (h : ∀ t ∈ s.tasks, P t) :
    ∀ t ∈ (clearInputIfIdle s).tasks, P t := by
  unfold clearInputIfIdle; split <;> exact h

theorem abortOK_dispatchCore {s : State} (hj : ∀ t ∈ s.tasks, AbortOK t) (i : Val) :
    ∀ t ∈ (dispatchCore s i).tasks, AbortOK t := by
  intro t ht
  simp only [dispatchCore, List.mem_append, List.mem_singleton] at ht
  rcases ht with ht | rfl
  · exact hj t ht
  · intro h; simp at h

theorem abortOK_park {s : State} (hj : ∀ t ∈ s.tasks, AbortOK t) (id : Nat) :
    ∀ t ∈ (parkTask s id).tasks, AbortOK t := by
  apply abortOK_modify hj
  intro t' _ ok'
  exact ok'

theorem abortOK_hookDispatch {s : State} (hj : ∀ t ∈ s.tasks, AbortOK t) (i : Val) :
    ∀ t ∈ (hookDispatch s i).tasks, AbortOK t := by
  unfold hookDispatch; split
  · exact hj
  · split
    · exact abortOK_park (abortOK_dispatchCore hj i) _
    · exact abortOK_dispatchCore hj i

theorem abortOK_fireVersion {s : State} (hj : ∀ t ∈ s.tasks, AbortOK t) :
    ∀ t ∈ (fireVersion s).tasks, AbortOK t := by
  unfold fireVersion; split
  · exact hj
  · split
    · exact hj
    · refine abortOK_hookDispatch ?_ _
      exact hj

theorem abortOK_fireValue {s : State} (hj : ∀ t ∈ s.tasks, AbortOK t) :
    ∀ t ∈ (fireValue s).tasks, AbortOK t := by
  unfold fireValue; split
  · exact hj
  · split
    · exact hj
    · refine abortOK_hookDispatch ?_ _
      exact hj

theorem abortOK_pollTask {s : State} (hj : ∀ t ∈ s.tasks, AbortOK t) (id : Nat) :
    ∀ t ∈ (Action.pollTask s id).tasks, AbortOK t := by
  unfold Action.pollTask
  split
  · exact hj
  · next t ht =>
    split
    · exact hj
    · next hd =>
      have hd : t.done = false := by simpa using hd
      have ok := hj t (mem_of_getElem? ht)
      split
      · -- the abort arm
        apply abortOK_clearInput
        apply abortOK_modify hj
        intro t' _ _ _
        exact ⟨by simp [Task.completed], fun h => by simp at h⟩
      · next hc =>
        -- the abort arm is not ready, so the task is not `abortFirst`
        have hab : t.abortFirst = false := by
          cases hab : t.abortFirst
          · rfl
          · exact absurd ((ok hab).2 hd) hc
        split
        · next v _ =>
          have h1 : ∀ x ∈ modifyAt (fun t : Task => { t with woken := false, done := true, outcome := .completed v })
              s.tasks id, AbortOK x := by
            apply abortOK_modify hj
            intro t' ht' _
            rw [ht] at ht'; cases ht'
            intro ha
            have : t.abortFirst = true := ha
            rw [hab] at this; cases this
          simp only [futArm]
          split
          · apply abortOK_clearInput
            apply abortOK_fireValue
            apply abortOK_fireVersion (s := { s with inFlight := _, tasks := _, version := _ })
            exact h1
          · apply abortOK_clearInput
            exact h1
        · exact abortOK_park hj id

theorem abortOK_step {s : State} (hi : Inv s) (hj : ∀ t ∈ s.tasks, AbortOK t) (e : Event) :
    ∀ t ∈ (step s e).tasks, AbortOK t := by
  cases e with
  | dispatch i =>
    simp only [step, dispatchStep]
    split
    · exact hj
    · split
      · exact abortOK_pollTask (abortOK_dispatchCore hj i) _
      · exact abortOK_dispatchCore hj i
  | dispatchReady i v =>
    have hr : ∀ t ∈ (readyStep (dispatchCore s i) s.tasks.length v).tasks, AbortOK t := by
      apply abortOK_modify (abortOK_dispatchCore hj i)
      intro t _ ok
      split
      · exact ok
      · split
        · exact ok
        · exact ok
    simp only [step, dispatchReadyStep]
    split
    · exact hj
    · split
      · exact abortOK_pollTask hr _
      · exact hr
  | suppress b => exact hj
  | dispose => exact hj
  | eager b => exact hj
  | hook tr b i => cases tr <;> exact hj
  | abort k =>
    apply abortOK_modify hj
    intro t ht ok
    have tok := hi.tasksOK t (mem_of_getElem? ht)
    split
    · split
      · intro ha
        obtain ⟨a, _⟩ := ok ha
        exact ⟨a, fun hd => by simp_all⟩
      · next hd =>
        intro _
        have hrun := unfinished_of_live tok (by simpa using hd)
        exact ⟨by simp [Task.completed, hrun], fun _ => rfl⟩
    · exact ok
  | dropHandle k =>
    apply abortOK_modify hj
    intro t _ ok
    split
    · next harm =>
      split
      · intro ha
        obtain ⟨a, _⟩ := ok ha
        exact ⟨a, fun hd => by simp_all⟩
      · next hd =>
        intro ha
        obtain ⟨_, b⟩ := ok ha
        have := b (by simpa using hd)
        rw [harm] at this; cases this
    · exact ok
  | ready k v =>
    apply abortOK_modify hj
    intro t _ ok
    split
    · exact ok
    · split
      · exact ok
      · exact ok
  | clear =>
    simp only [step, clearStep]
    split
    · exact hj
    · exact abortOK_fireValue (s := { s with value := _, log := _ }) hj
  | poll j =>
    show ∀ t ∈ (match (readyList s)[j % (readyList s).length]? with
      | none => s
      | some id => Action.pollTask s id).tasks, AbortOK t
    split
    · exact hj
    · exact abortOK_pollTask hj _

theorem abortOK_run {s : State} (hi : Inv s) (hj : ∀ t ∈ s.tasks, AbortOK t) (evs : List Event) :
    ∀ t ∈ (run s evs).tasks, AbortOK t := by
  induction evs generalizing s with
  | nil => exact hj
  | cons e es ih => exact ih (hi.step e) (abortOK_step hi hj e)

/-- **abort before ready never writes** (FULL, about the repaired code): on every history and
schedule, a dispatch whose `abort()` was called while its future was still pending never writes
`value`/`version`, whatever happens afterwards (in particular when its future becomes ready before
the task is polled): it is never completed and the write log has no entry for it -/
theorem C17_abort_before_ready_never_writes (v0 : Option Val) (evs : List Event) :
    abortRaceLost (run (init v0) evs) = false ∧
    ∀ (k : Nat) (t : Task), (run (init v0) evs).tasks[k]? = some t → t.abortFirst = true →
      (∀ v, t.outcome ≠ .completed v) ∧ ∀ v, Write.completed k v ∉ (run (init v0) evs).log := by
  have hj := abortOK_run (Inv.init v0) (by simp [Action.init]) evs
  have hi := inv_run v0 evs
  constructor
  · simp only [abortRaceLost, Bool.eq_false_iff, ne_eq, List.any_eq_true, not_exists, not_and]
    intro t ht hc
    simp only [Bool.and_eq_true] at hc
    have := (hj t ht hc.1).1
    simp [this] at hc
  · intro k t hk ha
    have hc := (hj t (mem_of_getElem? hk) ha).1
    have hne : ∀ v, t.outcome ≠ .completed v := by
      intro v hv; simp [Task.completed, hv] at hc
    refine ⟨hne, fun v hm => ?_⟩
    obtain ⟨t', ht', ho⟩ := hi.logSound k v hm
    rw [hk] at ht'; cases ht'
    exact hne v ho

/-- … and any abort that is visible when the task is polled wins, also one that came after the
result: a live task whose channel is fired is finished by the abort arm at its next poll -/
theorem C17_visible_abort_wins (s : State) (id : Nat) (t : Task) (ht : s.tasks[id]? = some t)
    (hd : t.done = false) (hc : t.chan = .fired) : pollTask s id = abortArm s id := by
  simp [Action.pollTask, ht, hd, hc]

/-- what sets `abortFirst`: `abort k` on a live task whose handle is still armed and whose future is
still pending (and it fires the channel) -/
theorem C17_abortFirst_meaning (s : State) (k : Nat) (t : Task) (ht : s.tasks[k]? = some t)
    (harm : t.chan = .armed) (hd : t.done = false) (hf : t.fut = .pending) :
    ∃ t', (step s (.abort k)).tasks[k]? = some t' ∧ t'.abortFirst = true ∧ t'.chan = .fired ∧ t'.woken = true := by
  simp only [step, abortStep, getElem?_modifyAt, if_true, ht, Option.map_some]
  exact ⟨_, rfl, by simp [harm, hd, hf]⟩

/-! ## multi-action -/

theorem countP_map_congr {α : Type} (p : α → Bool) (g : α → α) (l : List α) (h : ∀ t, p (g t) = p t) :
    countP p (l.map g) = countP p l := by
  induction l with
  | nil => rfl
  | cons a as ih => simp [countP, ih, h]

theorem getElem?_append_single {α : Type} {l : List α} {a t : α} {j : Nat}
    (h : (l ++ [a])[j]? = some t) : (j < l.length ∧ l[j]? = some t) ∨ (j = l.length ∧ t = a) := by
  by_cases hj : j < l.length
  · rw [List.getElem?_append_left hj] at h; exact .inl ⟨hj, h⟩
  · have hj' : l.length ≤ j := by omega
    rw [List.getElem?_append_right hj'] at h
    cases hd : j - l.length with
    | zero => rw [hd] at h; simp at h; exact .inr ⟨by omega, h.symm⟩
    | succ n => rw [hd] at h; simp at h

namespace M

structure Inv (s : State) : Prop where
  version : s.version = s.nsync + countP (·.done) s.tasks
  count : s.subs.length = s.tasks.length + s.nsync
  inRange : ∀ (j : Nat) (t : Task), s.tasks[j]? = some t → t.sub < s.subs.length
  distinct : ∀ (i j : Nat) (ti tj : Task), s.tasks[i]? = some ti → s.tasks[j]? = some tj → ti.sub = tj.sub → i = j
  recs : ∀ (j : Nat) (t : Task), s.tasks[j]? = some t → ∃ r, s.subs[t.sub]? = some r ∧ specSub t r = true

theorem Inv.init : Inv init := by
  constructor <;> simp [M.init, countP]

theorem Inv.dispatchCore {s : State} (h : Inv s) (i : Val) : Inv (dispatchCore s i) := by
  constructor
  · simp [M.dispatchCore, countP_append, countP, h.version]
  · simp [M.dispatchCore, h.count]; omega
  · intro j t ht
    simp only [M.dispatchCore, List.length_append, List.length_singleton] at ht ⊢
    rcases getElem?_append_single ht with ⟨_, ht⟩ | ⟨_, rfl⟩
    · have := h.inRange j t ht; omega
    · simp
  · intro i' j ti tj hi hj hs
    simp only [M.dispatchCore] at hi hj
    rcases getElem?_append_single hi with ⟨_, hi⟩ | ⟨hi1, rfl⟩ <;>
      rcases getElem?_append_single hj with ⟨_, hj⟩ | ⟨hj1, rfl⟩
    · exact h.distinct i' j ti tj hi hj hs
    · have := h.inRange i' ti hi; simp at hs; omega
    · have := h.inRange j tj hj; simp at hs; omega
    · omega
  · intro j t ht
    simp only [M.dispatchCore] at ht ⊢
    rcases getElem?_append_single ht with ⟨_, ht⟩ | ⟨_, rfl⟩
    · obtain ⟨r, hr, hs⟩ := h.recs j t ht
      exact ⟨r, by rw [List.getElem?_append_left (h.inRange j t ht)]; exact hr, hs⟩
    · exact ⟨{ input := some i, value := none, pending := true, canceled := false }, by simp, by simp [specSub]⟩

theorem Inv.dispatchSyncCore {s : State} (h : Inv s) (v : Val) : Inv (dispatchSyncCore s v) := by
  constructor
  · simp [M.dispatchSyncCore, h.version]; omega
  · simp [M.dispatchSyncCore, h.count]; omega
  · intro j t ht
    have := h.inRange j t ht
    simp [M.dispatchSyncCore]; omega
  · exact h.distinct
  · intro j t ht
    obtain ⟨r, hr, hs⟩ := h.recs j t ht
    exact ⟨r, by simp only [M.dispatchSyncCore]; rw [List.getElem?_append_left (h.inRange j t ht)]; exact hr, hs⟩

theorem Inv.dispatchSync {s : State} (h : Inv s) (v : Val) : Inv (dispatchSyncStep s v) := by
  unfold dispatchSyncStep; split
  · exact h
  · exact h.dispatchSyncCore v

theorem Inv.congr {s s' : State} (h : Inv s) (h1 : s'.version = s.version) (h2 : s'.subs = s.subs)
    (h3 : s'.tasks = s.tasks) (h4 : s'.nsync = s.nsync) : Inv s' := by
  constructor
  · rw [h1, h4, h3]; exact h.version
  · rw [h2, h3, h4]; exact h.count
  · rw [h2, h3]; exact h.inRange
  · rw [h3]; exact h.distinct
  · rw [h2, h3]; exact h.recs

theorem Inv.cancel {s : State} (h : Inv s) (k : Nat) : Inv (cancelStep s k) := by
  let g : Task → Task := fun t => if t.sub = k ∧ t.done = false then { t with canceledEarly := true } else t
  have gsub : ∀ t, (g t).sub = t.sub := by intro t; simp only [g]; split <;> rfl
  have gdone : ∀ t, (g t).done = t.done := by intro t; simp only [g]; split <;> rfl
  have hget : ∀ (j : Nat) (t' : Task), (cancelStep s k).tasks[j]? = some t' → ∃ t : Task, s.tasks[j]? = some t ∧ t' = g t := by
    intro j t' ht'
    simp only [cancelStep, List.getElem?_map] at ht'
    cases hj : s.tasks[j]? with
    | none => simp [hj] at ht'
    | some t => simp [hj] at ht'; exact ⟨t, rfl, ht'.symm⟩
  constructor
  · show s.version = s.nsync + countP (·.done) (s.tasks.map g)
    rw [countP_map_congr _ g _ (fun t => by simp [gdone])]; exact h.version
  · simp [cancelStep, length_modifyAt, h.count]
  · intro j t' ht'
    obtain ⟨t, ht, rfl⟩ := hget j t' ht'
    simp only [cancelStep, length_modifyAt, gsub]
    exact h.inRange j t ht
  · intro i j ti tj hi hj hs
    obtain ⟨ti', hi', rfl⟩ := hget i ti hi
    obtain ⟨tj', hj', rfl⟩ := hget j tj hj
    rw [gsub, gsub] at hs
    exact h.distinct i j ti' tj' hi' hj' hs
  · intro j t' ht'
    obtain ⟨t, ht, rfl⟩ := hget j t' ht'
    obtain ⟨r, hr, hs⟩ := h.recs j t ht
    simp only [cancelStep, gsub, getElem?_modifyAt, hr, Option.map_some]
    by_cases hk : t.sub = k
    · refine ⟨r.step .cancel, by simp [hk], ?_⟩
      cases hd : t.done
      · simp [specSub, hd] at hs
        simp [g, hk, hd, specSub, Sub.step, hs]
      · simp [specSub, hd] at hs
        simp only [g, hk, hd]
        simp [specSub, hd, Sub.step, hs]
    · refine ⟨r, by simp [hk], ?_⟩
      simp [g, hk, hs]

theorem Inv.modifyTasks {s : State} (h : Inv s) (f : Task → Task) (k : Nat)
    (hsub : ∀ t, (f t).sub = t.sub) (hdone : ∀ t, (f t).done = t.done)
    (hspec : ∀ t r, s.tasks[k]? = some t → specSub t r = true → specSub (f t) r = true) :
    Inv { s with tasks := modifyAt f s.tasks k } := by
  have hget : ∀ (j : Nat) (t' : Task), (modifyAt f s.tasks k)[j]? = some t' →
      ∃ t : Task, s.tasks[j]? = some t ∧ ((j = k ∧ t' = f t) ∨ (j ≠ k ∧ t' = t)) := by
    intro j t' ht'
    rw [getElem?_modifyAt] at ht'
    by_cases hj : j = k
    · simp only [hj, if_true] at ht'
      cases hk : s.tasks[k]? with
      | none => simp [hk] at ht'
      | some t => simp [hk] at ht'; exact ⟨t, by rw [hj]; exact hk, .inl ⟨hj, ht'.symm⟩⟩
    · simp only [hj, if_false] at ht'
      exact ⟨t', ht', .inr ⟨hj, rfl⟩⟩
  have hsub' : ∀ (j : Nat) (t' : Task), (modifyAt f s.tasks k)[j]? = some t' → ∃ t : Task, s.tasks[j]? = some t ∧ t'.sub = t.sub := by
    intro j t' ht'
    obtain ⟨t, ht, ⟨_, rfl⟩ | ⟨_, rfl⟩⟩ := hget j t' ht'
    · exact ⟨t, ht, hsub t⟩
    · exact ⟨_, ht, rfl⟩
  constructor
  · show s.version = s.nsync + countP (·.done) (modifyAt f s.tasks k)
    rw [countP_modifyAt_congr _ f _ k (fun t => by simp [hdone])]; exact h.version
  · simp [length_modifyAt, h.count]
  · intro j t' ht'
    obtain ⟨t, ht, hs⟩ := hsub' j t' ht'
    rw [hs]; exact h.inRange j t ht
  · intro i j ti tj hi hj hs
    obtain ⟨ti', hi', hsi⟩ := hsub' i ti hi
    obtain ⟨tj', hj', hsj⟩ := hsub' j tj hj
    exact h.distinct i j ti' tj' hi' hj' (by rw [← hsi, ← hsj]; exact hs)
  · intro j t' ht'
    obtain ⟨t, ht, ⟨hj, rfl⟩ | ⟨_, rfl⟩⟩ := hget j t' ht'
    · obtain ⟨r, hr, hs⟩ := h.recs j t ht
      exact ⟨r, by rw [hsub]; exact hr, hspec t r (by rw [← hj]; exact ht) hs⟩
    · exact h.recs j _ ht

theorem Inv.ready {s : State} (h : Inv s) (k : Nat) (v : Val) : Inv (readyStep s k v) := by
  apply h.modifyTasks
  · intro t; split <;> (try split) <;> rfl
  · intro t; split <;> (try split) <;> rfl
  · intro t r _ hs
    split
    · exact hs
    · next hd =>
      split
      · simp [specSub, hd] at hs ⊢; exact hs
      · exact hs

theorem Inv.pollTask {s : State} (h : Inv s) (id : Nat) : Inv (pollTask s id) := by
  unfold M.pollTask
  split
  · exact h
  · next t ht =>
    split
    · exact h
    · next hd =>
      have hd : t.done = false := by simpa using hd
      split
      · next hf =>
        apply h.modifyTasks
        · intro _; rfl
        · intro _; rfl
        · intro t' r ht' hs
          rw [ht] at ht'; cases ht'
          simp [specSub, hd] at hs ⊢; exact hs
      · next v hf =>
        let g : Task → Task := fun t => { t with woken := false, done := true }
        have hget : ∀ (j : Nat) (t' : Task), (modifyAt g s.tasks id)[j]? = some t' →
            (j = id ∧ t' = g t) ∨ (j ≠ id ∧ s.tasks[j]? = some t') := by
          intro j t' ht'
          rw [getElem?_modifyAt] at ht'
          by_cases hj : j = id
          · subst hj; simp [ht] at ht'; exact .inl ⟨rfl, ht'.symm⟩
          · simp [hj] at ht'; exact .inr ⟨hj, ht'⟩
        have hsubs : ∀ (j : Nat) (t' : Task), (modifyAt g s.tasks id)[j]? = some t' → ∃ t0 : Task, s.tasks[j]? = some t0 ∧ t'.sub = t0.sub := by
          intro j t' ht'
          rcases hget j t' ht' with ⟨rfl, rfl⟩ | ⟨_, h2⟩
          · exact ⟨t, ht, rfl⟩
          · exact ⟨t', h2, rfl⟩
        constructor
        · show s.version + 1 = s.nsync + countP (·.done) (modifyAt g s.tasks id)
          have c := countP_modifyAt (·.done) g s.tasks id t ht
          have hg : (g t).done = true := rfl
          simp only [hd, hg] at c
          simp at c
          rw [h.version]; omega
        · simp [length_modifyAt, h.count]
        · intro j t' ht'
          obtain ⟨t0, h0, hs⟩ := hsubs j t' ht'
          simp only [length_modifyAt]
          rw [hs]; exact h.inRange j t0 h0
        · intro i j ti tj hi hj hs
          obtain ⟨ti', hi', hsi⟩ := hsubs i ti hi
          obtain ⟨tj', hj', hsj⟩ := hsubs j tj hj
          exact h.distinct i j ti' tj' hi' hj' (by rw [← hsi, ← hsj]; exact hs)
        · intro j t' ht'
          show ∃ r, (modifyAt (Sub.step · (.resolve v)) s.subs t.sub)[t'.sub]? = some r ∧ _
          rw [getElem?_modifyAt]
          rcases hget j t' ht' with ⟨rfl, rfl⟩ | ⟨hj, h2⟩
          · obtain ⟨r, hr, hs⟩ := h.recs j t ht
            refine ⟨r.step (.resolve v), by simp only [g, if_true, hr, Option.map_some], ?_⟩
            simp [specSub, hd] at hs
            simp [specSub, g, hf, Sub.step, hs]
          · obtain ⟨r, hr, hs⟩ := h.recs j t' h2
            have hne : t'.sub ≠ t.sub := fun he => hj (h.distinct j id t' t h2 ht he)
            exact ⟨r, by simp [hne, hr], hs⟩

theorem Inv.dispatch {s : State} (h : Inv s) (i : Val) : Inv (dispatchStep s i) := by
  unfold dispatchStep; split
  · exact h
  · split
    · exact (h.dispatchCore i).pollTask _
    · exact h.dispatchCore i

theorem Inv.dispatchReady {s : State} (h : Inv s) (i v : Val) : Inv (dispatchReadyStep s i v) := by
  unfold dispatchReadyStep; split
  · exact h
  · show Inv (if s.eager = true then _ else _)
    split
    · exact ((h.dispatchCore i).ready _ v).pollTask _
    · exact (h.dispatchCore i).ready _ v

theorem Inv.step {s : State} (h : Inv s) (e : Event) : Inv (step s e) := by
  cases e with
  | dispatch i => exact h.dispatch i
  | dispatchReady i v => exact h.dispatchReady i v
  | eager b => exact h.congr rfl rfl rfl rfl
  | dispatchSync v => exact h.dispatchSync v
  | cancel k => exact h.cancel k
  | ready k v => exact h.ready k v
  | poll j =>
    show Inv (match (readyList s)[j % (readyList s).length]? with
      | none => s
      | some id => M.pollTask s id)
    split
    · exact h
    · exact h.pollTask _
  | suppress b => exact h.congr rfl rfl rfl rfl
  | dispose => exact h.congr rfl rfl rfl rfl

theorem Inv.run {s : State} (h : Inv s) (evs : List Event) : Inv (run s evs) := by
  induction evs generalizing s with
  | nil => exact h
  | cons e es ih => exact ih (h.step e)

theorem inv_run (evs : List Event) : Inv (run init evs) := Inv.init.run evs

/-- a poll changes no record but the one its task owns -/
theorem pollTask_subs (s : State) (id k : Nat) (h : ∀ t, s.tasks[id]? = some t → t.sub ≠ k) :
    (M.pollTask s id).subs[k]? = s.subs[k]? := by
  unfold M.pollTask
  split
  · rfl
  · next t ht =>
    split
    · rfl
    · split
      · rfl
      · have := h t ht
        simp only [getElem?_modifyAt]
        rw [if_neg (fun e => this e.symm)]

/-- one step changes at most the record it targets, and changes it by the one-record machine `Sub.step` -/
theorem step_subs (s : State) (e : Event) (k : Nat) (r : Sub) (hr : s.subs[k]? = some r) :
    (step s e).subs[k]? = some (match target s e with
      | some (k', ev) => if k' = k then r.step ev else r
      | none => r) := by
  have hk : k < s.subs.length := (List.getElem?_eq_some_iff.mp hr).1
  cases e with
  | dispatch i =>
    simp only [step, dispatchStep, target]
    split
    · exact hr
    · have hc : (M.dispatchCore s i).subs[k]? = some r := by
        simp only [M.dispatchCore]; rw [List.getElem?_append_left hk]; exact hr
      split
      · rw [pollTask_subs _ _ _ (fun t ht => by
          simp [M.dispatchCore] at ht; subst ht; simp; omega)]
        exact hc
      · exact hc
  | dispatchReady i v =>
    simp only [step, dispatchReadyStep, target]
    split
    · exact hr
    · have hc : (readyStep (M.dispatchCore s i) s.tasks.length v).subs[k]? = some r := by
        simp only [M.readyStep, M.dispatchCore]; rw [List.getElem?_append_left hk]; exact hr
      split
      · rw [pollTask_subs _ _ _ (fun t ht => by
          simp [M.readyStep, M.dispatchCore, getElem?_modifyAt] at ht; subst ht; simp; omega)]
        exact hc
      · exact hc
  | eager b => exact hr
  | dispatchSync v =>
    simp only [step, dispatchSyncStep, target]
    split
    · exact hr
    · simp only [M.dispatchSyncCore]; rw [List.getElem?_append_left hk]; exact hr
  | suppress b => exact hr
  | dispose => exact hr
  | cancel k' =>
    simp only [step, cancelStep, target, getElem?_modifyAt, hr, Option.map_some]
    by_cases h : k = k'
    · subst h; simp
    · have : ¬ k' = k := fun h' => h h'.symm
      simp [h, this]
  | ready k' v => simp only [step, readyStep, target]; exact hr
  | poll j =>
    simp only [step, pollStep, target]
    split
    · exact hr
    · next id _ =>
      unfold M.pollTask
      split
      · exact hr
      · next t _ =>
        split
        · exact hr
        · split
          · exact hr
          · next v _ =>
            simp only [getElem?_modifyAt, hr, Option.map_some]
            by_cases h : k = t.sub
            · subst h; simp
            · have : ¬ t.sub = k := fun h' => h h'.symm
              simp [h, this]

end M

/-- **multi-action: one independent record per dispatch.** After any history, an event changes only
the submission record it targets (`cancel s` ↦ `s`; a poll that sees task `t`'s result ↦ `t`'s own
record; `dispatch`/`dispatch_sync` only append) and changes it by the stand-alone one-record
machine `Sub.step` — no record ever depends on another dispatch -/
theorem C17_multi_independent (evs : List M.Event) (e : M.Event) (k : Nat) (r : M.Sub)
    (hr : (M.run M.init evs).subs[k]? = some r) :
    (M.step (M.run M.init evs) e).subs[k]? = some (match M.target (M.run M.init evs) e with
      | some (k', ev) => if k' = k then r.step ev else r
      | none => r) :=
  M.step_subs _ e k r hr

/-- closed form of every record, for all histories: the record of an unfinished dispatch shows its input,
no value, pending, and `canceled` iff `cancel` was called; the record of a finished one has no input,
is not pending, and holds the value its own future produced unless it was canceled before that;
distinct dispatches own distinct records; there is exactly one record per dispatch / `dispatch_sync` -/
theorem C17_multi_records (evs : List M.Event) :
    let s := M.run M.init evs
    (∀ (j : Nat) (t : M.Task), s.tasks[j]? = some t → ∃ r, s.subs[t.sub]? = some r ∧
      (t.done = false → r = { input := some t.input, value := none, pending := true, canceled := t.canceledEarly }) ∧
      (t.done = true → ∃ v, t.fut = .ready v ∧ r.input = none ∧ r.pending = false ∧
        r.value = if t.canceledEarly then none else some v)) ∧
    (∀ (i j : Nat) (ti tj : M.Task), s.tasks[i]? = some ti → s.tasks[j]? = some tj → ti.sub = tj.sub → i = j) ∧
    s.subs.length = s.tasks.length + s.nsync := by
  intro s
  have h := M.inv_run evs
  refine ⟨?_, h.distinct, h.count⟩
  intro j t ht
  obtain ⟨r, hr, hs⟩ := h.recs j t ht
  refine ⟨r, hr, ?_, ?_⟩
  · intro hd
    simp [M.specSub, hd] at hs
    obtain ⟨⟨⟨a, b⟩, c⟩, d⟩ := hs
    cases r; simp_all
  · intro hd
    simp only [M.specSub, hd, if_true] at hs
    cases hf : t.fut with
    | pending => simp [hf] at hs
    | ready v =>
      simp [hf] at hs
      exact ⟨v, rfl, hs.1.1.1, hs.1.1.2, hs.2⟩

/-- multi-action version = resolved dispatches (canceled ones included, as in the code) + `dispatch_sync` calls -/
theorem C17_multi_version (evs : List M.Event) :
    (M.run M.init evs).version = (M.run M.init evs).nsync + countP (·.done) (M.run M.init evs).tasks :=
  (M.inv_run evs).version

/-! ## suppression and disposal

The property theorems above are over ALL event lists of the extended event type, so they already
cover histories in which resource loading is suppressed for a while and histories in which the arena
handle is disposed while dispatches are in flight: the tasks run on, `pending`/`version`/`value`/`input`
(read through signals obtained before the disposal) keep following the dispatch history, an aborted
dispatch still never writes. What is specific to the two new events: -/

/-- while `is_suppressing_resource_load()` a dispatch does nothing at all -/
theorem C17_suppressed_dispatch_noop (s : State) (i : Val) (h : s.suppress = true) :
    step s (.dispatch i) = s := by
  simp [step, dispatchStep, h]

/-- through a disposed handle neither `dispatch` (it panics before touching the action) nor `clear`
(`try_with_value`) changes anything -/
theorem C17_disposed_handle_inert (s : State) (h : s.disposed = true) :
    (∀ i, step s (.dispatch i) = s) ∧ step s .clear = s := by
  simp [step, dispatchStep, clearStep, h]

/-- disposal itself changes nothing the property observes -/
theorem C17_dispose_transparent (s : State) :
    step s .dispose = { s with disposed := true } := rfl

theorem disposed_hookDispatch (s : State) (i : Val) : (hookDispatch s i).disposed = s.disposed := by
  unfold hookDispatch; split
  · rfl
  · split <;> rfl

theorem disposed_fireVersion (s : State) : (fireVersion s).disposed = s.disposed := by
  unfold fireVersion; split
  · rfl
  · split
    · rfl
    · exact disposed_hookDispatch _ _

theorem disposed_fireValue (s : State) : (fireValue s).disposed = s.disposed := by
  unfold fireValue; split
  · rfl
  · split
    · rfl
    · exact disposed_hookDispatch _ _

/-- the harness's observers do not dispatch through a disposed handle -/
theorem tasks_fireVersion (s : State) (h : s.disposed = true) : (fireVersion s).tasks = s.tasks := by
  simp [fireVersion, h]

theorem tasks_fireValue (s : State) (h : s.disposed = true) : (fireValue s).tasks = s.tasks := by
  simp [fireValue, h]

theorem disposed_clearInputIfIdle (s : State) : (clearInputIfIdle s).disposed = s.disposed := by
  unfold clearInputIfIdle; split <;> rfl

theorem tasks_clearInputIfIdle (s : State) : (clearInputIfIdle s).tasks = s.tasks := by
  unfold clearInputIfIdle; split <;> rfl

theorem disposed_futArm (s : State) (id : Nat) (t : Task) (v : Val) (h : s.disposed = true) :
    (futArm s id t v).disposed = true ∧ (futArm s id t v).tasks.length = s.tasks.length := by
  simp only [futArm]
  split
  · have h2 : (fireVersion ({ s with
        inFlight := s.inFlight - 1
        tasks := modifyAt (fun t : Task => { t with woken := false, done := true, outcome := .completed v }) s.tasks id
        version := s.version + 1 } : State)).disposed = true := by
      rw [disposed_fireVersion]; exact h
    constructor
    · rw [disposed_clearInputIfIdle, disposed_fireValue]; exact h2
    · rw [tasks_clearInputIfIdle, tasks_fireValue _ (by exact h2)]
      show (fireVersion _).tasks.length = _
      rw [tasks_fireVersion _ (by exact h)]
      exact length_modifyAt _ _ _
  · exact ⟨by rw [disposed_clearInputIfIdle]; exact h, by rw [tasks_clearInputIfIdle]; exact length_modifyAt _ _ _⟩

theorem disposed_pollTask (s : State) (id : Nat) (h : s.disposed = true) :
    (Action.pollTask s id).disposed = true ∧ (Action.pollTask s id).tasks.length = s.tasks.length := by
  unfold Action.pollTask
  split
  · exact ⟨h, rfl⟩
  · split
    · exact ⟨h, rfl⟩
    · split
      · simp only [Action.abortArm]
        exact ⟨by rw [disposed_clearInputIfIdle]; exact h, by rw [tasks_clearInputIfIdle]; exact length_modifyAt _ _ _⟩
      · split
        · exact disposed_futArm s id _ _ h
        · exact ⟨h, length_modifyAt _ _ _⟩

theorem disposed_step (s : State) (e : Event) (h : s.disposed = true) :
    (step s e).disposed = true ∧ (step s e).tasks.length = s.tasks.length := by
  cases e with
  | dispatch i => simp [step, dispatchStep, h]
  | dispatchReady i v => simp [step, dispatchReadyStep, h]
  | abort k => exact ⟨h, length_modifyAt _ _ _⟩
  | dropHandle k => exact ⟨h, length_modifyAt _ _ _⟩
  | ready k v => exact ⟨h, length_modifyAt _ _ _⟩
  | clear => simp [step, clearStep, h]
  | suppress b => exact ⟨h, rfl⟩
  | eager b => exact ⟨h, rfl⟩
  | hook tr b i => cases tr <;> exact ⟨h, rfl⟩
  | dispose => exact ⟨rfl, rfl⟩
  | poll j =>
    show (match (readyList s)[j % (readyList s).length]? with
      | none => s
      | some id => Action.pollTask s id).disposed = true ∧
      (match (readyList s)[j % (readyList s).length]? with
      | none => s
      | some id => Action.pollTask s id).tasks.length = s.tasks.length
    split
    · exact ⟨h, rfl⟩
    · exact disposed_pollTask s _ h

/-- disposal is permanent and no dispatch is ever added afterwards: the set of dispatches the
property talks about is frozen, only their outcomes still change -/
theorem C17_disposed_no_new_dispatch (s : State) (evs : List Event) (h : s.disposed = true) :
    (run s evs).disposed = true ∧ (run s evs).tasks.length = s.tasks.length := by
  induction evs generalizing s with
  | nil => exact ⟨h, rfl⟩
  | cons e es ih =>
    obtain ⟨h1, h2⟩ := disposed_step s e h
    obtain ⟨h3, h4⟩ := ih (step s e) h1
    exact ⟨h3, by rw [run_cons, h4, h2]⟩

/-- multi-action: a suppressed `dispatch` and anything through a disposed handle adds no submission
(`dispatch_sync` is not subject to suppression) -/
theorem C17_multi_suppressed_disposed_noop (s : M.State) :
    (s.suppress = true → ∀ i, M.step s (.dispatch i) = s) ∧
    (s.disposed = true → (∀ i, M.step s (.dispatch i) = s) ∧ ∀ v, M.step s (.dispatchSync v) = s) := by
  refine ⟨fun h i => ?_, fun h => ⟨fun i => ?_, fun v => ?_⟩⟩ <;>
    simp [M.step, M.dispatchStep, M.dispatchSyncStep, h]

/-! ## eager executor, futures ready at first poll, re-entrant dispatch

All theorems above are over the extended event type (`eager`, `dispatchReady`, `hook`), so they hold
under both executors, for futures that are resolved before their first poll, and for histories in
which a synchronous observer of `version` / `value` dispatches again from INSIDE the completion step
(or inside `clear`). The next statements make the two new mechanisms explicit. -/

/-- the completion step is atomic with respect to `in_flight` (one `update` before the observers
run): an observer of `version` that dispatches from inside it sees the decremented counter, so
afterwards the counter counts exactly the re-dispatched task in place of the finished one, the
version is bumped, the value written, and the input is the re-dispatch's (not cleared by the tail) -/
theorem C17_reentrant_dispatch_in_completion (s : State) (id : Nat) (t : Task) (v : Val) (n : Nat)
    (hl : s.dispatched ≤ t.curVersion) (hd : s.disposed = false) (hs : s.suppress = false)
    (he : s.eager = false) (hb : s.hookVersion.budget = n + 1) (hv : s.hookValue.budget = 0)
    (hpos : 0 < s.inFlight) :
    let s' := futArm s id t v
    s'.inFlight = s.inFlight ∧ s'.version = s.version + 1 ∧ s'.value = some v ∧
    s'.input = some s.hookVersion.input ∧ s'.tasks.length = s.tasks.length + 1 ∧
    s'.hookVersion.budget = n := by
  have hl' : decide (s.dispatched ≤ t.curVersion) = true := by simpa using hl
  simp only [futArm, hl', if_true]
  simp [fireVersion, fireValue, hookDispatch, dispatchCore, clearInputIfIdle, hd, hs, he, hb, hv,
    length_modifyAt]
  omega

/-- under the eager executor a dispatch whose future is already resolved is complete when
`dispatch()` returns: nothing is pending, the version is bumped, the value written, the input cleared -/
theorem C17_eager_ready_dispatch (s : State) (i v : Val) (h : Inv s)
    (hd : s.disposed = false) (hs : s.suppress = false) (he : s.eager = true)
    (hb : s.hookVersion.budget = 0) (hv : s.hookValue.budget = 0) (h0 : s.inFlight = 0) :
    let s' := step s (.dispatchReady i v)
    s'.pending = false ∧ s'.version = s.version + 1 ∧ s'.value = some v ∧ s'.input = none := by
  have hl : decide (s.dispatched ≤ s.dispatched) = true := by simp
  simp [step, dispatchReadyStep, hd, hs, he, Action.pollTask, readyStep, dispatchCore, getElem?_modifyAt,
    futArm, fireVersion, fireValue, hb, hv, clearInputIfIdle, h0, State.pending]

/-! ## the driver's `idle` op is a list of poll events (so every theorem applies to driver states) -/

theorem runIdle_is_run (n : Nat) (s : State) : ∃ evs, runIdle n s = run s evs := by
  induction n generalizing s with
  | zero => exact ⟨[], rfl⟩
  | succ n ih =>
    simp only [runIdle]
    split
    · exact ⟨[], rfl⟩
    · obtain ⟨evs, h⟩ := ih (pollStep s 0)
      exact ⟨.poll 0 :: evs, h⟩

theorem M.runIdle_is_run (n : Nat) (s : M.State) : ∃ evs, M.runIdle n s = M.run s evs := by
  induction n generalizing s with
  | zero => exact ⟨[], rfl⟩
  | succ n ih =>
    simp only [M.runIdle]
    split
    · exact ⟨[], rfl⟩
    · obtain ⟨evs, h⟩ := ih (M.pollStep s 0)
      exact ⟨.poll 0 :: evs, h⟩

/-! ## regression: what the code did before the repair (F-C17-1) -/

/-- the old code with the shuffle putting the abort arm first is the repaired code -/
theorem pollTaskOld_abort_first (s : State) (id : Nat) : pollTaskOld s id false = pollTask s id := by
  unfold pollTaskOld Action.pollTask
  split
  · rfl
  · next t _ =>
    split
    · rfl
    · by_cases hc : t.chan = .fired
      · cases hf : t.fut <;> simp [hc]
      · cases hf : t.fut <;> simp [hc]

theorem stepOld_abort_first (s : State) (e : Event) : stepOld s e false = step s e := by
  cases e with
  | poll j =>
    show pollStepOld s j false = pollStep s j
    unfold pollStepOld pollStep
    simp only [pollTaskOld_abort_first]
  | _ => rfl

/-- F-C17-1 (repaired): `dispatch; abort 0; ready 0 7; poll` — with the unbiased `select!` looking at
the future first the old code wrote value 7 and bumped the version although the abort was requested
first; the repaired code discards the late result -/
theorem C17_abort_race_witness :
    let old := runOld (init none) [(.dispatch 1, false), (.abort 0, false), (.ready 0 7, false), (.poll 0, true)]
    let new := run (init none) [.dispatch 1, .abort 0, .ready 0 7, .poll 0]
    (abortRaceLost old = true ∧ old.value = some 7 ∧ old.version = 1 ∧ old.pending = false) ∧
    (abortRaceLost new = false ∧ new.value = none ∧ new.version = 0 ∧ new.pending = false) := by
  decide

/-- the full statement was false of the old code -/
theorem C17_abort_before_ready_never_writes_old_false :
    ¬ ∀ (v0 : Option Val) (evs : List (Event × Bool)), abortRaceLost (runOld (init v0) evs) = false := by
  intro h
  have := h none [(.dispatch 1, false), (.abort 0, false), (.ready 0 7, false), (.poll 0, true)]
  revert this; decide

/-! ## non-vacuity -/

/-- three overlapping dispatches, all parked, the middle one aborted, the others completing out of order -/
def exHistory : List Event :=
  [.dispatch 10, .dispatch 11, .dispatch 12, .poll 0, .poll 0, .poll 0,
   .abort 1, .ready 2 102, .poll 0, .poll 0]

example :
    let s := run (init none) exHistory
    s.pending = true ∧ s.version = 1 ∧ s.value = some 102 ∧ s.input = some 12 ∧ s.idle = true ∧
    s.tasks.map (·.outcome) = [.running, .aborted, .completed 102] ∧ s.log = [.completed 2 102] := by
  decide

example :
    let s := run (init none) (exHistory ++ [.ready 0 100, .clear, .poll 0])
    s.pending = false ∧ s.version = 2 ∧ s.value = some 100 ∧ s.input = none ∧ s.idle = true ∧
    s.log = [.completed 2 102, .cleared, .completed 0 100] := by
  decide

/-- the hypothesis `abortFirst` of `C17_abort_before_ready_never_writes` is reachable, also together
with a result that arrives before the poll: the late result is discarded -/
example :
    let s := run (init none) [.dispatch 1, .abort 0, .ready 0 7, .poll 0]
    s.tasks.map (·.abortFirst) = [true] ∧ s.tasks.map (·.outcome) = [.aborted] ∧
    s.value = none ∧ s.version = 0 ∧ s.pending = false := by decide

/-- an abort that arrives after the result but before the poll also wins (not `abortFirst`) … -/
example :
    let s := run (init (some 5)) [.dispatch 1, .ready 0 7, .abort 0, .poll 0]
    s.tasks.map (·.abortFirst) = [false] ∧ s.value = some 5 ∧ s.version = 0 ∧ s.pending = false := by decide

/-- … while a result that was already written stays written when `abort()` comes later -/
example :
    let s := run (init (some 5)) [.dispatch 1, .ready 0 7, .poll 0, .abort 0, .poll 0]
    s.value = some 7 ∧ s.version = 1 ∧ s.pending = false := by decide

/-- a dropped handle disables the abort arm: the dispatch completes normally -/
example :
    let s := run (init none) [.dispatch 1, .dropHandle 0, .abort 0, .poll 0, .ready 0 7, .poll 0]
    s.value = some 7 ∧ s.version = 1 ∧ s.pending = false := by decide

/-- the handle is disposed while two dispatches are in flight: both are still accounted for, a late
`dispatch`/`clear` through the dead handle changes nothing -/
example :
    let s := run (init none) [.dispatch 10, .dispatch 11, .poll 0, .poll 0, .dispose, .ready 0 100, .poll 0,
      .dispatch 12, .clear]
    s.pending = true ∧ s.version = 1 ∧ s.value = some 100 ∧ s.input = some 11 ∧ s.tasks.length = 2 ∧
    s.disposed = true := by decide

example :
    let s := run (init none) [.dispatch 10, .dispatch 11, .poll 0, .poll 0, .dispose, .ready 0 100, .poll 0,
      .abort 1, .ready 1 101, .poll 0]
    s.pending = false ∧ s.version = 1 ∧ s.value = some 100 ∧ s.input = none ∧
    s.tasks.map (·.outcome) = [.completed 100, .aborted] := by decide

/-- suppression: only the dispatches made while it is off exist -/
example :
    let s := run (init (some 5)) [.suppress true, .dispatch 10, .suppress false, .dispatch 11, .suppress true,
      .ready 0 100, .poll 0]
    s.tasks.length = 1 ∧ s.version = 1 ∧ s.value = some 100 ∧ s.pending = false := by decide

example :
    let s := M.run M.init [.dispatch 10, .suppress true, .dispatch 11, .dispatchSync 77, .suppress false, .dispose,
      .dispatch 12, .dispatchSync 78, .ready 0 100, .poll 0]
    s.version = 2 ∧ s.subs = [⟨none, some 100, false, false⟩, ⟨none, some 77, false, false⟩] := by decide

/-- a retry pattern: an observer of `version` re-dispatches (twice) from inside the completion step -/
example :
    let s := run (init none) [.hook .version 2 9, .dispatch 1, .poll 0, .ready 0 5, .poll 0]
    s.pending = true ∧ s.version = 1 ∧ s.value = some 5 ∧ s.input = some 9 ∧ s.tasks.length = 2 ∧
    s.hookVersion.budget = 1 ∧ s.inFlight = 1 := by decide

example :
    let s := run (init none) [.hook .version 2 9, .dispatch 1, .ready 0 5, .poll 0, .ready 1 6, .poll 0,
      .ready 2 7, .poll 0]
    s.pending = false ∧ s.version = 3 ∧ s.value = some 7 ∧ s.input = none ∧ s.tasks.length = 3 ∧
    s.hookVersion.budget = 0 := by decide

/-- an observer of `value` also fires on `clear` -/
example :
    let s := run (init (some 4)) [.hook .value 1 8, .clear]
    s.pending = true ∧ s.value = none ∧ s.input = some 8 ∧ s.tasks.length = 1 := by decide

/-- eager executor: a resolved future completes inside `dispatch`; a pending one is parked by it -/
example :
    let s := run (init none) [.eager true, .dispatchReady 3 7, .dispatch 4]
    s.version = 1 ∧ s.value = some 7 ∧ s.pending = true ∧ s.input = some 4 ∧
    s.tasks.map (·.done) = [true, false] ∧ s.idle = true := by decide

/-- eager executor and re-entrant dispatch together -/
example :
    let s := run (init none) [.eager true, .hook .value 1 8, .dispatchReady 3 7]
    s.version = 1 ∧ s.value = some 7 ∧ s.pending = true ∧ s.input = some 8 ∧ s.tasks.length = 2 ∧
    s.idle = true := by decide

example :
    let s := M.run M.init [.eager true, .dispatchReady 3 7, .dispatch 4]
    s.version = 1 ∧ s.subs = [⟨none, some 7, false, false⟩, ⟨some 4, none, true, false⟩] ∧ s.idle = true := by
  decide

/-- multi-action: three overlapping submissions, one canceled before it resolves, one `dispatch_sync` -/
example :
    let s := M.run M.init [.dispatch 10, .dispatch 11, .dispatchSync 77, .dispatch 12, .cancel 1,
      .ready 1 101, .ready 2 102, .poll 1, .poll 1]
    s.version = 3 ∧ s.subs = [⟨some 10, none, true, false⟩, ⟨none, none, false, true⟩,
      ⟨none, some 77, false, false⟩, ⟨none, some 102, false, false⟩] := by
  decide

end Leptos.Action
