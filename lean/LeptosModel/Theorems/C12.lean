import LeptosModel.Model.Transfer
import LeptosModel.Gen.Transfer
import LeptosModel.Gen.Base64
/-!
# C12 — data handed from server to client arrives intact and inert

Property theorems about `Model/Transfer` — the code **after** the repair of F-C12-1/2/3 (helper
`js_string`); the printers before the repair are kept as `…Old` with the three witnesses as
regression theorems.  `p g : Nat → Bool` are the two Unicode
tables of rustc (`is_printable`, `Grapheme_Extend`); every theorem that mentions them
holds for **every** instantiation.  `Scalar s` is the invariant of a Rust `String`.
-/
namespace Leptos.Transfer

/-- every element is a Unicode scalar value -/
def Scalar (s : Str) : Prop := ∀ c ∈ s, c < 1114112 ∧ ¬ (55296 ≤ c ∧ c ≤ 57343)

/-- the instantiation used by the refutation witnesses: printable = ASCII 0x20–0x7E -/
def asciiPrintable (c : Nat) : Bool := 32 ≤ c && c ≤ 126
def noExtend (_ : Nat) : Bool := false

/-! ## A. round trip `{:?}` → JavaScript string literal -/

theorem scalar_tail {c : Nat} {cs : Str} (h : Scalar (c :: cs)) : Scalar cs :=
  fun x hx => h x (List.mem_cons_of_mem _ hx)

theorem jsStrBody_skip (l T : Str) : jsStrBody l.length (l ++ T) = jsStrBody 0 T := by
  induction l with
  | nil => rfl
  | cons c cs ih => simpa [jsStrBody] using ih

theorem jsStrBody_backslash (X : Str) :
    jsStrBody 0 (92 :: X) =
      match jsEscape X with
      | none => none
      | some (out, k) =>
        match jsStrBody k X with
        | some (s, r) => some (out ++ s, r)
        | none => none := by
  simp only [jsStrBody, show (92 : Nat) ≠ 34 by decide,
    show ¬ ((92 : Nat) = 10 ∨ (92 : Nat) = 13) by decide, if_false, if_true]
  rfl

theorem hexVal_hexLo : ∀ d, d < 16 → hexVal (hexLo d) = some d := by decide

theorem hexLo_ne_125 : ∀ d, d < 16 → hexLo d ≠ 125 := by decide

theorem hexRun_digits (ds : List Nat) (hd : ∀ d ∈ ds, d < 16) (T : Str) :
    ∀ acc n, hexRun (ds.map hexLo ++ 125 :: T) acc n
      = some (ds.foldl (fun a d => a * 16 + d) acc, n + ds.length) := by
  induction ds with
  | nil => intro acc n; simp [hexRun]
  | cons d ds ih =>
    intro acc n
    have h1 : d < 16 := hd d (by simp)
    have h2 : hexLo d ≠ 125 := hexLo_ne_125 d h1
    have h3 := hexVal_hexLo d h1
    simp only [List.map_cons, List.cons_append, hexRun, h2, if_false, h3, List.foldl_cons,
      List.length_cons]
    rw [ih (fun x hx => hd x (by simp [hx]))]
    congr 2; omega

theorem foldl_dropZeros (l : List Nat) :
    (dropZeros l).foldl (fun a d => a * 16 + d) 0 = l.foldl (fun a d => a * 16 + d) 0 := by
  induction l with
  | nil => rfl
  | cons d ds ih =>
    unfold dropZeros
    split
    · next h => subst h; simpa using ih
    · rfl

theorem mem_dropZeros {x : Nat} {l : List Nat} (h : x ∈ dropZeros l) : x ∈ l := by
  induction l with
  | nil => simp [dropZeros] at h
  | cons d ds ih =>
    unfold dropZeros at h
    split at h
    · exact List.mem_cons_of_mem _ (ih h)
    · exact h

/-- the hex digits (as numbers) that `hexDigits6` prints -/
def hexNums (c : Nat) : List Nat :=
  dropZeros [c / 1048576 % 16, c / 65536 % 16, c / 4096 % 16, c / 256 % 16, c / 16 % 16] ++ [c % 16]

theorem hexDigits6_eq (c : Nat) : hexDigits6 c = (hexNums c).map hexLo := rfl

theorem hexNums_lt (c : Nat) : ∀ d ∈ hexNums c, d < 16 := by
  intro d hd
  simp only [hexNums, List.mem_append, List.mem_singleton] at hd
  rcases hd with hd | hd
  · have := mem_dropZeros hd
    simp only [List.mem_cons, List.not_mem_nil, or_false] at this
    omega
  · omega

theorem hexNums_value (c : Nat) (hc : c < 16777216) :
    (hexNums c).foldl (fun a d => a * 16 + d) 0 = c := by
  simp only [hexNums, List.foldl_append, foldl_dropZeros, List.foldl_cons, List.foldl_nil]
  omega

theorem hexNums_length_pos (c : Nat) : 0 < (hexNums c).length := by
  simp [hexNums]

/-- decoding a `\u{…}` escape printed by Rust -/
theorem jsEscape_unicodeEsc (c : Nat) (hc : c < 1114112) (T : Str) :
    jsEscape (117 :: 123 :: (hexDigits6 c ++ 125 :: T)) = some ([c], (hexNums c).length + 3) := by
  have hr := hexRun_digits (hexNums c) (hexNums_lt c) T 0 0
  rw [hexNums_value c (by omega)] at hr
  have hpos := hexNums_length_pos c
  simp only [jsEscape, hexDigits6_eq]
  simp only [hr]
  simp
  omega

/-- first character is not an octal digit -/
def firstNotOct : Str → Prop
  | [] => True
  | x :: _ => isOct x = false

theorem legacyOctal_notOct (a : Nat) (T : Str) (h : firstNotOct T) : legacyOctal a T = (a, 1) := by
  cases T with
  | nil => rfl
  | cons d rest => simp only [firstNotOct] at h; simp [legacyOctal, h]

theorem unicodeEsc_ne_nil (c : Nat) : unicodeEsc c ≠ [] := by simp [unicodeEsc]

theorem firstNotOct_escape (p g : Nat → Bool) (d : Nat) (hd : isOct d = false) (X : Str) :
    firstNotOct (escapeDebugChar p g d ++ X) := by
  unfold escapeDebugChar
  repeat' split
  all_goals first
    | (simp [firstNotOct, unicodeEsc, isOct]; done)
    | (simpa [firstNotOct] using hd)

theorem firstNotOct_body (p g : Nat → Bool) (cs r : Str) (h : headOct cs = false) :
    firstNotOct (debugBody p g cs ++ 34 :: r) := by
  cases cs with
  | nil => simp [debugBody, firstNotOct, isOct]
  | cons d ds =>
    simp only [headOct] at h
    simp only [debugBody, List.append_assoc]
    exact firstNotOct_escape p g d h _

/-- **core lemma**: the JS decoder run on a Rust-escaped body, followed by the closing quote -/
theorem jsStrBody_debugBody (p g : Nat → Bool) (s : Str) (hs : ∀ c ∈ s, c < 1114112)
    (hn : nulOct s = false) (r : Str) :
    jsStrBody 0 (debugBody p g s ++ 34 :: r) = some (s, r) := by
  induction s with
  | nil => simp [debugBody, jsStrBody]
  | cons c cs ih =>
    have hc : c < 1114112 := hs c (by simp)
    have hcs : ∀ x ∈ cs, x < 1114112 := fun x hx => hs x (by simp [hx])
    simp only [nulOct, Bool.or_eq_false_iff] at hn
    have ih' := ih hcs hn.2
    have hu : ∀ T, jsStrBody 0 T = some (cs, r) →
        jsStrBody 0 (unicodeEsc c ++ T) = some (c :: cs, r) := by
      intro T hT
      have hsk := jsStrBody_skip (117 :: 123 :: (hexDigits6 c ++ [125])) T
      have hlen : (117 :: 123 :: (hexDigits6 c ++ [125])).length = (hexNums c).length + 3 := by
        simp [hexDigits6_eq]
      have happ : (117 :: 123 :: (hexDigits6 c ++ [125])) ++ T
          = 117 :: 123 :: (hexDigits6 c ++ 125 :: T) := by simp
      rw [hlen, happ] at hsk
      have hshape : unicodeEsc c ++ T = 92 :: 117 :: 123 :: (hexDigits6 c ++ 125 :: T) := by
        simp [unicodeEsc]
      rw [hshape, jsStrBody_backslash, jsEscape_unicodeEsc c hc T]
      simp only [hsk, hT, List.singleton_append]
    simp only [debugBody, List.append_assoc]
    generalize hT : debugBody p g cs ++ 34 :: r = T at ih'
    unfold escapeDebugChar
    split
    · -- NUL: `\0`, the next character is not an octal digit
      next h0 =>
      subst h0
      have hho : headOct cs = false := by simpa using hn.1
      have hf : firstNotOct T := hT ▸ firstNotOct_body p g cs r hho
      simp [jsStrBody, jsEscape, isOct, legacyOctal_notOct 0 T hf, ih']
    · split
      · next h => subst h; simp [jsStrBody, jsEscape, ih']
      · split
        · next h => subst h; simp [jsStrBody, jsEscape, ih']
        · split
          · next h => subst h; simp [jsStrBody, jsEscape, ih']
          · split
            · next h => subst h; simp [jsStrBody, jsEscape, isOct, ih']
            · split
              · next h => subst h; simp [jsStrBody, jsEscape, isOct, ih']
              · next h0 h9 h13 h10 h92 h34 =>
                split
                · exact hu T ih'
                · split
                  · simp [jsStrBody, h34, h10, h13, h92, ih']
                  · exact hu T ih'

theorem joinGo_noSurr (s : Str) (h : ∀ c ∈ s, ¬ (55296 ≤ c ∧ c ≤ 57343)) : joinGo none s = s := by
  induction s with
  | nil => rfl
  | cons c cs ih =>
    have hc := h c (by simp)
    have : isHiSurr c = false := by
      simp only [isHiSurr, Bool.and_eq_false_iff, decide_eq_false_iff_not]; omega
    simp [joinGo, this, ih (fun x hx => h x (by simp [hx]))]

theorem joinSurr_scalar (s : Str) (h : Scalar s) : joinSurr s = s :=
  joinGo_noSurr s (fun c hc => (h c hc).2)

/-- a Rust `{:?}` literal at the head of any input is read back whole -/
theorem jsStrLit_rustDebugStr (p g : Nat → Bool) (s : Str) (hs : Scalar s)
    (hn : nulOct s = false) (r : Str) :
    jsStrLit (rustDebugStr p g s ++ r) = some (s, r) := by
  have h := jsStrBody_debugBody p g s (fun c hc => (hs c hc).1) hn r
  simp only [rustDebugStr, List.cons_append, List.append_assoc,
    List.nil_append, jsStrLit, if_true, h, joinSurr_scalar s hs]

theorem jsDecode_rustDebugStr (p g : Nat → Bool) (s : Str) (hs : Scalar s)
    (hn : nulOct s = false) :
    jsDecodeStringLiteral (rustDebugStr p g s) = some s := by
  have h := jsStrLit_rustDebugStr p g s hs hn []
  simp only [List.append_nil] at h
  simp [jsDecodeStringLiteral, h]

/-! ### `replace('<', "\\u003c")` -/

theorem scalar_replaceLt (s : Str) (h : Scalar s) : Scalar (replaceLt s) := by
  induction s with
  | nil => exact h
  | cons c cs ih =>
    have hc := h c (by simp)
    have ih' := ih (scalar_tail h)
    unfold replaceLt
    split
    · intro x hx
      simp only [kLtEsc, List.cons_append, List.nil_append, List.mem_cons] at hx
      rcases hx with hx | hx | hx | hx | hx | hx | hx
      all_goals first | (subst hx; omega) | exact ih' x hx
    · intro x hx
      simp only [List.mem_cons] at hx
      rcases hx with hx | hx
      · subst hx; exact hc
      · exact ih' x hx

theorem headOct_replaceLt (s : Str) : headOct (replaceLt s) = headOct s := by
  cases s with
  | nil => rfl
  | cons c cs =>
    unfold replaceLt
    split
    · next h => subst h; simp [kLtEsc, headOct, isOct]
    · rfl

theorem nulOct_replaceLt (s : Str) (h : nulOct s = false) : nulOct (replaceLt s) = false := by
  induction s with
  | nil => rfl
  | cons c cs ih =>
    simp only [nulOct, Bool.or_eq_false_iff] at h
    unfold replaceLt
    split
    · simp [kLtEsc, nulOct, headOct, isOct, ih h.2]
    · simp only [nulOct, Bool.or_eq_false_iff, headOct_replaceLt]
      exact ⟨h.1, ih h.2⟩

theorem replaceLt_noLt (s : Str) (h : hasLt s = false) : replaceLt s = s := by
  induction s with
  | nil => rfl
  | cons c cs ih =>
    simp only [hasLt, List.contains_cons, Bool.or_eq_false_iff, beq_eq_false_iff_ne] at h
    have hc : c ≠ 60 := fun e => h.1 (e ▸ rfl)
    have : hasLt cs = false := by simpa [hasLt] using h.2
    simp [replaceLt, hc, ih this]

/-! ### before the repair (regression): `replace('<', …)` *before* `{:?}`, nothing for errors -/

/-- the full statement about the old data site -/
def C12_old_roundtrip_full : Prop :=
  ∀ (p g : Nat → Bool) (s : Str), Scalar s →
    jsDecodeStringLiteral (emitLitOld p g .asyncData s) = some s

/-- F-C12-1: `"\u{0}1"` is printed as `"\01"`, which sloppy-mode JavaScript reads as U+0001
(legacy octal escape) — for every table that prints `1` as itself, as rustc's does -/
theorem C12_nul_digit_witness (p g : Nat → Bool) (hp : p 49 = true) (hg : g 49 = false) :
    emitLitOld p g .asyncData [0, 49] = [34, 92, 48, 49, 34] ∧
    jsDecodeStringLiteral [34, 92, 48, 49, 34] = some [1] := by
  constructor
  · simp [emitLitOld, siteReplacesLt, replaceLt, rustDebugStr, debugBody, escapeDebugChar, hp, hg]
  · decide

/-- F-C12-3: a `<` in the payload comes back as the six characters `<`: the
replacement text's backslash is itself escaped by `{:?}` -/
theorem C12_lt_witness :
    emitLitOld asciiPrintable noExtend .asyncData [60] = [34, 92, 92, 117, 48, 48, 51, 99, 34] ∧
    jsDecodeStringLiteral [34, 92, 92, 117, 48, 48, 51, 99, 34] = some [92, 117, 48, 48, 51, 99] := by
  decide

theorem C12_old_roundtrip_full_false : ¬ C12_old_roundtrip_full := by
  intro h
  have := h asciiPrintable noExtend [0, 49] (by intro c hc; simp at hc; omega)
  revert this; decide

/-- what the client reads for a data value, in general: the `<`-replaced string -/
theorem C12_old_data_reads_replaced (p g : Nat → Bool) (site : Site) (hsite : siteReplacesLt site = true)
    (s : Str) (hs : Scalar s) (hn : nulOct s = false) :
    jsDecodeStringLiteral (emitLitOld p g site s) = some (replaceLt s) := by
  simp only [emitLitOld, hsite, if_true]
  exact jsDecode_rustDebugStr p g _ (scalar_replaceLt s hs) (nulOct_replaceLt s hn)

/-- the old code's partial theorem: for every payload with no NUL directly followed by an octal digit `0`–`7`
and no `<`, at every site and for every instantiation of the Unicode tables, the
client reads back exactly the string the server wrote.  (The two hypotheses are the
negations of the known-finding classes `nul-octal` and `lt-rewritten`.) -/
theorem C12_old_roundtrip_partial (p g : Nat → Bool) (site : Site) (s : Str) (hs : Scalar s)
    (hn : nulOct s = false) (hl : hasLt s = false) :
    jsDecodeStringLiteral (emitLitOld p g site s) = some s := by
  simp only [emitLitOld, replaceLt_noLt s hl, ite_self]
  exact jsDecode_rustDebugStr p g s hs hn

/-- error messages (no `<` replacement at those sites) only need the NUL hypothesis -/
theorem C12_old_error_roundtrip_partial (p g : Nat → Bool) (site : Site)
    (hsite : siteReplacesLt site = false) (s : Str) (hs : Scalar s) (hn : nulOct s = false) :
    jsDecodeStringLiteral (emitLitOld p g site s) = some s := by
  simp only [emitLitOld, hsite]
  exact jsDecode_rustDebugStr p g s hs hn

/-- the boundary is exact on the JavaScript side: `\08` and `\09` are NUL followed by the digit -/
theorem C12_nul_8_9_fine :
    jsDecodeStringLiteral [34, 92, 48, 56, 92, 48, 57, 34] = some [0, 56, 0, 57] := by decide

/-! non-vacuity of the hypotheses -/
example : Scalar [0, 56, 60, 8232, 128512] ∧ nulOct [0, 56, 60, 8232, 128512] = false := by
  constructor
  · intro c hc; simp at hc; omega
  · decide
example : nulOct [97, 0] = false ∧ hasLt [97, 0] = false := by decide
example : jsDecodeStringLiteral (emitLitOld asciiPrintable noExtend .asyncData [0, 56, 34, 92, 8232, 769])
    = some [0, 56, 34, 92, 8232, 769] := by decide


/-! ### the repaired emission: `js_string` = `{:?}` then a scanner over the formatted text -/

/-- what `js_string` prints for one character (`jsFix` applied to `escape_debug_ext`) -/
def jsEscChar (p g : Nat → Bool) (c : Nat) : Str :=
  if c = 0 then kNulEsc
  else if c = 9 then [92, 116]
  else if c = 13 then [92, 114]
  else if c = 10 then [92, 110]
  else if c = 92 then [92, 92]
  else if c = 34 then [92, 34]
  else if g c then unicodeEsc c
  else if p c then (if c = 60 then kLtEsc else [c])
  else unicodeEsc c

def jsBody (p g : Nat → Bool) : Str → Str
  | [] => []
  | c :: cs => jsEscChar p g c ++ jsBody p g cs

theorem hexLo_ne_lt : ∀ d, d < 16 → hexLo d ≠ 60 := by decide

theorem jsFix_cons_raw (c : Nat) (tl : Str) (h1 : c ≠ 60) (h2 : c ≠ 92) :
    jsFix (c :: tl) = c :: jsFix tl := by
  rw [jsFix.eq_def]; simp [h1, h2]

theorem jsFix_cons_lt (tl : Str) : jsFix (60 :: tl) = kLtEsc ++ jsFix tl := by
  rw [jsFix.eq_def]; simp

theorem jsFix_cons_bs (d : Nat) (rest : Str) :
    jsFix (92 :: d :: rest) = (if d = 48 then kNulEsc else [92, d]) ++ jsFix rest := by
  rw [jsFix.eq_def]; simp

/-- characters the scanner copies -/
theorem jsFix_raw (l : Str) (h : ∀ x ∈ l, x ≠ 60 ∧ x ≠ 92) (T : Str) :
    jsFix (l ++ T) = l ++ jsFix T := by
  induction l with
  | nil => rfl
  | cons c cs ih =>
    have hc := h c (by simp)
    simp [jsFix_cons_raw c _ hc.1 hc.2, ih (fun x hx => h x (by simp [hx]))]

theorem hexLo_ne_bs : ∀ d, d < 16 → hexLo d ≠ 92 := by decide

theorem jsFix_unicodeEsc (c : Nat) (T : Str) : jsFix (unicodeEsc c ++ T) = unicodeEsc c ++ jsFix T := by
  have hraw : ∀ x ∈ 123 :: (hexDigits6 c ++ [125]), x ≠ 60 ∧ x ≠ 92 := by
    intro x hx
    simp only [List.mem_cons, List.mem_append, List.not_mem_nil, or_false] at hx
    rcases hx with hx | hx | hx
    · omega
    · rw [hexDigits6_eq] at hx
      obtain ⟨d, hd, rfl⟩ := List.mem_map.mp hx
      exact ⟨hexLo_ne_lt d (hexNums_lt c d hd), hexLo_ne_bs d (hexNums_lt c d hd)⟩
    · omega
  have := jsFix_raw (123 :: (hexDigits6 c ++ [125])) hraw T
  simp only [unicodeEsc, List.cons_append, jsFix_cons_bs, show (117 : Nat) ≠ 48 by decide, if_false]
  simp only [List.cons_append] at this
  rw [this]
  rfl

theorem jsFix_escape (p g : Nat → Bool) (c : Nat) (T : Str) :
    jsFix (escapeDebugChar p g c ++ T) = jsEscChar p g c ++ jsFix T := by
  unfold escapeDebugChar jsEscChar
  split
  · simp [jsFix_cons_bs]
  · split
    · simp [jsFix_cons_bs]
    · split
      · simp [jsFix_cons_bs]
      · split
        · simp [jsFix_cons_bs]
        · split
          · simp [jsFix_cons_bs]
          · split
            · simp [jsFix_cons_bs]
            · next h0 h9 h13 h10 h92 h34 =>
              split
              · exact jsFix_unicodeEsc c T
              · split
                · by_cases h60 : c = 60
                  · subst h60; simp [jsFix_cons_lt]
                  · simp [jsFix_cons_raw c T h60 h92, h60]
                · exact jsFix_unicodeEsc c T

theorem jsFix_debugBody (p g : Nat → Bool) (s T : Str) :
    jsFix (debugBody p g s ++ T) = jsBody p g s ++ jsFix T := by
  induction s with
  | nil => rfl
  | cons c cs ih =>
    simp only [debugBody, jsBody, List.append_assoc]
    rw [jsFix_escape, ih]

/-- `js_string(s)` is `"` + the per-character output + `"` -/
theorem jsString_eq (p g : Nat → Bool) (s : Str) : jsString p g s = 34 :: (jsBody p g s ++ [34]) := by
  have := jsFix_debugBody p g s [34]
  have h34 : jsFix [34] = [34] := by simp [jsFix]
  rw [jsString, rustDebugStr, jsFix_cons_raw 34 _ (by decide) (by decide), this, h34]

theorem hex4_zero (T : Str) : hex4 (48 :: 48 :: 48 :: 48 :: T) = some 0 := by
  simp [hex4, hexVal]

theorem hex4_lt (T : Str) : hex4 (48 :: 48 :: 51 :: 99 :: T) = some 60 := by
  simp [hex4, hexVal]

/-- **core lemma of the repair**: no hypothesis on the string any more -/
theorem jsStrBody_jsBody (p g : Nat → Bool) (s : Str) (hs : ∀ c ∈ s, c < 1114112) (r : Str) :
    jsStrBody 0 (jsBody p g s ++ 34 :: r) = some (s, r) := by
  induction s with
  | nil => simp [jsBody, jsStrBody]
  | cons c cs ih =>
    have hc : c < 1114112 := hs c (by simp)
    have ih' := ih (fun x hx => hs x (by simp [hx]))
    have hu : ∀ T, jsStrBody 0 T = some (cs, r) →
        jsStrBody 0 (unicodeEsc c ++ T) = some (c :: cs, r) := by
      intro T hT
      have hsk := jsStrBody_skip (117 :: 123 :: (hexDigits6 c ++ [125])) T
      have hlen : (117 :: 123 :: (hexDigits6 c ++ [125])).length = (hexNums c).length + 3 := by
        simp [hexDigits6_eq]
      have happ : (117 :: 123 :: (hexDigits6 c ++ [125])) ++ T
          = 117 :: 123 :: (hexDigits6 c ++ 125 :: T) := by simp
      rw [hlen, happ] at hsk
      have hshape : unicodeEsc c ++ T = 92 :: 117 :: 123 :: (hexDigits6 c ++ 125 :: T) := by
        simp [unicodeEsc]
      rw [hshape, jsStrBody_backslash, jsEscape_unicodeEsc c hc T]
      simp only [hsk, hT, List.singleton_append]
    have h4 : ∀ (a b c' d v : Nat) (T : Str), hex4 (a :: b :: c' :: d :: T) = some v →
        jsStrBody 0 T = some (cs, r) →
        jsStrBody 0 (92 :: 117 :: a :: b :: c' :: d :: T) = some (v :: cs, r) := by
      intro a b c' d v T hh hT
      have hsk := jsStrBody_skip [117, a, b, c', d] T
      simp only [List.length_cons, List.length_nil, List.cons_append, List.nil_append] at hsk
      have ha : a ≠ 123 := by
        intro e; subst e; simp [hex4, hexVal] at hh
      rw [jsStrBody_backslash]
      simp only [jsEscape, show (117 : Nat) ≠ 110 ∧ (117 : Nat) ≠ 114 ∧ (117 : Nat) ≠ 116 by decide]
      simp [ha, hh, hsk, hT]
    simp only [jsBody, List.append_assoc]
    generalize hT : jsBody p g cs ++ 34 :: r = T at ih'
    unfold jsEscChar
    split
    · next h0 => subst h0; exact h4 48 48 48 48 0 T (hex4_zero T) ih'
    · split
      · next h => subst h; simp [jsStrBody, jsEscape, ih']
      · split
        · next h => subst h; simp [jsStrBody, jsEscape, ih']
        · split
          · next h => subst h; simp [jsStrBody, jsEscape, ih']
          · split
            · next h => subst h; simp [jsStrBody, jsEscape, isOct, ih']
            · split
              · next h => subst h; simp [jsStrBody, jsEscape, isOct, ih']
              · next h0 h9 h13 h10 h92 h34 =>
                split
                · exact hu T ih'
                · split
                  · split
                    · next h60 => subst h60; exact h4 48 48 51 99 60 T (hex4_lt T) ih'
                    · simp [jsStrBody, h34, h10, h13, h92, ih']
                  · exact hu T ih'

/-- a `js_string` literal at the head of any input is read back whole -/
theorem jsStrLit_jsString (p g : Nat → Bool) (s : Str) (hs : Scalar s) (r : Str) :
    jsStrLit (jsString p g s ++ r) = some (s, r) := by
  have h := jsStrBody_jsBody p g s (fun c hc => (hs c hc).1) r
  simp only [jsString_eq, List.cons_append, List.append_assoc,
    List.nil_append, jsStrLit, if_true, h, joinSurr_scalar s hs]

/-- **round trip (full)**: for every payload or error-message string (any Unicode scalar values,
including `<`, `</script>`, `<!--`, backslashes, quotes, NUL before digits, U+2028/9), at every
emission site and for every instantiation of rustc's Unicode tables, the JavaScript engine reads the
emitted literal back as exactly the string the server wrote -/
theorem C12_roundtrip (p g : Nat → Bool) (site : Site) (s : Str) (hs : Scalar s) :
    jsDecodeStringLiteral (emitLit p g site s) = some s := by
  have h := jsStrLit_jsString p g s hs []
  simp only [List.append_nil] at h
  simp [jsDecodeStringLiteral, emitLit, h]

/-- the three regression inputs now read back exactly -/
theorem C12_regression_inputs_roundtrip :
    jsDecodeStringLiteral (emitLit asciiPrintable noExtend .asyncData [0, 49]) = some [0, 49] ∧
    jsDecodeStringLiteral (emitLit asciiPrintable noExtend .asyncData [60]) = some [60] ∧
    jsDecodeStringLiteral (emitLit asciiPrintable noExtend .asyncError [60, 47, 115, 99, 114, 105, 112, 116, 62])
      = some [60, 47, 115, 99, 114, 105, 112, 116, 62] ∧
    emitLit asciiPrintable noExtend .asyncData [0, 49, 60] = [34, 92, 117, 48, 48, 48, 48, 49, 92, 117, 48, 48, 51, 99, 34] := by
  decide

example : Scalar [0, 49, 60, 47, 34, 92, 8232, 128512] := by
  intro c hc; simp at hc; omega

/-! ## B. the script text is inert -/

/-- no `<` anywhere -/
def NoLt (l : Str) : Prop := ∀ x ∈ l, x ≠ 60

theorem noLt_append {a b : Str} (ha : NoLt a) (hb : NoLt b) : NoLt (a ++ b) := by
  intro x hx
  rcases List.mem_append.mp hx with h | h
  · exact ha x h
  · exact hb x h

theorem noLt_cons {c : Nat} {l : Str} (hc : c ≠ 60) (hl : NoLt l) : NoLt (c :: l) := by
  intro x hx
  rcases List.mem_cons.mp hx with h | h
  · exact h ▸ hc
  · exact hl x h

theorem noLt_of_forall_dec (l : Str) (h : l.all (· != 60) = true) : NoLt l := by
  intro x hx
  have := List.all_eq_true.mp h x hx
  simpa using this

theorem noLt_hexDigits6 (c : Nat) : NoLt (hexDigits6 c) := by
  intro x hx
  rw [hexDigits6_eq] at hx
  obtain ⟨d, hd, rfl⟩ := List.mem_map.mp hx
  exact hexLo_ne_lt d (hexNums_lt c d hd)

theorem noLt_unicodeEsc (c : Nat) : NoLt (unicodeEsc c) := by
  unfold unicodeEsc
  refine noLt_cons (by decide) (noLt_cons (by decide) (noLt_cons (by decide) ?_))
  exact noLt_append (noLt_hexDigits6 c) (noLt_cons (by decide) (fun _ h => by simp at h))

theorem noLt_escapeDebugChar (p g : Nat → Bool) (c : Nat) (hc : c ≠ 60) :
    NoLt (escapeDebugChar p g c) := by
  unfold escapeDebugChar
  repeat' split
  all_goals first
    | exact noLt_unicodeEsc c
    | exact noLt_of_forall_dec _ (by decide)
    | exact noLt_cons hc (fun _ h => by simp at h)

theorem noLt_debugBody (p g : Nat → Bool) (s : Str) (hs : NoLt s) : NoLt (debugBody p g s) := by
  induction s with
  | nil => intro x hx; simp [debugBody] at hx
  | cons c cs ih =>
    simp only [debugBody]
    exact noLt_append (noLt_escapeDebugChar p g c (hs c (by simp)))
      (ih (fun x hx => hs x (by simp [hx])))

theorem noLt_rustDebugStr (p g : Nat → Bool) (s : Str) (hs : NoLt s) : NoLt (rustDebugStr p g s) := by
  unfold rustDebugStr
  exact noLt_cons (by decide) (noLt_append (noLt_debugBody p g s hs) (noLt_of_forall_dec _ (by decide)))

theorem noLt_replaceLt (s : Str) : NoLt (replaceLt s) := by
  induction s with
  | nil => intro x hx; simp [replaceLt] at hx
  | cons c cs ih =>
    unfold replaceLt
    split
    · exact noLt_append (noLt_of_forall_dec _ (by decide)) ih
    · next h => exact noLt_cons h ih

theorem noLt_decFuel (f n : Nat) : NoLt (decFuel f n) := by
  induction f generalizing n with
  | zero => intro x hx; simp [decFuel] at hx; omega
  | succ f ih =>
    unfold decFuel
    split
    · intro x hx; simp at hx; omega
    · exact noLt_append (ih _) (by intro x hx; simp at hx; omega)

theorem noLt_decDigits (n : Nat) : NoLt (decDigits n) := noLt_decFuel n n

theorem noLt_jsEscChar (p g : Nat → Bool) (c : Nat) : NoLt (jsEscChar p g c) := by
  unfold jsEscChar
  repeat' split
  all_goals first
    | exact noLt_unicodeEsc c
    | exact noLt_of_forall_dec _ (by decide)
    | (next h => exact noLt_cons h (fun _ h => by simp at h))

theorem noLt_jsBody (p g : Nat → Bool) (s : Str) : NoLt (jsBody p g s) := by
  induction s with
  | nil => intro x hx; simp [jsBody] at hx
  | cons c cs ih =>
    simp only [jsBody]
    exact noLt_append (noLt_jsEscChar p g c) ih

/-- a literal printed by `js_string` never contains `<` — whatever the string, the site and the
Unicode tables -/
theorem noLt_emitLit (p g : Nat → Bool) (site : Site) (s : Str) : NoLt (emitLit p g site s) := by
  simp only [emitLit, jsString_eq]
  exact noLt_cons (by decide) (noLt_append (noLt_jsBody p g s) (noLt_of_forall_dec _ (by decide)))

/-- before the repair: a data literal never contained `<` … -/
theorem noLt_dataLitOld (p g : Nat → Bool) (site : Site) (h : siteReplacesLt site = true) (s : Str) :
    NoLt (emitLitOld p g site s) := by
  simp only [emitLitOld, h, if_true]
  exact noLt_rustDebugStr p g _ (noLt_replaceLt s)

theorem noLt_dataStmt (p g : Nat → Bool) (id : Nat) (v : Str) : NoLt (dataStmt p g id v) := by
  unfold dataStmt
  exact noLt_append (noLt_append (noLt_append (noLt_append (noLt_of_forall_dec _ (by decide))
    (noLt_decDigits id)) (noLt_of_forall_dec _ (by decide))) (noLt_emitLit p g _ v))
    (noLt_of_forall_dec _ (by decide))

theorem noLt_dataStmts (p g : Nat → Bool) (l : List (Nat × Str)) : NoLt (dataStmts p g l) := by
  induction l with
  | nil => intro x hx; simp [dataStmts] at hx
  | cons a rest ih =>
    obtain ⟨id, v⟩ := a
    simp only [dataStmts]
    exact noLt_append (noLt_dataStmt p g id v) ih

theorem noLt_errTupleBody (p g : Nat → Bool) (site : Site) (b e : Nat) (m : Str) :
    NoLt (errTupleBody p g site b e m) := by
  unfold errTupleBody
  exact noLt_append (noLt_append (noLt_append (noLt_append (noLt_append (noLt_decDigits b)
    (noLt_of_forall_dec _ (by decide))) (noLt_decDigits e)) (noLt_of_forall_dec _ (by decide)))
    (noLt_emitLit p g site m)) (noLt_of_forall_dec _ (by decide))

theorem noLt_errStmts (p g : Nat → Bool) (errs : List ErrRec) :
    NoLt (errStmts p g errs) := by
  induction errs with
  | nil => intro x hx; simp [errStmts] at hx
  | cons a rest ih =>
    obtain ⟨b, e, m⟩ := a
    simp only [errStmts, errPushStmt]
    exact noLt_append (noLt_append (noLt_append (noLt_of_forall_dec _ (by decide))
      (noLt_errTupleBody p g _ b e m)) (noLt_of_forall_dec _ (by decide))) ih

theorem noLt_errList (p g : Nat → Bool) (errs : List ErrRec) :
    NoLt (errList p g errs) := by
  induction errs with
  | nil => intro x hx; simp [errList] at hx
  | cons a rest ih =>
    obtain ⟨b, e, m⟩ := a
    simp only [errList, errTuple]
    exact noLt_append (noLt_append (noLt_cons (by decide) (noLt_errTupleBody p g _ b e m))
      (noLt_of_forall_dec _ (by decide))) ih

theorem noLt_numList (l : List Nat) : NoLt (numList l) := by
  induction l with
  | nil => intro x hx; simp [numList] at hx
  | cons n ns ih =>
    simp only [numList]
    exact noLt_append (noLt_append (noLt_decDigits n) (noLt_of_forall_dec _ (by decide))) ih

theorem noLt_syncList (p g : Nat → Bool) (l : List (Nat × Str)) : NoLt (syncList p g l) := by
  induction l with
  | nil => intro x hx; simp [syncList] at hx
  | cons a rest ih =>
    obtain ⟨id, v⟩ := a
    simp only [syncList, syncEntry]
    exact noLt_append (noLt_append (noLt_append (noLt_append (noLt_decDigits id)
      (noLt_of_forall_dec _ (by decide))) (noLt_emitLit p g _ v))
      (noLt_of_forall_dec _ (by decide))) ih

/-- a text without `<` has none of the dangerous patterns … -/
theorem hasDanger_of_noLt (l : Str) (h : NoLt l) : hasDanger l = false := by
  induction l with
  | nil => rfl
  | cons c cs ih =>
    have hc : c ≠ 60 := h c (by simp)
    have : (c == 60) = false := by simpa using hc
    simp [hasDanger, this, ih (fun x hx => h x (by simp [hx]))]

theorem tokRun_data_noLt (l : Str) (h : NoLt l) (r : Str) :
    ∀ n, tokRun .data n (l ++ r) = tokRun .data (n + l.length) r := by
  induction l with
  | nil => intro n; rfl
  | cons c cs ih =>
    intro n
    have hc : c ≠ 60 := h c (by simp)
    have hstep : tokStep .data c = .data := by simp [tokStep, stepData, hc]
    simp only [List.cons_append, tokRun, hstep, List.length_cons]
    rw [ih (fun x hx => h x (by simp [hx]))]
    congr 1; omega

theorem tokRun_close (n : Nat) : tokRun .data n kScriptClose = some (n + 9) := by
  simp [tokRun, tokStep, kScriptClose, stepData, stepEndName, isAlpha, isTagEnd, lower, kScript]

/-- … and the HTML tokenizer stays in the script-data state until the `</script>` that
`build_response` appends: the element ends exactly there -/
theorem inertTok_of_noLt (l : Str) (h : NoLt l) : inertTok l = true := by
  simp [inertTok, tokClose, tokRun_data_noLt l h, tokRun_close]

/-- what "inert" means for one chunk -/
def Inert (chunk : Str) : Prop := hasDanger chunk = false ∧ inertTok chunk = true

theorem inert_of_noLt (l : Str) (h : NoLt l) : Inert l :=
  ⟨hasDanger_of_noLt l h, inertTok_of_noLt l h⟩

/-- **script inert (full)**: every chunk `AsyncDataStream` can produce — any resolved values, any
error messages (including `</script>`, `<!--`, `<script`), any ids, every instantiation of the
Unicode tables — contains no `<` at all; hence none of the dangerous patterns, and the HTML
tokenizer ends the script element exactly at the `</script>` that `build_response` appends -/
theorem C12_script_inert (p g : Nat → Bool) (ready : List (Nat × Str)) (errs : List ErrRec) :
    NoLt (asyncChunk p g ready errs) ∧ Inert (asyncChunk p g ready errs) := by
  have h : NoLt (asyncChunk p g ready errs) := by
    unfold asyncChunk
    exact noLt_append (noLt_dataStmts p g ready) (noLt_errStmts p g errs)
  exact ⟨h, inert_of_noLt _ h⟩

/-- the first chunk (`__RESOLVED_RESOURCES=[…];__SERIALIZED_ERRORS=[…];…`) is inert as well -/
theorem C12_initial_chunk_inert (p g : Nat → Bool) (sync : List (Nat × Str))
    (errs : List ErrRec) (pend : List Nat) :
    Inert (initialChunk p g sync errs pend) := by
  apply inert_of_noLt
  unfold initialChunk
  refine noLt_append (noLt_append (noLt_append (noLt_append (noLt_append (noLt_append (noLt_append
    (noLt_append (noLt_append (noLt_of_forall_dec _ (by decide)) (noLt_syncList p g sync))
    (noLt_of_forall_dec _ (by decide))) (noLt_of_forall_dec _ (by decide))) (noLt_errList p g errs))
    (noLt_of_forall_dec _ (by decide))) (noLt_of_forall_dec _ (by decide))) (noLt_numList pend))
    (noLt_of_forall_dec _ (by decide))) (noLt_of_forall_dec _ (by decide))

theorem C12_incomplete_chunk_inert (ids : List Nat) : Inert (incompleteChunk ids) := by
  apply inert_of_noLt
  unfold incompleteChunk
  exact noLt_append (noLt_append (noLt_of_forall_dec _ (by decide)) (noLt_numList ids))
    (noLt_of_forall_dec _ (by decide))

/-- every chunk `Srv.poll` can return is inert, whatever the state of the server -/
theorem C12_every_polled_chunk_inert (p g : Nat → Bool) (s : Srv) (text : Str)
    (h : (s.poll p g).1 = .chunk text) (hph : ∀ c, s.phase ≠ .initial c) :
    Inert text := by
  unfold Srv.poll at h
  cases hp : s.phase with
  | idle => simp [hp] at h
  | initial c => exact absurd hp (hph c)
  | done => simp [hp] at h
  | streaming =>
    simp only [hp] at h
    split at h
    · simp only [PollResult.chunk.injEq] at h
      exact h ▸ C12_incomplete_chunk_inert _
    · split at h
      · simp at h
      · simp only [PollResult.chunk.injEq] at h
        exact h ▸ (C12_script_inert p g _ _).2

/-! ### before the repair (regression) -/

/-- the full statement about the old printers -/
def C12_old_script_inert_full : Prop :=
  ∀ (p g : Nat → Bool) (ready : List (Nat × Str)) (errs : List ErrRec),
    Inert (asyncChunkOld p g ready errs)

/-- F-C12-2 (repaired): an error whose `Display` is `</script>` used to be printed verbatim — the
tokenizer ended the element inside the string literal (after 42 characters of a 46-character
chunk); now the chunk has no `<` and the element ends at the appended `</script>` -/
theorem C12_error_markup_witness :
    let old := asyncChunkOld asciiPrintable noExtend [] [(0, 0, [60, 47, 115, 99, 114, 105, 112, 116, 62])]
    let new := asyncChunk asciiPrintable noExtend [] [(0, 0, [60, 47, 115, 99, 114, 105, 112, 116, 62])]
    hasDanger old = true ∧ tokClose (old ++ kScriptClose) = some 42 ∧ old.length = 46 ∧
    hasDanger new = false ∧ inertTok new = true := by
  decide

theorem C12_old_script_inert_full_false : ¬ C12_old_script_inert_full := by
  intro h
  have := (h asciiPrintable noExtend [] [(0, 0, [60, 47, 115, 99, 114, 105, 112, 116, 62])]).1
  revert this; decide

/-! ## C. id counters -/

theorem srvHydIds_cons_create_hyd (s : SrvCtr) (ops : List IdOp) (h : s.hyd = true) :
    srvHydIds s (.create :: ops) = s.id :: srvHydIds s.nextId.2 ops := by
  simp [srvHydIds, srvRun, h, SrvCtr.nextId]

theorem srvHydIds_cons_create_nohyd (s : SrvCtr) (ops : List IdOp) (h : s.hyd = false) :
    srvHydIds s (.create :: ops) = srvHydIds s.nextId.2 ops := by
  simp [srvHydIds, srvRun, h]

theorem ids_align_gen (ops : List IdOp) :
    ∀ (s : SrvCtr) (c : CliCtr), s.id = c.id →
      srvHydIds s ops = cliRun c (hydratingPart s.hyd ops) := by
  induction ops with
  | nil => intro s c _; rfl
  | cons op ops ih =>
    intro s c hid
    cases op with
    | create =>
      cases hh : s.hyd with
      | true =>
        rw [srvHydIds_cons_create_hyd s ops hh]
        simp only [hydratingPart, if_true, cliRun]
        have h2 : s.nextId.2.hyd = true := by simp [SrvCtr.nextId, hh]
        have h3 : s.nextId.2.id = c.nextId.2.id := by simp [SrvCtr.nextId, CliCtr.nextId, hh, hid]
        have := ih s.nextId.2 c.nextId.2 h3
        rw [h2] at this
        simp [this, CliCtr.nextId, hid]
      | false =>
        rw [srvHydIds_cons_create_nohyd s ops hh]
        have h2 : s.nextId.2.hyd = false := by simp [SrvCtr.nextId, hh]
        have h3 : s.nextId.2.id = c.id := by simp [SrvCtr.nextId, hh, hid]
        have := ih s.nextId.2 c h3
        rw [h2] at this
        simpa [hydratingPart] using this
    | setHyd b =>
      have := ih { s with hyd := b } c hid
      simpa [srvHydIds, srvRun, hydratingPart] using this

/-- **ids align**: for every creation program (any number and nesting of resources and
boundaries, any `set_is_hydrating` toggles, either constructor) the n-th id the server hands out
while the flag is on equals the n-th id the client hands out when it executes the hydrating
regions — so the n-th resource created on the client reads the n-th resource's data.
(No overflow hypothesis is needed: both counters wrap identically.) -/
theorem C12_ids_align (ops : List IdOp) (islands : Bool) :
    srvHydIds (if islands then SrvCtr.newIslands else SrvCtr.new) ops
      = cliRun (if islands then CliCtr.newIslands else CliCtr.new)
          (hydratingPart (if islands then SrvCtr.newIslands else SrvCtr.new).hyd ops) := by
  apply ids_align_gen
  cases islands <;> rfl

theorem srvNonHydIds_cons_create_hyd (s : SrvCtr) (ops : List IdOp) (h : s.hyd = true) :
    srvNonHydIds s (.create :: ops) = srvNonHydIds s.nextId.2 ops := by
  simp [srvNonHydIds, srvRun, h]

theorem srvNonHydIds_cons_create_nohyd (s : SrvCtr) (ops : List IdOp) (h : s.hyd = false) :
    srvNonHydIds s (.create :: ops) = s.nonHyd :: srvNonHydIds s.nextId.2 ops := by
  simp [srvNonHydIds, srvRun, h, SrvCtr.nextId]

/-- without wrap-around, ids of a run lie in `[s.id, s.id + k)` (flag on) resp.
`(s.nonHyd - k, s.nonHyd]` (flag off), `k` = number of creations -/
theorem srv_ids_bounds (ops : List IdOp) :
    ∀ (s : SrvCtr), s.id + countCreates ops < usizeMod → countCreates ops ≤ s.nonHyd →
      s.nonHyd < usizeMod →
      (∀ x ∈ srvHydIds s ops, s.id ≤ x ∧ x < s.id + countCreates ops) ∧
      (∀ y ∈ srvNonHydIds s ops, y ≤ s.nonHyd ∧ s.nonHyd < y + countCreates ops) := by
  induction ops with
  | nil => intro s _ _ _; simp [srvHydIds, srvNonHydIds, srvRun]
  | cons op ops ih =>
    intro s h1 h2 h3
    cases op with
    | setHyd b =>
      have := ih { s with hyd := b } (by simpa [countCreates] using h1)
        (by simpa [countCreates] using h2) h3
      simpa [srvHydIds, srvNonHydIds, srvRun, countCreates] using this
    | create =>
      simp only [countCreates, usizeMod] at h1 h2 h3
      cases hh : s.hyd with
      | true =>
        have hid : s.nextId.2.id = s.id + 1 := by
          simp only [SrvCtr.nextId, hh, if_true, usizeMod]; omega
        have hnh : s.nextId.2.nonHyd = s.nonHyd := by simp [SrvCtr.nextId, hh]
        have := ih s.nextId.2 (by rw [hid]; simp only [usizeMod]; omega) (by rw [hnh]; omega)
          (by rw [hnh]; simpa [usizeMod] using h3)
        rw [hid, hnh] at this
        rw [srvHydIds_cons_create_hyd s ops hh, srvNonHydIds_cons_create_hyd s ops hh]
        simp only [countCreates]
        constructor
        · intro x hx
          rcases List.mem_cons.mp hx with hx | hx
          · omega
          · have := this.1 x hx; omega
        · intro y hy
          have := this.2 y hy; omega
      | false =>
        have hid : s.nextId.2.id = s.id := by simp [SrvCtr.nextId, hh]
        have hnh : s.nextId.2.nonHyd = s.nonHyd - 1 := by
          simp only [SrvCtr.nextId, hh, usizeMod, usizeMax]
          simp only [Bool.false_eq_true, if_false]; omega
        have := ih s.nextId.2 (by rw [hid]; simp only [usizeMod]; omega) (by rw [hnh]; omega)
          (by rw [hnh]; simp only [usizeMod]; omega)
        rw [hid, hnh] at this
        rw [srvHydIds_cons_create_nohyd s ops hh, srvNonHydIds_cons_create_nohyd s ops hh]
        simp only [countCreates]
        constructor
        · intro x hx
          have := this.1 x hx; omega
        · intro y hy
          rcases List.mem_cons.mp hy with hy | hy
          · omega
          · have := this.2 y hy; omega

/-- **the non-hydrating counter never collides**: for any program with at most 2^63 creations,
no id handed out while the flag was off equals an id handed out while it was on -/
theorem C12_ids_no_collision (ops : List IdOp) (islands : Bool)
    (h : 2 * countCreates ops ≤ usizeMax) :
    ∀ x ∈ srvHydIds (if islands then SrvCtr.newIslands else SrvCtr.new) ops,
    ∀ y ∈ srvNonHydIds (if islands then SrvCtr.newIslands else SrvCtr.new) ops, x ≠ y := by
  intro x hx y hy
  simp only [usizeMax] at h
  have hb := srv_ids_bounds ops (if islands then SrvCtr.newIslands else SrvCtr.new)
    (by cases islands <;> simp [SrvCtr.new, SrvCtr.newIslands, usizeMod] <;> omega)
    (by cases islands <;> simp [SrvCtr.new, SrvCtr.newIslands, usizeMax] <;> omega)
    (by cases islands <;> simp [SrvCtr.new, SrvCtr.newIslands, usizeMax, usizeMod])
  have h1 := hb.1 x hx
  have h2 := hb.2 y hy
  cases islands <;> simp [SrvCtr.new, SrvCtr.newIslands, usizeMax] at h1 h2 <;> omega

/-- if the client ran the *same* program including the regions where the flag is off, ids
would drift: `HydrateSharedContext::next_id` ignores the flag.  Not reachable in leptos (the client
never executes those regions), recorded so that the reliance is explicit. -/
def C12_ids_same_program_full : Prop :=
  ∀ ops : List IdOp, ∀ q ∈ (srvRun SrvCtr.new ops).zip (cliRun CliCtr.new ops),
    q.1.1 = true → q.1.2 = q.2

theorem C12_ids_same_program_full_false : ¬ C12_ids_same_program_full := by
  intro h
  have := h [.setHyd false, .create, .setHyd true, .create] ((true, 0), 1) (by decide) rfl
  revert this; decide

/-- every creation happens while the flag is on -/
def allCreatesHyd : Bool → List IdOp → Bool
  | _, [] => true
  | h, .create :: ops => h && allCreatesHyd h ops
  | _, .setHyd b :: ops => allCreatesHyd b ops

theorem cliRun_flag_irrelevant (ops : List IdOp) :
    ∀ c c' : CliCtr, c.id = c'.id → cliRun c ops = cliRun c' ops := by
  induction ops with
  | nil => intro _ _ _; rfl
  | cons op ops ih =>
    intro c c' h
    cases op with
    | create =>
      simp only [cliRun, CliCtr.nextId, h]
      congr 1
      exact ih _ _ (by simp)
    | setHyd b =>
      simp only [cliRun]
      exact ih _ _ h

theorem hydratingPart_all (ops : List IdOp) :
    ∀ h c, allCreatesHyd h ops = true → cliRun c (hydratingPart h ops) = cliRun c ops := by
  induction ops with
  | nil => intro _ _ _; rfl
  | cons op ops ih =>
    intro h c ha
    cases op with
    | create =>
      simp only [allCreatesHyd, Bool.and_eq_true] at ha
      obtain ⟨rfl, ha2⟩ := ha
      simp [hydratingPart, cliRun, ih true _ ha2]
    | setHyd b =>
      simp only [allCreatesHyd] at ha
      simp only [hydratingPart, cliRun]
      rw [ih b c ha]
      exact cliRun_flag_irrelevant ops _ _ rfl

/-- whole-page hydration (no creation while the flag is off): server and client running the very
same program hand out the same ids -/
theorem C12_ids_align_same_program_partial (ops : List IdOp) (h : allCreatesHyd true ops = true) :
    srvHydIds SrvCtr.new ops = cliRun CliCtr.new ops := by
  have := C12_ids_align ops false
  simp only [Bool.false_eq_true, if_false] at this
  rw [this]
  exact hydratingPart_all ops true CliCtr.new h

example : allCreatesHyd true [.create, .setHyd true, .create] = true := by decide
example : srvHydIds SrvCtr.newIslands [.create, .setHyd true, .create, .setHyd false, .create, .setHyd true, .create]
    = [0, 1] := by decide
example : 2 * countCreates [.create, .setHyd false, .create] ≤ usizeMax := by decide

/-! ## D. every written value is emitted exactly once, for every completion order -/

/-- what the application and the response stream do with the shared context -/
inductive SOp where
  | write (id : Nat) (v : Str)   -- `write_async` with a fresh pending future
  | complete (key : Nat)         -- the future of the `key`-th write gets its value
  | err (b e : Nat) (m : Str)
  | sealErr (b : Nat)
  | inc (id : Nat)
  | start                        -- `pending_data()`
  | poll                         -- one `poll_next`

/-- the entries whose statements the next `poll` puts into its chunk -/
def pollEmits (s : Srv) : List Entry :=
  match s.phase with
  | .streaming => readyOf s.buf
  | _ => []

structure Trace where
  srv : Srv
  log : List (Nat × Str)     -- ghost: (id, value) of the k-th write
  emitted : List Entry       -- ghost: everything emitted so far, in order

def Trace.init : Trace := ⟨Srv.new false, [], []⟩

def Trace.step (p g : Nat → Bool) (t : Trace) : SOp → Trace
  | .write id v => { t with srv := t.srv.writeAsync t.log.length id v, log := t.log ++ [(id, v)] }
  | .complete k => { t with srv := t.srv.complete k }
  | .err b e m => { t with srv := t.srv.registerError b e m }
  | .sealErr b => { t with srv := t.srv.seal b }
  | .inc i => { t with srv := t.srv.setIncomplete i }
  | .start => { t with srv := t.srv.start p g }
  | .poll => { t with srv := (t.srv.poll p g).2, emitted := t.emitted ++ pollEmits t.srv }

def Trace.run (p g : Nat → Bool) : Trace → List SOp → Trace
  | t, [] => t
  | t, op :: ops => Trace.run p g (t.step p g op) ops

theorem dataStmts_ne_nil (p g : Nat → Bool) (l : List (Nat × Str)) (h : l ≠ []) :
    dataStmts p g l ≠ [] := by
  cases l with
  | nil => exact absurd rfl h
  | cons a rest => obtain ⟨id, v⟩ := a; simp [dataStmts, dataStmt, kResolvedIdx]

/-- the ghost log is honest: whenever `poll` emits entries, its result is a chunk whose text
consists of exactly their statements (followed by the unsealed errors) -/
theorem poll_emits_text (p g : Nat → Bool) (s : Srv) (h : pollEmits s ≠ []) :
    (s.poll p g).1 = .chunk (asyncChunk p g ((pollEmits s).map fun e => (e.id, e.val))
                                (unsealed s.sealed s.errors)) := by
  unfold pollEmits at h ⊢
  unfold Srv.poll
  split at h
  · next hp =>
    have hne : asyncChunk p g ((readyOf s.buf).map fun e => (e.id, e.val))
        (unsealed s.sealed s.errors) ≠ [] := by
      unfold asyncChunk
      intro hc
      have := (List.append_eq_nil_iff.mp hc).1
      exact dataStmts_ne_nil p g _ (by simpa using h) this
    have hf : (asyncChunk p g ((readyOf s.buf).map fun e => (e.id, e.val))
        (unsealed s.sealed s.errors)).isEmpty = false := by
      simpa [List.isEmpty_iff] using hne
    simp [hp, hf]
  · exact absurd rfl h

theorem poll_buf (p g : Nat → Bool) (s : Srv) :
    (s.poll p g).2.buf = match s.phase with
      | .streaming => pendingOf s.buf
      | _ => s.buf := by
  cases hp : s.phase <;> simp only [Srv.poll, hp]
  split
  · rfl
  · split <;> rfl

theorem poll_done_buf_empty (p g : Nat → Bool) (s : Srv) (h : s.phase = .streaming)
    (hd : (s.poll p g).2.phase = .done) : (s.poll p g).2.buf = [] := by
  unfold Srv.poll at hd ⊢
  simp only [h] at hd ⊢
  split at hd
  · next hc =>
    simp only [Bool.and_eq_true, List.isEmpty_iff] at hc
    simp [hc.1, hc.2]
  · split at hd <;> simp at hd

theorem count_ready_pending (k : Nat) (b : List Entry) :
    ((readyOf b).map (·.key)).count k + ((pendingOf b).map (·.key)).count k
      = (b.map (·.key)).count k := by
  induction b with
  | nil => rfl
  | cons e es ih =>
    cases hr : e.ready
    · simp only [readyOf, pendingOf, hr, List.map_cons, List.count_cons]
      simp only [Bool.false_eq_true, if_false, List.map_cons, List.count_cons]
      omega
    · simp only [readyOf, pendingOf, hr, if_true, List.map_cons, List.count_cons]
      omega

theorem mem_readyOf {e : Entry} {b : List Entry} (h : e ∈ readyOf b) : e ∈ b ∧ e.ready = true := by
  induction b with
  | nil => simp [readyOf] at h
  | cons x xs ih =>
    unfold readyOf at h
    split at h
    · next hr =>
      rcases List.mem_cons.mp h with h | h
      · subst h; exact ⟨by simp, hr⟩
      · exact ⟨List.mem_cons_of_mem _ (ih h).1, (ih h).2⟩
    · exact ⟨List.mem_cons_of_mem _ (ih h).1, (ih h).2⟩

theorem mem_pendingOf {e : Entry} {b : List Entry} (h : e ∈ pendingOf b) : e ∈ b := by
  induction b with
  | nil => simp [pendingOf] at h
  | cons x xs ih =>
    unfold pendingOf at h
    split at h
    · exact List.mem_cons_of_mem _ (ih h)
    · rcases List.mem_cons.mp h with h | h
      · subst h; simp
      · exact List.mem_cons_of_mem _ (ih h)

theorem completeIn_keys (k : Nat) (b : List Entry) :
    (completeIn k b).map (·.key) = b.map (·.key) := by
  induction b with
  | nil => rfl
  | cons e es ih =>
    unfold completeIn
    split
    · rfl
    · simp [ih]

theorem mem_completeIn {k : Nat} {e : Entry} {b : List Entry} (h : e ∈ completeIn k b) :
    ∃ e' ∈ b, e.key = e'.key ∧ e.id = e'.id ∧ e.val = e'.val := by
  induction b with
  | nil => simp [completeIn] at h
  | cons x xs ih =>
    unfold completeIn at h
    split at h
    · rcases List.mem_cons.mp h with h | h
      · subst h; exact ⟨x, by simp, rfl, rfl, rfl⟩
      · exact ⟨e, List.mem_cons_of_mem _ h, rfl, rfl, rfl⟩
    · rcases List.mem_cons.mp h with h | h
      · subst h; exact ⟨e, by simp, rfl, rfl, rfl⟩
      · obtain ⟨e', he', h'⟩ := ih h
        exact ⟨e', List.mem_cons_of_mem _ he', h'⟩

/-- the invariant of the data stream -/
structure Inv (t : Trace) : Prop where
  asWritten : ∀ e ∈ t.emitted ++ t.srv.buf, t.log[e.key]? = some (e.id, e.val)
  once : ∀ k, k < t.log.length → ((t.emitted ++ t.srv.buf).map (·.key)).count k = 1
  fresh : ∀ k, t.log.length ≤ k → ((t.emitted ++ t.srv.buf).map (·.key)).count k = 0
  ready : ∀ e ∈ t.emitted, e.ready = true

theorem inv_init : Inv Trace.init := by
  constructor <;> simp [Trace.init, Srv.new]

theorem inv_same_buf (t t' : Trace) (h : Inv t) (hb : t'.srv.buf = t.srv.buf)
    (hl : t'.log = t.log) (he : t'.emitted = t.emitted) : Inv t' := by
  constructor
  · rw [he, hb, hl]; exact h.asWritten
  · rw [he, hb, hl]; exact h.once
  · rw [he, hb, hl]; exact h.fresh
  · rw [he]; exact h.ready

theorem count_write (t : Trace) (id : Nat) (v : Str) (k : Nat) :
    ((t.emitted ++ (t.srv.buf ++ [(⟨t.log.length, id, v, false⟩ : Entry)])).map (·.key)).count k
      = ((t.emitted ++ t.srv.buf).map (·.key)).count k + (if t.log.length = k then 1 else 0) := by
  simp only [List.map_append, List.count_append, List.map_cons, List.map_nil, List.count_cons,
    List.count_nil, beq_iff_eq]
  omega

theorem inv_step (p g : Nat → Bool) (t : Trace) (op : SOp) (h : Inv t) : Inv (t.step p g op) := by
  cases op with
  | write id v =>
    constructor
    · intro e he
      simp only [Trace.step, Srv.writeAsync, ← List.append_assoc] at he ⊢
      rcases List.mem_append.mp he with he | he
      · have := h.asWritten e he
        have hlt : e.key < t.log.length := by
          rcases Nat.lt_or_ge e.key t.log.length with hh | hh
          · exact hh
          · rw [List.getElem?_eq_none hh] at this; cases this
        rw [List.getElem?_append_left hlt]; exact this
      · simp only [List.mem_singleton] at he
        subst he
        simp
    · intro k hk
      simp only [Trace.step, Srv.writeAsync, List.length_append, List.length_cons, List.length_nil] at hk ⊢
      rw [count_write]
      by_cases hkl : t.log.length = k
      · rw [h.fresh k (by omega)]; simp [hkl]
      · rw [h.once k (by omega)]; simp [hkl]
    · intro k hk
      simp only [Trace.step, Srv.writeAsync, List.length_append, List.length_cons, List.length_nil] at hk ⊢
      rw [count_write, h.fresh k (by omega)]
      have : t.log.length ≠ k := by omega
      simp [this]
    · exact h.ready
  | complete k =>
    constructor
    · intro e he
      simp only [Trace.step, Srv.complete] at he ⊢
      rcases List.mem_append.mp he with he | he
      · exact h.asWritten e (List.mem_append_left _ he)
      · obtain ⟨e', he', h1, h2, h3⟩ := mem_completeIn he
        rw [h1, h2, h3]
        exact h.asWritten e' (List.mem_append_right _ he')
    · intro j hj
      have := h.once j hj
      simp only [List.map_append] at this
      simp only [Trace.step, Srv.complete, List.map_append, completeIn_keys]
      exact this
    · intro j hj
      have := h.fresh j hj
      simp only [List.map_append] at this
      simp only [Trace.step, Srv.complete, List.map_append, completeIn_keys]
      exact this
    · exact h.ready
  | err b e m => exact inv_same_buf t _ h rfl rfl rfl
  | sealErr b => exact inv_same_buf t _ h rfl rfl rfl
  | inc i => exact inv_same_buf t _ h rfl rfl rfl
  | start =>
    refine inv_same_buf t _ h ?_ rfl rfl
    simp only [Trace.step, Srv.start]
    split <;> rfl
  | poll =>
    have hb := poll_buf p g t.srv
    cases hp : t.srv.phase with
    | streaming =>
      simp only [hp] at hb
      have hem : pollEmits t.srv = readyOf t.srv.buf := by simp [pollEmits, hp]
      have hcount : ∀ k, ((t.emitted ++ readyOf t.srv.buf ++ pendingOf t.srv.buf).map (·.key)).count k
          = ((t.emitted ++ t.srv.buf).map (·.key)).count k := by
        intro k
        have hc := count_ready_pending k t.srv.buf
        simp only [List.map_append, List.count_append]
        omega
      constructor
      · intro e he
        simp only [Trace.step, hb, hem] at he ⊢
        rcases List.mem_append.mp he with he | he
        · rcases List.mem_append.mp he with he | he
          · exact h.asWritten e (List.mem_append_left _ he)
          · exact h.asWritten e (List.mem_append_right _ (mem_readyOf he).1)
        · exact h.asWritten e (List.mem_append_right _ (mem_pendingOf he))
      · intro k hk
        simp only [Trace.step, hb, hem] at hk ⊢
        rw [hcount]; exact h.once k hk
      · intro k hk
        simp only [Trace.step, hb, hem] at hk ⊢
        rw [hcount]; exact h.fresh k hk
      · intro e he
        simp only [Trace.step, hem] at he
        rcases List.mem_append.mp he with he | he
        · exact h.ready e he
        · exact (mem_readyOf he).2
    | idle =>
      simp only [hp] at hb
      exact inv_same_buf t _ h hb rfl (by simp [Trace.step, pollEmits, hp])
    | initial c =>
      simp only [hp] at hb
      exact inv_same_buf t _ h hb rfl (by simp [Trace.step, pollEmits, hp])
    | done =>
      simp only [hp] at hb
      exact inv_same_buf t _ h hb rfl (by simp [Trace.step, pollEmits, hp])

theorem inv_run (p g : Nat → Bool) (ops : List SOp) : ∀ t, Inv t → Inv (Trace.run p g t ops) := by
  induction ops with
  | nil => intro t h; exact h
  | cons op ops ih => intro t h; exact ih _ (inv_step p g t op h)

/-- **each exactly once**: after any sequence of writes, completions (in any order, at any
time), error registrations and polls, every written value is either still pending in the buffer
or has been emitted — never both, never twice; and nothing that was not written is emitted -/
theorem C12_each_once (p g : Nat → Bool) (ops : List SOp) (k : Nat) :
    let t := Trace.run p g Trace.init ops
    (k < t.log.length →
      (t.emitted.map (·.key)).count k + (t.srv.buf.map (·.key)).count k = 1) ∧
    (t.log.length ≤ k →
      (t.emitted.map (·.key)).count k + (t.srv.buf.map (·.key)).count k = 0) := by
  have h := inv_run p g ops _ inv_init
  constructor
  · intro hk
    have := h.once k hk
    simpa only [List.map_append, List.count_append] using this
  · intro hk
    have := h.fresh k hk
    simpa only [List.map_append, List.count_append] using this

/-- what is emitted is what was written: under the id it was written with, with its value, and only
after its future completed -/
theorem C12_emitted_as_written (p g : Nat → Bool) (ops : List SOp) :
    let t := Trace.run p g Trace.init ops
    ∀ e ∈ t.emitted, e.ready = true ∧ t.log[e.key]? = some (e.id, e.val) := by
  intro t e he
  have h := inv_run p g ops _ inv_init
  exact ⟨h.ready e he, h.asWritten e (List.mem_append_left _ he)⟩

/-- when the stream ends, every value written so far has been emitted exactly once -/
theorem C12_each_once_at_end (p g : Nat → Bool) (ops : List SOp) :
    let t := Trace.run p g Trace.init ops
    t.srv.phase = .streaming → ((t.step p g .poll).srv.phase = .done) →
    ∀ k < t.log.length, ((t.step p g .poll).emitted.map (·.key)).count k = 1 := by
  intro t hs hd k hk
  have h := inv_step p g t .poll (inv_run p g ops _ inv_init)
  have hb : (t.step p g .poll).srv.buf = [] := poll_done_buf_empty p g t.srv hs hd
  have := h.once k (by simpa [Trace.step] using hk)
  rw [hb] at this
  simpa using this

/-- non-vacuity: two values completed in reverse order; both chunks carry exactly one of them -/
example :
    let t := Trace.run asciiPrintable noExtend Trace.init
      [.write 0 [97], .write 1 [98], .start, .poll, .complete 1, .poll, .complete 0, .poll]
    t.emitted.map (·.key) = [1, 0] ∧ t.srv.buf = [] ∧ t.srv.phase = .streaming := by decide

/-! ## E. the model's statement printers are the source's `write!` calls

`Gen/Transfer.lean` is regenerated from hydration_context/src/ssr.rs on every run: the two rewrites
of the helper `js_string`, every `write!` that prints a `js_string(..)` argument, and the number
of `{:?}` holes / `.replace(` calls anywhere else.  The theorems below re-check, against what the
source says *now*, (1) that the helper rewrites exactly `<` ↦ `\u003c` and `\0` ↦ `\u0000`, as
`jsFix` does, (2) that there are exactly the four sites of `Site` and that no string is
debug-printed outside the helper or rewritten before formatting, (3) that the model's printers are
those format strings with their holes filled. -/

/-- length of the hole body after a `{`: `}` or `:?}` -/
def holeLen : Str → Option Nat
  | [] => none
  | d :: rest =>
    if d = 125 then some 1
    else match rest with
      | e :: f :: _ => if d = 58 ∧ e = 63 ∧ f = 125 then some 3 else none
      | _ => none

/-- fill the holes `{}` / `{:?}` of a format string with already-formatted arguments
(first argument: characters still to skip) -/
def fillGo : Nat → Str → List Str → Str
  | _, [], _ => []
  | k + 1, _ :: rest, args => fillGo k rest args
  | 0, c :: rest, args =>
    if c = 123 then
      match holeLen rest, args with
      | some n, a :: as => a ++ fillGo n rest as
      | _, _ => c :: fillGo 0 rest args
    else c :: fillGo 0 rest args

def fillFmt (fmt : Str) (args : List Str) : Str := fillGo 0 fmt args

/-- (fn, site, index of the hole filled by `js_string`) in source order -/
def sourceSites : List (Str × Site × Nat) :=
  [ ([112, 101, 110, 100, 105, 110, 103, 95, 100, 97, 116, 97], .initError, 2),    -- pending_data
    ([112, 111, 108, 108, 95, 110, 101, 120, 116], .asyncData, 1),                  -- poll_next
    ([112, 111, 108, 108, 95, 110, 101, 120, 116], .asyncError, 2),                 -- poll_next
    ([119, 114, 105, 116, 101, 95, 116, 111, 95, 98, 117, 102], .syncData, 1) ]     -- write_to_buf

/-- the format string the model assumes at a site -/
def siteFormat : Site → Str
  | .initError => [91, 123, 125, 44, 32, 123, 125, 44, 32, 123, 125, 93, 44]
  | .asyncData => kResolvedIdx ++ [123, 125] ++ kIdxEq ++ [123, 125, 59]
  | .asyncError => kErrorsPush ++ [123, 125, 44, 32, 123, 125, 44, 32, 123, 125, 93, 41, 59]
  | .syncData => [123, 125, 58, 32, 123, 125]

/-- **the emission sites and the helper are what the source says**: four `write!` calls print
a `js_string(..)` argument, with the formats the model assumes; no `{:?}` hole exists outside the
helper and nothing is `.replace`d before formatting; the helper rewrites `<` to `kLtEsc` and the
escape `\0` to `kNulEsc` -/
theorem C12_sites_match_source :
    Leptos.Gen.Transfer.literalSites =
      sourceSites.map (fun x => (x.1, siteFormat x.2.1, x.2.2)) ∧
    Leptos.Gen.Transfer.ltRewrite = (60, kLtEsc) ∧
    Leptos.Gen.Transfer.escRewrite = (48, kNulEsc) ∧
    Leptos.Gen.Transfer.strayDebugHoles = 0 ∧
    Leptos.Gen.Transfer.replaceCalls = 0 := by
  decide

theorem C12_dataStmt_is_format (p g : Nat → Bool) (id : Nat) (v : Str) :
    dataStmt p g id v = fillFmt (siteFormat .asyncData) [decDigits id, jsString p g v] := by
  simp [dataStmt, emitLit, siteFormat, fillFmt, fillGo, holeLen, kResolvedIdx, kIdxEq]

theorem C12_errPushStmt_is_format (p g : Nat → Bool) (b e : Nat) (m : Str) :
    errPushStmt p g b e m
      = fillFmt (siteFormat .asyncError) [decDigits b, decDigits e, jsString p g m] := by
  simp [errPushStmt, errTupleBody, emitLit, siteFormat, fillFmt, fillGo, holeLen, kErrorsPush]

theorem C12_errTuple_is_format (p g : Nat → Bool) (b e : Nat) (m : Str) :
    errTuple p g .initError b e m ++ [44]
      = fillFmt (siteFormat .initError) [decDigits b, decDigits e, jsString p g m] := by
  simp [errTuple, errTupleBody, emitLit, siteFormat, fillFmt, fillGo, holeLen]

theorem C12_syncEntry_is_format (p g : Nat → Bool) (id : Nat) (v : Str) :
    syncEntry p g id v = fillFmt (siteFormat .syncData) [decDigits id, jsString p g v] := by
  simp [syncEntry, emitLit, siteFormat, fillFmt, fillGo, holeLen]

/-! ## F. the chunk, evaluated as JavaScript, assigns every value under its id -/

theorem stripPrefix_append (p r : Str) : stripPrefix p (p ++ r) = some r := by
  induction p with
  | nil => cases r <;> rfl
  | cons c cs ih => simp [stripPrefix, ih]

theorem isDec_decFuel (f n : Nat) : ∀ x ∈ decFuel f n, isDec x = true := by
  induction f generalizing n with
  | zero => intro x hx; simp [decFuel] at hx; subst hx; simp [isDec]; omega
  | succ f ih =>
    unfold decFuel
    split
    · intro x hx; simp at hx; subst hx; simp [isDec]; omega
    · intro x hx
      rcases List.mem_append.mp hx with h | h
      · exact ih _ x h
      · simp at h; subst h; simp [isDec]; omega

theorem decFuel_ne_nil (f n : Nat) : decFuel f n ≠ [] := by
  cases f with
  | zero => simp [decFuel]
  | succ f => unfold decFuel; split <;> simp

/-- value of a digit string -/
def digitsVal (a : Nat) (ds : Str) : Nat := ds.foldl (fun a d => a * 10 + (d - 48)) a

theorem digitsVal_decFuel (f : Nat) : ∀ n, n ≤ f → digitsVal 0 (decFuel f n) = n := by
  induction f with
  | zero => intro n hn; have : n = 0 := by omega
            subst this; simp [decFuel, digitsVal]
  | succ f ih =>
    intro n hn
    unfold decFuel
    split
    · simp [digitsVal]
    · next h =>
      have := ih (n / 10) (by omega)
      simp only [digitsVal, List.foldl_append, List.foldl_cons, List.foldl_nil] at this ⊢
      rw [this]; omega

theorem readDigits_append (ds : Str) (hd : ∀ x ∈ ds, isDec x = true) (r : Str) :
    ∀ a, readDigits a (ds ++ r) = readDigits (digitsVal a ds) r := by
  induction ds with
  | nil => intro a; rfl
  | cons d ds ih =>
    intro a
    have h1 : isDec d = true := hd d (by simp)
    simp only [List.cons_append, readDigits, h1, if_true, digitsVal, List.foldl_cons]
    exact ih (fun x hx => hd x (by simp [hx])) _

/-- the next character is not a decimal digit -/
def firstNotDec : Str → Prop
  | [] => True
  | x :: _ => isDec x = false

theorem readDigits_stop (a : Nat) (r : Str) (h : firstNotDec r) : readDigits a r = (a, r) := by
  cases r with
  | nil => rfl
  | cons x xs => simp only [firstNotDec] at h; simp [readDigits, h]

/-- a printed `usize` is parsed back -/
theorem parseNat_decDigits (n : Nat) (r : Str) (h : firstNotDec r) :
    parseNat (decDigits n ++ r) = some (n, r) := by
  have hne := decFuel_ne_nil n n
  have hd := isDec_decFuel n n
  unfold decDigits
  cases hds : decFuel n n with
  | nil => exact absurd hds hne
  | cons c cs =>
    have hc : isDec c = true := hd c (by simp [hds])
    simp only [List.cons_append, parseNat, hc, if_true]
    have := readDigits_append (c :: cs) (by rw [← hds]; exact hd) r 0
    simp only [List.cons_append] at this
    rw [this, ← hds, digitsVal_decFuel n n (Nat.le_refl n), readDigits_stop n r h]

theorem evalStmt_dataStmt (p g : Nat → Bool) (id : Nat) (v : Str) (hv : Scalar v) (R : Str)
    (st : JsState) :
    evalStmt (dataStmt p g id v ++ R) st
      = some ({ st with resolved := st.resolved ++ [(id, v)] }, R) := by
  have hshape : dataStmt p g id v ++ R
      = kResolvedIdx ++ (decDigits id ++ (kIdxEq ++ (jsString p g v ++ (59 :: R)))) := by
    simp [dataStmt, emitLit, List.append_assoc]
  have hlit := jsStrLit_jsString p g v hv (59 :: R)
  have hnat := parseNat_decDigits id (kIdxEq ++ (jsString p g v ++ (59 :: R)))
    (by simp [kIdxEq, firstNotDec, isDec])
  rw [hshape]
  unfold evalStmt
  simp only [stripPrefix_append, hnat, hlit]
  simp [stripPrefix]

theorem dataStmt_cons (p g : Nat → Bool) (id : Nat) (v : Str) (X : Str) :
    ∃ tl, dataStmt p g id v ++ X = 95 :: tl := by
  simp [dataStmt, kResolvedIdx]

theorem evalStmts_dataStmts (p g : Nat → Bool) (ready : List (Nat × Str))
    (h : ∀ r ∈ ready, Scalar r.2) (R : Str) :
    ∀ (f : Nat) (st : JsState), ready.length ≤ f →
      evalStmts (f + 1) (dataStmts p g ready ++ R) st
        = evalStmts (f + 1 - ready.length) R
            { st with resolved := st.resolved ++ ready } := by
  induction ready with
  | nil => intro f st _; simp [dataStmts]
  | cons a rest ih =>
    intro f st hf
    obtain ⟨id, v⟩ := a
    simp only [List.length_cons] at hf
    obtain ⟨f', rfl⟩ : ∃ f', f = f' + 1 := ⟨f - 1, by omega⟩
    simp only [dataStmts, List.append_assoc]
    obtain ⟨tl, htl⟩ := dataStmt_cons p g id v (dataStmts p g rest ++ R)
    have hev := evalStmt_dataStmt p g id v (h (id, v) (by simp)) (dataStmts p g rest ++ R) st
    rw [htl] at hev ⊢
    simp only [evalStmts, hev]
    rw [ih (fun r hr => h r (by simp [hr])) f' _ (by omega)]
    simp only [List.append_assoc, List.singleton_append, List.length_cons]
    congr 1
    omega

theorem dataStmts_length (p g : Nat → Bool) (ready : List (Nat × Str)) :
    ready.length ≤ (dataStmts p g ready).length := by
  induction ready with
  | nil => simp
  | cons a rest ih =>
    obtain ⟨id, v⟩ := a
    simp only [dataStmts, List.length_append, List.length_cons, dataStmt, kResolvedIdx]
    omega

/-- **transfer, data chunks**: evaluating a data chunk as JavaScript appends, for every resolved
value in order, exactly one assignment under the id the server used, whose value is the payload
with `<` replaced (= the payload itself when it has no `<`) — for all ids, all payloads without
NUL+octal-digit, every instantiation of the Unicode tables -/
theorem C12_chunk_transfer_data (p g : Nat → Bool) (ready : List (Nat × Str))
    (h : ∀ r ∈ ready, Scalar r.2) (st : JsState) :
    evalChunk (asyncChunk p g ready []) st
      = some { st with resolved := st.resolved ++ ready } := by
  have hlen := dataStmts_length p g ready
  have := evalStmts_dataStmts p g ready h [] (dataStmts p g ready).length st hlen
  simp only [List.append_nil] at this
  simp only [evalChunk, asyncChunk, errStmts, List.append_nil, this]
  cases hk : (dataStmts p g ready).length + 1 - ready.length <;> simp [evalStmts]

theorem parseErrTuple_body (p g : Nat → Bool) (site : Site)
    (b e : Nat) (m : Str) (hm : Scalar m) (R : Str) :
    parseErrTuple (errTupleBody p g site b e m ++ R) = some ((b, e, m), R) := by
  have hshape : errTupleBody p g site b e m ++ R
      = decDigits b ++ ([44, 32] ++ (decDigits e ++ ([44, 32] ++ (jsString p g m ++ (93 :: R))))) := by
    simp [errTupleBody, emitLit, List.append_assoc]
  have hlit := jsStrLit_jsString p g m hm (93 :: R)
  have hb := parseNat_decDigits b ([44, 32] ++ (decDigits e ++ ([44, 32] ++ (jsString p g m ++ (93 :: R)))))
    (by simp [firstNotDec, isDec])
  have he := parseNat_decDigits e ([44, 32] ++ (jsString p g m ++ (93 :: R)))
    (by simp [firstNotDec, isDec])
  rw [hshape]
  unfold parseErrTuple
  simp only [hb, stripPrefix_append, he, hlit]
  simp [stripPrefix]

theorem evalStmt_errPushStmt (p g : Nat → Bool) (b e : Nat) (m : Str) (hm : Scalar m) (R : Str)
    (st : JsState) :
    evalStmt (errPushStmt p g b e m ++ R) st
      = some ({ st with errors := st.errors ++ [(b, e, m)] }, R) := by
  have hshape : errPushStmt p g b e m ++ R
      = kErrorsPush ++ (errTupleBody p g .asyncError b e m ++ (41 :: 59 :: R)) := by
    simp [errPushStmt, List.append_assoc]
  have hno : ∀ X, stripPrefix kResolvedIdx (kErrorsPush ++ X) = none := by
    intro X; simp [stripPrefix, kResolvedIdx, kErrorsPush]
  have ht := parseErrTuple_body p g .asyncError b e m hm (41 :: 59 :: R)
  rw [hshape]
  unfold evalStmt
  simp only [hno, stripPrefix_append, ht]
  simp [stripPrefix]

theorem errPushStmt_cons (p g : Nat → Bool) (b e : Nat) (m : Str) (X : Str) :
    ∃ tl, errPushStmt p g b e m ++ X = 95 :: tl := by
  simp [errPushStmt, kErrorsPush]

/-- all messages are Rust strings -/
def ErrsScalar (errs : List ErrRec) : Prop := ∀ r ∈ errs, Scalar r.2.2

theorem evalStmts_errStmts (p g : Nat → Bool) (errs : List ErrRec) (h : ErrsScalar errs) (R : Str) :
    ∀ (f : Nat) (st : JsState), errs.length ≤ f →
      evalStmts (f + 1) (errStmts p g errs ++ R) st
        = evalStmts (f + 1 - errs.length) R { st with errors := st.errors ++ errs } := by
  induction errs with
  | nil => intro f st _; simp [errStmts]
  | cons a rest ih =>
    intro f st hf
    obtain ⟨b, e, m⟩ := a
    simp only [List.length_cons] at hf
    obtain ⟨f', rfl⟩ : ∃ f', f = f' + 1 := ⟨f - 1, by omega⟩
    simp only [errStmts, List.append_assoc]
    obtain ⟨tl, htl⟩ := errPushStmt_cons p g b e m (errStmts p g rest ++ R)
    have hev := evalStmt_errPushStmt p g b e m (h (b, e, m) (by simp)) (errStmts p g rest ++ R) st
    rw [htl] at hev ⊢
    simp only [evalStmts, hev]
    rw [ih (fun r hr => h r (by simp [hr])) f' _ (by omega)]
    simp only [List.append_assoc, List.singleton_append, List.length_cons]
    congr 1
    omega

theorem errStmts_length (p g : Nat → Bool) (errs : List ErrRec) :
    errs.length ≤ (errStmts p g errs).length := by
  induction errs with
  | nil => simp
  | cons a rest ih =>
    obtain ⟨b, e, m⟩ := a
    simp only [errStmts, List.length_append, List.length_cons, errPushStmt, kErrorsPush]
    omega

/-- **transfer, any chunk of `AsyncDataStream`** (as JavaScript, leaving the HTML tokenizer to
`C12_script_inert_*`): every resolved value is assigned once under its id, every error is pushed
once with its boundary id, error id and exact message -/
theorem C12_chunk_transfer (p g : Nat → Bool) (ready : List (Nat × Str)) (errs : List ErrRec)
    (h : ∀ r ∈ ready, Scalar r.2) (he : ErrsScalar errs) (st : JsState) :
    evalChunk (asyncChunk p g ready errs) st
      = some { st with resolved := st.resolved ++ ready,
                       errors := st.errors ++ errs } := by
  have h1 := dataStmts_length p g ready
  have h2 := errStmts_length p g errs
  have hd := evalStmts_dataStmts p g ready h (errStmts p g errs)
    ((dataStmts p g ready).length + (errStmts p g errs).length) st (by omega)
  simp only [evalChunk, asyncChunk, List.length_append, hd]
  obtain ⟨f, hf⟩ : ∃ f, (dataStmts p g ready).length + (errStmts p g errs).length + 1 - ready.length
      = f + 1 ∧ errs.length ≤ f :=
    ⟨(dataStmts p g ready).length + (errStmts p g errs).length - ready.length, by omega, by omega⟩
  rw [hf.1]
  have hs := evalStmts_errStmts p g errs he [] f
    { st with resolved := st.resolved ++ ready } hf.2
  simp only [List.append_nil] at hs
  rw [hs]
  cases hk : f + 1 - errs.length <;> simp [evalStmts]

/-! ### the first and the last chunk -/

theorem evalStmts_step (f : Nat) (s : Str) (st st' : JsState) (r : Str) (hne : s ≠ [])
    (h : evalStmt s st = some (st', r)) : evalStmts (f + 1) s st = evalStmts f r st' := by
  cases s with
  | nil => exact absurd rfl hne
  | cons c cs => simp [evalStmts, h]

theorem parseErrList_errList (p g : Nat → Bool) (errs : List ErrRec) (h : ErrsScalar errs) (R : Str) :
    ∀ f, errs.length < f →
      parseErrList f (errList p g errs ++ (kCloseList ++ R)) = some (errs, R) := by
  induction errs with
  | nil =>
    intro f hf
    obtain ⟨f', rfl⟩ : ∃ f', f = f' + 1 := ⟨f - 1, by omega⟩
    simp [errList, parseErrList, stripPrefix_append]
  | cons a rest ih =>
    intro f hf
    obtain ⟨b, e, m⟩ := a
    simp only [List.length_cons] at hf
    obtain ⟨f', rfl⟩ : ∃ f', f = f' + 1 := ⟨f - 1, by omega⟩
    have hshape : errList p g ((b, e, m) :: rest) ++ (kCloseList ++ R)
        = 91 :: (errTupleBody p g .initError b e m ++ (44 :: (errList p g rest ++ (kCloseList ++ R)))) := by
      simp [errList, errTuple, List.append_assoc]
    have ht := parseErrTuple_body p g .initError b e m (h (b, e, m) (by simp))
      (44 :: (errList p g rest ++ (kCloseList ++ R)))
    have ih' := ih (fun r hr => h r (by simp [hr])) f' (by omega)
    have hno : ∀ X, stripPrefix kCloseList (91 :: X) = none := by
      intro X; simp [kCloseList, stripPrefix]
    have h91 : ∀ X, stripPrefix [91] (91 :: X) = some X := by
      intro X; simp [stripPrefix]
    have h44 : ∀ X, stripPrefix [44] (44 :: X) = some X := by
      intro X; simp [stripPrefix]
    rw [hshape]
    unfold parseErrList
    simp only [hno, h91, ht, h44, ih']

theorem decDigits_cons (n : Nat) : ∃ c cs, decDigits n = c :: cs ∧ isDec c = true := by
  unfold decDigits
  cases hds : decFuel n n with
  | nil => exact absurd hds (decFuel_ne_nil n n)
  | cons c cs => exact ⟨c, cs, rfl, isDec_decFuel n n c (by simp [hds])⟩

theorem parseNumList_numList (ns : List Nat) (R : Str) :
    ∀ f, ns.length < f → parseNumList f (numList ns ++ (kCloseList ++ R)) = some (ns, R) := by
  induction ns with
  | nil =>
    intro f hf
    obtain ⟨f', rfl⟩ : ∃ f', f = f' + 1 := ⟨f - 1, by omega⟩
    simp [numList, parseNumList, stripPrefix_append]
  | cons n rest ih =>
    intro f hf
    simp only [List.length_cons] at hf
    obtain ⟨f', rfl⟩ : ∃ f', f = f' + 1 := ⟨f - 1, by omega⟩
    have hshape : numList (n :: rest) ++ (kCloseList ++ R)
        = decDigits n ++ (44 :: (numList rest ++ (kCloseList ++ R))) := by
      simp [numList, List.append_assoc]
    obtain ⟨c, cs, hc, hdec⟩ := decDigits_cons n
    have hnat := parseNat_decDigits n (44 :: (numList rest ++ (kCloseList ++ R)))
      (by simp [firstNotDec, isDec])
    have hno : stripPrefix kCloseList (decDigits n ++ (44 :: (numList rest ++ (kCloseList ++ R)))) = none := by
      rw [hc]
      have : (93 : Nat) ≠ c := by
        intro h; subst h; simp [isDec] at hdec
      simp [kCloseList, stripPrefix, this]
    have ih' := ih f' (by omega)
    rw [hshape]
    unfold parseNumList
    simp only [hno, hnat]
    simp [stripPrefix, ih']

theorem errList_length (p g : Nat → Bool) (errs : List ErrRec) :
    errs.length ≤ (errList p g errs).length := by
  induction errs with
  | nil => simp
  | cons a rest ih =>
    obtain ⟨b, e, m⟩ := a
    simp only [errList, errTuple, List.length_append, List.length_cons]
    omega

theorem numList_length (ns : List Nat) : ns.length ≤ (numList ns).length := by
  induction ns with
  | nil => simp
  | cons n rest ih =>
    simp only [numList, List.length_append, List.length_cons]
    omega

/-- **transfer, first chunk** (with the sync buffer empty, as it always is): it resets the
resolved array, and the client finds exactly the registered errors and the pending ids -/
theorem C12_initial_chunk_transfer (p g : Nat → Bool) (errs : List ErrRec) (pend : List Nat)
    (he : ErrsScalar errs) (st : JsState) :
    evalChunk (initialChunk p g [] errs pend) st
      = some { resolved := [], errors := errs, pending := pend, incomplete := st.incomplete } := by
  -- the four statements
  let s4 : Str := kResolvers
  let s3 : Str := kPendingInit ++ (numList pend ++ (kCloseList ++ s4))
  let s2 : Str := kErrorsInit ++ (errList p g errs ++ (kCloseList ++ s3))
  have hshape : initialChunk p g [] errs pend = kResolvedInit ++ (kCloseList ++ s2) := by
    simp [initialChunk, syncList, s2, s3, s4, List.append_assoc]
  have e1 : evalStmt (kResolvedInit ++ (kCloseList ++ s2)) st = some ({ st with resolved := [] }, s2) := by
    unfold evalStmt
    have h1 : ∀ X, stripPrefix kResolvedIdx (kResolvedInit ++ X) = none := by
      intro X; simp [stripPrefix, kResolvedIdx, kResolvedInit]
    have h2 : ∀ X, stripPrefix kErrorsPush (kResolvedInit ++ X) = none := by
      intro X; simp [stripPrefix, kErrorsPush, kResolvedInit]
    simp only [h1, h2, stripPrefix_append]
  have e2 : ∀ st : JsState, evalStmt s2 st = some ({ st with errors := errs }, s3) := by
    intro st
    unfold evalStmt
    have h1 : ∀ X, stripPrefix kResolvedIdx (kErrorsInit ++ X) = none := by
      intro X; simp [stripPrefix, kResolvedIdx, kErrorsInit]
    have h2 : ∀ X, stripPrefix kErrorsPush (kErrorsInit ++ X) = none := by
      intro X; simp [stripPrefix, kErrorsPush, kErrorsInit]
    have h3 : ∀ X, stripPrefix kResolvedInit (kErrorsInit ++ X) = none := by
      intro X; simp [stripPrefix, kResolvedInit, kErrorsInit]
    have hp := parseErrList_errList p g errs he s3
      ((errList p g errs ++ (kCloseList ++ s3)).length + 1)
      (by have := errList_length p g errs; simp only [List.length_append]; omega)
    simp only [s2, h1, h2, h3, stripPrefix_append, hp]
  have e3 : ∀ st : JsState, evalStmt s3 st = some ({ st with pending := pend }, s4) := by
    intro st
    unfold evalStmt
    have h1 : ∀ X, stripPrefix kResolvedIdx (kPendingInit ++ X) = none := by
      intro X; simp [stripPrefix, kResolvedIdx, kPendingInit]
    have h2 : ∀ X, stripPrefix kErrorsPush (kPendingInit ++ X) = none := by
      intro X; simp [stripPrefix, kErrorsPush, kPendingInit]
    have h3 : ∀ X, stripPrefix kResolvedInit (kPendingInit ++ X) = none := by
      intro X; simp [stripPrefix, kResolvedInit, kPendingInit]
    have h4 : ∀ X, stripPrefix kErrorsInit (kPendingInit ++ X) = none := by
      intro X; simp [stripPrefix, kErrorsInit, kPendingInit]
    have hp := parseNumList_numList pend s4
      ((numList pend ++ (kCloseList ++ s4)).length + 1)
      (by have := numList_length pend; simp only [List.length_append]; omega)
    simp only [s3, h1, h2, h3, h4, stripPrefix_append, hp]
  have e4 : ∀ st : JsState, evalStmt s4 st = some (st, []) := by
    intro st; simp [s4, evalStmt, stripPrefix, kResolvers, kResolvedIdx, kErrorsPush, kResolvedInit,
      kErrorsInit, kPendingInit]
  have hlen : ∃ f, (initialChunk p g [] errs pend).length + 1 = f + 4 := by
    refine ⟨(initialChunk p g [] errs pend).length - 3, ?_⟩
    have : 22 ≤ (initialChunk p g [] errs pend).length := by
      rw [hshape]; simp [kResolvedInit]
    omega
  obtain ⟨f, hf⟩ := hlen
  unfold evalChunk
  rw [hf, hshape]
  rw [evalStmts_step (f + 3) _ st _ _ (by simp [kResolvedInit]) e1]
  rw [evalStmts_step (f + 2) s2 _ _ _ (by simp [s2, kErrorsInit]) (e2 _)]
  rw [evalStmts_step (f + 1) s3 _ _ _ (by simp [s3, kPendingInit]) (e3 _)]
  rw [evalStmts_step f s4 _ _ _ (by simp [s4, kResolvers]) (e4 _)]
  simp [evalStmts]

/-- **transfer, last chunk**: the client finds exactly the incomplete-chunk ids -/
theorem C12_incomplete_chunk_transfer (ids : List Nat) (st : JsState) :
    evalChunk (incompleteChunk ids) st = some { st with incomplete := ids } := by
  have hshape : incompleteChunk ids = kIncompleteInit ++ (numList ids ++ (kCloseList ++ [])) := by
    simp [incompleteChunk, List.append_assoc]
  have e : evalStmt (kIncompleteInit ++ (numList ids ++ (kCloseList ++ []))) st
      = some ({ st with incomplete := ids }, []) := by
    unfold evalStmt
    have h1 : ∀ X, stripPrefix kResolvedIdx (kIncompleteInit ++ X) = none := by
      intro X; simp [stripPrefix, kResolvedIdx, kIncompleteInit]
    have h2 : ∀ X, stripPrefix kErrorsPush (kIncompleteInit ++ X) = none := by
      intro X; simp [stripPrefix, kErrorsPush, kIncompleteInit]
    have h3 : ∀ X, stripPrefix kResolvedInit (kIncompleteInit ++ X) = none := by
      intro X; simp [stripPrefix, kResolvedInit, kIncompleteInit]
    have h4 : ∀ X, stripPrefix kErrorsInit (kIncompleteInit ++ X) = none := by
      intro X; simp [stripPrefix, kErrorsInit, kIncompleteInit]
    have h5 : ∀ X, stripPrefix kPendingInit (kIncompleteInit ++ X) = none := by
      intro X; simp [stripPrefix, kPendingInit, kIncompleteInit]
    have h6 : ∀ X, stripPrefix kResolvers (kIncompleteInit ++ X) = none := by
      intro X; simp [stripPrefix, kResolvers, kIncompleteInit]
    have hp := parseNumList_numList ids []
      ((numList ids ++ (kCloseList ++ [])).length + 1)
      (by have := numList_length ids; simp only [List.length_append]; omega)
    simp only [h1, h2, h3, h4, h5, h6, stripPrefix_append, hp]
  unfold evalChunk
  rw [hshape, evalStmts_step _ _ st _ _ (by simp [kIncompleteInit]) e]
  cases (kIncompleteInit ++ (numList ids ++ (kCloseList ++ []))).length <;> simp [evalStmts]

/-- the client then reads the id's value: exactly the string that was written -/
theorem C12_read_back_single (p g : Nat → Bool) (id : Nat) (v : Str) (hv : Scalar v) :
    (evalChunk (asyncChunk p g [(id, v)] []) JsState.empty).bind (fun st => st.read id) = some v := by
  rw [C12_chunk_transfer_data p g [(id, v)] (by intro r hr; simp at hr; subst hr; exact hv)]
  simp [JsState.empty, JsState.read]

/-! ## G. the JSON codec (`Resource::new`) end to end

After the repair this is a corollary of `C12_roundtrip`.  Before it, JSON was the one encoding
that survived: `JsonSerdeCodec::encode` never prints a raw NUL, and a `<` only inside a string
token, where the `\\u003c` text the old data site substituted is itself a valid JSON escape. -/

theorem replaceLt_append (a b : Str) : replaceLt (a ++ b) = replaceLt a ++ replaceLt b := by
  induction a with
  | nil => rfl
  | cons c cs ih =>
    simp only [List.cons_append, replaceLt]
    split <;> simp [ih]

theorem replaceLt_of_NoLt (a : Str) (h : NoLt a) : replaceLt a = a := by
  induction a with
  | nil => rfl
  | cons c cs ih =>
    have hc : c ≠ 60 := h c (by simp)
    simp [replaceLt, hc, ih (fun x hx => h x (by simp [hx]))]

theorem jsonStrBody_skip (l T : Str) : jsonStrBody l.length (l ++ T) = jsonStrBody 0 T := by
  induction l with
  | nil => rfl
  | cons c cs ih => simpa [jsonStrBody] using ih

theorem jsonStrBody_backslash (X : Str) :
    jsonStrBody 0 (92 :: X) =
      match jsonEscape X with
      | none => none
      | some (out, k) =>
        match jsonStrBody k X with
        | some (s, r) => some (out ++ s, r)
        | none => none := by
  simp only [jsonStrBody, show (92 : Nat) ≠ 34 by decide, show ¬ ((92 : Nat) < 32) by decide,
    if_false, if_true]
  rfl

theorem hex4_ctrl (c : Nat) (hc : c < 32) (T : Str) :
    hex4 (48 :: 48 :: hexLo (c / 16) :: hexLo (c % 16) :: T) = some c := by
  have h1 := hexVal_hexLo (c / 16) (by omega)
  have h2 := hexVal_hexLo (c % 16) (by omega)
  have h0 : hexVal 48 = some 0 := by decide
  simp only [hex4, h0, h1, h2]
  congr 1; omega

/-- one escaped character followed by the rest is decoded to that character -/
theorem jsonStrBody_escChar (c : Nat) (T : Str) (cs r : Str) (hT : jsonStrBody 0 T = some (cs, r)) :
    jsonStrBody 0 (replaceLt (jsonEscChar c) ++ T) = some (c :: cs, r) := by
  unfold jsonEscChar
  split
  · next h => subst h; simp [replaceLt, jsonStrBody, jsonEscape, hT]
  · split
    · next h => subst h; simp [replaceLt, jsonStrBody, jsonEscape, hT]
    · split
      · next h => subst h; simp [replaceLt, jsonStrBody, jsonEscape, hT]
      · split
        · next h => subst h; simp [replaceLt, jsonStrBody, jsonEscape, hT]
        · split
          · next h => subst h; simp [replaceLt, jsonStrBody, jsonEscape, hT]
          · split
            · next h => subst h; simp [replaceLt, jsonStrBody, jsonEscape, hT]
            · split
              · next h => subst h; simp [replaceLt, jsonStrBody, jsonEscape, hT]
              · next h34 h92 h8 h9 h10 h12 h13 =>
                split
                · next hlt =>
                  -- `\u00XX`
                  have hno : NoLt [92, 117, 48, 48, hexLo (c / 16), hexLo (c % 16)] := by
                    intro x hx
                    simp only [List.mem_cons, List.not_mem_nil, or_false] at hx
                    rcases hx with hx | hx | hx | hx | hx | hx
                    · omega
                    · omega
                    · omega
                    · omega
                    · exact hx ▸ hexLo_ne_lt _ (by omega)
                    · exact hx ▸ hexLo_ne_lt _ (by omega)
                  rw [replaceLt_of_NoLt _ hno]
                  have hsk := jsonStrBody_skip [117, 48, 48, hexLo (c / 16), hexLo (c % 16)] T
                  simp only [List.length_cons, List.length_nil, List.cons_append, List.nil_append] at hsk
                  simp only [List.cons_append, List.nil_append, jsonStrBody_backslash, jsonEscape,
                    show (117 : Nat) ≠ 34 ∧ (117 : Nat) ≠ 92 ∧ (117 : Nat) ≠ 47 by decide]
                  simp [hex4_ctrl c hlt T, hsk, hT]
                · next hge =>
                  by_cases h60 : c = 60
                  · subst h60
                    have hsk := jsonStrBody_skip [117, 48, 48, 51, 99] T
                    simp only [List.length_cons, List.length_nil, List.cons_append, List.nil_append] at hsk
                    simp only [replaceLt, kLtEsc, if_true, List.cons_append, List.nil_append,
                      List.append_nil, jsonStrBody_backslash, jsonEscape]
                    simp [hex4, hexVal, hsk, hT]
                  · have : ¬ c < 32 := hge
                    simp [replaceLt, h60, jsonStrBody, h34, h92, this, hT]

theorem jsonStrBody_encBody (s r : Str) :
    jsonStrBody 0 (replaceLt (jsonEncBody s) ++ 34 :: r) = some (s, r) := by
  induction s with
  | nil => simp [jsonEncBody, replaceLt, jsonStrBody]
  | cons c cs ih =>
    simp only [jsonEncBody, replaceLt_append, List.append_assoc]
    exact jsonStrBody_escChar c _ cs r ih

/-- the JSON layer alone: whatever the data site's `<` replacement does to the JSON text of a string
value, `serde_json` decodes the original string — for **every** string, no hypothesis -/
theorem C12_json_survives_replace (s : Str) (hs : Scalar s) :
    jsonStrDecode (replaceLt (jsonStrEncode s)) = some s := by
  have h := jsonStrBody_encBody s []
  have : replaceLt (jsonStrEncode s) = 34 :: (replaceLt (jsonEncBody s) ++ [34]) := by
    simp [jsonStrEncode, replaceLt, replaceLt_append]
  rw [this]
  simp [jsonStrDecode, h, joinSurr_scalar s hs]

theorem jsonEscChar_props (c : Nat) (hc : c < 1114112 ∧ ¬ (55296 ≤ c ∧ c ≤ 57343)) :
    ∀ x ∈ jsonEscChar c, x ≠ 0 ∧ x < 1114112 ∧ ¬ (55296 ≤ x ∧ x ≤ 57343) := by
  have hl : ∀ d, d < 16 → hexLo d ≠ 0 ∧ hexLo d < 128 := by decide
  unfold jsonEscChar
  repeat' split
  all_goals (intro x hx; simp only [List.mem_cons, List.not_mem_nil, or_false] at hx)
  all_goals first
    | (rcases hx with hx | hx <;> subst hx <;> omega)
    | (rcases hx with hx | hx | hx | hx | hx | hx
       · subst hx; omega
       · subst hx; omega
       · subst hx; omega
       · subst hx; omega
       · have := hl (c / 16) (by omega); subst hx; omega
       · have := hl (c % 16) (by omega); subst hx; omega)
    | (subst hx; omega)

theorem jsonStrEncode_props (s : Str) (hs : Scalar s) :
    ∀ x ∈ jsonStrEncode s, x ≠ 0 ∧ x < 1114112 ∧ ¬ (55296 ≤ x ∧ x ≤ 57343) := by
  have hb : ∀ x ∈ jsonEncBody s, x ≠ 0 ∧ x < 1114112 ∧ ¬ (55296 ≤ x ∧ x ≤ 57343) := by
    induction s with
    | nil => intro x hx; simp [jsonEncBody] at hx
    | cons c cs ih =>
      intro x hx
      simp only [jsonEncBody] at hx
      rcases List.mem_append.mp hx with h | h
      · exact jsonEscChar_props c (hs c (by simp)) x h
      · exact ih (scalar_tail hs) x h
  intro x hx
  simp only [jsonStrEncode, List.mem_cons, List.mem_append, List.not_mem_nil, or_false] at hx
  rcases hx with hx | hx | hx
  · subst hx; omega
  · exact hb x hx
  · subst hx; omega

theorem nulOct_of_noZero (s : Str) (h : ∀ x ∈ s, x ≠ 0) : nulOct s = false := by
  induction s with
  | nil => rfl
  | cons c cs ih =>
    have hc : c ≠ 0 := h c (by simp)
    have : (c == 0) = false := by simpa using hc
    simp [nulOct, this, ih (fun x hx => h x (by simp [hx]))]

/-- one serde_json-escaped character followed by the rest is decoded to that character -/
theorem jsonStrBody_escChar_raw (c : Nat) (T : Str) (cs r : Str) (hT : jsonStrBody 0 T = some (cs, r)) :
    jsonStrBody 0 (jsonEscChar c ++ T) = some (c :: cs, r) := by
  unfold jsonEscChar
  split
  · next h => subst h; simp [jsonStrBody, jsonEscape, hT]
  · split
    · next h => subst h; simp [jsonStrBody, jsonEscape, hT]
    · split
      · next h => subst h; simp [jsonStrBody, jsonEscape, hT]
      · split
        · next h => subst h; simp [jsonStrBody, jsonEscape, hT]
        · split
          · next h => subst h; simp [jsonStrBody, jsonEscape, hT]
          · split
            · next h => subst h; simp [jsonStrBody, jsonEscape, hT]
            · split
              · next h => subst h; simp [jsonStrBody, jsonEscape, hT]
              · next h34 h92 h8 h9 h10 h12 h13 =>
                split
                · next hlt =>
                  have hsk := jsonStrBody_skip [117, 48, 48, hexLo (c / 16), hexLo (c % 16)] T
                  simp only [List.length_cons, List.length_nil, List.cons_append, List.nil_append] at hsk
                  simp only [List.cons_append, List.nil_append, jsonStrBody_backslash, jsonEscape,
                    show (117 : Nat) ≠ 34 ∧ (117 : Nat) ≠ 92 ∧ (117 : Nat) ≠ 47 by decide]
                  simp [hex4_ctrl c hlt T, hsk, hT]
                · next hge =>
                  have : ¬ c < 32 := hge
                  simp [jsonStrBody, h34, h92, this, hT]

theorem jsonStrBody_encBody_raw (s r : Str) :
    jsonStrBody 0 (jsonEncBody s ++ 34 :: r) = some (s, r) := by
  induction s with
  | nil => simp [jsonEncBody, jsonStrBody]
  | cons c cs ih =>
    simp only [jsonEncBody, List.append_assoc]
    exact jsonStrBody_escChar_raw c _ cs r ih

/-- serde_json decodes what serde_json encodes (string values) -/
theorem jsonStrDecode_encode (s : Str) (hs : Scalar s) : jsonStrDecode (jsonStrEncode s) = some s := by
  have h := jsonStrBody_encBody_raw s []
  simp [jsonStrEncode, jsonStrDecode, h, joinSurr_scalar s hs]

/-- **JSON string values, end to end**: server `JsonSerdeCodec::encode`, the emission site
(`js_string`), the browser's string literal, client `JsonSerdeCodec::decode`: the client obtains
exactly the string the server had, for every string and every instantiation of the Unicode tables -/
theorem C12_json_string_roundtrip (p g : Nat → Bool) (site : Site) (s : Str) (hs : Scalar s) :
    (jsDecodeStringLiteral (emitLit p g site (jsonStrEncode s))).bind jsonStrDecode = some s := by
  have hp := jsonStrEncode_props s hs
  have h1 : Scalar (jsonStrEncode s) := fun x hx => (hp x hx).2
  rw [C12_roundtrip p g site _ h1]
  exact jsonStrDecode_encode s hs

/-- before the repair the JSON codec was the one encoding that survived both data defects -/
theorem C12_old_json_string_roundtrip (p g : Nat → Bool) (site : Site) (hsite : siteReplacesLt site = true)
    (s : Str) (hs : Scalar s) :
    (jsDecodeStringLiteral (emitLitOld p g site (jsonStrEncode s))).bind jsonStrDecode = some s := by
  have hp := jsonStrEncode_props s hs
  have h1 : Scalar (jsonStrEncode s) := fun x hx => (hp x hx).2
  have h2 : nulOct (jsonStrEncode s) = false := nulOct_of_noZero _ (fun x hx => (hp x hx).1)
  rw [C12_old_data_reads_replaced p g site hsite _ h1 h2]
  exact C12_json_survives_replace s hs

example : (jsDecodeStringLiteral (emitLit asciiPrintable noExtend .asyncData
    (jsonStrEncode [0, 49, 60, 47, 115, 34, 92, 8232]))).bind jsonStrDecode
    = some [0, 49, 60, 47, 115, 34, 92, 8232] := by decide

/-! ## H. codecs: the text form of a value decodes to the value; both server exits pair ids with values -/

theorem sextet_roundtrip : ∀ i, i < 64 → sextetOf b64Std (sextetChar b64Std i) = some i := by decide

theorem sextetChar_ascii (i : Nat) : sextetChar b64Std i < 128 := by
  by_cases h : i < 64
  · revert h; revert i; decide
  · have : b64Std.length ≤ i := by simp [b64Std]; omega
    simp [sextetChar, List.getElem?_eq_none this]

/-- **base64 round trip**: `STANDARD_NO_PAD.decode(STANDARD_NO_PAD.encode(bytes)) == bytes` for every
byte string, the empty one and every length modulo 3 included -/
theorem b64_roundtrip (bs : List Nat) (h : ∀ b ∈ bs, b < 256) :
    b64Dec b64Std (b64Enc b64Std bs) = some bs := by
  fun_induction b64Enc b64Std bs with
  | case1 => rfl
  | case2 a =>
    have ha : a < 256 := h a (by simp)
    simp only [b64Dec, sextet_roundtrip (a / 4) (by omega), sextet_roundtrip (a % 4 * 16) (by omega)]
    have : a % 4 * 16 % 16 = 0 := by omega
    simp only [this, if_true]
    congr 2; omega
  | case3 a b =>
    have ha : a < 256 := h a (by simp)
    have hb : b < 256 := h b (by simp)
    simp only [b64Dec, sextet_roundtrip (a / 4) (by omega),
      sextet_roundtrip (a % 4 * 16 + b / 16) (by omega), sextet_roundtrip (b % 16 * 4) (by omega)]
    have : b % 16 * 4 % 4 = 0 := by omega
    simp only [this, if_true]
    congr 2
    · omega
    · congr 1; omega
  | case4 a b c rest ih =>
    have ha : a < 256 := h a (by simp)
    have hb : b < 256 := h b (by simp)
    have hc : c < 256 := h c (by simp)
    have ih' := ih (fun x hx => h x (by simp [hx]))
    simp only [b64Dec, sextet_roundtrip (a / 4) (by omega),
      sextet_roundtrip (a % 4 * 16 + b / 16) (by omega), sextet_roundtrip (b % 16 * 4 + c / 64) (by omega),
      sextet_roundtrip (c % 64) (by omega), ih']
    congr 2
    · omega
    · congr 1
      · omega
      · congr 1; omega

theorem scalar_b64Enc (bs : List Nat) : Scalar (b64Enc b64Std bs) := by
  have hs : ∀ i, sextetChar b64Std i < 1114112 ∧ ¬ (55296 ≤ sextetChar b64Std i ∧ sextetChar b64Std i ≤ 57343) := by
    intro i; have := sextetChar_ascii i; omega
  fun_induction b64Enc b64Std bs with
  | case1 => intro x hx; simp at hx
  | case2 a => intro x hx; simp at hx; rcases hx with rfl | rfl <;> exact hs _
  | case3 a b => intro x hx; simp at hx; rcases hx with rfl | rfl | rfl <;> exact hs _
  | case4 a b c rest ih =>
    intro x hx
    simp only [List.mem_cons] at hx
    rcases hx with rfl | rfl | rfl | rfl | hx
    · exact hs _
    · exact hs _
    · exact hs _
    · exact hs _
    · exact ih x hx

/-- **binary codecs, end to end**: server `Vec<u8>::into_encoded_string` (unpadded standard base64),
the emission site, the browser's string literal, client `<[u8]>::from_encoded_str`: the client gets
exactly the server's bytes — every byte string (all 64 sextets, empty included), every site,
every instantiation of the Unicode tables -/
theorem C12_bytes_roundtrip (p g : Nat → Bool) (site : Site) (bs : List Nat) (h : ∀ b ∈ bs, b < 256) :
    (jsDecodeStringLiteral (emitLit p g site (encBytes bs))).bind decBytes = some bs := by
  unfold encBytes decBytes
  rw [C12_roundtrip p g site _ (scalar_b64Enc bs)]
  exact b64_roundtrip bs h

/-- the string codec is the identity on both sides (`String::into_encoded_string`, `str::from_encoded_str`):
this is `C12_roundtrip` -/
theorem C12_str_codec_roundtrip (p g : Nat → Bool) (site : Site) (s : Str) (hs : Scalar s) :
    jsDecodeStringLiteral (emitLit p g site s) = some s := C12_roundtrip p g site s hs

/-- **an empty value is a value**: the empty string / the empty byte string is transmitted as `""`
and the client finds it *present* under its id (`some []`, not `none`) -/
theorem C12_empty_value_arrives (p g : Nat → Bool) (id : Nat) :
    encBytes [] = [] ∧ decBytes [] = some [] ∧
    (evalChunk (asyncChunk p g [(id, [])] []) JsState.empty).bind (fun st => st.read id) = some [] := by
  refine ⟨rfl, rfl, ?_⟩
  exact C12_read_back_single p g id [] (by intro c hc; simp at hc)

/-- the base64 engines of both sides are what the source and the pinned `base64` crate say -/
theorem C12_base64_matches_source :
    Leptos.Gen.Base64.encodeAlphabet = b64Std ∧ Leptos.Gen.Base64.decodeAlphabet = b64Std ∧
    Leptos.Gen.Base64.encodeEngine = Leptos.Gen.Base64.decodeEngine ∧
    Leptos.Gen.Base64.encodePads = false ∧
    Leptos.Gen.Base64.decodePaddingMode = [82, 101, 113, 117, 105, 114, 101, 78, 111, 110, 101] ∧
    Leptos.Gen.Base64.decodeAllowsTrailingBits = false := by
  decide

/-- the URL-safe alphabet differs exactly at sextets 62 and 63 (why a mixed pair of engines loses
every value whose base64 contains one of them) -/
theorem b64_urlsafe_differs :
    b64Enc b64UrlSafe [251, 255] ≠ b64Enc b64Std [251, 255] ∧
    b64Dec b64Std (b64Enc b64UrlSafe [251, 255]) = none ∧
    b64Dec b64Std (b64Enc b64UrlSafe [0, 16, 131]) = some [0, 16, 131] := by decide

/-! ### `consume_buffers`: ids stay paired with their values for every completion order -/

def entryPair (e : Entry) : Nat × Str := (e.id, e.val)

/-- what a running `consume_buffers` will return: what it has, then what it still awaits -/
def Consume.pairs (c : Consume) : List (Nat × Str) := c.acc ++ c.rest.map entryPair

theorem consumeAdvance_pairs (l : List Entry) :
    (consumeAdvance l).1 ++ (consumeAdvance l).2.map entryPair = l.map entryPair := by
  induction l with
  | nil => rfl
  | cons e es ih =>
    unfold consumeAdvance
    split
    · simp only [List.cons_append, List.map_cons, ih, entryPair]
    · rfl

theorem Consume.poll_pairs (c : Consume) : c.poll.pairs = c.pairs := by
  simp only [Consume.poll, Consume.pairs, List.append_assoc, consumeAdvance_pairs]

theorem completeIn_pairs (k : Nat) (l : List Entry) :
    (completeIn k l).map entryPair = l.map entryPair := by
  induction l with
  | nil => rfl
  | cons e es ih =>
    unfold completeIn
    split
    · simp [entryPair]
    · simp [ih]

/-- what the application does while `consume_buffers` runs -/
inductive COp where
  | complete (key : Nat)                 -- a future gets its value, in any order
  | cpoll                                -- the future is polled
  | lateWrite (key id : Nat) (v : Str)   -- a `write_async` after the buffers were taken

/-- one step; the second component is what a `cpoll` returned -/
def consumeStep (s : Srv) : COp → Srv × Option (List (Nat × Str))
  | .complete k => (s.complete k, none)
  | .cpoll => (s.consumePoll.2, s.consumePoll.1)
  | .lateWrite key id v => (s.writeAsync key id v, none)

def consumeRun : Srv → List COp → List (List (Nat × Str))
  | _, [] => []
  | s, op :: ops =>
    match (consumeStep s op).2 with
    | some r => r :: consumeRun (consumeStep s op).1 ops
    | none => consumeRun (consumeStep s op).1 ops

/-- the pairs a (started or not yet started) `consume_buffers` is going to return -/
def Srv.consumeView (s : Srv) : List (Nat × Str) :=
  match s.consuming with
  | some c => c.pairs
  | none => s.sync ++ s.buf.map entryPair

theorem consumePoll_view (s : Srv) :
    (s.consumePoll.2).consumeView = s.consumeView ∧ (s.consumePoll.2).consuming.isSome = true ∧
    ∀ r, s.consumePoll.1 = some r → r = s.consumeView := by
  unfold Srv.consumePoll Srv.consumeView
  cases hc : s.consuming with
  | none =>
    simp only []
    refine ⟨?_, rfl, ?_⟩
    · have := Consume.poll_pairs { rest := s.buf, acc := s.sync }
      simpa [Consume.pairs] using this
    · intro r hr
      split at hr
      · next he =>
        simp only [Option.some.injEq] at hr
        have := Consume.poll_pairs { rest := s.buf, acc := s.sync }
        simp only [Consume.pairs] at this
        rw [List.isEmpty_iff.mp he] at this
        simpa [← hr] using this
      · cases hr
  | some c =>
    simp only []
    refine ⟨Consume.poll_pairs c, rfl, ?_⟩
    intro r hr
    split at hr
    · next he =>
      simp only [Option.some.injEq] at hr
      have := Consume.poll_pairs c
      simp only [Consume.pairs] at this
      rw [List.isEmpty_iff.mp he] at this
      simpa [← hr, Consume.pairs] using this
    · cases hr

theorem consumeStep_view (s : Srv) (op : COp) (hs : s.consuming.isSome = true) :
    (consumeStep s op).1.consumeView = s.consumeView ∧ (consumeStep s op).1.consuming.isSome = true ∧
    ∀ r, (consumeStep s op).2 = some r → r = s.consumeView := by
  cases op with
  | cpoll => exact consumePoll_view s
  | complete k =>
    obtain ⟨c, hc⟩ := Option.isSome_iff_exists.mp hs
    simp [consumeStep, Srv.complete, Srv.consumeView, hc, Consume.pairs, completeIn_pairs]
  | lateWrite key id v =>
    obtain ⟨c, hc⟩ := Option.isSome_iff_exists.mp hs
    simp [consumeStep, Srv.writeAsync, Srv.consumeView, hc]

theorem consumeRun_view (ops : List COp) :
    ∀ s : Srv, s.consuming.isSome = true → ∀ r ∈ consumeRun s ops, r = s.consumeView := by
  induction ops with
  | nil => intro s _ r hr; simp [consumeRun] at hr
  | cons op ops ih =>
    intro s hs r hr
    obtain ⟨hv, hsome, hres⟩ := consumeStep_view s op hs
    unfold consumeRun at hr
    split at hr
    · next r' hr' =>
      rcases List.mem_cons.mp hr with h | h
      · exact h ▸ hres r' hr'
      · exact hv ▸ ih _ hsome r h
    · exact hv ▸ ih _ hsome r hr

/-- **`consume_buffers` pairs every id with its own value, for every completion order**: from the
first poll on (which takes the buffers), whatever completions (in any order), polls and late
writes follow, the pairs the future finally returns are exactly the `(id, value)` pairs of the
buffer at that first poll, in creation order -/
theorem C12_consume_pairs (s : Srv) (hs : s.consuming = none) (ops : List COp) :
    ∀ r ∈ consumeRun s (.cpoll :: ops), r = s.sync ++ s.buf.map entryPair := by
  intro r hr
  obtain ⟨hv, hsome, hres⟩ := consumePoll_view s
  have hview : s.consumeView = s.sync ++ s.buf.map entryPair := by simp [Srv.consumeView, hs]
  unfold consumeRun at hr
  simp only [consumeStep] at hr
  split at hr
  · next r' hr' =>
    rcases List.mem_cons.mp hr with h | h
    · exact hview ▸ h ▸ hres r' hr'
    · exact hview ▸ hv ▸ consumeRun_view ops _ hsome r h
  · exact hview ▸ hv ▸ consumeRun_view ops _ hsome r hr

/-- non-vacuity: two values, the later-created one completes first; the pairs keep their ids -/
example :
    consumeRun ((Srv.new false).writeAsync 0 0 [97] |>.writeAsync 1 1 [98])
      [.cpoll, .complete 1, .cpoll, .complete 0, .cpoll] = [[(0, [97]), (1, [98])]] := by decide

/-! ## I. carriers created after hydration read nothing that was transferred -/

/-- the client's counter after it has run a program -/
def cliAfter : CliCtr → List IdOp → CliCtr
  | c, [] => c
  | c, .create :: ops => cliAfter c.nextId.2 ops
  | c, .setHyd b :: ops => cliAfter { c with hyd := b } ops

theorem cliAfter_id (ops : List IdOp) :
    ∀ c : CliCtr, c.id + countCreates ops < usizeMod → (cliAfter c ops).id = c.id + countCreates ops := by
  induction ops with
  | nil => intro c _; simp [cliAfter, countCreates]
  | cons op ops ih =>
    intro c h
    cases op with
    | create =>
      simp only [countCreates, usizeMod] at h
      have hid : c.nextId.2.id = c.id + 1 := by
        simp only [CliCtr.nextId, usizeMod]; omega
      have := ih c.nextId.2 (by rw [hid]; simp only [usizeMod]; omega)
      simp only [cliAfter, countCreates, this, hid]; omega
    | setHyd b =>
      simp only [countCreates] at h
      simpa [cliAfter, countCreates] using ih { c with hyd := b } h

theorem cliRun_bounds (ops : List IdOp) :
    ∀ c : CliCtr, c.id + countCreates ops < usizeMod →
      ∀ x ∈ cliRun c ops, c.id ≤ x ∧ x < c.id + countCreates ops := by
  induction ops with
  | nil => intro c _ x hx; simp [cliRun] at hx
  | cons op ops ih =>
    intro c h x hx
    cases op with
    | create =>
      simp only [countCreates, usizeMod] at h
      have hid : c.nextId.2.id = c.id + 1 := by
        simp only [CliCtr.nextId, usizeMod]; omega
      simp only [cliRun, List.mem_cons] at hx
      rcases hx with hx | hx
      · subst hx; simp only [CliCtr.nextId, countCreates]; omega
      · have := ih c.nextId.2 (by rw [hid]; simp only [usizeMod]; omega) x hx
        rw [hid] at this
        simp only [countCreates]; omega
    | setHyd b =>
      simp only [countCreates] at h
      simp only [cliRun] at hx
      simpa [countCreates] using ih { c with hyd := b } h x hx

/-- **post-hydration carriers read nothing**: let the client hydrate a page (it runs the hydrating
part of any creation program, either constructor) and afterwards create any further carriers
(`later`). Whatever data is readable on the page — any map whose keys are ids the server handed out
while the flag was on — none of it is stored under an id drawn after hydration: such a carrier
starts empty and has to run its own loader. (No wrap-around: fewer than 2^64 creations in total.) -/
theorem C12_post_hydration_reads_nothing (ops later : List IdOp) (islands : Bool)
    (map : List (Nat × Str))
    (hmap : ∀ kv ∈ map, kv.1 ∈ srvHydIds (if islands then SrvCtr.newIslands else SrvCtr.new) ops)
    (h : countCreates (hydratingPart (if islands then SrvCtr.newIslands else SrvCtr.new).hyd ops)
          + countCreates later < usizeMod) :
    ∀ id ∈ cliRun (cliAfter (if islands then CliCtr.newIslands else CliCtr.new)
                      (hydratingPart (if islands then SrvCtr.newIslands else SrvCtr.new).hyd ops)) later,
      map.find? (fun kv => kv.1 == id) = none := by
  intro id hid
  let hp := hydratingPart (if islands then SrvCtr.newIslands else SrvCtr.new).hyd ops
  let c0 : CliCtr := if islands then CliCtr.newIslands else CliCtr.new
  have hc0 : c0.id = 0 := by cases islands <;> rfl
  have hcnt : countCreates hp
      = countCreates (hydratingPart (if islands then SrvCtr.newIslands else SrvCtr.new).hyd ops) := rfl
  have hafter : (cliAfter c0 hp).id = countCreates hp := by
    have := cliAfter_id hp c0 (by rw [hc0]; omega)
    rw [this, hc0]; omega
  have hlate := cliRun_bounds later (cliAfter c0 hp) (by rw [hafter]; exact h) id hid
  rw [hafter] at hlate
  apply List.find?_eq_none.mpr
  intro kv hkv
  have hk := hmap kv hkv
  rw [C12_ids_align ops islands] at hk
  have hb := cliRun_bounds hp c0 (by rw [hc0]; omega) kv.1 hk
  rw [hc0] at hb
  have : kv.1 ≠ id := by omega
  simpa using this

/-- non-vacuity: a page with two hydrating creations (ids 0, 1), data under both; the two carriers
created afterwards draw ids 2 and 3 -/
example :
    cliRun (cliAfter CliCtr.new (hydratingPart true [.create, .setHyd false, .create, .setHyd true, .create]))
      [.create, .create] = [2, 3] ∧
    srvHydIds SrvCtr.new [.create, .setHyd false, .create, .setHyd true, .create] = [0, 1] := by decide

/-! ## J. the error channel keeps every registered error; `blocking` does not touch serialization -/

/-- **serialization is independent of `blocking`**: for every carrier constructor the id drawn and
the state of the shared context (what is handed to `write_async`, hence every chunk of both server
exits) are the same with and without the flag; the flag only defers the response stream -/
theorem C12_blocking_irrelevant (s : Srv) (shared : Bool) (key : Nat) (v : Str) :
    (s.createCarrier true shared key v).1 = (s.createCarrier false shared key v).1 ∧
    (s.createCarrier true shared key v).2.1.buf = (s.createCarrier false shared key v).2.1.buf ∧
    (s.createCarrier true shared key v).2.1.ctr = (s.createCarrier false shared key v).2.1.ctr ∧
    (s.createCarrier true shared key v).2.2 = true ∧ (s.createCarrier false shared key v).2.2 = false := by
  simp [Srv.createCarrier]

/-- a carrier's value is handed to `write_async` exactly when the flag is on -/
theorem C12_carrier_serialized_iff_hydrating (s : Srv) (blocking shared : Bool) (key : Nat) (v : Str) :
    (s.createCarrier blocking shared key v).2.1.buf
      = if s.ctr.hyd then s.buf ++ [⟨key, s.ctr.nextId.1, v, shared⟩] else s.buf := by
  unfold Srv.createCarrier
  cases hh : s.ctr.hyd <;> cases shared <;> simp [Srv.nextId, Srv.writeAsync, Srv.writeReady]

/-- the errors of a sealed boundary, which `AsyncDataStream` drops on purpose -/
def sealedPart (sl : List Nat) : List ErrRec → List ErrRec
  | [] => []
  | (b, e, m) :: rest => if sl.contains b then (b, e, m) :: sealedPart sl rest else sealedPart sl rest

theorem count_unsealed_sealed (r : ErrRec) (sl : List Nat) (l : List ErrRec) :
    (unsealed sl l).count r + (sealedPart sl l).count r = l.count r := by
  induction l with
  | nil => rfl
  | cons x xs ih =>
    obtain ⟨b, e, m⟩ := x
    unfold unsealed sealedPart
    split
    · simp only [List.count_cons]; omega
    · simp only [List.count_cons]; omega

theorem sealedPart_nil (l : List ErrRec) : sealedPart [] l = [] := by
  induction l with
  | nil => rfl
  | cons x xs ih => obtain ⟨b, e, m⟩ := x; simp [sealedPart, ih]

/-- what a step registers / puts into a chunk / drops (sealed boundary) -/
def errReg : SOp → List ErrRec
  | .err b e m => [(b, e, m)]
  | _ => []

def errOut (s : Srv) : SOp → List ErrRec
  | .start => (match s.phase with | .idle => s.errors | _ => [])
  | .poll => (match s.phase with | .streaming => unsealed s.sealed s.errors | _ => [])
  | _ => []

def errDropped (s : Srv) : SOp → List ErrRec
  | .poll => (match s.phase with | .streaming => sealedPart s.sealed s.errors | _ => [])
  | _ => []

structure ELog where
  reg : List ErrRec
  out : List ErrRec
  dropped : List ErrRec

def eRun (p g : Nat → Bool) : Trace → ELog → List SOp → Trace × ELog
  | t, l, [] => (t, l)
  | t, l, op :: ops =>
    eRun p g (t.step p g op)
      ⟨l.reg ++ errReg op, l.out ++ errOut t.srv op, l.dropped ++ errDropped t.srv op⟩ ops

theorem poll_errors (p g : Nat → Bool) (s : Srv) :
    (s.poll p g).2.errors = match s.phase with
      | .streaming => []
      | _ => s.errors := by
  cases hp : s.phase <;> simp only [Srv.poll, hp]
  split
  · rfl
  · split <;> rfl

/-- the ghost lists are honest: `pending_data()` prints exactly the buffered errors into the first
chunk, and a streaming poll that yields data/errors prints exactly the unsealed ones -/
theorem start_prints_errors (p g : Nat → Bool) (s : Srv) (h : s.phase = .idle) :
    (s.start p g).phase = .initial (initialChunk p g s.sync (errOut s .start) (s.buf.map (·.id))) ∧
    (s.start p g).errors = [] := by
  simp [Srv.start, errOut, h]

theorem estep_count (p g : Nat → Bool) (t : Trace) (op : SOp) (r : ErrRec) :
    (errOut t.srv op).count r + (errDropped t.srv op).count r + ((t.step p g op).srv.errors).count r
      = t.srv.errors.count r + (errReg op).count r := by
  cases op with
  | write id v => simp [errOut, errDropped, errReg, Trace.step, Srv.writeAsync]
  | complete k => simp [errOut, errDropped, errReg, Trace.step, Srv.complete]
  | err b e m =>
    simp only [errOut, errDropped, errReg, Trace.step, Srv.registerError, List.count_nil,
      List.count_append]
    omega
  | sealErr b => simp [errOut, errDropped, errReg, Trace.step, Srv.seal]
  | inc i => simp [errOut, errDropped, errReg, Trace.step, Srv.setIncomplete]
  | start =>
    cases hp : t.srv.phase <;> simp [errOut, errDropped, errReg, Trace.step, Srv.start, hp]
  | poll =>
    have he := poll_errors p g t.srv
    cases hp : t.srv.phase with
    | streaming =>
      simp only [hp] at he
      have := count_unsealed_sealed r t.srv.sealed t.srv.errors
      simp only [errOut, errDropped, errReg, Trace.step, hp, he, List.count_nil]
      omega
    | idle => simp only [hp] at he; simp [errOut, errDropped, errReg, Trace.step, hp, he]
    | initial c => simp only [hp] at he; simp [errOut, errDropped, errReg, Trace.step, hp, he]
    | done => simp only [hp] at he; simp [errOut, errDropped, errReg, Trace.step, hp, he]

theorem eRun_count (p g : Nat → Bool) (ops : List SOp) (r : ErrRec) :
    ∀ (t : Trace) (l : ELog),
      l.out.count r + l.dropped.count r + t.srv.errors.count r = l.reg.count r →
      let res := eRun p g t l ops
      res.2.out.count r + res.2.dropped.count r + res.1.srv.errors.count r = res.2.reg.count r := by
  induction ops with
  | nil => intro t l h; exact h
  | cons op ops ih =>
    intro t l h
    simp only [eRun]
    apply ih
    have := estep_count p g t op r
    simp only [List.count_append]
    omega

/-- **the error channel preserves the multiset of errors**: after any sequence of registrations
(any number per boundary, equal or different texts, before `pending_data()`, between chunks, after
the last value), sealings, writes, completions and polls, every registered `(boundary, id,
message)` triple is — with its multiplicity — either already printed into a chunk, or dropped
because its boundary was sealed, or still buffered; nothing is lost, nothing is duplicated -/
theorem C12_errors_preserved (p g : Nat → Bool) (ops : List SOp) (r : ErrRec) :
    let res := eRun p g Trace.init ⟨[], [], []⟩ ops
    res.2.out.count r + res.2.dropped.count r + res.1.srv.errors.count r = res.2.reg.count r :=
  eRun_count p g ops r Trace.init ⟨[], [], []⟩ (by simp [Trace.init, Srv.new])

/-- two different errors with the same text in one boundary, registered in one flush window, both
reach the client (evaluating the real statement text) -/
example :
    let res := eRun asciiPrintable noExtend Trace.init ⟨[], [], []⟩
      [.start, .poll, .err 3 20 [98, 111, 111, 109], .err 3 21 [98, 111, 111, 109], .poll]
    res.2.out = [(3, 20, [98, 111, 111, 109]), (3, 21, [98, 111, 111, 109])] ∧ res.1.srv.errors = [] ∧
    (evalChunk (asyncChunk asciiPrintable noExtend [] res.2.out) JsState.empty).map (·.errors)
      = some [(3, 20, [98, 111, 111, 109]), (3, 21, [98, 111, 111, 109])] := by decide

/-! ## K. nested creation: ids are drawn in creation-START order on both sides -/

/-- a carrier, and how many further carriers its initialiser / fetcher creates synchronously -/
inductive Carrier where
  | plain
  | nesting (inner : Nat)

/-- the order in which creations START (an outer carrier draws its id before its initialiser runs) -/
def startOrder : List Carrier → List IdOp
  | [] => []
  | .plain :: rest => .create :: startOrder rest
  | .nesting n :: rest => .create :: (List.replicate n .create ++ startOrder rest)

theorem allCreatesHyd_replicate (n : Nat) (l : List IdOp) (h : allCreatesHyd true l = true) :
    allCreatesHyd true (List.replicate n .create ++ l) = true := by
  induction n with
  | zero => simpa using h
  | succ n ih => simp [List.replicate_succ, allCreatesHyd, ih]

theorem allCreatesHyd_startOrder (cs : List Carrier) : allCreatesHyd true (startOrder cs) = true := by
  induction cs with
  | nil => rfl
  | cons c rest ih =>
    cases c with
    | plain => simp [startOrder, allCreatesHyd, ih]
    | nesting n => simp [startOrder, allCreatesHyd, allCreatesHyd_replicate n _ ih]

/-- **creation order = id order, on both sides**: for any page of carriers, some of which create
further carriers from inside their initialiser / fetcher, the server and a client that runs the
same initialisers hand out the same ids, in the order in which the creations start (the outer
carrier's id precedes the ids of the carriers it creates) -/
theorem C12_ids_in_creation_start_order (cs : List Carrier) :
    srvHydIds SrvCtr.new (startOrder cs) = cliRun CliCtr.new (startOrder cs) :=
  C12_ids_align_same_program_partial (startOrder cs) (allCreatesHyd_startOrder cs)

/-- a plain carrier, then one whose initialiser creates another, then a plain one: 0; 1 (outer), 2 (inner); 3 -/
example : srvHydIds SrvCtr.new (startOrder [.plain, .nesting 1, .plain]) = [0, 1, 2, 3] ∧
    cliRun CliCtr.new (startOrder [.plain, .nesting 1, .plain]) = [0, 1, 2, 3] := by decide

end Leptos.Transfer
