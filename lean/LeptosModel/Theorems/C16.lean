import LeptosModel.Model.Store
/-!
# C16 — store writes notify exactly the fields on the written path

Property theorems about `Model/Store` (see its header for the map to the Rust code), which models /repo
**after** fix-c16-1 (`FieldKeys::new`), fix-c16-2 (`AtIndex::writer`), fix-c16-3 (`track_field`), fix-c16-4 (`iter_unkeyed`),
fix-c16-5 (`ArcField::from(Store)` write), fix-c16-6 (enum variant field segments).

Paths (root store, struct fields, `unwrap()`, elements by index, keyed fields), any depth:
* `C16_notify_iff_related` — a write through `p` and a reader of `q` share a trigger iff `p`, `q` are prefix-related.
* `C16_notify_closed_form`, `C16_root_first` — the notified list is `children` of every prefix from the root
  down, then `this(p)`: ordered by path length.
* `C16_wake_order_partial` — the reader of an ancestor-or-self `a` of the written field is hit strictly before
  any reader of a proper descendant of `a` (this is the property's order clause and more);
  the stronger reading "any two notified readers" fails (`C16_wake_order_all_pairs_false`,
  `C16_subscription_order_below_written_field`) — documented, not a finding.
* `walk_plainChain` — every chain of `Subfield` / `AtIndex` / `KeyedSubfield` accessors notifies `notifySet` and
  tracks `trackSet` of its path (the machine is the path model);
* state machine (ordered subscriber sets, effects): `C16_run_subscribes`, `C16_write_wakes_iff_related`,
  `C16_sees_written_value` (with the lens laws `get_set_*`).

`FieldKeys` (every history, every `FxHashMap` iteration order — `Reach`):
* `C16_keys_stable` — **full**: for every initial key list a key that stays keeps its segment, live keys have
  distinct segments, a freed segment is reused only after removal (`wf_new`, `C16_keys_stable_of_wf`).

Regression (the code before the repairs, `…Old` definitions): `C16_segment_collision_witness`,
`C16_keys_stable_old_false`, `C16_keys_stable_old_partial`, `C16_keys_boundary_old` (F-C16-1);
`C16_index_write_wakes_cousin_witness` (F-C16-2); `C16_keyed_field_misses_root_witness`,
`C16_at_keyed_misses_parent_witness`, `C16_at_index_misses_parent_witness` (F-C16-3);
`C16_iter_unkeyed_misses_ancestor_witness` (F-C16-7); `C16_root_handle_write_misses_descendants_witness` (F-C16-8);
`C16_enum_variant_fields_share_segment_witness` (F-C16-9).  Type erasure: `C16_erasure_transparent_set` / `_patch` / `_reader`.

Witnesses (kernel `decide` on concrete machine histories) of the defects that remain:
`C16_patch_keyed_by_index_witness` (F-C16-4), `C16_stale_keys_panic_witness` (F-C16-5),
`C16_removed_key_reader_not_dropped_witness` (F-C16-6).
-/
namespace Leptos.Store

/-! ## 1. which triggers a write notifies, which a reader tracks -/

theorem mem_tfpLoop (r : List Nat) (t : Trig) :
    t ∈ tfpLoop r ↔ ∃ a, a <+: r.reverse ∧ t = C a := by
  induction r with
  | nil => simp [tfpLoop]
  | cons s r ih =>
    simp only [tfpLoop, List.mem_cons, ih, List.reverse_cons, List.prefix_concat_iff]
    constructor
    · rintro (h | ⟨a, ha, rfl⟩)
      · exact ⟨_, Or.inl rfl, h⟩
      · exact ⟨a, Or.inr ha, rfl⟩
    · rintro ⟨a, (rfl | ha), rfl⟩
      · exact Or.inl rfl
      · exact Or.inr ⟨a, ha, rfl⟩

theorem mem_trackLoop (r : List Nat) (t : Trig) :
    t ∈ trackLoop r ↔ ∃ a, a <+: r.reverse ∧ t = T a := by
  induction r with
  | nil => simp [trackLoop]
  | cons s r ih =>
    simp only [trackLoop, List.mem_cons, ih, List.reverse_cons, List.prefix_concat_iff]
    constructor
    · rintro (h | ⟨a, ha, rfl⟩)
      · exact ⟨_, Or.inl rfl, h⟩
      · exact ⟨a, Or.inr ha, rfl⟩
    · rintro ⟨a, (rfl | ha), rfl⟩
      · exact Or.inl rfl
      · exact Or.inr ⟨a, ha, rfl⟩

theorem prefix_iff_eq_or_dropLast (a p : List Nat) :
    a <+: p ↔ a = p ∨ a <+: p.dropLast := by
  rcases List.eq_nil_or_concat p with rfl | ⟨l, b, rfl⟩
  · simp
  · simp [List.concat_eq_append, List.prefix_concat_iff]

theorem mem_triggersForPath (p : Path) (t : Trig) :
    t ∈ triggersForPath p ↔ t = T p ∨ ∃ a, a <+: p ∧ t = C a := by
  simp only [triggersForPath, List.mem_reverse, List.mem_append, List.mem_cons, List.not_mem_nil,
    or_false, mem_tfpLoop, List.tail_reverse, List.reverse_reverse]
  constructor
  · rintro ((h | h) | ⟨a, ha, rfl⟩)
    · exact Or.inl h
    · exact Or.inr ⟨p, List.prefix_refl p, h⟩
    · exact Or.inr ⟨a, (prefix_iff_eq_or_dropLast a p).2 (Or.inr ha), rfl⟩
  · rintro (h | ⟨a, ha, rfl⟩)
    · exact Or.inl (Or.inl h)
    · rcases (prefix_iff_eq_or_dropLast a p).1 ha with rfl | h
      · exact Or.inl (Or.inr rfl)
      · exact Or.inr ⟨a, h, rfl⟩

theorem mem_notifySet (p : Path) (t : Trig) :
    t ∈ notifySet p ↔ t = T p ∨ ∃ a, a <+: p ∧ t = C a := by
  cases p with
  | nil =>
    simp only [notifySet, rootWriteNotify, List.mem_cons, List.not_mem_nil, or_false, List.prefix_nil]
    constructor
    · rintro (h | h | h)
      · exact Or.inr ⟨[], rfl, h⟩
      · exact Or.inl h
      · exact Or.inr ⟨[], rfl, h⟩
    · rintro (h | ⟨a, rfl, h⟩)
      · exact Or.inr (Or.inl h)
      · exact Or.inl h
  | cons s r => exact mem_triggersForPath (s :: r) t

theorem mem_trackSet (q : Path) (t : Trig) :
    t ∈ trackSet q ↔ t = C q ∨ ∃ a, a <+: q ∧ t = T a := by
  simp only [trackSet, subfieldTrack, List.mem_append, mem_trackLoop, List.reverse_reverse,
    List.mem_cons, List.not_mem_nil, or_false]
  constructor
  · rintro (⟨a, ha, rfl⟩ | h | h)
    · exact Or.inr ⟨a, ha, rfl⟩
    · exact Or.inr ⟨_, List.prefix_refl _, h⟩
    · exact Or.inl h
  · rintro (h | ⟨a, ha, rfl⟩)
    · exact Or.inr (Or.inr h)
    · exact Or.inl ⟨a, ha, rfl⟩

theorem C16_notify_iff_related (p q : Path) :
    (∃ t, t ∈ notifySet p ∧ t ∈ trackSet q) ↔ (p <+: q ∨ q <+: p) := by
  constructor
  · rintro ⟨t, hn, ht⟩
    rw [mem_notifySet] at hn
    rw [mem_trackSet] at ht
    rcases hn with rfl | ⟨a, ha, rfl⟩
    · rcases ht with h | ⟨b, hb, h⟩
      · simp [T, C] at h
      · simp only [T, Trig.mk.injEq, and_true] at h
        subst h; exact Or.inl hb
    · rcases ht with h | ⟨b, hb, h⟩
      · simp only [C, Trig.mk.injEq, and_true] at h
        subst h; exact Or.inr ha
      · simp [T, C] at h
  · rintro (h | h)
    · exact ⟨T p, (mem_notifySet p _).2 (Or.inl rfl), (mem_trackSet q _).2 (Or.inr ⟨p, h, rfl⟩)⟩
    · exact ⟨C q, (mem_notifySet p _).2 (Or.inr ⟨q, h, rfl⟩), (mem_trackSet q _).2 (Or.inl rfl)⟩

/-! ## 2. order of the notification list -/

theorem tfpLoop_reverse (r : List Nat) :
    (tfpLoop r).reverse = (List.range (r.length + 1)).map (fun n => C (r.reverse.take n)) := by
  induction r with
  | nil => simp [tfpLoop]
  | cons s r ih =>
    simp only [tfpLoop, List.reverse_cons, ih, List.length_cons]
    rw [List.range_succ (n := r.length + 1), List.map_append]
    congr 1
    · apply List.map_congr_left
      intro n hn
      simp only [List.mem_range] at hn
      rw [List.take_append_of_le_length (by simp; omega)]
    · have : (r.reverse ++ [s]).length ≤ r.length + 1 := by simp
      simp [List.take_of_length_le this]

/-- closed form of the notification list of a write through a non-root field: `children` of every
prefix of the path from the root down, then `this` of the field itself -/
theorem C16_notify_closed_form (p : Path) (h : p ≠ []) :
    notifySet p = (List.range (p.length + 1)).map (fun n => C (p.take n)) ++ [T p] := by
  rcases List.eq_nil_or_concat p with rfl | ⟨l, s, rfl⟩
  · exact absurd rfl h
  · simp only [List.concat_eq_append]
    have hne : l ++ [s] ≠ [] := by simp
    cases hl : l ++ [s] with
    | nil => exact absurd hl hne
    | cons a b =>
      rw [← hl]
      simp only [notifySet, hl]
      rw [← hl]
      simp only [triggersForPath, List.reverse_append, List.reverse_cons, List.reverse_nil, List.nil_append,
        List.cons_append, List.tail_cons, tfpLoop_reverse, List.reverse_reverse, List.length_reverse,
        List.length_append, List.length_cons, List.length_nil]
      rw [List.range_succ (n := l.length + 1), List.map_append]
      simp only [List.append_assoc, List.map_cons, List.map_nil, List.cons_append, List.nil_append]
      congr 1
      · apply List.map_congr_left
        intro n hn
        simp only [List.mem_range] at hn
        rw [List.take_append_of_le_length (by omega)]
      · have : (l ++ [s]).length ≤ l.length + 1 := by simp
        simp [List.take_of_length_le this]

/-- the notification list is ordered by path length (root first) -/
theorem C16_root_first (p : Path) :
    (notifySet p).Pairwise (fun a b => a.path.length ≤ b.path.length) := by
  cases p with
  | nil => simp [notifySet, rootWriteNotify, C, T]
  | cons a b =>
    rw [C16_notify_closed_form (a :: b) (by simp)]
    rw [List.pairwise_append]
    refine ⟨?_, by simp, ?_⟩
    · rw [List.pairwise_map]
      apply List.Pairwise.imp (R := fun x y => x < y)
      · intro x y hxy
        simp only [C, List.length_take]
        omega
      · exact List.pairwise_lt_range
    · intro x hx y hy
      simp only [List.mem_map, List.mem_range] at hx
      obtain ⟨n, hn, rfl⟩ := hx
      simp only [List.mem_cons, List.not_mem_nil, or_false] at hy
      subst hy
      simp only [C, T, List.length_take]
      omega

/-! ## 3. `FieldKeys` -/

def FieldKeys.wf (fk : FieldKeys) : Prop :=
  (fk.segs ++ fk.spare).Nodup ∧ (∀ s ∈ fk.segs ++ fk.spare, s ≤ fk.current) ∧ fk.live.Nodup

instance (fk : FieldKeys) : Decidable fk.wf := by unfold FieldKeys.wf; infer_instance

theorem lookupIdx_none (nk : List (Nat × Nat)) (k : Nat) :
    lookupIdx nk k = none ↔ k ∉ nk.map (·.1) := by
  unfold lookupIdx
  cases h : nk.find? (·.1 = k) with
  | none =>
    simp only [List.find?_eq_none, decide_eq_true_eq] at h
    simp only [List.mem_map, not_exists, not_and, true_iff]
    intro x hx; exact h x hx
  | some e =>
    have := List.find?_some h
    have hm := List.mem_of_find?_eq_some h
    simp only [decide_eq_true_eq] at this
    constructor
    · intro hh; cases hh
    · intro hh; exact absurd (List.mem_map.2 ⟨e, hm, this⟩) hh

theorem retainGo_perm (ks : List KeyEntry) (nk : List (Nat × Nat)) :
    ∀ sp, ((retainGo ks nk sp).1.map (·.2.1) ++ (retainGo ks nk sp).2).Perm (ks.map (·.2.1) ++ sp) := by
  induction ks with
  | nil => intro sp; simp [retainGo]
  | cons e rest ih =>
    intro sp
    obtain ⟨k, s, i⟩ := e
    simp only [retainGo]
    split
    · simp only [List.map_cons, List.cons_append]
      exact (ih sp).cons s
    · refine (ih (s :: sp)).trans ?_
      simp only [List.map_cons, List.cons_append]
      exact List.perm_middle

theorem retainGo_live_sublist (ks : List KeyEntry) (nk : List (Nat × Nat)) :
    ∀ sp, ((retainGo ks nk sp).1.map (·.1)).Sublist (ks.map (·.1)) := by
  induction ks with
  | nil => intro sp; simp [retainGo]
  | cons e rest ih =>
    intro sp
    obtain ⟨k, s, i⟩ := e
    simp only [retainGo]
    split
    · simp only [List.map_cons]; exact (ih sp).cons_cons k
    · simp only [List.map_cons]; exact (ih _).cons k

theorem retainGo_find (ks : List KeyEntry) (nk : List (Nat × Nat)) (k : Nat) :
    ∀ sp, (retainGo ks nk sp).1.find? (·.1 = k) =
      match lookupIdx nk k with
      | some i => (ks.find? (·.1 = k)).map (fun e => (e.1, e.2.1, i))
      | none => none := by
  induction ks with
  | nil => intro sp; cases lookupIdx nk k <;> simp [retainGo]
  | cons e rest ih =>
    intro sp
    obtain ⟨k', s, i⟩ := e
    simp only [retainGo]
    cases hk' : lookupIdx nk k' with
    | some idx =>
      simp only [List.find?_cons]
      by_cases hkk : k' = k
      · subst hkk; simp [hk']
      · simp only [hkk, decide_false]
        exact ih sp
    | none =>
      simp only [List.find?_cons]
      by_cases hkk : k' = k
      · subst hkk
        have := ih (s :: sp)
        simp only [hk'] at this ⊢
        exact this
      · simp only [hkk, decide_false]
        exact ih _

theorem nextKey_wf_step (fk : FieldKeys) (k idx : Nat) (h : fk.wf) (hk : k ∉ fk.live) :
    FieldKeys.wf { fk.nextKey.2 with keys := fk.nextKey.2.keys ++ [(k, fk.nextKey.1, idx)] } := by
  obtain ⟨sp, c, keys⟩ := fk
  obtain ⟨h1, h2, h3⟩ := h
  simp only [FieldKeys.segs, FieldKeys.live] at *
  cases sp with
  | nil =>
    simp only [FieldKeys.nextKey, FieldKeys.wf, FieldKeys.segs, FieldKeys.live, List.map_append,
      List.map_cons, List.map_nil, List.append_nil] at *
    refine ⟨?_, ?_, ?_⟩
    · rw [List.nodup_append]
      refine ⟨h1, by simp, ?_⟩
      intro a ha b hb
      simp only [List.mem_cons, List.not_mem_nil, or_false] at hb
      have := h2 a ha; omega
    · intro s hs
      simp only [List.mem_append, List.mem_cons, List.not_mem_nil, or_false] at hs
      rcases hs with hs | rfl
      · have := h2 s hs; omega
      · omega
    · rw [List.nodup_append]
      refine ⟨h3, by simp, ?_⟩
      intro a ha b hb
      simp only [List.mem_cons, List.not_mem_nil, or_false] at hb
      subst hb; intro hab; subst hab; exact hk ha
  | cons s rest =>
    simp only [FieldKeys.nextKey, FieldKeys.wf, FieldKeys.segs, FieldKeys.live, List.map_append,
      List.map_cons, List.map_nil] at *
    have hp : (List.map (fun x => x.2.1) keys ++ [s] ++ rest).Perm (List.map (fun x => x.2.1) keys ++ s :: rest) := by
      simp
    refine ⟨hp.nodup_iff.2 h1, ?_, ?_⟩
    · intro x hx; exact h2 x (hp.mem_iff.1 hx)
    · rw [List.nodup_append]
      refine ⟨h3, by simp, ?_⟩
      intro a ha b hb
      simp only [List.mem_cons, List.not_mem_nil, or_false] at hb
      subst hb; intro hab; subst hab; exact hk ha

theorem addNew_wf (nk : List (Nat × Nat)) : ∀ fk : FieldKeys, fk.wf → (addNew nk fk).wf := by
  induction nk with
  | nil => intro fk h; exact h
  | cons e rest ih =>
    intro fk h
    obtain ⟨k, idx⟩ := e
    simp only [addNew]
    split
    · exact ih fk h
    · next hn =>
      apply ih
      apply nextKey_wf_step fk k idx h
      simp only [List.any_eq_true, decide_eq_true_eq, not_exists, not_and] at hn
      simp only [FieldKeys.live, List.mem_map, not_exists, not_and]
      intro x hx; exact hn x hx

theorem updateEntries_wf (fk : FieldKeys) (nk : List (Nat × Nat)) (h : fk.wf) :
    (fk.updateEntries nk).wf := by
  unfold FieldKeys.updateEntries
  apply addNew_wf
  obtain ⟨h1, h2, h3⟩ := h
  have hp := retainGo_perm fk.keys nk fk.spare
  refine ⟨hp.nodup_iff.2 h1, ?_, ?_⟩
  · intro s hs; exact h2 s (hp.mem_iff.1 hs)
  · exact (retainGo_live_sublist fk.keys nk fk.spare).nodup h3

/-! ### stability -/

theorem get_eq_find (fk : FieldKeys) (k : Nat) :
    fk.seg k = (fk.keys.find? (·.1 = k)).map (·.2.1) := by
  unfold FieldKeys.seg FieldKeys.get
  cases fk.keys.find? (·.1 = k) with
  | none => rfl
  | some e => obtain ⟨a, b, c⟩ := e; rfl

theorem seg_some_mem (fk : FieldKeys) (k s : Nat) (h : fk.seg k = some s) :
    ∃ i, (k, s, i) ∈ fk.keys := by
  rw [get_eq_find] at h
  cases hf : fk.keys.find? (·.1 = k) with
  | none => simp [hf] at h
  | some e =>
    obtain ⟨a, b, c⟩ := e
    have h1 := List.find?_some hf
    have h2 := List.mem_of_find?_eq_some hf
    simp only [decide_eq_true_eq] at h1
    simp only [hf, Option.map_some, Option.some.injEq] at h
    subst h1; subst h
    exact ⟨c, h2⟩

theorem seg_isSome_iff_live (fk : FieldKeys) (k : Nat) : (fk.seg k).isSome ↔ k ∈ fk.live := by
  rw [get_eq_find]
  simp only [Option.isSome_map, List.find?_isSome, decide_eq_true_eq, FieldKeys.live, List.mem_map]

/-- distinct live keys have distinct segments in a well-formed table -/
theorem seg_inj (fk : FieldKeys) (h : fk.wf) (k1 k2 s : Nat)
    (h1 : fk.seg k1 = some s) (h2 : fk.seg k2 = some s) : k1 = k2 := by
  obtain ⟨i1, m1⟩ := seg_some_mem fk k1 s h1
  obtain ⟨i2, m2⟩ := seg_some_mem fk k2 s h2
  have hn : (fk.keys.map (·.2.1)).Nodup := (List.nodup_append.1 h.1).1
  clear h h1 h2
  generalize fk.keys = l at *
  induction l with
  | nil => cases m1
  | cons e rest ih =>
    simp only [List.map_cons, List.nodup_cons, List.mem_map, not_exists, not_and] at hn
    simp only [List.mem_cons] at m1 m2
    rcases m1 with m1 | m1 <;> rcases m2 with m2 | m2
    · rw [← m1] at m2; injection m2 with h _; exact h.symm
    · subst m1; exact (hn.1 _ m2 rfl).elim
    · subst m2; exact (hn.1 _ m1 rfl).elim
    · exact ih m1 m2 hn.2

theorem addNew_find (nk : List (Nat × Nat)) (k : Nat) :
    ∀ fk : FieldKeys, k ∈ fk.live →
      (addNew nk fk).keys.find? (·.1 = k) = fk.keys.find? (·.1 = k) := by
  induction nk with
  | nil => intro fk _; rfl
  | cons e rest ih =>
    intro fk hk
    obtain ⟨k', idx⟩ := e
    simp only [addNew]
    split
    · exact ih fk hk
    · have hk' : k ∈ (fk.keys.map (·.1)) := hk
      have hsome : (fk.keys.find? (·.1 = k)).isSome := by
        simp only [List.find?_isSome, decide_eq_true_eq]
        simpa [List.mem_map] using hk'
      rw [ih]
      · obtain ⟨sp, c, keys⟩ := fk
        cases sp <;> simp only [FieldKeys.nextKey, List.find?_append] <;>
          (cases hf : List.find? (fun x => decide (x.1 = k)) keys with
           | none => simp [hf] at hsome
           | some v => simp)
      · obtain ⟨sp, c, keys⟩ := fk
        cases sp <;> simp only [FieldKeys.nextKey, FieldKeys.live, List.map_append, List.mem_append] <;>
          exact Or.inl hk

theorem addNew_live_sub (nk : List (Nat × Nat)) (k : Nat) :
    ∀ fk : FieldKeys, k ∈ (addNew nk fk).live → k ∈ fk.live ∨ k ∈ nk.map (·.1) := by
  induction nk with
  | nil => intro fk h; exact Or.inl h
  | cons e rest ih =>
    intro fk h
    obtain ⟨k', idx⟩ := e
    simp only [addNew] at h
    split at h
    · rcases ih fk h with h | h
      · exact Or.inl h
      · exact Or.inr (by simp [h])
    · rcases ih _ h with h | h
      · obtain ⟨sp, c, keys⟩ := fk
        cases sp <;> simp only [FieldKeys.nextKey, FieldKeys.live, List.map_append, List.mem_append,
          List.map_cons, List.map_nil, List.mem_cons, List.not_mem_nil, or_false] at h <;>
          (rcases h with h | h
           · exact Or.inl h
           · exact Or.inr (by simp [h]))
      · exact Or.inr (by simp [h])

/-- what the property asks of one `update`:
(a) a key that stays keeps its segment; (b) distinct live keys have distinct segments;
(c) a new key's segment is not the old segment of a key that is still live -/
def Stable (fk fk' : FieldKeys) : Prop :=
  (∀ k s, fk.seg k = some s → k ∈ fk'.live → fk'.seg k = some s) ∧
  (∀ k1 k2 s, fk'.seg k1 = some s → fk'.seg k2 = some s → k1 = k2) ∧
  (∀ k' s, fk'.seg k' = some s → k' ∉ fk.live → ∀ k, fk.seg k = some s → k ∉ fk'.live)

theorem updateEntries_keeps (fk : FieldKeys) (nk : List (Nat × Nat)) (k s : Nat)
    (hs : fk.seg k = some s) (hl : k ∈ (fk.updateEntries nk).live) :
    (fk.updateEntries nk).seg k = some s := by
  unfold FieldKeys.updateEntries at hl ⊢
  -- k survived the retain pass: otherwise it would have to be re-added, but only keys of nk are, and k ∉ nk
  have hfind := retainGo_find fk.keys nk k fk.spare
  cases hlk : lookupIdx nk k with
  | none =>
    exfalso
    rw [hlk] at hfind
    rcases addNew_live_sub nk k _ hl with h | h
    · simp only [FieldKeys.live, List.mem_map] at h
      obtain ⟨e, he, hek⟩ := h
      have : ((retainGo fk.keys nk fk.spare).1.find? (·.1 = k)).isSome := by
        simp only [List.find?_isSome, decide_eq_true_eq]; exact ⟨e, he, hek⟩
      simp [hfind] at this
    · exact (lookupIdx_none nk k).1 hlk h
  | some i =>
    rw [hlk] at hfind
    rw [get_eq_find] at hs ⊢
    have hlive : k ∈ ({ fk with keys := (retainGo fk.keys nk fk.spare).1,
                                 spare := (retainGo fk.keys nk fk.spare).2 } : FieldKeys).live := by
      simp only [FieldKeys.live, List.mem_map]
      cases hf : fk.keys.find? (·.1 = k) with
      | none => simp [hf] at hs
      | some e =>
        rw [hf] at hfind
        have hm := List.mem_of_find?_eq_some hfind
        have h1 := List.find?_some hf
        simp only [decide_eq_true_eq] at h1
        exact ⟨_, hm, h1⟩
    rw [addNew_find nk k _ hlive]
    simp only [hfind]
    cases hf : fk.keys.find? (·.1 = k) with
    | none => simp [hf] at hs
    | some e => simpa [hf] using hs

theorem stable_of_wf (fk : FieldKeys) (nk : List (Nat × Nat)) (h : fk.wf) :
    Stable fk (fk.updateEntries nk) := by
  have hwf' := updateEntries_wf fk nk h
  refine ⟨fun k s hs hl => updateEntries_keeps fk nk k s hs hl, seg_inj _ hwf', ?_⟩
  intro k' s hk' hnew k hk hlive
  have := updateEntries_keeps fk nk k s hk hlive
  have heq := seg_inj _ hwf' k k' s this hk'
  subst heq
  exact hnew ((seg_isSome_iff_live fk k).1 (by simp [hk]))

/-! ## 4. values: lens laws -/

/-! ### lens laws of `Val.get` / `Val.set` -/

theorem child_setChild (v : Val) (i j : Nat) (c : Val) :
    (v.setChild i c).child j = if i = j then (v.child j).map (fun _ => c) else v.child j := by
  cases v with
  | leaf n => simp [Val.setChild, Val.child]
  | node t xs =>
    simp only [Val.setChild, Val.child, List.getElem?_set]
    by_cases h : i = j
    · subst h
      by_cases hl : i < xs.length
      · simp [hl]
      · simp [hl]
    · simp [h]

theorem get_set_append (v : Val) (p r : List Nat) (w : Val) (h : (v.get p).isSome) :
    (v.set p w).get (p ++ r) = w.get r := by
  induction p generalizing v with
  | nil => simp [Val.set]
  | cons i p ih =>
    simp only [Val.get] at h
    simp only [Val.set, List.cons_append]
    cases hc : v.child i with
    | none => simp [hc] at h
    | some c =>
      simp only [hc] at h
      simp only [Val.get, child_setChild, hc, if_true, Option.map_some]
      exact ih c h

theorem get_set_same (v : Val) (p : List Nat) (w : Val) (h : (v.get p).isSome) :
    (v.set p w).get p = some w := by
  have := get_set_append v p [] w h
  simpa [Val.get] using this

theorem get_set_prefix (v : Val) (q r : List Nat) (w u : Val) (h : v.get q = some u) :
    (v.set (q ++ r) w).get q = some (u.set r w) := by
  induction q generalizing v with
  | nil => simp only [Val.get] at h; cases h; simp [Val.get]
  | cons i q ih =>
    simp only [Val.get] at h
    simp only [Val.set, List.cons_append]
    cases hc : v.child i with
    | none => simp [hc] at h
    | some c =>
      simp only [hc] at h
      simp only [Val.get, child_setChild, hc, if_true, Option.map_some]
      exact ih c h

theorem get_set_unrelated (v : Val) (p q : List Nat) (w : Val)
    (h1 : ¬ p <+: q) (h2 : ¬ q <+: p) : (v.set p w).get q = v.get q := by
  induction p generalizing v q with
  | nil => exact absurd (List.nil_prefix) h1
  | cons i p ih =>
    cases q with
    | nil => exact absurd (List.nil_prefix) h2
    | cons j q =>
      simp only [Val.set]
      cases hc : v.child i with
      | none => rfl
      | some c =>
        simp only [Val.get, child_setChild]
        by_cases hij : i = j
        · subst hij
          simp only [if_true, hc, Option.map_some]
          apply ih
          · intro hp; exact h1 (List.prefix_cons_inj i |>.2 hp)
          · intro hp; exact h2 (List.prefix_cons_inj i |>.2 hp)
        · simp [hij]

/-! ## 5. the walk along a chain of path accessors is the path model of §1

Since fix-c16-2 and fix-c16-3 a struct field (`Subfield`, also `unwrap()`), an element by index
(`AtIndex`) and a keyed field (`KeyedSubfield`) all notify `triggers_for_path` of their own path with
the parent untracked, and all track `this` of every ancestor: they only differ in how the value is
looked up. -/

def Acc.isPlain : Acc → Bool
  | .key _ => false
  | .var _ _ => false
  | .h _ => false
  | _ => true

/-- the path segment of a plain accessor -/
def Acc.seg : Acc → Nat
  | .fld i => i
  | .idx i => i
  | .kfld i => i
  | .key k => k
  | .var _ i => i
  | .h i => i

/-- the trigger path (and value position) of a chain of plain accessors -/
def chainPath (c : Chain) : Path := c.map Acc.seg

def fldChain (p : Path) : Chain := p.map Acc.fld

theorem chainPath_fldChain (p : Path) : chainPath (fldChain p) = p := by
  simp [chainPath, fldChain, Acc.seg, Function.comp_def]

theorem isPlain_fldChain (p : Path) : ∀ a ∈ fldChain p, a.isPlain = true := by
  intro a ha
  simp only [fldChain, List.mem_map] at ha
  obtain ⟨i, _, rfl⟩ := ha
  rfl

theorem get_append (v : Val) (a b : List Nat) :
    v.get (a ++ b) = (v.get a).bind (fun x => x.get b) := by
  induction a generalizing v with
  | nil => simp [Val.get]
  | cons i a ih =>
    simp only [List.cons_append, Val.get]
    cases v.child i with
    | none => rfl
    | some c => exact ih c

def plainStep (st : St) (w : Walk) (a : Acc) : Walk :=
  { w with tpath := w.tpath ++ [a.seg], parent := w.tpath, vpos := w.vpos.map (· ++ [a.seg]),
           tr := w.un ++ triggersForPath (w.tpath ++ [a.seg]), un := w.un,
           absent := w.absent || (!w.oob && !childExists st.val w.vpos a.seg), last := some a }

theorem stepAcc_plain (st : St) (w : Walk) (a : Acc) (h : a.isPlain = true) :
    stepAcc (st, w) a = (st, plainStep st w a) := by
  cases a with
  | fld i => rfl
  | idx i => rfl
  | kfld i => rfl
  | key k => cases h
  | var v i => cases h
  | h i => cases h

/-- the walk along a chain of plain accessors, started from any walk state `w` that has not passed a key step -/
theorem foldl_plain (st : St) (c : Chain) : ∀ (w : Walk) (vp : Path),
    (∀ a ∈ c, a.isPlain = true) → w.un = [] → w.oob = false → w.vpos = some vp →
    (c.foldl stepAcc (st, w)).1 = st ∧
    (c.foldl stepAcc (st, w)).2.un = [] ∧
    (c.foldl stepAcc (st, w)).2.oob = false ∧
    (c.foldl stepAcc (st, w)).2.tpath = w.tpath ++ chainPath c ∧
    (c.foldl stepAcc (st, w)).2.vpos = some (vp ++ chainPath c) ∧
    (c ≠ [] → (c.foldl stepAcc (st, w)).2.tr = triggersForPath (w.tpath ++ chainPath c) ∧
              (c.foldl stepAcc (st, w)).2.last = c.getLast?) ∧
    (c.foldl stepAcc (st, w)).2.absent
      = (w.absent || (!c.isEmpty && (st.val.get (vp ++ chainPath c)).isNone)) := by
  induction c with
  | nil =>
    intro w vp _ h1 h2 h3
    simp [h1, h2, h3, chainPath]
  | cons a c ih =>
    intro w vp hpl h1 h2 h3
    have ha : a.isPlain = true := hpl a (by simp)
    have hc : ∀ b ∈ c, b.isPlain = true := fun b hb => hpl b (by simp [hb])
    simp only [List.foldl_cons, stepAcc_plain st w a ha]
    have hv : (plainStep st w a).vpos = some (vp ++ [a.seg]) := by simp [plainStep, h3]
    obtain ⟨a1, a2, a3, a4, a5, a6, a8⟩ := ih (plainStep st w a) (vp ++ [a.seg]) hc h1 h2 hv
    refine ⟨a1, a2, a3, ?_, ?_, ?_, ?_⟩
    · rw [a4]; simp [plainStep, chainPath]
    · rw [a5]; simp [chainPath]
    · intro _
      by_cases hp : c = []
      · subst hp
        simp [plainStep, h1, chainPath]
      · obtain ⟨b1, b2⟩ := a6 hp
        refine ⟨?_, ?_⟩
        · rw [b1]; simp [plainStep, chainPath]
        · rw [b2]
          cases c with
          | nil => exact absurd rfl hp
          | cons b r => simp [List.getLast?_cons_cons]
    · rw [a8]
      simp only [plainStep, h2, h3, childExists, Bool.not_false, Bool.true_and, List.isEmpty_cons,
        List.append_assoc, List.cons_append, List.nil_append, chainPath, List.map_cons]
      cases hg : st.val.get (vp ++ [a.seg]) with
      | none =>
        have : st.val.get (vp ++ a.seg :: List.map Acc.seg c) = none := by
          have := get_append st.val (vp ++ [a.seg]) (List.map Acc.seg c)
          simp only [List.append_assoc, List.cons_append, List.nil_append] at this
          rw [this, hg]; rfl
        simp [this]
      | some x =>
        cases c with
        | nil => simp [hg]
        | cons j q => simp

/-- **the walk along any chain of plain accessors is the path model**: what its write guard notifies is
`notifySet` of its path, what its reader tracks is `trackSet` of its path -/
theorem walk_plainChain (st : St) (c : Chain) (hpl : ∀ a ∈ c, a.isPlain = true) :
    (walk st c).1 = st ∧
    (walk st c).2.tpath = chainPath c ∧
    (walk st c).2.vpos = some (chainPath c) ∧
    (walk st c).2.oob = false ∧
    (walk st c).2.un = [] ∧
    (walk st c).2.absent = (st.val.get (chainPath c)).isNone ∧
    (walk st c).2.trackList = trackSet (chainPath c) ∧
    (c ≠ [] → (walk st c).2.tr = notifySet (chainPath c)) ∧
    (walk st c).2.last = c.getLast? := by
  obtain ⟨a1, a2, a3, a4, a5, a6, a8⟩ := foldl_plain st c Walk.root [] hpl rfl rfl rfl
  have e1 : Walk.root.tpath = [] := rfl
  have e2 : Walk.root.absent = false := rfl
  rw [e1] at a4 a6
  rw [e2] at a8
  simp only [List.nil_append] at a4 a5 a6 a8
  unfold walk
  refine ⟨a1, a4, a5, a3, a2, ?_, ?_, ?_, ?_⟩
  · rw [a8]
    cases c with
    | nil => simp [Val.get, chainPath]
    | cons i q => simp
  · unfold Walk.trackList trackSet
    rw [a4]
  · intro hp
    have hne : chainPath c ≠ [] := by
      cases c with
      | nil => exact absurd rfl hp
      | cons a r => simp [chainPath]
    cases hcp : chainPath c with
    | nil => exact absurd hcp hne
    | cons i q =>
      simp only [notifySet]
      rw [← hcp]
      exact (a6 hp).1
  · cases c with
    | nil => rfl
    | cons a r => exact (a6 (by simp)).2

/-- a chain of plain accessors does not start at a handle -/
theorem walkH_plain (st : St) (c : Chain) (hpl : ∀ a ∈ c, a.isPlain = true) : walkH st c = walk st c := by
  cases c with
  | nil => rfl
  | cons a r =>
    have ha := hpl a (by simp)
    cases a with
    | h i => cases ha
    | fld i => rfl
    | idx i => rfl
    | kfld i => rfl
    | key k => rfl
    | var v i => rfl

theorem walk_fldChain_path (st : St) (p : Path) :
    (walk st (fldChain p)).2.tpath = p ∧ (walk st (fldChain p)).2.trackList = trackSet p ∧
    (p ≠ [] → (walk st (fldChain p)).2.tr = notifySet p) := by
  obtain ⟨_, a2, _, _, _, _, a7, a8, _⟩ := walk_plainChain st (fldChain p) (isPlain_fldChain p)
  rw [chainPath_fldChain] at a2 a7 a8
  refine ⟨a2, a7, ?_⟩
  intro hp
  apply a8
  cases p with
  | nil => exact absurd rfl hp
  | cons i r => simp [fldChain]

/-! ## 6. `FieldKeys`: every history, every hash order -/

/-- the tables reachable from an initial table `fk0`: any number of `update`s, each with an arbitrary
`new_keys` map in an arbitrary iteration order (`upd`), and with the table's own `FxHashMap` in an
arbitrary iteration order (`perm`) -/
inductive Reach (fk0 : FieldKeys) : FieldKeys → Prop
  | init : Reach fk0 fk0
  | perm {fk : FieldKeys} {keys' : List KeyEntry} :
      Reach fk0 fk → keys'.Perm fk.keys → Reach fk0 { fk with keys := keys' }
  | upd {fk : FieldKeys} (nk : List (Nat × Nat)) : Reach fk0 fk → Reach fk0 (fk.updateEntries nk)

theorem wf_perm (fk : FieldKeys) (keys' : List KeyEntry) (h : fk.wf) (hp : keys'.Perm fk.keys) :
    FieldKeys.wf { fk with keys := keys' } := by
  obtain ⟨h1, h2, h3⟩ := h
  have hs : (keys'.map (·.2.1) ++ fk.spare).Perm (fk.keys.map (·.2.1) ++ fk.spare) :=
    (hp.map _).append_right _
  refine ⟨hs.nodup_iff.2 h1, ?_, (hp.map _).nodup_iff.2 h3⟩
  intro s hs'
  exact h2 s (hs.mem_iff.1 hs')

/-- well-formed tables stay well-formed along every history -/
theorem reach_wf (fk0 : FieldKeys) (h0 : fk0.wf) (fk : FieldKeys) (h : Reach fk0 fk) : fk.wf := by
  induction h with
  | init => exact h0
  | perm _ hp ih => exact wf_perm _ _ ih hp
  | upd nk _ ih => exact updateEntries_wf _ nk ih

/-! ### `FieldKeys::new` (after fix-c16-1) creates a well-formed table, whatever the key list -/

theorem kvInsert_keys_sub (acc : List KeyEntry) (k s i x : Nat)
    (h : x ∈ (kvInsert acc k s i).map (·.1)) : x ∈ acc.map (·.1) ∨ x = k := by
  induction acc with
  | nil => simp [kvInsert] at h; exact Or.inr h
  | cons e rest ih =>
    obtain ⟨k', e'⟩ := e
    simp only [kvInsert] at h
    split at h
    · next hk =>
      simp only [List.map_cons, List.mem_cons] at h ⊢
      rcases h with h | h
      · exact Or.inr h
      · exact Or.inl (Or.inr h)
    · simp only [List.map_cons, List.mem_cons] at h ⊢
      rcases h with h | h
      · exact Or.inl (Or.inl h)
      · rcases ih h with h | h
        · exact Or.inl (Or.inr h)
        · exact Or.inr h

theorem kvInsert_segs_sub (acc : List KeyEntry) (k s i x : Nat)
    (h : x ∈ (kvInsert acc k s i).map (·.2.1)) : x ∈ acc.map (·.2.1) ∨ x = s := by
  induction acc with
  | nil => simp [kvInsert] at h; exact Or.inr h
  | cons e rest ih =>
    obtain ⟨k', e'⟩ := e
    simp only [kvInsert] at h
    split at h
    · simp only [List.map_cons, List.mem_cons] at h ⊢
      rcases h with h | h
      · exact Or.inr h
      · exact Or.inl (Or.inr h)
    · simp only [List.map_cons, List.mem_cons] at h ⊢
      rcases h with h | h
      · exact Or.inl (Or.inl h)
      · rcases ih h with h | h
        · exact Or.inl (Or.inr h)
        · exact Or.inr h

theorem kvInsert_keys_nodup (acc : List KeyEntry) (k s i : Nat) (h : (acc.map (·.1)).Nodup) :
    ((kvInsert acc k s i).map (·.1)).Nodup := by
  induction acc with
  | nil => simp [kvInsert]
  | cons e rest ih =>
    obtain ⟨k', e'⟩ := e
    simp only [List.map_cons, List.nodup_cons] at h
    simp only [kvInsert]
    split
    · next hk => subst hk; simpa using h
    · next hk =>
      simp only [List.map_cons, List.nodup_cons]
      refine ⟨?_, ih h.2⟩
      intro hm
      rcases kvInsert_keys_sub rest k s i k' hm with h' | h'
      · exact h.1 h'
      · exact hk h'

theorem kvInsert_segs_nodup (acc : List KeyEntry) (k s i : Nat) (h : (acc.map (·.2.1)).Nodup)
    (hs : s ∉ acc.map (·.2.1)) : ((kvInsert acc k s i).map (·.2.1)).Nodup := by
  induction acc with
  | nil => simp [kvInsert]
  | cons e rest ih =>
    obtain ⟨k', s', i'⟩ := e
    simp only [List.map_cons, List.nodup_cons, List.mem_cons, not_or] at h hs
    simp only [kvInsert]
    split
    · simp only [List.map_cons, List.nodup_cons]
      exact ⟨hs.2, h.2⟩
    · simp only [List.map_cons, List.nodup_cons]
      refine ⟨?_, ih h.2 hs.2⟩
      intro hm
      rcases kvInsert_segs_sub rest k s i s' hm with h' | h'
      · exact h.1 h'
      · exact hs.1 h'.symm

theorem newGo_inv (ks : List Nat) : ∀ (i : Nat) (acc : List KeyEntry),
    (acc.map (·.1)).Nodup → (acc.map (·.2.1)).Nodup → (∀ s ∈ acc.map (·.2.1), s < i) →
    ((newGo ks i acc).map (·.1)).Nodup ∧ ((newGo ks i acc).map (·.2.1)).Nodup ∧
    ∀ s ∈ (newGo ks i acc).map (·.2.1), s < i + ks.length := by
  induction ks with
  | nil =>
    intro i acc h1 h2 h3
    simp only [newGo]
    exact ⟨h1, h2, fun s hs => by have := h3 s hs; omega⟩
  | cons k r ih =>
    intro i acc h1 h2 h3
    have hfresh : i ∉ acc.map (·.2.1) := fun hm => Nat.lt_irrefl _ (h3 i hm)
    have := ih (i + 1) (kvInsert acc k i i) (kvInsert_keys_nodup acc k i i h1)
      (kvInsert_segs_nodup acc k i i h2 hfresh)
      (by
        intro s hs
        rcases kvInsert_segs_sub acc k i i s hs with h | h
        · have := h3 s h; omega
        · omega)
    simp only [newGo, List.length_cons]
    refine ⟨this.1, this.2.1, ?_⟩
    intro s hs
    have := this.2.2 s hs
    omega

/-- after fix-c16-1 every table made by `FieldKeys::new` is well-formed (for any key list, duplicates included) -/
theorem wf_new (ks : List Nat) : (FieldKeys.new ks).wf := by
  obtain ⟨h1, h2, h3⟩ := newGo_inv ks 0 [] (by simp) (by simp) (by simp)
  refine ⟨?_, ?_, ?_⟩
  · simpa [FieldKeys.new, FieldKeys.segs] using h2
  · intro s hs
    simp only [FieldKeys.new, FieldKeys.segs, List.append_nil] at hs
    have := h3 s hs
    simp only [FieldKeys.new]
    omega
  · simpa [FieldKeys.new, FieldKeys.live] using h1

/-- stability holds from any well-formed table (decidable hypothesis), and well-formedness is kept -/
theorem C16_keys_stable_of_wf (fk : FieldKeys) (nk : List (Nat × Nat)) (h : fk.wf) :
    Stable fk (fk.updateEntries nk) ∧ (fk.updateEntries nk).wf :=
  ⟨stable_of_wf fk nk h, updateEntries_wf fk nk h⟩

/-- **keyed items keep their identity (full statement, holds since fix-c16-1)**: for every initial key
list and every history of `update`s in every hash order, an `update` keeps the segment of every key
that stays, keeps live keys on distinct segments, and gives a new key no segment that a still-live
key had. -/
theorem C16_keys_stable (ks0 : List Nat) (fk : FieldKeys) (nk : List (Nat × Nat))
    (hr : Reach (FieldKeys.new ks0) fk) : Stable fk (fk.updateEntries nk) :=
  stable_of_wf fk nk (reach_wf _ (wf_new ks0) fk hr)

/-! ### regression: the table before fix-c16-1 -/

/-- the statement of `C16_keys_stable` for the old `FieldKeys::new` -/
def C16_keys_stable_old : Prop :=
  ∀ (ks0 : List Nat) (fk : FieldKeys) (nk : List (Nat × Nat)),
    ks0.Nodup → Reach (FieldKeys.newOld ks0) fk → Stable fk (fk.updateEntries nk)

/-- F-C16-1 (repaired): `[10,11,12]`, then `update([10,11,12,13])`: key 13 used to get segment 1, the
segment of key 11; now it gets a segment of its own -/
theorem C16_segment_collision_witness :
    ((FieldKeys.newOld [10, 11, 12]).update [10, 11, 12, 13]).seg 13 = some 1 ∧
    ((FieldKeys.newOld [10, 11, 12]).update [10, 11, 12, 13]).seg 11 = some 1 ∧
    ((FieldKeys.new [10, 11, 12]).update [10, 11, 12, 13]).seg 13 = some 4 ∧
    ((FieldKeys.new [10, 11, 12]).update [10, 11, 12, 13]).seg 11 = some 1 := by decide

theorem C16_keys_stable_old_false : ¬ C16_keys_stable_old := by
  intro h
  have := (h [10, 11, 12] (FieldKeys.newOld [10, 11, 12]) (enumKeys [10, 11, 12, 13] 0 [])
    (by decide) Reach.init).2.1 13 11 1 (by decide) (by decide)
  revert this; decide

theorem wf_newOld_of_length_le_one (ks0 : List Nat) (h : ks0.length ≤ 1) : (FieldKeys.newOld ks0).wf := by
  match ks0, h with
  | [], _ => decide
  | [k], _ =>
    simp [FieldKeys.newOld, newGo, kvInsert, FieldKeys.wf, FieldKeys.segs, FieldKeys.live]

/-- what held before the repair: stability for tables created from at most one key -/
theorem C16_keys_stable_old_partial (ks0 : List Nat) (fk : FieldKeys) (nk : List (Nat × Nat))
    (h : ks0.length ≤ 1) (hr : Reach (FieldKeys.newOld ks0) fk) : Stable fk (fk.updateEntries nk) :=
  stable_of_wf fk nk (reach_wf _ (wf_newOld_of_length_le_one ks0 h) fk hr)

/-! ### … and that was the exact boundary of the old code -/

def enumFrom : Nat → List Nat → List KeyEntry
  | _, [] => []
  | i, k :: r => (k, i, i) :: enumFrom (i + 1) r

theorem kvInsert_fresh (acc : List KeyEntry) (k s i : Nat) (h : k ∉ acc.map (·.1)) :
    kvInsert acc k s i = acc ++ [(k, s, i)] := by
  induction acc with
  | nil => rfl
  | cons e rest ih =>
    obtain ⟨k', e'⟩ := e
    simp only [List.map_cons, List.mem_cons, not_or] at h
    have hne : ¬ k' = k := fun hh => h.1 hh.symm
    simp [kvInsert, hne, ih h.2]

theorem newGo_eq (ks : List Nat) : ∀ (i : Nat) (acc : List KeyEntry),
    (acc.map (·.1) ++ ks).Nodup → newGo ks i acc = acc ++ enumFrom i ks := by
  induction ks with
  | nil => intro i acc _; simp [newGo, enumFrom]
  | cons k r ih =>
    intro i acc h
    have hk : k ∉ acc.map (·.1) := by
      intro hm
      have := (List.nodup_append.1 h).2.2 k hm k (by simp)
      exact this rfl
    simp only [newGo, kvInsert_fresh acc k i i hk]
    rw [ih]
    · simp [enumFrom]
    · simp only [List.map_append, List.map_cons, List.map_nil, List.append_assoc, List.cons_append,
        List.nil_append]
      exact h

theorem enumFrom_live (ks : List Nat) : ∀ i, (enumFrom i ks).map (·.1) = ks := by
  induction ks with
  | nil => intro i; rfl
  | cons k r ih => intro i; simp [enumFrom, ih]

theorem retainGo_all_kept (ks : List KeyEntry) (nk : List (Nat × Nat))
    (h : ∀ e ∈ ks, (lookupIdx nk e.1).isSome) :
    ∀ sp, (retainGo ks nk sp).2 = sp ∧ (retainGo ks nk sp).1.map (·.1) = ks.map (·.1) := by
  induction ks with
  | nil => intro sp; simp [retainGo]
  | cons e rest ih =>
    intro sp
    obtain ⟨k, s, i⟩ := e
    have hk := h (k, s, i) (by simp)
    have hr := ih (fun e he => h e (by simp [he])) sp
    simp only [retainGo]
    cases hl : lookupIdx nk k with
    | none => simp [hl] at hk
    | some idx => simp [hr.1, hr.2]

theorem addNew_all_present (l : List (Nat × Nat)) : ∀ fk : FieldKeys,
    (∀ e ∈ l, e.1 ∈ fk.live) → addNew l fk = fk := by
  induction l with
  | nil => intro fk _; rfl
  | cons e rest ih =>
    intro fk h
    obtain ⟨k, idx⟩ := e
    have hk : fk.keys.any (·.1 = k) = true := by
      have := h (k, idx) (by simp)
      simp only [FieldKeys.live, List.mem_map] at this
      obtain ⟨x, hx, hxk⟩ := this
      simp only [List.any_eq_true, decide_eq_true_eq]
      exact ⟨x, hx, hxk⟩
    simp only [addNew, hk, if_true]
    exact ih fk (fun e he => h e (by simp [he]))

theorem lookupIdx_isSome_of_mem (nk : List (Nat × Nat)) (k : Nat) (h : k ∈ nk.map (·.1)) :
    (lookupIdx nk k).isSome := by
  cases hl : lookupIdx nk k with
  | none => exact absurd h ((lookupIdx_none nk k).1 hl)
  | some _ => rfl

theorem sum_fresh (ks : List Nat) : ks.sum + 1 ∉ ks := by
  intro h
  have : ∀ (l : List Nat) (x : Nat), x ∈ l → x ≤ l.sum := by
    intro l
    induction l with
    | nil => intro x hx; cases hx
    | cons a r ih =>
      intro x hx
      simp only [List.mem_cons] at hx
      simp only [List.sum_cons]
      rcases hx with rfl | hx
      · omega
      · have := ih x hx; omega
  have := this ks _ h
  omega

/-- before fix-c16-1: as soon as the table was created from two or more keys there was a history (one
`update` that adds one fresh key) after which two live keys share a segment; with
`C16_keys_stable_old_partial`, `ks0.length ≤ 1` was the exact class in which the old code was stable. -/
theorem C16_keys_boundary_old (ks0 : List Nat) (hn : ks0.Nodup) (h2 : 2 ≤ ks0.length) :
    ∃ (fk : FieldKeys) (nk : List (Nat × Nat)),
      Reach (FieldKeys.newOld ks0) fk ∧ ¬ Stable fk (fk.updateEntries nk) := by
  match ks0, hn, h2 with
  | a :: b :: rest, hn, _ =>
    let f := (a :: b :: rest).sum + 1
    have hf : f ∉ (a :: b :: rest) := sum_fresh _
    let nk : List (Nat × Nat) := (f, 0) :: (a :: b :: rest).map (fun k => (k, 0))
    refine ⟨FieldKeys.newOld (a :: b :: rest), nk, Reach.init, ?_⟩
    intro hst
    have hK : newGo (a :: b :: rest) 0 [] = enumFrom 0 (a :: b :: rest) := by
      have := newGo_eq (a :: b :: rest) 0 [] (by simpa using hn)
      simpa using this
    have hab : a ≠ b := by
      intro h; subst h; simp at hn
    -- key b has segment 1 before …
    have hsb : (FieldKeys.newOld (a :: b :: rest)).seg b = some 1 := by
      rw [get_eq_find]
      simp only [FieldKeys.newOld, hK, enumFrom]
      simp [hab]
    have hlive0 : (FieldKeys.newOld (a :: b :: rest)).live = a :: b :: rest := by
      simp only [FieldKeys.live, FieldKeys.newOld, hK]
      exact enumFrom_live _ 0
    have hnkmem : ∀ k ∈ (a :: b :: rest), k ∈ nk.map (·.1) := by
      intro k hk
      simp only [nk, List.map_cons, List.map_map, List.mem_cons]
      right
      simp only [List.mem_cons] at hk
      rcases hk with h | h | h
      · exact Or.inl h
      · exact Or.inr (Or.inl h)
      · refine Or.inr (Or.inr ?_)
        simp only [List.mem_map, Function.comp]
        exact ⟨k, h, rfl⟩
    -- the retain pass keeps every entry and frees nothing
    have hkept := retainGo_all_kept (FieldKeys.newOld (a :: b :: rest)).keys nk
      (by
        intro e he
        apply lookupIdx_isSome_of_mem
        apply hnkmem
        rw [← hlive0]
        exact List.mem_map.2 ⟨e, he, rfl⟩) []
    -- so the fresh key gets `current_key + 1 = 1`
    have hupd : ((FieldKeys.newOld (a :: b :: rest)).updateEntries nk).keys =
        (retainGo (FieldKeys.newOld (a :: b :: rest)).keys nk []).1 ++ [(f, 1, 0)] := by
      have hnotin : ¬ ((retainGo (FieldKeys.newOld (a :: b :: rest)).keys nk []).1.any (·.1 = f)) = true := by
        simp only [List.any_eq_true, decide_eq_true_eq, not_exists, not_and]
        intro x hx hxf
        have : x.1 ∈ (retainGo (FieldKeys.newOld (a :: b :: rest)).keys nk []).1.map (·.1) :=
          List.mem_map.2 ⟨x, hx, rfl⟩
        rw [hkept.2] at this
        have hl : x.1 ∈ (FieldKeys.newOld (a :: b :: rest)).live := this
        rw [hlive0, hxf] at hl
        exact hf hl
      have hsp : (FieldKeys.newOld (a :: b :: rest)).spare = [] := rfl
      have hcur : (FieldKeys.newOld (a :: b :: rest)).current = 0 := rfl
      unfold FieldKeys.updateEntries
      simp only [nk, addNew, hsp, hkept.1]
      simp only [nk] at hnotin
      simp only [hnotin, FieldKeys.nextKey, hcur, Bool.false_eq_true, if_false]
      rw [addNew_all_present]
      intro e he
      simp only [List.mem_map] at he
      obtain ⟨k, hk, rfl⟩ := he
      simp only [FieldKeys.live, List.map_append, List.mem_append]
      left
      have := hkept.2
      simp only [nk] at this
      rw [this]
      have : k ∈ (FieldKeys.newOld (a :: b :: rest)).live := by rw [hlive0]; exact hk
      exact this
    have hsf : ((FieldKeys.newOld (a :: b :: rest)).updateEntries nk).seg f = some 1 := by
      rw [get_eq_find, hupd, List.find?_append]
      have : (retainGo (FieldKeys.newOld (a :: b :: rest)).keys nk []).1.find? (·.1 = f) = none := by
        simp only [List.find?_eq_none, decide_eq_true_eq]
        intro x hx hxf
        have : x.1 ∈ (retainGo (FieldKeys.newOld (a :: b :: rest)).keys nk []).1.map (·.1) :=
          List.mem_map.2 ⟨x, hx, rfl⟩
        rw [hkept.2] at this
        have hl : x.1 ∈ (FieldKeys.newOld (a :: b :: rest)).live := this
        rw [hlive0, hxf] at hl
        exact hf hl
      simp [this]
    have hbl : b ∈ ((FieldKeys.newOld (a :: b :: rest)).updateEntries nk).live := by
      simp only [FieldKeys.live, hupd, List.map_append, List.mem_append]
      left
      rw [hkept.2]
      have : b ∈ (FieldKeys.newOld (a :: b :: rest)).live := by rw [hlive0]; simp
      exact this
    have hsb' := hst.1 b 1 hsb hbl
    have := hst.2.1 b f 1 hsb' hsf
    exact hf (by rw [← this]; simp)

/-! ## 6b. wake order: ancestors first -/

theorem notifySet_getElem?_le (p : Path) (h : p ≠ []) (i : Nat) (hi : i ≤ p.length) :
    (notifySet p)[i]? = some (C (p.take i)) := by
  rw [C16_notify_closed_form p h]
  rw [List.getElem?_append_left (by simp; omega)]
  simp [List.getElem?_map, List.getElem?_range (by omega : i < p.length + 1)]

theorem prefix_length_lt {a q : Path} (h : a <+: q) (hne : a ≠ q) : a.length < q.length := by
  rcases Nat.lt_or_ge a.length q.length with h1 | h1
  · exact h1
  · exact absurd (h.eq_of_length_le h1) hne

/-- **ancestors (and the written field's own reader) are woken first.** In the list notified by a write
through `p`, the reader of an ancestor-or-self `a` of `p` is hit at position `a.length`, and no trigger
at a position `≤ a.length` wakes a reader of a proper descendant `q` of `a`. -/
theorem C16_wake_order_partial (p a q : Path) (hap : a <+: p) (haq : a <+: q) (hne : a ≠ q) :
    (∃ t, (notifySet p)[a.length]? = some t ∧ t ∈ trackSet a) ∧
    ∀ j t, (notifySet p)[j]? = some t → t ∈ trackSet q → a.length < j := by
  have hlt := prefix_length_lt haq hne
  cases p with
  | nil =>
    have ha : a = [] := List.prefix_nil.1 hap
    subst ha
    refine ⟨⟨C [], rfl, (mem_trackSet [] _).2 (Or.inl rfl)⟩, ?_⟩
    intro j t hj ht
    rcases j with _ | j
    · simp only [notifySet, rootWriteNotify, List.getElem?_cons_zero, Option.some.injEq] at hj
      subst hj
      rcases (mem_trackSet q _).1 ht with h | ⟨b, _, h⟩
      · simp only [C, Trig.mk.injEq, and_true] at h
        subst h; exact absurd rfl hne
      · simp [C, T] at h
    · simp
  | cons s r =>
    have hal : a.length ≤ (s :: r).length := hap.length_le
    refine ⟨⟨C a, ?_, (mem_trackSet a _).2 (Or.inl rfl)⟩, ?_⟩
    · rw [notifySet_getElem?_le (s :: r) (by simp) a.length hal]
      rw [← List.prefix_iff_eq_take.1 hap]
    · intro j t hj ht
      rcases Nat.lt_or_ge a.length j with h | h
      · exact h
      · exfalso
        rw [notifySet_getElem?_le (s :: r) (by simp) j (by omega)] at hj
        simp only [Option.some.injEq] at hj
        subst hj
        rcases (mem_trackSet q _).1 ht with h' | ⟨b, _, h'⟩
        · simp only [C, Trig.mk.injEq, and_true] at h'
          have : q.length ≤ j := by rw [← h']; simp [List.length_take]; omega
          omega
        · simp [C, T] at h'

/-- a reading of the order clause that is **stronger than the property** (of *any* two notified readers the
one nearer to the root is hit strictly first); kept to document where the guarantee ends -/
def C16_wake_order_all_pairs : Prop :=
  ∀ p a q : Path, a <+: q → a ≠ q → (p <+: a ∨ a <+: p) → (p <+: q ∨ q <+: p) →
    ∃ (i : Nat) (t : Trig), (notifySet p)[i]? = some t ∧ t ∈ trackSet a ∧
      ∀ (j : Nat) (t' : Trig), (notifySet p)[j]? = some t' → t' ∈ trackSet q → i < j

/-- it is false: below the written field every reader is woken by the one trigger `this(p)`, in subscription
order (machine run: `C16_subscription_order_below_written_field`). Not a finding: the property orders
readers of ancestors of the written field before readers of its descendants, which is `C16_wake_order_partial`. -/
theorem C16_wake_order_all_pairs_false : ¬ C16_wake_order_all_pairs := by
  intro h
  obtain ⟨i, t, h1, h2, h3⟩ := h [1] [1, 1] [1, 1, 0] (by decide) (by decide) (by decide) (by decide)
  have hq : T [1] ∈ trackSet [1, 1, 0] := by decide
  have h22 : (notifySet [1])[2]? = some (T [1]) := by decide
  have := h3 2 (T [1]) h22 hq
  -- the only trigger of `notifySet [1] = [C [], C [1], T [1]]` tracked by the reader of `[1,1]` is at index 2
  rcases i with _ | _ | _ | i
  · have : t = C [] := by
      have : (notifySet [1])[0]? = some (C []) := by decide
      rw [this] at h1; exact (Option.some.inj h1).symm
    subst this; revert h2; decide
  · have : t = C [1] := by
      have : (notifySet [1])[1]? = some (C [1]) := by decide
      rw [this] at h1; exact (Option.some.inj h1).symm
    subst this; revert h2; decide
  · omega
  · omega

/-! ## 6c. the state machine: a write wakes exactly the related readers, which then see the value -/

/-! ### frame lemmas -/

theorem subsOf_subsSet (m : List (Trig × List Nat)) (t t' : Trig) (l : List Nat) :
    subsOf (subsSet m t l) t' = if t' = t then l else subsOf m t' := by
  induction m with
  | nil =>
    by_cases h : t' = t
    · subst h; simp [subsSet, subsOf]
    · have : ¬ t = t' := fun hh => h hh.symm
      simp [subsSet, subsOf, h, this]
  | cons a rest ih =>
    obtain ⟨u, e⟩ := a
    simp only [subsSet]
    by_cases hu : u = t
    · subst hu
      by_cases h : t' = u
      · subst h; simp [subsOf]
      · have : ¬ u = t' := fun hh => h hh.symm
        simp [subsOf, h, this]
    · simp only [hu, if_false]
      by_cases h : t' = t
      · subst h
        have := ih
        simp only [if_true] at this
        simp only [subsOf, List.find?_cons, hu, decide_false, if_true] at this ⊢
        exact this
      · simp only [h, if_false] at ih ⊢
        simp only [subsOf, List.find?_cons] at ih ⊢
        by_cases hut : u = t'
        · simp [hut]
        · simp only [hut, decide_false]; exact ih

theorem subsOf_unsubscribeAll (m : List (Trig × List Nat)) (e : Nat) (t : Trig) :
    subsOf (unsubscribeAll m e) t = (subsOf m t).filter (· ≠ e) := by
  induction m with
  | nil => simp [unsubscribeAll, subsOf]
  | cons a rest ih =>
    obtain ⟨u, l⟩ := a
    simp only [unsubscribeAll, List.map_cons, subsOf, List.find?_cons] at ih ⊢
    by_cases hu : u = t
    · simp [hu]
    · simp only [hu, decide_false]; exact ih

theorem contains_subscribe (m : List (Trig × List Nat)) (e e' : Nat) (t t' : Trig) :
    (subsOf (subscribe m e t) t').contains e' =
      ((subsOf m t').contains e' || (decide (t' = t) && decide (e' = e))) := by
  unfold subscribe
  by_cases hc : (subsOf m t).contains e = true
  · simp only [hc, if_true]
    by_cases h : t' = t
    · subst h
      by_cases he : e' = e
      · subst he; simp only [decide_true, Bool.and_self, Bool.or_true]; exact hc
      · simp [he]
    · simp [h]
  · have hc' : (subsOf m t).contains e = false := by simpa using hc
    simp only [hc', Bool.false_eq_true, if_false]
    rw [subsOf_subsSet]
    by_cases h : t' = t
    · subst h
      simp only [if_true, List.contains_append, decide_true, Bool.true_and]
      congr 1
      by_cases he : e' = e
      · subst he; simp
      · simp [he]
    · simp [h]

theorem contains_foldl_subscribe (ts : List Trig) (e e' : Nat) (t' : Trig) :
    ∀ m : List (Trig × List Nat),
    (subsOf (ts.foldl (fun m t => subscribe m e t) m) t').contains e' =
      ((subsOf m t').contains e' || (decide (t' ∈ ts) && decide (e' = e))) := by
  induction ts with
  | nil => intro m; simp
  | cons t ts ih =>
    intro m
    simp only [List.foldl_cons, ih, contains_subscribe]
    by_cases h1 : t' = t <;> by_cases h2 : e' = e <;> simp [h1, h2]

def seenAt (v : Val) (q : Path) : Seen :=
  match v.get q with
  | some x => .val x
  | none => .absent

theorem read_plainChain (st : St) (c : Chain) (hpl : ∀ a ∈ c, a.isPlain = true) :
    (walk st c).2.read st.val = seenAt st.val (chainPath c) := by
  obtain ⟨_, _, h3, h4, _, h6, _⟩ := walk_plainChain st c hpl
  unfold Walk.read seenAt
  rw [h6, h3, h4]
  cases hg : st.val.get (chainPath c) with
  | none => simp
  | some x => simp [hg]

/-- one run of a reader of the field addressed by a chain of plain accessors (struct fields, elements by
index, keyed fields): it re-subscribes to exactly `trackSet` of its path and logs the current value -/
theorem runEff_plain (st : St) (e : Nat) (x : Eff)
    (he : st.effs[e]? = some x) (hpl : ∀ a ∈ x.chain, a.isPlain = true) (hi : x.kind = .plain) :
    runEff st e =
      { st with subs := (trackSet (chainPath x.chain)).foldl (fun m t => subscribe m e t) (unsubscribeAll st.subs e),
                log := st.log ++ [(e, seenAt st.val (chainPath x.chain))] } := by
  unfold runEff
  simp only [he, runKind, hi, trackAndRead, walkH_plain _ x.chain hpl]
  have w1 := walk_plainChain { st with subs := unsubscribeAll st.subs e } x.chain hpl
  obtain ⟨a1, _, _, _, _, _, a7, _⟩ := w1
  simp only [a1, a7]
  have hr := read_plainChain { st with subs := unsubscribeAll st.subs e } x.chain hpl
  simp only at hr
  have hr' : (walk { st with subs := unsubscribeAll st.subs e } x.chain).2.read st.val
      = seenAt st.val (chainPath x.chain) := hr
  rw [hr']
  simp
  intro h
  unfold seenAt at h
  cases hg : st.val.get (chainPath x.chain) <;> simp [hg] at h

end Leptos.Store

namespace Leptos.Store

/-- no `ImmediateEffect` is registered: notifications only set woken flags -/
def NoImm (st : St) : Prop := ∀ x ∈ st.effs, x.imm = false

def wake (l : List Nat) (e : Nat) (x : Eff) : Eff := { x with woken := x.woken || l.contains e }

def effsWake (effs : List Eff) (l : List Nat) : List Eff := l.foldl (fun ef e => setWoken ef e true) effs

theorem getElem?_setWoken (effs : List Eff) (e j : Nat) (b : Bool) :
    (setWoken effs e b)[j]? = if j = e then (effs[j]?).map (fun x => { x with woken := b }) else effs[j]? := by
  unfold setWoken
  cases he : effs[e]? with
  | none =>
    by_cases h : j = e
    · subst h; simp [he]
    · simp [h]
  | some x =>
    simp only [List.getElem?_set]
    by_cases h : j = e
    · subst h
      obtain ⟨hlt, hx⟩ := List.getElem?_eq_some_iff.1 he
      subst hx
      simp [hlt]
    · have : ¬ e = j := fun hh => h hh.symm
      simp [h, this]

theorem getElem?_effsWake (l : List Nat) (e : Nat) : ∀ effs : List Eff,
    (effsWake effs l)[e]? = (effs[e]?).map (wake l e) := by
  induction l with
  | nil =>
    intro effs
    simp only [effsWake, List.foldl_nil]
    cases effs[e]? <;> simp [wake]
  | cons a l ih =>
    intro effs
    have := ih (setWoken effs a true)
    simp only [effsWake, List.foldl_cons] at this ⊢
    rw [this, getElem?_setWoken]
    by_cases h : e = a
    · subst h
      cases effs[e]? with
      | none => simp
      | some x => simp [wake]
    · cases effs[e]? with
      | none => simp [h]
      | some x =>
        simp [h, wake]

theorem noImm_setWoken (effs : List Eff) (e : Nat) (b : Bool) (h : ∀ x ∈ effs, x.imm = false) :
    ∀ x ∈ setWoken effs e b, x.imm = false := by
  unfold setWoken
  cases he : effs[e]? with
  | none => exact h
  | some y =>
    intro x hx
    rcases List.mem_or_eq_of_mem_set hx with h1 | h1
    · exact h x h1
    · subst h1; exact h y (List.mem_of_getElem? he)

theorem markDirty_noImm (st : St) (e : Nat) (h : NoImm st) :
    markDirty st e = { st with effs := setWoken st.effs e true } := by
  unfold markDirty
  cases he : st.effs[e]? with
  | none => simp [setWoken, he]
  | some x =>
    have : x.imm = false := h x (List.mem_of_getElem? he)
    simp [this]

theorem foldl_markDirty_noImm (l : List Nat) : ∀ st : St, NoImm st →
    l.foldl markDirty st = { st with effs := effsWake st.effs l } := by
  induction l with
  | nil => intro st _; rfl
  | cons a l ih =>
    intro st h
    simp only [List.foldl_cons, markDirty_noImm st a h]
    rw [ih]
    · rfl
    · exact noImm_setWoken st.effs a true h

theorem noImm_effsWake (l : List Nat) : ∀ effs : List Eff, (∀ x ∈ effs, x.imm = false) →
    ∀ x ∈ effsWake effs l, x.imm = false := by
  induction l with
  | nil => intro effs h; exact h
  | cons a l ih =>
    intro effs h
    exact ih _ (noImm_setWoken effs a true h)

theorem notifyTrig_noImm (st : St) (t : Trig) (h : NoImm st) :
    notifyTrig st t = { st with subs := subsSet st.subs t [], effs := effsWake st.effs (subsOf st.subs t) } := by
  unfold notifyTrig
  rw [foldl_markDirty_noImm]
  exact h

theorem any_skip (ts : List Trig) (t : Trig) (m : List (Trig × List Nat)) (e : Nat) :
    ((subsOf m t).contains e || ts.any (fun t' => (subsOf (subsSet m t []) t').contains e)) =
    ((subsOf m t).contains e || ts.any (fun t' => (subsOf m t').contains e)) := by
  cases hc : (subsOf m t).contains e with
  | true => simp
  | false =>
    simp only [Bool.false_or]
    congr 1
    funext t'
    rw [subsOf_subsSet]
    by_cases h : t' = t
    · subst h; simp only [if_true, List.contains_nil]; exact hc.symm
    · simp [h]

/-- without immediate effects, notifying a list of triggers wakes exactly the effects subscribed to
one of them and touches nothing else -/
theorem notifyAll_noImm (ts : List Trig) : ∀ st : St, NoImm st →
    NoImm (notifyAll st ts) ∧
    (notifyAll st ts).val = st.val ∧ (notifyAll st ts).keys = st.keys ∧
    (notifyAll st ts).log = st.log ∧ (notifyAll st ts).panicked = st.panicked ∧
    ∀ e, (notifyAll st ts).effs[e]? =
      (st.effs[e]?).map (fun x : Eff =>
        { x with woken := x.woken || ts.any (fun t => (subsOf st.subs t).contains e) }) := by
  induction ts with
  | nil =>
    intro st h
    refine ⟨h, rfl, rfl, rfl, rfl, ?_⟩
    intro e
    simp only [notifyAll, List.foldl_nil, List.any_nil, Bool.or_false]
    cases st.effs[e]? <;> rfl
  | cons t ts ih =>
    intro st h
    have heq := notifyTrig_noImm st t h
    have h1 : NoImm (notifyTrig st t) := by
      rw [heq]
      exact noImm_effsWake _ _ h
    obtain ⟨b1, b2, b3, b4, b5, b6⟩ := ih (notifyTrig st t) h1
    have c2 : (notifyTrig st t).val = st.val := by rw [heq]
    have c3 : (notifyTrig st t).keys = st.keys := by rw [heq]
    have c4 : (notifyTrig st t).log = st.log := by rw [heq]
    have c5 : (notifyTrig st t).panicked = st.panicked := by rw [heq]
    have c6 : (notifyTrig st t).effs = effsWake st.effs (subsOf st.subs t) := by rw [heq]
    have c7 : (notifyTrig st t).subs = subsSet st.subs t [] := by rw [heq]
    have hna : notifyAll st (t :: ts) = notifyAll (notifyTrig st t) ts := rfl
    rw [hna]
    refine ⟨b1, b2.trans c2, b3.trans c3, b4.trans c4, b5.trans c5, ?_⟩
    intro e
    rw [b6 e, c6, c7, getElem?_effsWake]
    cases st.effs[e]? with
    | none => rfl
    | some x =>
      simp only [Option.map_some, wake, List.any_cons, Option.some.injEq]
      have := any_skip ts t st.subs e
      rw [Bool.or_assoc, this]

def Acc.isFldIdx : Acc → Bool
  | .fld _ => true
  | .idx _ => true
  | _ => false

theorem isPlain_of_isFldIdx (c : Chain) (h : ∀ a ∈ c, a.isFldIdx = true) : ∀ a ∈ c, a.isPlain = true := by
  intro a ha
  have := h a ha
  cases a <;> simp_all [Acc.isFldIdx, Acc.isPlain]

/-- a write through a chain of struct fields / indexed elements (or through the store itself): the value
is replaced and `notifySet` of the path is notified -/
theorem writeVia_fldIdx (st : St) (c : Chain) (hc : ∀ a ∈ c, a.isFldIdx = true)
    (f : Val → Val) (old : Val) (hg : st.val.get (chainPath c) = some old) :
    writeVia st c f =
      (notifyAll { st with val := st.val.set (chainPath c) (f old) } (notifySet (chainPath c)), .done) := by
  obtain ⟨a1, a2, a3, a4, a5, a6, a7, a8, a9⟩ := walk_plainChain st c (isPlain_of_isFldIdx c hc)
  unfold writeVia
  rw [walkH_plain st c (isPlain_of_isFldIdx c hc)]
  simp only [a1, a6, hg, Option.isNone_some, Bool.false_eq_true, if_false, a3, a4]
  rw [a9]
  rcases List.eq_nil_or_concat c with rfl | ⟨l, b, rfl⟩
  · rfl
  · have hb : b.isFldIdx = true := hc b (by simp)
    have hne : l.concat b ≠ [] := by simp
    simp only [List.concat_eq_append, List.getLast?_append, List.getLast?_singleton]
    rw [← List.concat_eq_append, a8 hne]
    cases b with
    | fld i => rfl
    | idx i => rfl
    | kfld i => cases hb
    | key k => cases hb
    | var v i => cases hb
    | h i => cases hb

theorem any_hit_iff (p q : Path) (m : List (Trig × List Nat)) (e : Nat)
    (hsub : ∀ t, (subsOf m t).contains e = true ↔ t ∈ trackSet q) :
    (notifySet p).any (fun t => (subsOf m t).contains e) = true ↔ (p <+: q ∨ q <+: p) := by
  rw [← C16_notify_iff_related]
  simp only [List.any_eq_true]
  constructor
  · rintro ⟨t, h1, h2⟩; exact ⟨t, h1, (hsub t).1 h2⟩
  · rintro ⟨t, h1, h2⟩; exact ⟨t, h1, (hsub t).2 h2⟩

/-- **a write wakes exactly the related readers** (state machine, effects on an executor): a reader `e`
subscribed to `trackSet q` (what its last run left, `C16_run_subscribes`) is woken by `set` through a
chain `c` of struct fields and indexed elements iff the path of `c` and `q` are prefix-related; nothing
else about it changes and the store holds the written value. -/
theorem C16_write_wakes_iff_related (st : St) (c : Chain) (q : Path) (w : Val) (e : Nat) (x : Eff)
    (hc : ∀ a ∈ c, a.isFldIdx = true)
    (hni : NoImm st) (he : st.effs[e]? = some x)
    (hsub : ∀ t, (subsOf st.subs t).contains e = true ↔ t ∈ trackSet q)
    (hp : (st.val.get (chainPath c)).isSome) :
    (stepOp st (.set c w none)).1.val = st.val.set (chainPath c) w ∧
    ∃ x', (stepOp st (.set c w none)).1.effs[e]? = some x' ∧
      x'.chain = x.chain ∧ x'.kind = x.kind ∧ x'.imm = x.imm ∧
      (x'.woken = true ↔ (x.woken = true ∨ chainPath c <+: q ∨ q <+: chainPath c)) := by
  cases hg : st.val.get (chainPath c) with
  | none => simp [hg] at hp
  | some old =>
    have hw := writeVia_fldIdx { st with log := [] } c hc (fun _ => w) old hg
    have hstep : stepOp st (.set c w none) = writeVia { st with log := [] } c (fun _ => w) := rfl
    rw [hstep, hw]
    have hni' : NoImm { st with log := [], val := st.val.set (chainPath c) w } := hni
    obtain ⟨_, b2, _, _, _, b6⟩ := notifyAll_noImm (notifySet (chainPath c)) _ hni'
    refine ⟨b2, ?_⟩
    have := b6 e
    simp only [he, Option.map_some] at this
    refine ⟨_, this, rfl, rfl, rfl, ?_⟩
    simp only [Bool.or_eq_true]
    rw [any_hit_iff (chainPath c) q st.subs e hsub]

/-- after its own run a reader of the field addressed by a chain of plain accessors is subscribed to
exactly `trackSet` of its path -/
theorem C16_run_subscribes (st : St) (e : Nat) (x : Eff)
    (he : st.effs[e]? = some x) (hpl : ∀ a ∈ x.chain, a.isPlain = true) (hi : x.kind = .plain) :
    ∀ t, (subsOf (runEff st e).subs t).contains e = true ↔ t ∈ trackSet (chainPath x.chain) := by
  intro t
  rw [runEff_plain st e x he hpl hi]
  simp only [contains_foldl_subscribe, subsOf_unsubscribeAll]
  simp

/-- **a notified reader sees the written value**: whenever a reader of the field at path `q` (any chain of
plain accessors) runs after `set` through the path `p`, it logs the value of its field in the written
store; for `q` below `p` that is the corresponding part of `w`, for `q` above `p` the old value with `w`
put in place, otherwise unchanged. -/
theorem C16_sees_written_value (st : St) (c : Chain) (w : Val) (e : Nat) (x : Eff)
    (hc : ∀ a ∈ c, a.isFldIdx = true)
    (hni : NoImm st) (he : st.effs[e]? = some x) (hpl : ∀ a ∈ x.chain, a.isPlain = true)
    (hi : x.kind = .plain) (hp : (st.val.get (chainPath c)).isSome) :
    let p := chainPath c
    let q := chainPath x.chain
    (runEff (stepOp st (.set c w none)).1 e).log =
        (stepOp st (.set c w none)).1.log ++ [(e, seenAt (st.val.set p w) q)] ∧
    (∀ r, q = p ++ r → (st.val.set p w).get q = w.get r) ∧
    (∀ r u, p = q ++ r → st.val.get q = some u → (st.val.set p w).get q = some (u.set r w)) ∧
    (¬ p <+: q → ¬ q <+: p → (st.val.set p w).get q = st.val.get q) := by
  intro p q
  refine ⟨?_, ?_, ?_, ?_⟩
  · cases hg : st.val.get (chainPath c) with
    | none => simp [hg] at hp
    | some old =>
      have hw := writeVia_fldIdx { st with log := [] } c hc (fun _ => w) old hg
      have hstep : stepOp st (.set c w none) = writeVia { st with log := [] } c (fun _ => w) := rfl
      have hni' : NoImm { st with log := [], val := st.val.set (chainPath c) w } := hni
      obtain ⟨_, b2, _, _, _, b6⟩ := notifyAll_noImm (notifySet (chainPath c)) _ hni'
      have h6 := b6 e
      simp only [he, Option.map_some] at h6
      rw [hstep, hw]
      rw [runEff_plain _ e _ h6 hpl hi]
      simp only [b2]
      rfl
  · intro r hr; rw [hr]; exact get_set_append _ _ _ _ hp
  · intro r u hr hu; rw [hr]; exact get_set_prefix _ _ _ _ _ hu
  · intro h1 h2; exact get_set_unrelated _ _ _ _ h1 h2

/-! ### readers through `OptionStoreExt::map` / `invert` -/

theorem isPlain_take (c : Chain) (n : Nat) (h : ∀ a ∈ c, a.isPlain = true) :
    ∀ a ∈ c.take n, a.isPlain = true := fun a ha => h a (List.mem_of_mem_take ha)

theorem trackAndRead_subs (st : St) (e : Nat) (c : Chain) (hpl : ∀ a ∈ c, a.isPlain = true) :
    (trackAndRead st e c).1.subs = (trackSet (chainPath c)).foldl (fun m t => subscribe m e t) st.subs := by
  obtain ⟨a1, _, _, _, _, _, a7, _⟩ := walk_plainChain st c hpl
  simp only [trackAndRead, walkH_plain st c hpl, a1, a7]

/-- a reader that goes through `map` / `invert` on the `Option` field addressed by the first `n` accessors of
its chain is, after every run (the option `Some` or `None`), subscribed to all of `trackSet` of that field:
with `C16_notify_iff_related` and `notifyAll_noImm` it is woken by every write through the option field,
through any of its ancestors and through anything below it. -/
theorem C16_map_reader_subscribes (st : St) (e : Nat) (x : Eff) (n : Nat)
    (he : st.effs[e]? = some x) (hk : x.kind = .omap) (hpl : ∀ a ∈ x.chain, a.isPlain = true)
    (hs : optSplit { st with subs := unsubscribeAll st.subs e } x.chain = some n) :
    ∀ t ∈ trackSet (chainPath (x.chain.take n)), (subsOf (runEff st e).subs t).contains e = true := by
  intro t ht
  have hpre := isPlain_take x.chain n hpl
  have h1 := trackAndRead_subs { st with subs := unsubscribeAll st.subs e } e (x.chain.take n) hpre
  have hin : (subsOf (trackAndRead { st with subs := unsubscribeAll st.subs e } e (x.chain.take n)).1.subs t).contains e
      = true := by
    rw [h1, contains_foldl_subscribe]
    simp [ht]
  unfold runEff
  simp only [he, runKind, hk, hs]
  split
  · split
    · exact hin
    · rw [trackAndRead_subs _ e x.chain hpl, contains_foldl_subscribe, hin]
      rfl
  · exact hin

/-! ### one trigger per path

In the code the triggers of a path live in `TriggerMap` (`FxHashMap<StorePath, StoreFieldTrigger>`) behind
`ArcStore::get_trigger`, whose `get_or_insert` runs under the exclusive lock: a path gets its pair of triggers
once and everybody is handed clones of that pair.  In the model a trigger **is** its path and kind (`Trig`),
`get_trigger` is the identity, so "at most one trigger per path" holds by construction; what corresponds to the
table is the subscriber map `St.subs`, and its three constructors keep one entry per trigger: -/

theorem subsSet_keys (m : List (Trig × List Nat)) (t : Trig) (l : List Nat) :
    (subsSet m t l).map (·.1) = if t ∈ m.map (·.1) then m.map (·.1) else m.map (·.1) ++ [t] := by
  induction m with
  | nil => simp [subsSet]
  | cons a rest ih =>
    obtain ⟨u, e⟩ := a
    simp only [subsSet]
    by_cases hu : u = t
    · subst hu; simp
    · have hu' : ¬ t = u := fun h => hu h.symm
      simp only [hu, if_false, List.map_cons, ih, List.mem_cons, hu', false_or]
      by_cases hm : t ∈ rest.map (·.1)
      · simp [hm]
      · simp [hm]

/-- the model's trigger table never holds two entries for one trigger (path, kind): `subsSet`, `subscribe`
and `unsubscribeAll` — the only functions that build `St.subs` — preserve it, and `St.init` starts empty -/
theorem C16_trigger_map_unique (m : List (Trig × List Nat)) (h : (m.map (·.1)).Nodup) :
    (∀ t l, ((subsSet m t l).map (·.1)).Nodup) ∧
    (∀ e t, ((subscribe m e t).map (·.1)).Nodup) ∧
    (∀ e, ((unsubscribeAll m e).map (·.1)).Nodup) ∧
    (∀ t l, subsOf (subsSet m t l) t = l) := by
  have hs : ∀ t l, ((subsSet m t l).map (·.1)).Nodup := by
    intro t l
    rw [subsSet_keys]
    by_cases hm : t ∈ m.map (·.1)
    · simpa [hm] using h
    · simp only [hm, if_false]
      rw [List.nodup_append]
      refine ⟨h, by simp, ?_⟩
      intro a ha b hb
      simp only [List.mem_cons, List.not_mem_nil, or_false] at hb
      subst hb
      intro hab; subst hab; exact hm ha
  refine ⟨hs, ?_, ?_, ?_⟩
  · intro e t
    unfold subscribe
    simp only
    by_cases hc : (subsOf m t).contains e = true
    · simp only [hc, if_true]; exact h
    · simp only [hc]; exact hs t _
  · intro e
    have : (unsubscribeAll m e).map (·.1) = m.map (·.1) := by
      simp [unsubscribeAll, Function.comp_def]
    rw [this]; exact h
  · intro t l
    rw [subsOf_subsSet]; simp

/-! ## 7. the state machine on concrete histories: witnesses of the other defects -/

def runOps (st : St) (ops : List Op) : St := ops.foldl (fun s o => (stepOp s o).1) st

/-- a write / patch through the un-erased accessor chain -/
abbrev Op.set' (c : Chain) (v : Val) : Op := .set c v none
abbrev Op.patch' (c : Chain) (v : Val) : Op := .patch c v none

def leafSt (a b : Nat) : Val := .node .struct [.leaf a, .leaf b]
def rowV (id label : Nat) : Val := .node .struct [.leaf id, .leaf label, leafSt id id]
def demoMid (rows : List Val) : Val := .node .struct [.leaf 0, leafSt 1 2, .node .kvec rows]
/-- `Root { a, mid, opt, list, rows }` of the harness family -/
def demoRoot (mid : Val) (opt list rows : List Val) : Val :=
  .node .struct [.leaf 0, mid, .node .opt opt, .node .vec list, .node .kvec rows]

def stRows : St := St.init (demoRoot (demoMid []) [] [] [rowV 10 1000, rowV 11 1100, rowV 12 1200])
def stList : St := St.init (demoRoot (demoMid []) [] [leafSt 1 1, leafSt 2 2] [])
def stMid : St := St.init (demoRoot (demoMid [rowV 1 100]) [] [] [])

/-- F-C16-1 (repaired) end to end: readers of item 11's and item 13's label; after `push 13` a write to
item 13's label wakes the reader of item 13 only (before fix-c16-1 it woke both) -/
theorem C16_segment_collision_machine_regression :
    (runOps stRows [.reader [.kfld 4, .key 11, .fld 1] .plain false none,
                    .reader [.kfld 4, .key 13, .fld 1] .plain false none,
                    .idle,
                    .kpush [.kfld 4] (rowV 13 1300),
                    .idle,
                    .set' [.kfld 4, .key 13, .fld 1] (.leaf 7)]).ready = [1] ∧
    related [.kfld 4, .key 13, .fld 1] [.kfld 4, .key 11, .fld 1] = false := by decide

/-- F-C16-2 (repaired): a write through `list[1]` used to notify `this(list)`, which the reader of
`list[0].v` tracks; now it notifies exactly `notifySet` of its own path -/
theorem C16_index_write_wakes_cousin_witness :
    T [3] ∈ (walkOld stList [.fld 3, .idx 1]).2.tr ∧
    T [3] ∈ (walkOld stList [.fld 3, .idx 0, .fld 0]).2.trackListOld ∧
    related [.fld 3, .idx 1] [.fld 3, .idx 0, .fld 0] = false ∧
    (walk stList [.fld 3, .idx 1]).2.tr = notifySet [3, 1] ∧
    (∀ t ∈ (walk stList [.fld 3, .idx 1]).2.tr, t ∉ (walk stList [.fld 3, .idx 0, .fld 0]).2.trackList) := by
  decide

/-- F-C16-3 (repaired): a reader of the keyed field `mid.rows` used to share no trigger with a write of
the root store; now it tracks `this` of the root -/
theorem C16_keyed_field_misses_root_witness :
    (∀ t ∈ rootWriteNotify, t ∉ (walkOld stMid [.fld 1, .kfld 2]).2.trackListOld) ∧
    related [] [.fld 1, .kfld 2] = true ∧
    T [] ∈ rootWriteNotify ∧ T [] ∈ (walk stMid [.fld 1, .kfld 2]).2.trackList := by decide

/-- F-C16-3 (repaired): a reader of `rows@11` used to share no trigger with a write through `rows` -/
theorem C16_at_keyed_misses_parent_witness :
    (∀ t ∈ (walkOld stRows [.kfld 4]).2.tr ++ [T [4], C [4]],
        t ∉ (walkOld stRows [.kfld 4, .key 11]).2.trackListOld) ∧
    related [.kfld 4] [.kfld 4, .key 11] = true ∧
    T [4] ∈ (walk stRows [.kfld 4]).2.tr ∧ T [4] ∈ (walk stRows [.kfld 4, .key 11]).2.trackList := by decide

/-- F-C16-3 (repaired): a reader of `list[0]` used to share no trigger with a write through `list` -/
theorem C16_at_index_misses_parent_witness :
    (∀ t ∈ (walkOld stList [.fld 3]).2.tr, t ∉ (walkOld stList [.fld 3, .idx 0]).2.trackListOld) ∧
    related [.fld 3] [.fld 3, .idx 0] = true ∧
    T [3] ∈ (walk stList [.fld 3]).2.tr ∧ T [3] ∈ (walk stList [.fld 3, .idx 0]).2.trackList := by decide

/-- F-C16-4: after `reverse`, key 12 sits at index 0 with segment 2; patching its label notifies path
`[rows, 0, label]`, the triggers of key 10 -/
theorem C16_patch_keyed_by_index_witness :
    let st := runOps stRows [.reader [.kfld 4, .key 10, .fld 1] .plain false none,
                             .reader [.kfld 4, .key 12, .fld 1] .plain false none,
                             .idle, .krev [.kfld 4], .idle,
                             .patch' [.kfld 4] (.node .kvec [rowV 12 77, rowV 11 1100, rowV 10 1000])]
    st.ready = [0] ∧ (logicalGet st.val [.kfld 4, .key 12, .fld 1] matches .val (.leaf 77)) := by decide

/-- F-C16-5: after a root write that drops the second row, the woken reader of `rows@11.label`
indexes out of bounds (the real `AtKeyed::reader` panics) -/
theorem C16_stale_keys_panic_witness :
    (runOps stRows [.reader [.kfld 4, .key 12, .fld 1] .plain false none, .idle,
                    .set' [] (demoRoot (demoMid []) [] [] [rowV 10 1000, rowV 11 1100]),
                    .idle]).panicked = true := by decide

/-- F-C16-6: keyed store `[10,11,12]`; reader of `rows@11.label`; remove key 11 (segment 1 is freed, the
reader's path collapses to `rows ++ [1]`); push 14 (reuses segment 1); a write to `rows@14.sub.v` wakes
the reader of the removed key 11 -/
theorem C16_removed_key_reader_not_dropped_witness :
    let st := runOps stRows
      [.reader [.kfld 4, .key 11, .fld 1] .plain false none,
       .idle, .kremove [.kfld 4] 1, .idle, .kpush [.kfld 4] (rowV 14 1400), .idle,
       .set' [.kfld 4, .key 14, .fld 2, .fld 0] (.leaf 5)]
    st.ready = [0] ∧ (logicalGet st.val [.kfld 4, .key 11, .fld 1] matches .none) ∧
    related [.kfld 4, .key 14, .fld 2, .fld 0] [.kfld 4, .key 11, .fld 1] = false := by decide

/-- the seeded change that the first version of the harness missed: a reader that went through
`OptionStoreExt::map` while `mid.opt` was `None` **is** woken by a write of the root (an ancestor of the
option) that makes it `Some`, then sees the inner value; so is a reader through `unwrap()` -/
theorem C16_option_map_woken_by_ancestor_write :
    let root (o : List Val) : Val :=
      .node .struct [.leaf 0, .node .struct [.leaf 0, leafSt 1 2, .node .kvec [], .node .opt o],
        .node .opt [], .node .vec [], .node .kvec []]
    let st := runOps (St.init (root []))
      [.reader [.fld 1, .fld 3, .fld 0, .fld 1] .omap false none,
       .reader [.fld 1, .fld 3, .fld 0, .fld 1] .plain false none,
       .idle,
       .set' [] (root [leafSt 5 6])]
    st.ready = [0, 1] ∧ ((stepOp st .idle).1.log.map (·.1)) = [0, 1] ∧
    (match (stepOp st .idle).1.log.map (·.2) with | [.val (.leaf 6), .val (.leaf 6)] => true | _ => false) = true := by
  decide

/-- F-C16-7 (repaired by fix-c16-4): `iter_unkeyed` used to track only `this(list)` and `children(list)`, which
a write of the root does not notify; now the reader that iterates the empty `list` is woken by the root write
that fills the list, like the plain reader of `list` -/
theorem C16_iter_unkeyed_misses_ancestor_witness :
    (∀ t ∈ rootWriteNotify, t ∉ iterUnkeyedTrackOld [3]) ∧
    related [] [.fld 3] = true ∧
    (runOps (St.init (demoRoot (demoMid []) [] [] []))
      [.reader [.fld 3] .iterU false none, .reader [.fld 3] .plain false none, .idle,
       .set' [] (demoRoot (demoMid []) [] [leafSt 1 1] [])]).ready = [0, 1] := by decide

/-- not a finding (see `C16_wake_order_all_pairs_false`): immediate readers of `mid.inner.v`, `mid.inner`,
`mid` created in this order; a write through `mid` runs `mid` (woken by `children(mid)`), then
`mid.inner.v` before `mid.inner` — subscription order among the readers below the written field -/
theorem C16_subscription_order_below_written_field :
    ((runOps (St.init (demoRoot (demoMid []) [] [] []))
      [.reader [.fld 1, .fld 1, .fld 0] .plain true none,
       .reader [.fld 1, .fld 1] .plain true none,
       .reader [.fld 1] .plain true none,
       .set' [.fld 1] (demoMid [])]).log.map (·.1)) = [2, 0, 1, 2] := by decide

/-! ## 7b. type erasure (`Field<T>` / `ArcField<T>`), attribute shapes, enums -/

/-- **erasure is transparent for writes**: converting the accessor after any number `k` of steps into a
`Field` / `ArcField` and writing through the rest of the chain does exactly what the un-erased chain does —
same value, same notifications in the same order, same key tables — for every chain, since fix-c16-5 the
store itself included -/
theorem C16_erasure_transparent_set (st : St) (c : Chain) (v : Val) (k : Nat) :
    stepOp st (.set c v (some k)) = stepOp st (.set c v none) := by
  cases c with
  | nil => rfl
  | cons a r => rfl

/-- … and for `patch` through a handle, for every chain, the store itself included -/
theorem C16_erasure_transparent_patch (st : St) (c : Chain) (v : Val) (k : Nat) :
    stepOp st (.patch c v (some k)) = stepOp st (.patch c v none) := rfl

/-- **erasure is transparent for readers** whose erased prefix consists of struct fields, indexed elements
and keyed fields: creating the handle changes nothing, and every later run is the run of the un-erased
reader (the handle's `track_field` / `read` closures call the accessor's own) -/
theorem C16_erasure_transparent_reader (st : St) (c : Chain) (kind : RKind) (imm : Bool) (k : Nat)
    (hpl : ∀ a ∈ c.take k, a.isPlain = true) :
    stepOp st (.reader c kind imm (some k)) = stepOp st (.reader c kind imm none) := by
  have h := (walk_plainChain { st with log := [] } (c.take k) hpl).1
  simp only [stepOp, walkH_plain _ (c.take k) hpl, h]

/-- **a long-lived handle is transparent as long as the path of the accessor it was made from has not
changed**: walking `h.rest` is walking `chain ++ rest`.  The path of a chain of struct fields, indexed
elements and keyed fields never changes (`walk_plainChain`), and the segment of a keyed item does not change
while its key stays in the collection, whatever is pushed, removed or reordered around it
(`C16_keys_stable`, first clause) — which is the property's "keeps following that item". -/
theorem C16_handle_transparent (st : St) (id : Nat) (hc rest : Chain) (fz : Path)
    (hh : st.handles[id]? = some (hc, fz)) (hp : (walk st hc).2.tpath = fz) :
    walkH st (.h id :: rest) = walk st (hc ++ rest) := by
  have heta : ({ (walk st hc).2 with tpath := fz } : Walk) = (walk st hc).2 := by
    cases hw : (walk st hc).2
    rw [hw] at hp
    simp only at hp
    subst hp
    rfl
  simp only [walkH, hh]
  by_cases hr : rest.isEmpty = true
  · have : rest = [] := List.isEmpty_iff.1 hr
    subst this
    simp
  · simp only [hr, heta]
    unfold walk
    rw [List.foldl_append]
    rfl

theorem C16_handle_transparent_plain (st : St) (id : Nat) (hc rest : Chain)
    (hpl : ∀ a ∈ hc, a.isPlain = true) (hh : st.handles[id]? = some (hc, chainPath hc)) :
    walkH st (.h id :: rest) = walk st (hc ++ rest) :=
  C16_handle_transparent st id hc rest _ hh (walk_plainChain st hc hpl).2.1

/-- creating a handle of a chain of plain accessors records exactly that path and changes nothing else -/
theorem C16_hnew_plain (st : St) (hc : Chain) (hpl : ∀ a ∈ hc, a.isPlain = true) :
    (stepOp st (.hnew hc)).1 = { st with log := [], handles := st.handles ++ [(hc, chainPath hc)] } := by
  obtain ⟨a1, a2, _⟩ := walk_plainChain { st with log := [] } hc hpl
  simp only [stepOp, walkH_plain _ hc hpl, a1, a2]

/-- F-C16-8 (repaired by fix-c16-5): a write of the whole store through a `Field<Root>` / `ArcField<Root>`
handle used to notify `children[]` only, which no reader of a field below the root tracks; now it wakes the
reader of `mid.inner.v` like the same write through the store -/
theorem C16_root_handle_write_misses_descendants_witness :
    (∀ t ∈ rootHandleNotifyOld, t ∉ trackSet [1, 1, 0]) ∧
    related [] [.fld 1, .fld 1, .fld 0] = true ∧
    (let st := runOps (St.init (demoRoot (demoMid []) [] [] []))
      [.reader [.fld 1, .fld 1, .fld 0] .plain false none, .reader [] .plain false none, .idle]
     (stepOp st (.set [] (demoRoot (demoMid []) [leafSt 1 1] [] []) (some 0))).1.ready = [0, 1] ∧
     (stepOp st (.set [] (demoRoot (demoMid []) [leafSt 1 1] [] []) none)).1.ready = [0, 1]) := by decide

def enA (x y : Nat) : Val := .node .enumv [.leaf 0, .leaf x, .leaf y]
/-- a store whose field 0 is the enum `En::A { x, y }` and whose field 1 is a struct with a skipped field in the
middle (`SkipMid { a, #[store(skip)] s, b, c }`) -/
def stShapes : St :=
  St.init (.node .struct [enA 1 2, .node .struct [.leaf 10, .leaf 11, .leaf 12, leafSt 13 14]])

/-- F-C16-9 (repaired by fix-c16-6): `derive(Store)` used to give every field of an enum variant the path
segment 0 (`varSegOld`), so the held `Subfield`s of `A.x` and `A.y` shared their triggers; now they have
different paths and a write through `A.x` leaves the reader that holds `A.y` asleep -/
theorem C16_enum_variant_fields_share_segment_witness :
    varSegOld 0 = varSegOld 1 ∧
    (walk stShapes [.fld 0, .var 0 0]).2.tpath ≠ (walk stShapes [.fld 0, .var 0 1]).2.tpath ∧
    (runOps stShapes [.reader [.fld 0, .var 0 1] .plain false none, .reader [.fld 0, .var 0 0] .plain false none,
                      .idle, .set' [.fld 0, .var 0 0] (.leaf 9)]).ready = [1] ∧
    related [.fld 0, .var 0 0] [.fld 0, .var 0 1] = false := by decide

/-- `derive(Store)` and `derive(Patch)` agree on the path segment of the fields that follow a
`#[store(skip)]` field: a patch that changes only `b` (declared after the skipped `s`) notifies the path of
the accessor of `b`; it wakes the readers of `b`, of the struct and of the store, and neither the reader of
`a` nor the reader of `c` -/
theorem C16_patch_after_skipped_field_witness :
    let st := runOps stShapes
      [.reader [.fld 1, .fld 0] .plain false none, .reader [.fld 1, .fld 2] .plain false none,
       .reader [.fld 1, .fld 3] .plain false none, .reader [.fld 1] .plain false none,
       .reader [] .plain false none, .idle,
       .patch' [] (.node .struct [enA 1 2, .node .struct [.leaf 10, .leaf 11, .leaf 99, leafSt 13 14]])]
    st.ready = [1, 3, 4] ∧
    (patchVal (.node .struct [.leaf 10, .leaf 11, .leaf 12, leafSt 13 14])
              (.node .struct [.leaf 10, .leaf 77, .leaf 12, leafSt 13 15]) [1]).2 = [[1, 1], [1, 3, 1]] ∧
    (walk stShapes [.fld 1, .fld 3, .fld 1]).2.tpath = [1, 3, 1] := by decide

/-! ## 8. non-vacuity of every hypothesis -/

instance (st : St) : Decidable (NoImm st) := by unfold NoImm; infer_instance

/-- `C16_keys_stable`: a history from a table created from three keys; `C16_keys_stable_of_wf`: its
hypothesis holds for new tables and fails for the tables the old `new` made from two keys -/
example : Reach (FieldKeys.new [10, 11, 12]) ((FieldKeys.new [10, 11, 12]).updateEntries [(10, 0), (12, 1), (13, 2)]) ∧
    ((FieldKeys.new [10, 11, 12]).updateEntries [(10, 0), (12, 1), (13, 2)]).segs = [0, 2, 1] :=
  ⟨Reach.upd _ Reach.init, by decide⟩
example : (FieldKeys.new [10, 11]).wf ∧ (FieldKeys.newOld [7]).wf ∧ ¬ (FieldKeys.newOld [10, 11]).wf := by decide
example : [10, 11, 12].Nodup ∧ 2 ≤ [10, 11, 12].length ∧ [7].length ≤ 1 := by decide

/-- `C16_wake_order_partial` -/
example : [1] <+: [1, 1] ∧ [1] <+: [1, 1, 0] ∧ ([1] : Path) ≠ [1, 1, 0] := by decide

/-- `C16_write_wakes_iff_related`, `C16_sees_written_value`, `C16_run_subscribes`: a state reached by
registering readers (of a struct field, of an indexed element's field, of a keyed field) and running
them satisfies every hypothesis -/
def stDemo : St :=
  runOps (St.init (demoRoot (demoMid [rowV 1 100]) [] [leafSt 1 1, leafSt 2 2] []))
    [.reader [.fld 1, .fld 1, .fld 0] .plain false none, .reader [.fld 3, .idx 0, .fld 0] .plain false none,
     .reader [.fld 1, .kfld 2] .plain false none, .idle]

example : NoImm stDemo ∧ (stDemo.val.get (chainPath [.fld 3, .idx 1])).isSome = true ∧
    (∀ a ∈ [Acc.fld 3, Acc.idx 1], a.isFldIdx = true) ∧
    (stDemo.effs[2]?.map (·.chain)) = some [.fld 1, .kfld 2] ∧
    (∀ a ∈ [Acc.fld 1, Acc.kfld 2], a.isPlain = true) ∧
    (stDemo.effs[2]?.map (·.kind)) = some .plain := by decide

/-- and on it the conclusions can be observed: writing `list[1]` wakes nobody (reader 1 reads `list[0].v`),
writing `list[0]` wakes reader 1, writing the root wakes all three (the keyed field's reader included) -/
example : (stepOp stDemo (.set' [.fld 3, .idx 1] (leafSt 7 8))).1.ready = [] ∧
    (stepOp stDemo (.set' [.fld 3, .idx 0] (leafSt 7 8))).1.ready = [1] ∧
    (stepOp stDemo (.set' [] (demoRoot (demoMid []) [] [] []))).1.ready = [0, 1, 2] := by decide

end Leptos.Store
