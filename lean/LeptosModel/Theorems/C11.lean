import LeptosModel.Model.Keyed
import LeptosModel.Proofs.KeyedSummary
/-!
# C11 — keyed lists keep item identity and end in the new order

Model: `LeptosModel/Model/Keyed.lean` (tachys/src/view/keyed.rs `diff`, `group_adjacent_moves`,
`unpack_moves`, `apply_diff`, `Keyed::{build, rebuild}`, `KeyedState::{mount, unmount,
insert_before_this}` over a parent whose child list is `pre ++ item blocks ++ marker :: post`).

All theorems quantify over ALL key sequences `to` without duplicates (any length) and all list states
`s` that satisfy `Wf` (no holes, one item per key of `hashed_items`, in order, no key twice) — the
states `build` and `rebuild` produce (`C11_build_wf`, `C11_storage_is_to`).  Lemmas: `Proofs/Keyed*.lean`.
-/
namespace Leptos.Keyed

/-! ## unpack_moves -/

/-- **`unpack_moves` is complete**: for every `Diff` whose groups are non-empty and whose
`items_to_move` is the sum of the group lengths, `unpack_moves` returns every single move of every
group, in order, and every add — whatever the `removed` list is. -/
theorem C11_unpack_complete (d : Diff) (hlen : ∀ m ∈ d.moved, 1 ≤ m.len)
    (hsum : d.itemsToMove = sumLens d.moved) :
    unpackMoves d = (d.moved.flatMap singles, d.added) := by
  unfold unpackMoves
  exact unpackLoop_complete _ 0 d.removed d.added d.moved hlen (by omega)

/-- … in particular for every `Diff` that `diff` computes (any two sequences, even with duplicates) -/
theorem C11_unpack_complete_diff (frm to : List Key) :
    unpackMoves (diff frm to) = ((diff frm to).moved.flatMap singles, (diff frm to).added) :=
  unpack_diff frm to

/-- grouping loses no move: the single moves of the groups are the moves that were grouped
(`from`/`to` of each; the `move_in_dom` flag of a group is the flag of its first member) -/
theorem C11_group_complete (ms : List DiffOpMove) (h : ∀ m ∈ ms, m.len = 1) :
    ((groupAdjacentMoves ms).flatMap singles).map (fun m => (m.from_, m.to_))
      = ms.map fun m => (m.from_, m.to_) :=
  group_pairs ms h

example : ∃ d : Diff, (∀ m ∈ d.moved, 1 ≤ m.len) ∧ d.itemsToMove = sumLens d.moved ∧ d.moved ≠ [] :=
  ⟨diff [0, 1, 2, 3] [2, 3, 0, 1], by decide⟩

/-! ## storage, identity, set_index -/

theorem rebuild_summary (s : KState) (to : List Key) (hs : Wf s) (hto : to.Nodup) :
    Summary s.hashed to (somes s.w.storage) (rebuild s to).w :=
  applyDiff_summary s.hashed to (somes s.w.storage) hs.nodup hto hs.keys s.bs s.marker
    { s.w with log := {} } hs.all_some rfl

/-- **storage is `to`**: after `rebuild`, `rendered_items` has exactly `to.length` entries, none of
them a hole, and entry `j` is the item keyed `to[j]`; no `unwrap`/index panic happened; the new state
is again `Wf` (so the theorems apply to the next update). -/
theorem C11_storage_is_to (s : KState) (to : List Key) (hs : Wf s) (hto : to.Nodup) :
    (rebuild s to).w.storage.length = to.length ∧
    (∀ (j : Nat) (k : Key), to[j]? = some k →
      ∃ it, (rebuild s to).w.storage[j]? = some (some it) ∧ it.key = k) ∧
    (rebuild s to).hashed = to ∧
    (rebuild s to).w.log.panic = false ∧
    Wf (rebuild s to) := by
  have sm := rebuild_summary s to hs hto
  have hlen : (rebuild s to).w.storage.length = to.length := by
    rw [sm.all_some, List.length_map, sm.len]
  have hat : ∀ (j : Nat) (k : Key), to[j]? = some k →
      ∃ it, (rebuild s to).w.storage[j]? = some (some it) ∧ it.key = k := by
    intro j k hk
    obtain ⟨it, hit, hkey, _⟩ := sm.at_ j k hk
    refine ⟨it, ?_, hkey⟩
    rw [sm.all_some, List.getElem?_map, hit]
    rfl
  refine ⟨hlen, hat, rfl, sm.no_panic, ⟨sm.all_some, ?_, hto⟩⟩
  show (somes (rebuild s to).w.storage).map (·.key) = to
  apply List.ext_getElem?
  intro j
  rw [List.getElem?_map]
  by_cases hj : j < to.length
  · obtain ⟨it, hit, hkey, _⟩ := sm.at_ j to[j] (List.getElem?_eq_getElem hj)
    rw [hit, List.getElem?_eq_getElem hj]
    simp [hkey]
  · rw [List.getElem?_eq_none (by rw [sm.len]; omega), List.getElem?_eq_none (by omega)]
    rfl

/-- **identity**: an item whose key is in both sequences is the very same item afterwards (same state,
same DOM nodes — it is never rebuilt: `view_fn` is called for new keys only); every new key is built
exactly once, with its index; every vanished key is unmounted exactly once. -/
theorem C11_identity (s : KState) (to : List Key) (hs : Wf s) (hto : to.Nodup) :
    (∀ it ∈ somes s.w.storage, it.key ∈ to → it ∈ somes (rebuild s to).w.storage) ∧
    (((rebuild s to).w.log.builds.map (·.1)).Nodup ∧
      ∀ (k : Key) (i : Nat), (k, i) ∈ (rebuild s to).w.log.builds ↔ to[i]? = some k ∧ k ∉ s.hashed) ∧
    ((rebuild s to).w.log.unmounts.Nodup ∧
      ∀ k : Key, k ∈ (rebuild s to).w.log.unmounts ↔ k ∈ s.hashed ∧ k ∉ to) := by
  have sm := rebuild_summary s to hs hto
  refine ⟨?_, ⟨sm.builds_nodup, sm.builds_mem⟩, ⟨sm.unmounts_nodup, sm.unmounts_mem⟩⟩
  intro it hit hk
  obtain ⟨i, hi⟩ := List.mem_iff_getElem?.mp hit
  obtain ⟨j, hj⟩ := List.mem_iff_getElem?.mp hk
  have hfi : s.hashed[i]? = some it.key := by
    rw [← hs.keys, List.getElem?_map, hi]; rfl
  obtain ⟨it', hit', _, hold⟩ := sm.at_ j it.key hj
  have := hold i hfi
  rw [hi] at this
  simp only [Option.some.injEq] at this
  subst this
  exact List.mem_of_getElem? hit'

/-- **set_index**: a retained item whose index changed is told its new index — exactly once, so the
last value it is told is its final index; an item that keeps its index, a new item and a removed item
get no `set_index` call (new items receive their index through `view_fn`, see `C11_identity`). -/
theorem C11_set_index (s : KState) (to : List Key) (hs : Wf s) (hto : to.Nodup) :
    ((rebuild s to).w.log.setIndex.map (·.1)).Nodup ∧
    ∀ (k : Key) (i : Nat), (k, i) ∈ (rebuild s to).w.log.setIndex ↔
      k ∈ s.hashed ∧ to[i]? = some k ∧ s.hashed[i]? ≠ some k :=
  ⟨(rebuild_summary s to hs hto).setIndex_nodup, (rebuild_summary s to hs hto).setIndex_mem⟩

end Leptos.Keyed
