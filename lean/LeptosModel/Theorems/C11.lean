import LeptosModel.Model.Keyed
import LeptosModel.Proofs.KeyedSummary
import LeptosModel.Proofs.KeyedFinal
import LeptosModel.Proofs.KeyedBuild
import LeptosModel.Proofs.KeyedExact
import LeptosModel.Proofs.KeyedRepair
import LeptosModel.Proofs.KeyedNested
import LeptosModel.Proofs.KeyedOwners
/-!
# C11 — keyed lists keep item identity and end in the new order

Model: `LeptosModel/Model/Keyed.lean` (tachys/src/view/keyed.rs `diff`, `group_adjacent_moves`,
`unpack_moves`, `apply_diff`, `Keyed::{build, rebuild}`, `KeyedState::{mount, unmount,
insert_before_this}` over a parent whose child list is `pre ++ item blocks ++ marker :: post`).

All theorems quantify over ALL key sequences `to` without duplicates (any length) and all list states
`s` that satisfy `Wf` (no holes, one item per key of `hashed_items`, in order, no key twice; so the old
sequence `s.hashed` is any duplicate-free sequence) — `rebuild` preserves `Wf` (`C11_storage_is_to`).
The DOM theorems additionally take `Mounted pre post s` for ARBITRARY sibling lists `pre`, `post` and
arbitrary block sizes (every item owns ≥ 1 node).  Lemmas: `Proofs/Keyed*.lean` (core Lean only).

`diff` / `group_adjacent_moves` are modelled AFTER the repair of finding F-C11-1 (`fix:` commit in /repo,
/verif/hooks/fix-c11-1.patch); the functions before the repair are `diffOld` / `rebuildOld`, and the
theorems about them stay as regression theorems.

| theorem | status |
|---|---|
| `C11_build_wf` | full (`build` + `mount` establish `Wf` and `Mounted`) |
| `C11_unpack_complete`, `C11_unpack_complete_diff`, `C11_group_complete` | full |
| `C11_storage_is_to`, `C11_identity`, `C11_identity_nodes_leave`, `C11_set_index` | full |
| `C11_settled_monotone` | full: the repaired `diff` never lets a resting item overtake another one |
| `C11_dom_order` | **full** (no hypothesis beyond the state invariants) — since the repair |
| `C11_history`, `C11_history_dom_order` | full, every step of every history |
| `C11_build_detached`, `C11_rebuild_unmounted`, `C11_mount_before_sibling`, `C11_unmount`, `C11_insert_before_this`, `C11_life_cycle` | full: a list that is built, rebuilt without being in the DOM (no parent yet, or the stale parent kept by `unmount`), mounted before any existing sibling, updated, unmounted, … |
| `C11_retained_row_state_kept` | full: the row-local state (the item's owner) of a retained item is kept with its value, that of a removed item is disposed, a new item starts fresh |
| `C11_nested_inner_update`, `C11_nested_outer_update` | full: a keyed list as an item of a keyed list, updated on its own / moved as a block |
| `C11_dom_order_old_witness` | regression: the code before the repair: `[0,1,2] → [4,3,2,1,0]` ends as 1,4,3,2,0 |
| `C11_dom_order_old_iff` | regression: before the repair the order was right IFF `settledMonotone diffOld` |
-/
namespace Leptos.Keyed

/-! ## unpack_moves -/

/-- **`unpack_moves` is complete**: for every `Diff` whose groups are non-empty and whose
`items_to_move` is the sum of the group lengths, `unpack_moves` returns every single move of every
group, in order, and every add — whatever the `removed` list is. -/
theorem C11_unpack_complete (d : Diff) (hlen : ∀ m ∈ d.moved, 1 ≤ m.len)
    (hsum : d.itemsToMove = sumLens d.moved) :
    unpackMoves d = (d.moved.flatMap singles, d.added) := by
  unfold unpackMoves
  exact unpackLoop_complete _ 0 d.removed d.added d.moved hlen (by omega)

/-- … in particular for every `Diff` that `diff` computes (any two sequences, even with duplicates) -/
theorem C11_unpack_complete_diff (frm to : List Key) :
    unpackMoves (diff frm to) = ((diff frm to).moved.flatMap singles, (diff frm to).added) :=
  unpack_diff frm to

/-- grouping loses no move: the single moves of the groups are the moves that were grouped
(`from`/`to` of each; the `move_in_dom` flag of a group is the flag of its first member) -/
theorem C11_group_complete (ms : List DiffOpMove) (h : ∀ m ∈ ms, m.len = 1) :
    ((groupAdjacentMoves ms).flatMap singles).map (fun m => (m.from_, m.to_))
      = ms.map fun m => (m.from_, m.to_) :=
  group_pairs ms h

example : ∃ d : Diff, (∀ m ∈ d.moved, 1 ≤ m.len) ∧ d.itemsToMove = sumLens d.moved ∧ d.moved ≠ [] :=
  ⟨diff [0, 1, 2, 3] [2, 3, 0, 1], by decide⟩

/-! ## the states the theorems are about -/

/-- `Keyed::build` followed by `KeyedState::mount(parent, None)` yields a state that satisfies every
hypothesis used below: for any duplicate-free keys, any block size ≥ 1, any (duplicate-free) children
already in the parent — they become the `pre` siblings. (`post` siblings are whatever is appended to
the parent afterwards; `rebuild` preserves `Wf` and `Mounted`.) -/
theorem C11_build_wf (bs : Nat) (keys : List Key) (kids : List NodeId) (next : Nat) (hbs : 0 < bs)
    (hk : keys.Nodup) (hkids : kids.Nodup) (hfr : ∀ n ∈ kids, n < next) :
    Wf ((build bs keys kids next).mount none) ∧ Mounted kids [] ((build bs keys kids next).mount none) :=
  build_mount_wf bs keys kids next hbs hk hkids hfr

/-- `Keyed::hydrate` (server HTML adopted in place) yields a `Wf`, `Mounted` list with a parent — also when the
list is the FIRST child of its parent (`pre = []`) -/
theorem C11_hydrate_wf (bs : Nat) (keys : List Key) (pre : List NodeId) (next : Nat) (hbs : 0 < bs)
    (hk : keys.Nodup) (hpre : pre.Nodup) (hfr : ∀ n ∈ pre, n < next) :
    Wf (hydrate bs keys pre next) ∧ Mounted pre [] (hydrate bs keys pre next) ∧
    (hydrate bs keys pre next).parent = true :=
  ⟨(build_mount_wf bs keys pre next hbs hk hpre hfr).1, (build_mount_wf bs keys pre next hbs hk hpre hfr).2, rfl⟩

/-! ## storage, identity, set_index -/

/-- the summary holds for `rebuild` with any diff function that hands `apply_diff` the right command
lists (`DiffLike`): the repaired `diff` and the old one -/
theorem rebuildWith_summary (D : List Key → List Key → Diff) (hD : DiffLike D) (s : KState) (to : List Key)
    (hs : Wf s) (hto : to.Nodup) :
    Summary s.hashed to (somes s.w.storage) (rebuildWith D s to).w :=
  (applyDiff_summary D hD s.hashed to (somes s.w.storage) hs.nodup hto hs.keys s.bs s.marker
    { s.w with log := {} } hs.all_some rfl).of_sim (rebuildWith_sim D s to)

theorem rebuild_summary (s : KState) (to : List Key) (hs : Wf s) (hto : to.Nodup) :
    Summary s.hashed to (somes s.w.storage) (rebuild s to).w :=
  rebuildWith_summary diff diffLike_diff s to hs hto

/-- **storage is `to`**: after `rebuild`, `rendered_items` has exactly `to.length` entries, none of
them a hole, and entry `j` is the item keyed `to[j]`; no `unwrap`/index panic happened; the new state
is again `Wf` (so the theorems apply to the next update). -/
theorem C11_storage_is_to (s : KState) (to : List Key) (hs : Wf s) (hto : to.Nodup) :
    (rebuild s to).w.storage.length = to.length ∧
    (∀ (j : Nat) (k : Key), to[j]? = some k →
      ∃ it, (rebuild s to).w.storage[j]? = some (some it) ∧ it.key = k) ∧
    (rebuild s to).hashed = to ∧
    (rebuild s to).w.log.panic = false ∧
    Wf (rebuild s to) := by
  have sm := rebuild_summary s to hs hto
  have hlen : (rebuild s to).w.storage.length = to.length := by
    rw [sm.all_some, List.length_map, sm.len]
  have hat : ∀ (j : Nat) (k : Key), to[j]? = some k →
      ∃ it, (rebuild s to).w.storage[j]? = some (some it) ∧ it.key = k := by
    intro j k hk
    obtain ⟨it, hit, hkey, _⟩ := sm.at_ j k hk
    refine ⟨it, ?_, hkey⟩
    rw [sm.all_some, List.getElem?_map, hit]
    rfl
  refine ⟨hlen, hat, rfl, sm.no_panic, ⟨sm.all_some, ?_, hto⟩⟩
  show (somes (rebuild s to).w.storage).map (·.key) = to
  apply List.ext_getElem?
  intro j
  rw [List.getElem?_map]
  by_cases hj : j < to.length
  · obtain ⟨it, hit, hkey, _⟩ := sm.at_ j to[j] (List.getElem?_eq_getElem hj)
    rw [hit, List.getElem?_eq_getElem hj]
    simp [hkey]
  · rw [List.getElem?_eq_none (by rw [sm.len]; omega), List.getElem?_eq_none (by omega)]
    rfl

/-- **identity**: an item whose key is in both sequences is the very same item afterwards (same state,
same DOM nodes — it is never rebuilt: `view_fn` is called for new keys only); every new key is built
exactly once, with its index; every vanished key is unmounted exactly once. -/
theorem C11_identity (s : KState) (to : List Key) (hs : Wf s) (hto : to.Nodup) :
    (∀ it ∈ somes s.w.storage, it.key ∈ to → it ∈ somes (rebuild s to).w.storage) ∧
    (((rebuild s to).w.log.builds.map (·.1)).Nodup ∧
      ∀ (k : Key) (i : Nat), (k, i) ∈ (rebuild s to).w.log.builds ↔ to[i]? = some k ∧ k ∉ s.hashed) ∧
    ((rebuild s to).w.log.unmounts.Nodup ∧
      ∀ k : Key, k ∈ (rebuild s to).w.log.unmounts ↔ k ∈ s.hashed ∧ k ∉ to) := by
  have sm := rebuild_summary s to hs hto
  refine ⟨?_, ⟨sm.builds_nodup, sm.builds_mem⟩, ⟨sm.unmounts_nodup, sm.unmounts_mem⟩⟩
  intro it hit hk
  obtain ⟨i, hi⟩ := List.mem_iff_getElem?.mp hit
  obtain ⟨j, hj⟩ := List.mem_iff_getElem?.mp hk
  have hfi : s.hashed[i]? = some it.key := by
    rw [← hs.keys, List.getElem?_map, hi]; rfl
  obtain ⟨it', hit', _, hold⟩ := sm.at_ j it.key hj
  have := hold i hfi
  rw [hi] at this
  simp only [Option.some.injEq] at this
  subst this
  exact List.mem_of_getElem? hit'

/-- **set_index**: a retained item whose index changed is told its new index — exactly once, so the
last value it is told is its final index; an item that keeps its index, a new item and a removed item
get no `set_index` call (new items receive their index through `view_fn`, see `C11_identity`). -/
theorem C11_set_index (s : KState) (to : List Key) (hs : Wf s) (hto : to.Nodup) :
    ((rebuild s to).w.log.setIndex.map (·.1)).Nodup ∧
    ∀ (k : Key) (i : Nat), (k, i) ∈ (rebuild s to).w.log.setIndex ↔
      k ∈ s.hashed ∧ to[i]? = some k ∧ s.hashed[i]? ≠ some k :=
  ⟨(rebuild_summary s to hs hto).setIndex_nodup, (rebuild_summary s to hs hto).setIndex_mem⟩

/-- … and the nodes of an item whose key vanished are no longer children of the parent (for a list
that is mounted in order; the order AFTER the update does not matter here). -/
theorem C11_identity_nodes_leave (s : KState) (to : List Key) (pre post : List NodeId) (hs : Wf s)
    (hm : Mounted pre post s) (hto : to.Nodup) :
    ∀ r ∈ somes s.w.storage, r.key ∉ to → ∀ n ∈ r.nodes, n ∉ (rebuild s to).w.kids :=
  rebuild_removed_nodes_leave diff diffLike_diff s to pre post hs hm hto

/-! ## row-local state -/

/-- **retained rows keep their state**: the reactive state a row body creates for itself lives in the row's
owner, which belongs to the item state (`Owners`, one cell per item). After `rebuild` (with or without a
parent) a retained item — the very same item, `C11_identity` — still has its owner with the value it held
(whatever was written to it before the update); the owner of a removed item is disposed; a new item has a
fresh owner whose body ran once. `hown`: owners exist only for stored items. -/
theorem C11_retained_row_state_kept (fresh : Key → Nat) (s : KState) (to : List Key) (o : Owners)
    (hs : Wf s) (hto : to.Nodup) (hown : ∀ p ∈ o, p.1 ∈ somes s.w.storage) :
    (∀ it ∈ somes s.w.storage, it.key ∈ to →
      (ownersAfter fresh o (rebuild s to)).get it = some ((o.get it).getD (fresh it.key))) ∧
    (∀ it ∈ somes s.w.storage, it.key ∉ to → (ownersAfter fresh o (rebuild s to)).get it = none) ∧
    (∀ it ∈ somes (rebuild s to).w.storage, it.key ∉ s.hashed →
      (ownersAfter fresh o (rebuild s to)).get it = some (fresh it.key)) :=
  owners_after_rebuild diff diffLike_diff fresh s to o hs hto hown

/-- non-vacuity / regression shape of round-4 seed 2: row 1 holds a written value (7) across a reorder that
removes row 0 and adds row 5 -/
example :
    let s := (build 1 [0, 1, 2] [] 0).mount none
    let o : Owners := (ownersAfter (· * 100) [] s).set ⟨1, [1]⟩ 7
    (ownersAfter (· * 100) o (rebuild s [2, 1, 5])).get ⟨1, [1]⟩ = some 7 ∧
    (ownersAfter (· * 100) o (rebuild s [2, 1, 5])).get ⟨0, [0]⟩ = none ∧
    (ownersAfter (· * 100) o (rebuild s [2, 1, 5])).map (·.2) = [200, 7, 500] := by
  decide

/-! ## DOM order -/

/-- **the repaired `diff` keeps the resting items in order**: for all duplicate-free sequences, the
items that are neither removed nor re-inserted in the DOM (at the same index in both sequences, or
moved with `move_in_dom = false`) appear in the same relative order in `from` and in `to`. This is the
property whose failure was finding F-C11-1; after the repair it holds by construction (`last_kept`,
`next_unmoved` in `diff`; `group_adjacent_moves` keeps the flags). -/
theorem C11_settled_monotone (frm to : List Key) (hf : frm.Nodup) (ht : to.Nodup) :
    settledMonotone diff frm to = true :=
  settledMonotone_diff frm to hf ht

/-- **DOM order (full)**: wherever the list sits (`pre`, `post` arbitrary) and whatever the block sizes,
after `rebuild` the parent's children are `pre`, the blocks of the items keyed `to` in that order, the
marker, `post` — for ALL duplicate-free `to` — and the list is again `Mounted`. -/
theorem C11_dom_order (s : KState) (to : List Key) (pre post : List NodeId) (hs : Wf s)
    (hm : Mounted pre post s) (hto : to.Nodup) :
    (rebuild s to).w.kids
      = pre ++ blocksOf (rebuild s to).w.storage ++ (rebuild s to).marker :: post ∧
    Mounted pre post (rebuild s to) :=
  have h := rebuild_mounted diff diffLike_diff s to pre post hs hm hto
    (settledMonotone_diff s.hashed to hs.nodup hto)
  ⟨h.ordered, h⟩

/-- non-vacuity: a mounted list with siblings on both sides and two-node items; an update that moves,
adds and removes -/
example : ∃ (s : KState) (to : List Key) (pre post : List NodeId),
    Wf s ∧ Mounted pre post s ∧ to.Nodup ∧
    to ≠ s.hashed ∧ pre ≠ [] ∧ post ≠ [] ∧ (domMovedKeys diff s.hashed to) ≠ [] :=
  ⟨{ (build 2 [0, 1, 2, 3] [100] 101).mount none with
      w := { ((build 2 [0, 1, 2, 3] [100] 101).mount none).w with
        kids := ((build 2 [0, 1, 2, 3] [100] 101).mount none).w.kids ++ [200], next := 201 } },
    [3, 0, 5, 2], [100], [200],
    ⟨by decide, by decide, by decide⟩, ⟨by decide, by decide, by decide, by decide, by decide, by decide⟩,
    by decide, by decide, by decide, by decide, by decide⟩

/-! ## histories -/

/-- the states after each of a list of successive updates -/
def rebuilds (s : KState) : List (List Key) → KState
  | [] => s
  | t :: ts => rebuilds (rebuild s t) ts

/-- **histories, storage / identity / set_index**: after any list of duplicate-free updates the state is
`Wf` and holds the last key sequence — hence `C11_storage_is_to`, `C11_identity` and `C11_set_index`
hold at EVERY step of every history (their only hypothesis on the state is `Wf`). -/
theorem C11_history (s : KState) (tos : List (List Key)) (hs : Wf s) (hto : ∀ t ∈ tos, t.Nodup) :
    ∀ (ts₁ : List (List Key)) (t : List Key) (ts₂ : List (List Key)), tos = ts₁ ++ t :: ts₂ →
      Wf (rebuilds s ts₁) ∧ (s.hashed :: ts₁).getLast? = some (rebuilds s ts₁).hashed ∧
      Summary (rebuilds s ts₁).hashed t (somes (rebuilds s ts₁).w.storage)
        (rebuild (rebuilds s ts₁) t).w := by
  induction tos generalizing s with
  | nil => intro ts₁ t ts₂ h; simp at h
  | cons t0 tos ih =>
    intro ts₁ t ts₂ h
    cases ts₁ with
    | nil =>
      simp only [List.nil_append, List.cons.injEq] at h
      obtain ⟨rfl, rfl⟩ := h
      exact ⟨hs, rfl, rebuild_summary s t0 hs (hto t0 (by simp))⟩
    | cons t1 ts₁ =>
      simp only [List.cons_append, List.cons.injEq] at h
      obtain ⟨rfl, rfl⟩ := h
      have hwf := (C11_storage_is_to s t0 hs (hto t0 (by simp))).2.2.2.2
      have := ih (rebuild s t0) hwf (fun t' ht' => hto t' (by simp [ht'])) ts₁ t ts₂ rfl
      refine ⟨this.1, ?_, this.2.2⟩
      rw [List.getLast?_cons_cons]
      exact this.2.1

/-- **histories, DOM order (full)**: after every step of every history of duplicate-free updates the
list is mounted in order (`pre ++ blocks ++ marker :: post`). -/
theorem C11_history_dom_order (s : KState) (tos : List (List Key)) (pre post : List NodeId)
    (hs : Wf s) (hm : Mounted pre post s) (hto : ∀ t ∈ tos, t.Nodup) :
    ∀ (ts₁ ts₂ : List (List Key)), tos = ts₁ ++ ts₂ →
      Wf (rebuilds s ts₁) ∧ Mounted pre post (rebuilds s ts₁) := by
  induction tos generalizing s with
  | nil =>
    intro ts₁ ts₂ h
    have : ts₁ = [] := by
      cases ts₁ with
      | nil => rfl
      | cons _ _ => simp at h
    subst this
    exact ⟨hs, hm⟩
  | cons t0 tos ih =>
    intro ts₁ ts₂ h
    cases ts₁ with
    | nil => exact ⟨hs, hm⟩
    | cons t1 ts₁ =>
      simp only [List.cons_append, List.cons.injEq] at h
      obtain ⟨rfl, rfl⟩ := h
      have ht0 := hto t0 (by simp)
      have hwf := (C11_storage_is_to s t0 hs ht0).2.2.2.2
      have hmo := (C11_dom_order s t0 pre post hs hm ht0).2
      exact ih (rebuild s t0) hwf hmo (fun t' ht' => hto t' (by simp [ht'])) ts₁ ts₂ rfl

/-! ## the list outside the DOM: built, rebuilt, mounted before a sibling, unmounted

`Keyed::build` leaves `parent = None`; `rebuild` then only updates the stored items. `mount(parent, anchor)`
inserts every block in order before the anchor (an existing sibling — what `Either` / `Show` /
`EitherKeepAlive` do when they switch to the list — or `None` = append) and records the parent. `unmount`
takes the blocks and the marker out but keeps the parent: a `rebuild` before the next `mount` still runs the
DOM half of `apply_diff`, and every insertion fails without effect (`insertBefore` with a reference that is
not a child). `C11_storage_is_to`, `C11_identity`, `C11_set_index`, `C11_history` need `Wf` only, so they
hold in all these states. Items are blocks of ≥ 1 nodes of ANY kind (elements, text nodes, the placeholders
of `()` / `None` members, the nodes and marker of a fragment or of a nested keyed list): the model and the
theorems never look at the kind of a node. -/

/-- `build`: `Wf`, not in the DOM (`Detached`), no parent, the parent's children untouched -/
theorem C11_build_detached (bs : Nat) (keys : List Key) (kids : List NodeId) (next : Nat) (hbs : 0 < bs)
    (hk : keys.Nodup) (hkids : kids.Nodup) (hfr : ∀ n ∈ kids, n < next) :
    Wf (build bs keys kids next) ∧ Detached (build bs keys kids next) ∧
    (build bs keys kids next).parent = false ∧ (build bs keys kids next).w.kids = kids :=
  build_detached bs keys kids next hbs hk hkids hfr

/-- **`rebuild` while the list is not in the DOM** (whether it has no parent yet or still holds the one it was
unmounted from): the parent's children are untouched, the list stays out of the DOM and well-formed — and
storage, identity, builds, unmounts, `set_index` are as always (`rebuild_summary`) -/
theorem C11_rebuild_unmounted (s : KState) (to : List Key) (hs : Wf s) (hd : Detached s) (hto : to.Nodup) :
    (rebuild s to).w.kids = s.w.kids ∧ Detached (rebuild s to) ∧ Wf (rebuild s to) ∧
    Summary s.hashed to (somes s.w.storage) (rebuild s to).w :=
  ⟨(rebuildWith_detached diff diffLike_diff s to hs hd hto).2, (rebuildWith_detached diff diffLike_diff s to hs hd hto).1,
    (C11_storage_is_to s to hs hto).2.2.2.2, rebuild_summary s to hs hto⟩

/-- **`mount(parent, anchor)`**: with the siblings `pre ++ post` in the parent and the anchor `post.head?`
(`None` iff `post = []`), the list ends `Mounted pre post` — all blocks in storage order, then the marker,
directly before the anchor — and has a parent -/
theorem C11_mount_before_sibling (s : KState) (pre post : List NodeId) (hs : Wf s) (hd : Detached s)
    (hk : s.w.kids = pre ++ post) :
    Wf (s.mount post.head?) ∧ Mounted pre post (s.mount post.head?) :=
  mount_mounted s pre post hs hd hk

/-- **`unmount`**: the parent's children are the siblings alone; the list is `Detached` and keeps its items -/
theorem C11_unmount (s : KState) (pre post : List NodeId) (hs : Wf s) (hm : Mounted pre post s) :
    Wf s.unmount ∧ Detached s.unmount ∧ s.unmount.w.kids = pre ++ post ∧
    s.unmount.w.storage = s.w.storage ∧ s.unmount.parent = s.parent :=
  unmount_detached s pre post hs hm

/-- **`insert_before_this(child)`** (how a preceding `Either` / `Show` puts its new content in front of the
list): on a mounted list the child becomes the last leading sibling, directly in front of the first node of
the first item (or of the marker if the list is empty); a list that is not in the DOM answers `false` and
inserts nothing -/
theorem C11_insert_before_this (s : KState) (pre post : List NodeId) (child : NodeId) (hs : Wf s)
    (hm : Mounted pre post s) (hc : child ∉ s.w.kids) (hcn : child < s.w.next) :
    (s.insertBeforeThis child).2 = true ∧ Wf (s.insertBeforeThis child).1 ∧
    Mounted (pre ++ [child]) post (s.insertBeforeThis child).1 :=
  insertBeforeThis_mounted s pre post child hs hm hc hcn

theorem C11_insert_before_this_unmounted (s : KState) (child : NodeId) (hd : Detached s) :
    s.insertBeforeThis child = (s, false) :=
  insertBeforeThis_detached s child hd

/-- the operations of a list's life -/
inductive LifeOp where
  | update (to : List Key)
  | unmount
  /-- `mount` before the `k`-th of the siblings (`k = sibs.length`: append) -/
  | mount (k : Nat)

def lifeStep (sibs : List NodeId) (s : KState) : LifeOp → KState
  | .update to => rebuild s to
  | .unmount => s.unmount
  | .mount k => s.mount (sibs.drop k).head?

/-- where the list is: `none` = not in the DOM, `some k` = mounted before the `k`-th sibling -/
def lifePos (p : Option Nat) : LifeOp → Option Nat
  | .update _ => p
  | .unmount => none
  | .mount k => some k

/-- updates are duplicate-free, `unmount` acts on a mounted list, `mount` on one that is not in the DOM -/
def lifeOk (sibs : List NodeId) (p : Option Nat) : LifeOp → Bool
  | .update to => decide to.Nodup
  | .unmount => p.isSome
  | .mount k => p.isNone && decide (k ≤ sibs.length)

/-- the invariant: mounted between the siblings at position `k`, or out of the DOM with the siblings alone in
the parent -/
def LifeInv (sibs : List NodeId) (s : KState) : Option Nat → Prop
  | some k => Wf s ∧ Mounted (sibs.take k) (sibs.drop k) s
  | none => Wf s ∧ Detached s ∧ s.w.kids = sibs

theorem lifeStep_inv (sibs : List NodeId) (s : KState) (p : Option Nat) (op : LifeOp)
    (h : LifeInv sibs s p) (hok : lifeOk sibs p op = true) :
    LifeInv sibs (lifeStep sibs s op) (lifePos p op) := by
  cases op with
  | update to =>
    have hto : to.Nodup := by simpa [lifeOk] using hok
    cases p with
    | some k =>
      exact ⟨(C11_storage_is_to s to h.1 hto).2.2.2.2, (C11_dom_order s to _ _ h.1 h.2 hto).2⟩
    | none =>
      obtain ⟨h1, h2, h3, _⟩ := C11_rebuild_unmounted s to h.1 h.2.1 hto
      exact ⟨h3, h2, h1.trans h.2.2⟩
  | unmount =>
    cases p with
    | some k =>
      obtain ⟨h1, h2, h3, _, _⟩ := C11_unmount s _ _ h.1 h.2
      exact ⟨h1, h2, by show s.unmount.w.kids = sibs; rw [h3, List.take_append_drop]⟩
    | none => simp [lifeOk] at hok
  | mount k =>
    cases p with
    | some _ => simp [lifeOk] at hok
    | none =>
      exact C11_mount_before_sibling s (sibs.take k) (sibs.drop k) h.1 h.2.1
        (by rw [h.2.2, List.take_append_drop])

/-- **the whole life of a list**: from `build` on, through any sequence of updates (duplicate-free keys),
`unmount`s and `mount`s before any existing sibling, the list is — at every step — either mounted in order at
its current place or out of the DOM with the siblings untouched, and always `Wf` (so storage / identity /
`set_index` hold at every step) -/
theorem C11_life_cycle (sibs : List NodeId) : ∀ (ops : List LifeOp) (s : KState) (p : Option Nat),
    LifeInv sibs s p →
    (∀ (i : Nat) (ops₁ : List LifeOp) (op : LifeOp) (ops₂ : List LifeOp), ops = ops₁ ++ op :: ops₂ →
      i = ops₁.length → lifeOk sibs (ops₁.foldl lifePos p) op = true) →
    LifeInv sibs (ops.foldl (lifeStep sibs) s) (ops.foldl lifePos p)
  | [], _, _, h, _ => h
  | op :: ops, s, p, h, hok => by
    have h1 := lifeStep_inv sibs s p op h (hok 0 [] op ops rfl rfl)
    exact C11_life_cycle sibs ops _ _ h1 (fun i ops₁ op' ops₂ he hi =>
      hok (i + 1) (op :: ops₁) op' ops₂ (by rw [he]; rfl) (by simp [hi]))

/-- non-vacuity: built with siblings in the parent, rebuilt twice while out of the DOM, mounted before the
second sibling, updated, unmounted, rebuilt (stale parent), mounted at the end, cleared -/
example : ∃ (sibs : List NodeId) (s : KState) (ops : List LifeOp),
    LifeInv sibs s none ∧ s.parent = false ∧
    (∀ (i : Nat) (ops₁ : List LifeOp) (op : LifeOp) (ops₂ : List LifeOp), ops = ops₁ ++ op :: ops₂ →
      i = ops₁.length → lifeOk sibs (ops₁.foldl lifePos none) op = true) ∧
    ops.foldl lifePos none = some 3 ∧ ops.length = 9 := by
  refine ⟨[100, 101, 102], build 2 [0, 1, 2] [100, 101, 102] 103,
    [.update [2, 0, 3], .update [3, 2, 0], .mount 1, .update [0, 4, 2], .unmount, .update [2, 5, 0], .mount 3,
      .update [5, 0], .update []], ?_, rfl, ?_, rfl, rfl⟩
  · obtain ⟨h1, h2, _, h4⟩ := C11_build_detached 2 [0, 1, 2] [100, 101, 102] 103 (by decide) (by decide) (by decide)
      (by decide)
    exact ⟨h1, h2, h4⟩
  · intro i ops₁ op ops₂ he hi
    -- nine positions: check each
    match ops₁, he with
    | [], he => simp at he; obtain ⟨rfl, _⟩ := he; decide
    | [_], he => simp at he; obtain ⟨rfl, rfl, _⟩ := he; decide
    | [_, _], he => simp at he; obtain ⟨rfl, rfl, rfl, _⟩ := he; decide
    | [_, _, _], he => simp at he; obtain ⟨rfl, rfl, rfl, rfl, _⟩ := he; decide
    | [_, _, _, _], he => simp at he; obtain ⟨rfl, rfl, rfl, rfl, rfl, _⟩ := he; decide
    | [_, _, _, _, _], he => simp at he; obtain ⟨rfl, rfl, rfl, rfl, rfl, rfl, _⟩ := he; decide
    | [_, _, _, _, _, _], he => simp at he; obtain ⟨rfl, rfl, rfl, rfl, rfl, rfl, rfl, _⟩ := he; decide
    | [_, _, _, _, _, _, _], he => simp at he; obtain ⟨rfl, rfl, rfl, rfl, rfl, rfl, rfl, rfl, _⟩ := he; decide
    | [_, _, _, _, _, _, _, _], he =>
      simp at he; obtain ⟨rfl, rfl, rfl, rfl, rfl, rfl, rfl, rfl, rfl, _⟩ := he; decide
    | _ :: _ :: _ :: _ :: _ :: _ :: _ :: _ :: _ :: _, he =>
      have := congrArg List.length he
      simp at this

/-! ## a keyed list as an item of a keyed list -/

/-- **inner update**: the outer item `x` is the inner list `i` (its block = the inner items' blocks, then the
inner marker). After `rebuild` of the inner list with any duplicate-free keys, the inner list is mounted in
order inside the outer one, and the outer list — `x` now owning the new inner region — is again `Wf` and
`Mounted` between the same siblings: for the outer list the inner update is the replacement of one block by
another one at the same place. -/
theorem C11_nested_inner_update (s : KState) (pre post : List NodeId) (A B : List Item) (x : Item) (i : KState)
    (to : List Key) (hs : Wf s) (hm : Mounted pre post s) (hsplit : somes s.w.storage = A ++ x :: B)
    (hi : IsInner s x i) (hiw : Wf i) (hne : ∀ z ∈ somes i.w.storage, z.nodes ≠ []) (hbs : 0 < i.bs)
    (hp : i.parent = true) (hto : to.Nodup) :
    Wf (withInner s A B x (rebuild i to)) ∧ Mounted pre post (withInner s A B x (rebuild i to)) ∧
    Mounted (pre ++ blocks A) (blocks B ++ s.marker :: post) (rebuild i to) :=
  nested_inner_update s pre post A B x i to hs hm hsplit hi hiw hne hbs hp hto

/-- **outer update**: the nested lists move as blocks; a retained one is the same item and is, in the new
parent state, mounted in order in its new surroundings -/
theorem C11_nested_outer_update (s : KState) (pre post : List NodeId) (x : Item) (i : KState) (to : List Key)
    (hs : Wf s) (hm : Mounted pre post s) (hx : x ∈ somes s.w.storage) (hi : IsInner s x i)
    (hne : ∀ z ∈ somes i.w.storage, z.nodes ≠ []) (hbs : 0 < i.bs) (hp : i.parent = true)
    (hto : to.Nodup) (hk : x.key ∈ to) :
    Mounted pre post (rebuild s to) ∧
    ∃ A' B', somes (rebuild s to).w.storage = A' ++ x :: B' ∧
      Mounted (pre ++ blocks A') (blocks B' ++ s.marker :: post)
        { i with w := { i.w with kids := (rebuild s to).w.kids, next := (rebuild s to).w.next } } :=
  nested_outer_update s pre post x i to hs hm hx hi hne hbs hp hto hk

/-- non-vacuity: an outer list of three items, the middle one an inner list `[0, 1]` with its marker -/
example : ∃ (s : KState) (A B : List Item) (x : Item) (i : KState),
    Wf s ∧ Mounted [] [] s ∧ somes s.w.storage = A ++ x :: B ∧ IsInner s x i ∧ Wf i ∧
    (∀ z ∈ somes i.w.storage, z.nodes ≠ []) ∧ 0 < i.bs ∧ i.parent = true ∧ A ≠ [] ∧ B ≠ [] :=
  ⟨(build 3 [0, 1, 2] [] 0).mount none, [⟨0, [0, 1, 2]⟩], [⟨2, [6, 7, 8]⟩], ⟨1, [3, 4, 5]⟩,
    { marker := 5, hashed := [0, 1], bs := 1, parent := true,
      w := { kids := ((build 3 [0, 1, 2] [] 0).mount none).w.kids,
             storage := [some ⟨0, [3]⟩, some ⟨1, [4]⟩], next := ((build 3 [0, 1, 2] [] 0).mount none).w.next } },
    ⟨by decide, by decide, by decide⟩, ⟨by decide, by decide, by decide, by decide, by decide, by decide⟩,
    by decide, ⟨by decide, by decide, by decide⟩, ⟨by decide, by decide, by decide⟩, by decide, by decide,
    by decide, by decide, by decide⟩

/-! ## regression: the code before the repair (finding F-C11-1) -/

/-- the full DOM-order statement for the OLD `diff`: false (`C11_dom_order_old_witness`) -/
def C11_dom_order_old_full : Prop :=
  ∀ (s : KState) (to : List Key) (pre post : List NodeId), Wf s → Mounted pre post s → to.Nodup →
    (rebuildOld s to).w.kids
      = pre ++ blocksOf (rebuildOld s to).w.storage ++ (rebuildOld s to).marker :: post

/-- the witness state: `keyed([0,1,2])`, one node per item, built and mounted into an empty parent -/
def witnessState : KState := (build 1 [0, 1, 2] [] 0).mount none

theorem witnessState_wf : Wf witnessState := ⟨by decide, by decide, by decide⟩

theorem witnessState_mounted : Mounted [] [] witnessState :=
  ⟨by decide, by decide, by decide, by decide, by decide, by decide⟩

/-- before the repair, `[0,1,2] → [4,3,2,1,0]` left the storage as `4,3,2,1,0` but the children of the
parent as the nodes of `1,4,3,2,0` (item 1, index 1 → 3, was not moved in the DOM because two items
were added before it — but it had overtaken item 2, which rests). Kernel-checked by evaluation of the
old model; reproduced on the real `keyed()` / `<ForEnumerate>` before the `fix:` commit
(corpus/C11/01-f-c11-1-witness.ops, now a regression case). -/
theorem C11_dom_order_old_witness : ¬ C11_dom_order_old_full := by
  intro h
  have := h witnessState [4, 3, 2, 1, 0] [] [] witnessState_wf witnessState_mounted (by decide)
  revert this
  decide

/-- the same transition with the repaired `diff` ends in the right order (by evaluation; by
`C11_dom_order` in general) -/
example : (rebuild witnessState [4, 3, 2, 1, 0]).w.kids
    = blocksOf (rebuild witnessState [4, 3, 2, 1, 0]).w.storage ++ [(rebuild witnessState [4, 3, 2, 1, 0]).marker] := by
  decide

example : settledMonotone diffOld witnessState.hashed [4, 3, 2, 1, 0] = false := by decide
example : settledMonotone diff witnessState.hashed [4, 3, 2, 1, 0] = true := by decide

/-- before the repair the children ended in the new order IF AND ONLY IF `settledMonotone diffOld`
held: the failure class of F-C11-1 is characterised exactly (2160 of the 1 530 169 transitions of
length ≤ 5 over 6 keys). -/
theorem C11_dom_order_old_iff (s : KState) (to : List Key) (pre post : List NodeId) (hs : Wf s)
    (hm : Mounted pre post s) (hto : to.Nodup) :
    (rebuildOld s to).w.kids
        = pre ++ blocksOf (rebuildOld s to).w.storage ++ (rebuildOld s to).marker :: post
      ↔ settledMonotone diffOld s.hashed to = true :=
  rebuild_ordered_iff diffOld diffLike_diffOld s to pre post hs hm hto

end Leptos.Keyed
