import LeptosModel.Model.Keyed
import LeptosModel.Proofs.KeyedDiff
/-!
# C11 — keyed lists keep item identity and end in the new order

(under construction: theorems are added as they are proved)
-/
namespace Leptos.Keyed

/-- **`unpack_moves` is complete**: for every `Diff` whose groups are non-empty and whose
`items_to_move` is the sum of the group lengths (as `diff` produces them), `unpack_moves` returns
every single move of every group, in order, and every add. -/
theorem C11_unpack_complete (d : Diff) (hlen : ∀ m ∈ d.moved, 1 ≤ m.len)
    (hsum : d.itemsToMove = sumLens d.moved) :
    unpackMoves d = (d.moved.flatMap singles, d.added) := by
  unfold unpackMoves
  exact unpackLoop_complete _ 0 d.removed d.added d.moved hlen (by omega)

end Leptos.Keyed
