import LeptosModel.Model.Park
/-!
# C19 — cross-thread use of the reactive graph loses no wake-ups and cannot deadlock

All theorems quantify over **every** interleaving (`sched : List ThreadId`, any length, any
thread ids) and are proved by invariants, not by enumeration.  They are statements about the
protocol model `Model/Park` (atomic steps at the hook points, sequentially consistent cells — the
named limitation, see the model's header); the model is tied to the real code by the lock-step
replay of harness/hx-c19.
-/
namespace Leptos.Park

theorem upd_same {α : Type} (f : Nat → α) (i : Nat) (a : α) : upd f i a i = a := by
  simp [upd]

theorem upd_other {α : Type} (f : Nat → α) (i j : Nat) (a : α) (h : j ≠ i) : upd f i a j = f j := by
  simp [upd, h]

/-! ## the notification channel (`channel.rs`) -/
namespace Chan

/-- the invariant of `Sender::notify` ‖ `Receiver::poll_next` -/
structure Inv (s : State) : Prop where
  /-- a registration stays in the `AtomicWaker` until a wake consumes it (and fires the task waker) -/
  k : (s.rpc = .registered ∨ s.rpc = .parked) → (s.reg = true ∨ s.woken = true)
  /-- a set flag with a parked, un-woken task means some `notify` is still before its `wake` -/
  j : s.set = true → s.rpc = .parked → s.woken = false → ∃ i, s.mid i = true
  /-- a `set.store(true)` is never dropped: the flag is still set or a poll has returned Ready since -/
  l : ∀ i, (s.mid i = true ∨ s.sent i > 0) → (s.set = true ∨ s.runs > 0)

theorem inv_init (polls : Nat) (left : Nat → Nat) : Inv (init polls left) := by
  constructor <;> simp [init]

theorem inv_stepReceiver (s : State) (h : Inv s) : Inv (stepReceiver s) := by
  obtain ⟨hk, hj, hl⟩ := h
  unfold stepReceiver
  split <;> (try split) <;> constructor <;> simp_all <;> grind

theorem inv_stepSender (s : State) (i : Nat) (h : Inv s) : Inv (stepSender s i) := by
  obtain ⟨hk, hj, hl⟩ := h
  unfold stepSender
  split
  · split <;> constructor <;> simp_all [upd] <;> grind
  · split <;> constructor <;> simp_all [upd] <;> grind

theorem inv_step (s : State) (t : ThreadId) (h : Inv s) : Inv (step s t) := by
  cases t with
  | zero => exact inv_stepReceiver s h
  | succ i => exact inv_stepSender s i h

theorem inv_run (sched : List ThreadId) : ∀ s, Inv s → Inv (run s sched) := by
  induction sched with
  | nil => intro s h; exact h
  | cons t ts ih => intro s h; exact ih _ (inv_step s t h)

/-- **No lost notification, all interleavings.**  For any number of sender threads, any number of
notifies per sender, any poll budget of the receiving task and *every* interleaving of their atomic
steps: whenever no `notify` is between its `set.store(true)` and its `waker.wake()`, a flag that is
still set is never left with a task that is parked and not woken — the task is either about to
poll (it will see the flag at its `swap`) or its waker has fired. -/
theorem C19_channel_no_lost_wake (polls : Nat) (left : Nat → Nat) (sched : List ThreadId) :
    let s := run (init polls left) sched
    (∀ i, s.mid i = false) → s.set = true → s.rpc = .parked → s.woken = true := by
  intro s hq hs hp
  have h := inv_run sched _ (inv_init polls left)
  cases hw : s.woken with
  | true => rfl
  | false =>
    obtain ⟨i, hi⟩ := h.j hs hp hw
    rw [hq i] at hi; cases hi

/-- every `notify` that has stored the flag is either still visible in the flag or has been
consumed by a poll that returned Ready (the effect / async-derived loop then runs) -/
theorem C19_channel_notify_consumed (polls : Nat) (left : Nat → Nat) (sched : List ThreadId) :
    let s := run (init polls left) sched
    (∃ i, s.sent i > 0) → s.set = true ∨ s.runs > 0 := by
  intro s ⟨i, hi⟩
  exact (inv_run sched _ (inv_init polls left)).l i (Or.inr hi)

/-! ### one `notify` against one `poll_next` -/

/-- sender 0 notifies once, nobody else does -/
def oneShot : Nat → Nat := fun i => if i = 0 then 1 else 0

structure Inv1 (s : State) : Prop where
  others : ∀ i, i ≠ 0 → s.mid i = false ∧ s.left i = 0 ∧ s.sent i = 0
  phase : (s.left 0 = 1 ∧ s.sent 0 = 0) ∨ (s.left 0 = 0 ∧ s.sent 0 = 1 ∧ s.mid 0 = false)
  before : s.mid 0 = false → s.sent 0 = 0 → s.set = false ∧ s.runs = 0
  after : (s.mid 0 = true ∨ s.sent 0 = 1) → (s.set = true ∧ s.runs = 0) ∨ (s.set = false ∧ s.runs = 1)
  /-- one poll: after the only registration the budget is spent; a Ready result ends the task -/
  b1 : s.runs ≥ 1 → s.polls = 0 ∧ s.rpc ≠ .parked ∧ s.rpc ≠ .registered
  b2 : s.rpc = .registered → s.polls = 0
  b3 : s.polls ≤ 1

theorem inv1_init : Inv1 (init 1 oneShot) := by
  constructor <;> simp [init, oneShot]

theorem inv1_stepReceiver (s : State) (h : Inv1 s) : Inv1 (stepReceiver s) := by
  obtain ⟨ho, hph, hb, ha, h1, h2, h3⟩ := h
  unfold stepReceiver
  split <;> (try split) <;> constructor <;> simp_all <;> grind

theorem inv1_stepSender (s : State) (i : Nat) (h : Inv1 s) : Inv1 (stepSender s i) := by
  obtain ⟨ho, hph, hb, ha, h1, h2, h3⟩ := h
  unfold stepSender
  split
  · split <;> constructor <;> simp_all [upd] <;> grind
  · split <;> constructor <;> simp_all [upd] <;> grind

theorem inv1_run (sched : List ThreadId) : ∀ s, Inv1 s → Inv1 (run s sched) := by
  induction sched with
  | nil => intro s h; exact h
  | cons t ts ih =>
    intro s h
    apply ih
    cases t with
    | zero => exact inv1_stepReceiver s h
    | succ i => exact inv1_stepSender s i h

theorem oneShot_quiescent (s : State) (h1 : Inv1 s) (hs : s.sent 0 = 1) : ∀ i, s.mid i = false := by
  intro i
  by_cases hi : i = 0
  · subst hi
    rcases h1.phase with h | h
    · rw [hs] at h; exact absurd h.2 (by decide)
    · exact h.2.2
  · exact (h1.others i hi).1

/-- **One notify, one poll (the form in DESIGN §7).**  For every interleaving: once `notify` has
completed and the poll has returned Pending (the task is parked), the task's waker has fired;
otherwise the poll returned Ready (see `C19_linearizable_outcomes`). -/
theorem C19_channel_one_shot (sched : List ThreadId) :
    let s := run (init 1 oneShot) sched
    s.sent 0 = 1 → s.rpc = .parked → s.woken = true := by
  intro s hs hp
  have h1 := inv1_run sched _ inv1_init
  have hq := oneShot_quiescent s h1 hs
  rcases h1.after (Or.inr hs) with ⟨hset, _⟩ | ⟨_, hruns⟩
  · exact C19_channel_no_lost_wake 1 oneShot sched hq hset hp
  · exact absurd hp (h1.b1 (by omega)).2.1

/-- **Linearizable outcomes (one notify ‖ one poll).**  For every interleaving, once both
operations have returned, the flag and the poll result are those of one of the two sequential
orders — `notify; poll` (Ready, flag consumed) or `poll; notify` (Pending, flag set, task woken).
Only extra wake-ups (a `wake` landing after a Ready poll) go beyond the sequential outcomes; they
are spurious polls, not lost ones. -/
theorem C19_linearizable_outcomes (sched : List ThreadId) :
    let s := run (init 1 oneShot) sched
    s.sent 0 = 1 → (s.rpc = .parked ∨ s.rpc = .done ∨ (s.rpc = .idle ∧ s.polls = 0)) →
      (s.runs = 1 ∧ s.set = false) ∨
      (s.runs = 0 ∧ s.set = true ∧ (s.rpc = .parked → s.woken = true)) := by
  intro s hs _
  have h1 := inv1_run sched _ inv1_init
  rcases h1.after (Or.inr hs) with ⟨hset, hruns⟩ | ⟨hset, hruns⟩
  · right
    exact ⟨hruns, hset, fun hp => C19_channel_one_shot sched hs hp⟩
  · left; exact ⟨hruns, hset⟩

/-- non-vacuity: both sequential outcomes and the spurious-wake interleaving occur -/
example : let s := run (init 1 oneShot) [1, 1, 0, 0]
    s.sent 0 = 1 ∧ s.runs = 1 ∧ s.set = false ∧ s.woken = false := by decide
example : let s := run (init 1 oneShot) [0, 0, 1, 1]
    s.sent 0 = 1 ∧ s.runs = 0 ∧ s.set = true ∧ s.rpc = .parked ∧ s.woken = true := by decide
example : let s := run (init 1 oneShot) [0, 1, 0, 1]
    s.sent 0 = 1 ∧ s.runs = 1 ∧ s.set = false ∧ s.woken = true := by decide
/-- non-vacuity of `C19_channel_no_lost_wake`: three senders, a quiescent state with the flag set
and the task parked (and, as the theorem says, woken) -/
example : let s := run (init 2 (fun _ => 1)) [0, 0, 1, 2, 1, 3, 2, 3]
    (s.mid 0 = false ∧ s.mid 1 = false ∧ s.mid 2 = false) ∧ s.set = true ∧ s.rpc = .parked ∧ s.woken = true := by
  decide

end Chan

/-! ## awaiting an async derived value (`future_impls.rs` ‖ `notify_subs`) -/
namespace Await


@[simp] theorem notifyOne_pc (aw : Nat → Awaiter) (ls : List Nat) (j : Nat) :
    (notifyOne aw ls j).pc = (aw j).pc := by
  unfold notifyOne
  split
  · rfl
  · split
    · rfl
    · simp only [upd]; split <;> simp_all

theorem notifyOne_woken (aw : Nat → Awaiter) (ls : List Nat) (j : Nat) (h : (aw j).woken = true) :
    (notifyOne aw ls j).woken = true := by
  unfold notifyOne
  split
  · exact h
  · split
    · exact h
    · simp only [upd]; split <;> simp_all

theorem notifyOne_woken_false (aw : Nat → Awaiter) (ls : List Nat) (j : Nat)
    (h : (notifyOne aw ls j).woken = false) : (aw j).woken = false := by
  cases h' : (aw j).woken with
  | false => rfl
  | true => rw [notifyOne_woken aw ls j h'] at h; cases h

@[simp] theorem wakeAll_pc (aw : Nat → Awaiter) (ws : List Nat) (j : Nat) :
    (wakeAll aw ws j).pc = (aw j).pc := by
  unfold wakeAll; split <;> rfl

theorem wakeAll_woken_mem (aw : Nat → Awaiter) (ws : List Nat) (j : Nat) (h : j ∈ ws) :
    (wakeAll aw ws j).woken = true := by
  unfold wakeAll; simp [h]

theorem wakeAll_woken_mono (aw : Nat → Awaiter) (ws : List Nat) (j : Nat) (h : (aw j).woken = true) :
    (wakeAll aw ws j).woken = true := by
  unfold wakeAll; split <;> simp_all

structure SInv (s : State) (cur : Option ThreadId) : Prop where
  u0 : (s.ppc = .entered ∨ s.ppc = .stored ∨ s.ppc = .drained) → cur = some 0
  ua : ∀ i, ((s.aw i).pc = .push ∨ (s.aw i).pc = .ret) → cur = some (i + 1)
  c : s.loading = true ↔ (s.ppc = .start ∨ s.ppc = .entered)
  b1 : ∀ i, (s.aw i).pc = .push → s.loading = true
  b2 : ∀ i, (s.aw i).pc = .ret → s.loading = true ∧ i ∈ s.wakers
  a : ∀ i, (s.aw i).pc = .parked → (s.aw i).woken = false →
        i ∈ s.wakers ∧ (s.loading = true ∨ s.ppc = .stored)

theorem sinv_producer (s : State) (cur : Option ThreadId) (h : SInv s cur)
    (hc : cur = none ∨ cur = some 0) :
    SInv (stepProducer s) (if midPoll (stepProducer s) 0 then some 0 else none) := by
  obtain ⟨hu0, hua, hcc, hb1, hb2, ha⟩ := h
  have nomid : ∀ i, (s.aw i).pc ≠ .push ∧ (s.aw i).pc ≠ .ret := by
    intro i
    constructor <;> intro hp
    · have := hua i (Or.inl hp); rcases hc with hc | hc <;> simp [hc] at this
    · have := hua i (Or.inr hp); rcases hc with hc | hc <;> simp [hc] at this
  unfold stepProducer
  split
  · split
    · constructor <;> simp_all [midPoll]
      intro i hp hw
      apply ha i hp
      cases h : (s.aw i).woken with
      | false => rfl
      | true => rw [notifyOne_woken _ _ _ h] at hw; cases hw
    · constructor <;> simp_all [midPoll]
  · constructor <;> simp_all [midPoll]
  · constructor <;> simp_all [midPoll]
    intro i hp
    cases h : (s.aw i).woken with
    | false => exact wakeAll_woken_mem _ _ _ (ha i hp h)
    | true => exact wakeAll_woken_mono _ _ _ h
  · constructor <;> simp_all [midPoll]
  · split <;> constructor <;> simp_all [midPoll]

theorem sinv_beginPoll (s : State) (cur : Option ThreadId) (i : Nat) (a : Awaiter)
    (h : SInv s cur) (hc : cur = none ∨ cur = some (i + 1))
    (_hpc : (s.aw i).pc = .start ∨ (s.aw i).pc = .parked) :
    SInv (beginPoll s i a) (if midPoll (beginPoll s i a) (i + 1) then some (i + 1) else none) := by
  obtain ⟨hu0, hua, hcc, hb1, hb2, ha⟩ := h
  have nomid0 : s.ppc ≠ .entered ∧ s.ppc ≠ .stored ∧ s.ppc ≠ .drained := by
    refine ⟨?_, ?_, ?_⟩ <;> intro hp <;>
      (have := hu0 (by simp [hp]); rcases hc with hc | hc <;> simp [hc] at this)
  have nomid : ∀ j, j ≠ i → (s.aw j).pc ≠ .push ∧ (s.aw j).pc ≠ .ret := by
    intro j hj
    constructor <;> intro hp
    · have := hua j (Or.inl hp); rcases hc with hc | hc <;> simp [hc] at this; omega
    · have := hua j (Or.inr hp); rcases hc with hc | hc <;> simp [hc] at this; omega
  unfold beginPoll
  split
  · constructor <;> simp_all [midPoll, upd] <;> grind
  · split
    · split
      · constructor <;> simp_all [midPoll, upd] <;> grind
      · split
        · constructor <;> simp_all [midPoll, upd] <;> grind
        · constructor <;> simp_all [midPoll, upd] <;> grind
    · constructor <;> simp_all [midPoll, upd] <;> grind

theorem sinv_awaiter (s : State) (cur : Option ThreadId) (i : Nat) (h : SInv s cur)
    (hc : cur = none ∨ cur = some (i + 1)) :
    SInv (stepAwaiter s i) (if midPoll (stepAwaiter s i) (i + 1) then some (i + 1) else none) := by
  unfold stepAwaiter
  cases hpc : (s.aw i).pc with
  | start => simp only [hpc]; exact sinv_beginPoll s cur i _ h hc (Or.inl hpc)
  | parked =>
    simp only [hpc]
    split
    · exact sinv_beginPoll s cur i _ h hc (Or.inr hpc)
    · obtain ⟨hu0, hua, hcc, hb1, hb2, ha⟩ := h
      have : midPoll s (i + 1) = false := by simp [midPoll, hpc]
      simp only [this]
      constructor <;> simp_all <;> grind
  | ready =>
    obtain ⟨hu0, hua, hcc, hb1, hb2, ha⟩ := h
    have : midPoll s (i + 1) = false := by simp [midPoll, hpc]
    simp only [hpc, this]
    constructor <;> simp_all <;> grind
  | gaveUp =>
    obtain ⟨hu0, hua, hcc, hb1, hb2, ha⟩ := h
    have : midPoll s (i + 1) = false := by simp [midPoll, hpc]
    simp only [hpc, this]
    constructor <;> simp_all <;> grind
  | push =>
    obtain ⟨hu0, hua, hcc, hb1, hb2, ha⟩ := h
    have nomid0 : s.ppc ≠ .entered ∧ s.ppc ≠ .stored ∧ s.ppc ≠ .drained := by
      refine ⟨?_, ?_, ?_⟩ <;> intro hp <;>
        (have := hu0 (by simp [hp]); rcases hc with hc | hc <;> simp [hc] at this)
    have nomid : ∀ j, j ≠ i → (s.aw j).pc ≠ .push ∧ (s.aw j).pc ≠ .ret := by
      intro j hj
      constructor <;> intro hp
      · have := hua j (Or.inl hp); rcases hc with hc | hc <;> simp [hc] at this; omega
      · have := hua j (Or.inr hp); rcases hc with hc | hc <;> simp [hc] at this; omega
    simp only [hpc]
    constructor <;> simp_all [midPoll, upd] <;> grind
  | ret =>
    obtain ⟨hu0, hua, hcc, hb1, hb2, ha⟩ := h
    have nomid0 : s.ppc ≠ .entered ∧ s.ppc ≠ .stored ∧ s.ppc ≠ .drained := by
      refine ⟨?_, ?_, ?_⟩ <;> intro hp <;>
        (have := hu0 (by simp [hp]); rcases hc with hc | hc <;> simp [hc] at this)
    have nomid : ∀ j, j ≠ i → (s.aw j).pc ≠ .push ∧ (s.aw j).pc ≠ .ret := by
      intro j hj
      constructor <;> intro hp
      · have := hua j (Or.inl hp); rcases hc with hc | hc <;> simp [hc] at this; omega
      · have := hua j (Or.inr hp); rcases hc with hc | hc <;> simp [hc] at this; omega
    have hb2i := hb2 i hpc
    simp only [hpc]
    cases hn : (s.aw i).notified <;> simp only [Bool.false_eq_true, ↓reduceIte]
    · constructor <;> simp_all [midPoll, upd] <;> grind
    · constructor <;> simp_all [midPoll, upd]
      · grind
      · grind
      · intro j hj hw
        have := notifyOne_woken_false _ _ _ hw
        simp only [upd] at this
        grind

theorem sinv_step (s : State) (cur : Option ThreadId) (t : ThreadId) (h : SInv s cur)
    (hc : cur = none ∨ cur = some t) :
    SInv (step s t) (if midPoll (step s t) t then some t else none) := by
  cases t with
  | zero => exact sinv_producer s cur h hc
  | succ i => exact sinv_awaiter s cur i h hc

theorem sinv_run (sched : List ThreadId) : ∀ s cur, SInv s cur → serialFrom s cur sched = true →
    ∃ cur', SInv (run s sched) cur' := by
  induction sched with
  | nil => intro s cur h _; exact ⟨cur, h⟩
  | cons t ts ih =>
    intro s cur h hs
    simp only [serialFrom, Bool.and_eq_true, Bool.or_eq_true, beq_iff_eq] at hs
    exact ih _ _ (sinv_step s cur t h hs.1) hs.2

theorem sinv_init (g : Bool) (polls : Nat) : SInv (init g polls) none := by
  constructor <;> simp [init]

theorem sinv_initOld (g : Bool) (polls : Nat) : SInv (initOld g polls) none := by
  constructor <;> simp [initOld]

theorem no_lost_of_serial (s0 : State) (h0 : SInv s0 none) (sched : List ThreadId)
    (hs : Serial s0 sched = true) (i : Nat) :
    lost (run s0 sched) i = false := by
  obtain ⟨cur, h⟩ := sinv_run sched _ _ h0 hs
  cases hl : lost (run s0 sched) i with
  | false => rfl
  | true =>
    simp only [lost, Bool.and_eq_true, beq_iff_eq, Bool.not_eq_true'] at hl
    obtain ⟨⟨⟨hp, hw⟩, hload⟩, hd⟩ := hl
    have := (h.a i hp hw).2
    simp [hload, hd] at this

/-! ### the repaired await path: invariant for *all* interleavings -/

/-- invariant of the repaired code (`recheck = true`), no assumption on the schedule -/
structure FInv (s : State) : Prop where
  r : s.recheck = true
  c : s.loading = true ↔ (s.ppc = .start ∨ s.ppc = .entered)
  /-- a pushed waker is still in the list, or it has been drained (= woken) -/
  b2 : ∀ i, (s.aw i).pc = .ret → (i ∈ s.wakers ∨ (s.aw i).woken = true)
  /-- a parked, un-woken awaiter is in the list and the drain is still to come -/
  a : ∀ i, (s.aw i).pc = .parked → (s.aw i).woken = false →
        i ∈ s.wakers ∧ (s.ppc = .start ∨ s.ppc = .entered ∨ s.ppc = .stored)

theorem finv_init (g : Bool) (polls : Nat) : FInv (init g polls) := by
  constructor <;> simp [init]

theorem finv_producer (s : State) (h : FInv s) : FInv (stepProducer s) := by
  obtain ⟨hr, hc, hb2, ha⟩ := h
  unfold stepProducer
  split
  · split
    · constructor <;> simp_all
      · intro i hp
        rcases hb2 i hp with h | h
        · exact Or.inl h
        · exact Or.inr (notifyOne_woken _ _ _ h)
      · intro i hp hw
        exact ha i hp (notifyOne_woken_false _ _ _ hw)
    · constructor <;> simp_all
  · constructor <;> simp_all
  · constructor <;> simp_all
    · intro i hp
      rcases hb2 i hp with h | h
      · exact wakeAll_woken_mem _ _ _ h
      · exact wakeAll_woken_mono _ _ _ h
    · intro i hp
      cases h : (s.aw i).woken with
      | false => exact wakeAll_woken_mem _ _ _ (ha i hp h)
      | true => exact wakeAll_woken_mono _ _ _ h
  · constructor <;> simp_all
  · split <;> constructor <;> simp_all

theorem finv_beginPoll (s : State) (i : Nat) (a : Awaiter) (h : FInv s)
    (_hpc : (s.aw i).pc = .start ∨ (s.aw i).pc = .parked) : FInv (beginPoll s i a) := by
  obtain ⟨hr, hc, hb2, ha⟩ := h
  unfold beginPoll
  split
  · constructor <;> simp_all [upd] <;> grind
  · split
    · split
      · constructor <;> simp_all [upd] <;> grind
      · split
        · constructor <;> simp_all [upd] <;> grind
        · constructor <;> simp_all [upd] <;> grind
    · constructor <;> simp_all [upd] <;> grind

theorem finv_awaiter (s : State) (i : Nat) (h : FInv s) : FInv (stepAwaiter s i) := by
  unfold stepAwaiter
  cases hpc : (s.aw i).pc with
  | start => simp only [hpc]; exact finv_beginPoll s i _ h (Or.inl hpc)
  | parked =>
    simp only [hpc]
    split
    · exact finv_beginPoll s i _ h (Or.inr hpc)
    · exact h
  | ready => simp only [hpc]; exact h
  | gaveUp => simp only [hpc]; exact h
  | push =>
    obtain ⟨hr, hc, hb2, ha⟩ := h
    simp only [hpc]
    constructor <;> simp_all [upd] <;> grind
  | ret =>
    obtain ⟨hr, hc, hb2, ha⟩ := h
    have hb2i := hb2 i hpc
    simp only [hpc]
    cases hn : (s.aw i).notified <;> simp only [Bool.false_eq_true, ↓reduceIte]
    · constructor <;> simp_all [upd] <;> grind
    · constructor <;> simp_all [upd]
      · intro j hj
        by_cases hji : j = i
        · simp [hji] at hj
        · simp only [hji, if_false] at hj
          rcases hb2 j hj with h | h
          · exact Or.inl h
          · right; apply notifyOne_woken; simp [upd, hji, h]
      · intro j hj hw
        have := notifyOne_woken_false _ _ _ hw
        simp only [upd] at this
        grind

theorem finv_run (sched : List ThreadId) : ∀ s, FInv s → FInv (run s sched) := by
  induction sched with
  | nil => intro s h; exact h
  | cons t ts ih =>
    intro s h
    apply ih
    cases t with
    | zero => exact finv_producer s h
    | succ i => exact finv_awaiter s i h

/-- **No lost wake-up, FULL (repaired code).**  For every number of awaiters, both future kinds,
every poll budget and **every** interleaving of the atomic steps of the awaiters' polls and of
`notify_subs`: no awaiter is ever left parked and un-woken once the value is ready and
`notify_subs` is through.  (After `fix: … re-check loading after registering the waker`: an awaiter
whose push came after the drain sees `loading = false` at its second look and wakes itself; one
whose second look still reads `true` pushed before the store, hence before the drain.) -/
theorem C19_await_no_lost_wake (guardKind : Bool) (polls : Nat) (sched : List ThreadId) (i : Nat) :
    lost (run (init guardKind polls) sched) i = false := by
  have h := finv_run sched _ (finv_init guardKind polls)
  cases hl : lost (run (init guardKind polls) sched) i with
  | false => rfl
  | true =>
    simp only [lost, Bool.and_eq_true, beq_iff_eq, Bool.not_eq_true'] at hl
    obtain ⟨⟨⟨hp, hw⟩, _⟩, hd⟩ := hl
    have := (h.a i hp hw).2
    simp [hd] at this

theorem finv_initR (g : Bool) (polls reloads : Nat) : FInv (initR g polls reloads) := by
  constructor <;> simp [initR]

/-- **Every parked awaiter is in the waker list until it is woken — any number of awaiters, any
number of reloads, every interleaving.**  In every reachable state of the repaired code: an awaiter
that has returned `Pending` and whose waker has not fired (a) is in `wakers` and (b) a drain of
`wakers` is still to come in the current load (`notify_subs` has not yet taken the list).  A list
refilled during a later load therefore never loses an entry of somebody still waiting: an awaiter
that re-polls late pushes a fresh entry next to the others'. -/
theorem C19_await_parked_in_wakers (guardKind : Bool) (polls reloads : Nat) (sched : List ThreadId)
    (i : Nat) :
    let s := run (initR guardKind polls reloads) sched
    (s.aw i).pc = .parked → (s.aw i).woken = false →
      i ∈ s.wakers ∧ (s.ppc = .start ∨ s.ppc = .entered ∨ s.ppc = .stored) := by
  intro s hp hw
  exact (finv_run sched _ (finv_initR guardKind polls reloads)).a i hp hw

/-- no lost wake-up across reloads: whenever a load is complete (`loading = false`, `notify_subs`
through), no awaiter is parked without its waker having fired -/
theorem C19_await_no_lost_wake_reloads (guardKind : Bool) (polls reloads : Nat)
    (sched : List ThreadId) (i : Nat) :
    lost (run (initR guardKind polls reloads) sched) i = false := by
  have h := finv_run sched _ (finv_initR guardKind polls reloads)
  cases hl : lost (run (initR guardKind polls reloads) sched) i with
  | false => rfl
  | true =>
    simp only [lost, Bool.and_eq_true, beq_iff_eq, Bool.not_eq_true'] at hl
    obtain ⟨⟨⟨hp, hw⟩, _⟩, hd⟩ := hl
    have := (h.a i hp hw).2
    simp [hd] at this

/-- seed r3-2's schedule (two awaiters X = 0, Y = 1, one reload): X parks in load 1 and is woken
by its drain; load 2 starts; Y parks (first entry of the refilled list); X re-polls late and pushes
NEXT to Y's entry; load 2's drain wakes both, both read the second value -/
example :
    let s := run (initR true 3 1) [1, 1, 1, 0, 0, 0, 0, 0, 2, 2, 2, 1, 1, 1, 0, 0, 0, 0, 1, 2]
    (s.aw 0).pc = .ready ∧ (s.aw 0).got = 8 ∧ (s.aw 1).pc = .ready ∧ (s.aw 1).got = 8 ∧
    (s.aw 0).pendings = 2 ∧ (s.aw 1).pendings = 1 := by decide

/-- and a parked awaiter that has been woken re-polls and reads Ready (progress, not only safety):
once `loading = false`, a poll returns Ready -/
theorem C19_await_ready_after_store (s : State) (i : Nat) (a : Awaiter)
    (hl : s.loading = false) (hp : a.polls ≠ 0) : ((beginPoll s i a).aw i).pc = .ready := by
  unfold beginPoll
  simp [hp, hl, upd]

/-! ### regression: the code before the repair (`initOld`) -/

/-- the statement the old code was asked to satisfy -/
def C19_await_no_lost_wake_old_full : Prop :=
  ∀ (guardKind : Bool) (polls : Nat) (sched : List ThreadId) (i : Nat),
    lost (run (initOld guardKind polls) sched) i = false

/-- **F-C19-1 (repaired)**, `AsyncDerivedReadyFuture` (`.ready()`): the awaiter loads
`loading = true` (thread 1); the producer enters `notify_subs`, stores `loading = false`, drains an
*empty* waker list and finishes (thread 0, four steps); the awaiter pushes its waker and returns
`Pending` — with the old code parked for ever although the value is ready; with the repaired code
its second look at `loading` wakes it.  Replayed on the real code by corpus/C19/f-c19-1.ops. -/
theorem C19_await_lost_wake_witness :
    lost (run (initOld false 2) [1, 0, 0, 0, 0, 1, 1]) 0 = true ∧
    lost (run (init false 2) [1, 0, 0, 0, 0, 1, 1]) 0 = false ∧
    ((run (init false 2) [1, 0, 0, 0, 0, 1, 1, 1]).aw 0).pc = .ready := by decide

/-- the same race for the by-value / by-ref futures (which hold the async read guard during the
poll, so the producer must already be past its write when the awaiter loads the flag) -/
theorem C19_await_lost_wake_witness_value :
    lost (run (initOld true 2) [0, 1, 0, 0, 0, 1, 1]) 0 = true ∧
    lost (run (init true 2) [0, 1, 0, 0, 0, 1, 1]) 0 = false := by decide

theorem C19_await_no_lost_wake_old_full_false : ¬ C19_await_no_lost_wake_old_full := by
  intro h
  have := h false 2 [1, 0, 0, 0, 0, 1, 1] 0
  rw [C19_await_lost_wake_witness.1] at this
  cases this

/-- what *was* true of the old code (decidable hypothesis `Serial`): when polls do not interleave —
a party that is inside a poll is the only one scheduled until that poll returns, i.e. a
single-threaded executor (C10's setting) — no awaiter was lost. -/
theorem C19_await_no_lost_wake_partial (guardKind : Bool) (polls : Nat) (sched : List ThreadId)
    (hs : Serial (initOld guardKind polls) sched = true) (i : Nat) :
    lost (run (initOld guardKind polls) sched) i = false :=
  no_lost_of_serial _ (sinv_initOld guardKind polls) sched hs i

/-- non-vacuity: a serial schedule in which the awaiter parks, is woken by `notify_subs` and then
reads Ready; one with two awaiters; the witness schedule is not serial -/
example : Serial (initOld false 2) [1, 1, 1, 0, 0, 0, 0, 1] = true ∧
    ((run (initOld false 2) [1, 1, 1, 0, 0, 0, 0, 1]).aw 0).pc = .ready ∧
    ((run (initOld false 2) [1, 1, 1, 0, 0, 0, 0, 1]).aw 0).pendings = 1 := by decide
example : Serial (initOld true 2) [2, 2, 2, 1, 1, 1, 0, 0, 0, 0, 1, 2] = true ∧
    ((run (initOld true 2) [2, 2, 2, 1, 1, 1, 0, 0, 0, 0, 1, 2]).aw 1).pc = .ready := by decide
example : Serial (initOld false 2) [1, 0, 0, 0, 0, 1, 1] = false := by decide
/-- non-vacuity of the full theorem: runs of the repaired code in which an awaiter really parks —
woken by the drain, or by its own second look -/
example : let s := run (init false 2) [1, 1, 1, 0]
    (s.aw 0).pc = .parked ∧ (s.aw 0).woken = false ∧ s.loading = true ∧ 0 ∈ s.wakers := by decide
example : let s := run (init false 2) [1, 0, 0, 0, 0, 1, 1]
    (s.aw 0).pc = .parked ∧ (s.aw 0).woken = true ∧ s.ppc = .done := by decide

end Await

/-! ## memo update: lock order, and what real interleavings do to `Memo` -/
namespace Memo


structure MInv (N : Nat) (s : State) : Prop where
  n : s.n = N
  nohold : ∀ i, ∀ o ∈ (s.ps i).prog, o ≠ Op.hold
  g0 : s.guards = 0
  nh : ∀ i, (s.ps i).holding = false ∧ (s.ps i).isHold = false
  rw : ∀ i, s.rw = some i → i < N ∧ (s.ps i).pc = .g4

theorem getElem?_mem' {α} (l : List α) (k : Nat) (a : α) (h : l[k]? = some a) : a ∈ l :=
  List.mem_of_getElem? h

theorem minv_opDone (N : Nat) (s : State) (i : Nat) (p : Party) (r : Res) (_hi : i < N)
    (h : MInv N s) (hp : p.prog = (s.ps i).prog) (hh : p.holding = false) (hih : p.isHold = false)
    (hrw : s.rw ≠ some i) : MInv N (opDone s i p r) := by
  obtain ⟨hn, hno, hg, hnh, hrw'⟩ := h
  unfold opDone
  simp only [hh, Bool.and_false, Bool.false_eq_true, ↓reduceIte]
  constructor <;> simp_all [upd] <;> grind

theorem minv_readValue (N : Nat) (s : State) (i : Nat) (p : Party) (hi : i < N)
    (h : MInv N s) (hp : p.prog = (s.ps i).prog) (hh : p.holding = false) (hih : p.isHold = false)
    (hrw : s.rw ≠ some i) : MInv N (readValue s i p) := by
  unfold readValue
  split
  · exact minv_opDone N s i p _ hi h hp hh hih hrw
  · simp only [hih, Bool.false_eq_true, ↓reduceIte]
    exact minv_opDone N s i p _ hi h hp hh hih hrw

theorem minv_micro (N : Nat) (s s' : State) (i : Nat) (hi : i < N) (h : MInv N s)
    (hm : micro s i = some s') : MInv N s' := by
  have h' := h
  obtain ⟨hn, hno, hg, hnh, hrw⟩ := h
  have hnhi := hnh i
  unfold micro at hm
  simp only [] at hm
  split at hm
  · -- atOp
    split at hm
    · cases hm
    · -- get
      split at hm
      · cases hm
      · have hfree : s.rw ≠ some i := by simp_all
        split at hm
        · cases hm; constructor <;> simp_all [upd] <;> grind
        · cases hm
          exact minv_readValue N s i _ hi h' rfl hnhi.1 rfl hfree
    · -- hold: excluded
      rename_i hk
      exact absurd rfl (hno i _ (getElem?_mem' _ _ _ hk))
    · -- set
      split at hm
      · cases hm; constructor <;> simp_all [upd] <;> grind
      · cases hm
        have hpc : (s.ps i).pc = .atOp := by assumption
        have hfree : s.rw ≠ some i := by
          intro hc; have := (hrw i hc).2; rw [hpc] at this; cases this
        refine minv_opDone N _ i _ _ hi ?_ rfl hnhi.1 hnhi.2 hfree
        constructor <;> (try assumption) <;> simp_all
    · -- drop
      have hpc : (s.ps i).pc = .atOp := by assumption
      have hfree : s.rw ≠ some i := by
        intro hc; have := (hrw i hc).2; rw [hpc] at this; cases this
      simp only [hnhi.1, Bool.false_eq_true, ↓reduceIte] at hm
      cases hm
      exact minv_opDone N s i _ _ hi h' rfl hnhi.1 hnhi.2 hfree
  · -- g1
    split at hm
    · cases hm
    · cases hm; constructor <;> simp_all [upd] <;> grind
  · -- g2
    split at hm
    · cases hm
    · cases hm; constructor <;> simp_all [upd] <;> grind
  · -- g3
    split at hm
    · cases hm
    · cases hm; constructor <;> simp_all [upd] <;> grind
  · -- g4
    split at hm
    · cases hm
    · cases hm; constructor <;> simp_all [upd] <;> grind
  · -- g5
    cases hm
    have hpc : (s.ps i).pc = .g5 := by assumption
    have hfree : s.rw ≠ some i := by
      intro hc; have := (hrw i hc).2; rw [hpc] at this; cases this
    exact minv_readValue N s i _ hi h' rfl hnhi.1 hnhi.2 hfree
  · -- markDirty
    split at hm
    · cases hm
    · cases hm
      have hfree : s.rw ≠ some i := by simp_all
      refine minv_opDone N _ i _ _ hi ?_ rfl hnhi.1 hnhi.2 hfree
      constructor <;> (try assumption) <;> simp_all

theorem advance_n_inv (N : Nat) (fuel : Nat) : ∀ (s : State) (i : Nat), i < N → MInv N s →
    MInv N (advance fuel s i) := by
  induction fuel with
  | zero => intro s i _ h; exact h
  | succ f ih =>
    intro s i hi h
    unfold advance
    split
    · obtain ⟨hn, hno, hg, hnh, hrw⟩ := h
      constructor <;> simp_all [upd] <;> grind
    · rename_i s' hm
      have h1 := minv_micro N s s' i hi h hm
      split
      · exact ih s' i hi h1
      · obtain ⟨hn, hno, hg, hnh, hrw⟩ := h1
        constructor <;> simp_all [upd] <;> grind

theorem settlePass_inv (N : Nat) : ∀ (j : Nat) (s : State), j ≤ N → MInv N s → MInv N (settlePass s j) := by
  intro j
  induction j with
  | zero => intro s _ h; exact h
  | succ j ih =>
    intro s hj h
    unfold settlePass
    have h1 := ih s (by omega) h
    simp only []
    split
    · exact advance_n_inv N 4 _ j (by omega) h1
    · exact h1

theorem settle_inv (N : Nat) : ∀ (r : Nat) (s : State), MInv N s → MInv N (settle s r) := by
  intro r
  induction r with
  | zero => intro s h; exact h
  | succ r ih =>
    intro s h
    unfold settle
    exact ih _ (settlePass_inv N s.n s (by rw [h.n]; exact Nat.le_refl _) h)

theorem step_inv (N : Nat) (s : State) (t : ThreadId) (h : MInv N s) : MInv N (step s t) := by
  unfold step
  simp only []
  split
  · exact h
  · rename_i hc
    have ht : t < N := by
      rw [← h.n]
      simp only [ge_iff_le, Bool.or_eq_true, decide_eq_true_eq, not_or, Nat.not_le] at hc
      exact hc.1.1
    exact settle_inv N _ _ (advance_n_inv N 4 s t ht h)

theorem run_inv (N : Nat) (sched : List ThreadId) : ∀ s, MInv N s → MInv N (run s sched) := by
  induction sched with
  | nil => intro s h; exact h
  | cons t ts ih => intro s h; exact ih _ (step_inv N s t h)

def NoHold (progs : List (List Op)) : Prop := ∀ p ∈ progs, ∀ o ∈ p, o ≠ Op.hold

instance (progs : List (List Op)) : Decidable (NoHold progs) := by
  unfold NoHold; infer_instance

theorem init_inv (clean : Bool) (progs : List (List Op)) (hn : NoHold progs) :
    MInv progs.length (init clean progs) := by
  constructor <;> simp [init]
  intro i o ho
  by_cases hi : i < progs.length
  · have : progs[i]? = some progs[i] := List.getElem?_eq_getElem hi
    rw [this] at ho
    exact hn _ (List.getElem_mem hi) o ho
  · have : progs[i]? = none := List.getElem?_eq_none (by omega)
    rw [this] at ho; cases ho

/-- some party among the first `j` is unfinished -/
theorem exists_unfinished (s : State) : ∀ j, allFinished s j = false → ∃ i, i < j ∧ finished (s.ps i) = false := by
  intro j
  induction j with
  | zero => intro h; simp [allFinished] at h
  | succ j ih =>
    intro h
    simp only [allFinished, Bool.and_eq_false_iff] at h
    rcases h with h | h
    · exact ⟨j, by omega, h⟩
    · obtain ⟨i, hi, hf⟩ := ih h
      exact ⟨i, by omega, hf⟩

theorem anyEnabled_of (s : State) (i : Nat) (he : (micro s i).isSome = true) :
    ∀ j, i < j → anyEnabled s j = true := by
  intro j
  induction j with
  | zero => intro h; omega
  | succ j ih =>
    intro h
    simp only [anyEnabled, Bool.or_eq_true]
    by_cases hij : i = j
    · subst hij; left; exact he
    · right; exact ih (by omega)

theorem holder_enabled (N : Nat) (s : State) (i : Nat) (h : MInv N s) (hr : s.rw = some i) :
    (micro s i).isSome = true := by
  have := (h.rw i hr).2
  unfold micro
  simp [this, h.g0]

theorem free_enabled (N : Nat) (s : State) (i : Nat) (h : MInv N s) (hr : s.rw = none)
    (hf : finished (s.ps i) = false) : (micro s i).isSome = true := by
  obtain ⟨hn, hno, hg, hnh, hrw⟩ := h
  unfold micro
  simp only [hr, hg]
  cases hpc : (s.ps i).pc <;> simp
  -- atOp: the party is not finished, so there is a current op
  simp only [finished, hpc, beq_self_eq_true, Bool.true_and, decide_eq_false_iff_not, ge_iff_le, Nat.not_le] at hf
  have : (s.ps i).prog[(s.ps i).k]? = some (s.ps i).prog[(s.ps i).k] := List.getElem?_eq_getElem hf
  rw [this]
  cases (s.ps i).prog[(s.ps i).k] <;> simp <;> (repeat' split) <;> simp

theorem no_deadlock (N : Nat) (s : State) (h : MInv N s) : deadlocked s = false := by
  unfold deadlocked
  cases haf : allFinished s s.n with
  | true => simp
  | false =>
    simp only [Bool.not_false, Bool.true_and, Bool.not_eq_eq_eq_not, Bool.not_false]
    obtain ⟨i, hi, hf⟩ := exists_unfinished s s.n haf
    cases hr : s.rw with
    | none => exact anyEnabled_of s i (free_enabled N s i h hr hf) s.n hi
    | some j =>
      have hj := (h.rw j hr).1
      exact anyEnabled_of s j (holder_enabled N s j h hr) s.n (by rw [h.n]; exact hj)


/-- every blocked step waits for a lock of the table `locksNeeded` -/
theorem micro_blocked_needs (s : State) (i : Nat) (h : micro s i = none) :
    finished (s.ps i) = true ∨ ∃ l ∈ locksNeeded (s.ps i).pc, available s l = false := by
  unfold micro at h
  simp only [] at h
  cases hpc : (s.ps i).pc <;> simp only [hpc] at h
  · -- atOp
    cases hop : (s.ps i).prog[(s.ps i).k]? with
    | none =>
      left
      simp only [finished, hpc, beq_self_eq_true, Bool.true_and, decide_eq_true_eq]
      exact Nat.le_of_not_lt (fun hlt => by rw [List.getElem?_eq_getElem hlt] at hop; cases hop)
    | some o =>
      right
      refine ⟨.reactivity, by simp [locksNeeded], ?_⟩
      rw [hop] at h
      cases o <;> simp only [] at h
      · split at h
        · simp_all [available]
        · split at h <;> cases h
      · split at h <;> cases h
      · split at h
        · simp_all [available]
        · split at h <;> cases h
      · split at h <;> cases h
  · right; refine ⟨.value, by simp [locksNeeded], ?_⟩
    split at h
    · simp_all [available]
    · cases h
  · right; refine ⟨.reactivity, by simp [locksNeeded], ?_⟩
    split at h
    · simp_all [available]
    · cases h
  · right; refine ⟨.reactivity, by simp [locksNeeded], ?_⟩
    split at h
    · simp_all [available]
    · cases h
  · right; refine ⟨.value, by simp [locksNeeded], ?_⟩
    split at h
    · simp_all [available]
    · cases h
  · cases h
  · right; refine ⟨.reactivity, by simp [locksNeeded], ?_⟩
    split at h
    · simp_all [available]
    · cases h

/-- **Lock order of `update_if_necessary`.**
(1) The lock-acquisition graph of the modelled memo operations has the single edge
`reactivity → value` (never the reverse): it is acyclic.  (2) The step that runs the user's
function holds no lock.  (3) Every blocked step waits for a lock of the table
(`micro_blocked_needs`).  (4) Consequently — for any number of threads running any programs of
`get` / `set` (no user-held guard), initially clean or dirty, and **every** interleaving — the
system is never deadlocked: as long as some thread is unfinished, some thread can take a step. -/
theorem C19_memo_lock_order :
    lockEdges = [(Lock.reactivity, Lock.value)] ∧
    locksHeld userFunAt = [] ∧
    (∀ (clean : Bool) (progs : List (List Op)) (sched : List ThreadId), NoHold progs →
      deadlocked (run (init clean progs) sched) = false) := by
  refine ⟨by decide, by decide, ?_⟩
  intro clean progs sched hn
  exact no_deadlock progs.length _ (run_inv progs.length sched _ (init_inv clean progs hn))

/-- **The documented exception** (`inner.rs`: "Can block endlessly if the user is has a ReadGuard
on the value"), exhibited rather than hidden: thread 1 keeps a `ReadGuard` on the memo's value and
then writes the signal the memo depends on (`mark_dirty` needs `reactivity`); thread 0 is inside
`update_if_necessary`, holds `reactivity` and needs `value`.  Both block for ever: the user's guard
adds the edge `value → reactivity`.  Replayed on the real code by corpus/C19/guard-deadlock.ops. -/
theorem C19_memo_guard_deadlock_witness :
    deadlocked (run (init false [[.get], [.hold, .set 2, .drop]])
      [0, 0, 0, 1, 1, 1, 1, 1, 1, 0, 0, 1]) = true := by decide

/-- **Outcomes of memo reads and writes are those of a sequential order** (full statement): no
`get` panics, and once all threads are done a final `get` returns the function of the signal's
final value. -/
def C19_memo_sequential_outcomes_full : Prop :=
  ∀ (clean : Bool) (progs : List (List Op)) (sched : List ThreadId), NoHold progs →
    let s := run (init clean progs) sched
    allFinished s s.n = true →
      (∀ i, Res.panic ∉ (s.ps i).results) ∧ finalGet s = .val (s.sig * 10)

/-- **F-C19-2**: two threads `get` a dirty memo.  Thread 0 decides to recompute and stops before
`value.write().take()`; thread 1 recomputes completely and is about to read the value; thread 0
takes the value (`None`); thread 1's `value.read()` + `unwrap()` panics
(arc_memo.rs: "safe to unwrap here because update_if_necessary guarantees the value is Some").
Replayed on the real code by corpus/C19/f-c19-2.ops. -/
theorem C19_memo_read_panic_witness :
    ((run (init false [[.get], [.get]]) [0, 1, 1, 1, 1, 1, 0, 1]).ps 1).results = [.panic] := by decide

/-- **F-C19-3**: a write that lands between a recomputation's user function and its
`state = Clean` is lost: thread 0 sets 2 and recomputes (reads 2, result 20), thread 1 sets 3
(`mark_dirty`: Dirty, as it already was), thread 0 stores 20 and marks the memo Clean.  Everybody
is done, the signal is 3, the memo answers 20 until some later write.  Replayed on the real code
by corpus/C19/f-c19-3.ops. -/
theorem C19_memo_stale_witness :
    let s := run (init true [[.set 2, .get], [.set 3]]) [0, 0, 0, 0, 1, 0, 0, 0]
    allFinished s s.n = true ∧ s.sig = 3 ∧ finalGet s = .val 20 ∧ s.dirty = false := by decide

theorem C19_memo_sequential_outcomes_full_false : ¬ C19_memo_sequential_outcomes_full := by
  intro h
  have := (h true [[.set 2, .get], [.set 3]] [0, 0, 0, 0, 1, 0, 0, 0] (by decide) (by decide)).2
  revert this; decide

/-- non-vacuity: a complete two-thread run without defects (sequential order `set 2; get; get`) -/
example : let s := run (init true [[.set 2, .get], [.get]]) [0, 0, 0, 0, 0, 0, 0, 1]
    allFinished s s.n = true ∧ (s.ps 0).results = [.unit, .val 20] ∧ (s.ps 1).results = [.val 20] ∧
    finalGet s = .val 20 := by decide

end Memo

/-! ## plain signal reads are `try_read` -/
namespace Sig

/-- full statement: a read returns a value -/
def C19_sig_read_total_full : Prop :=
  ∀ (progs : List (List Op)) (sched : List ThreadId) (i : Nat),
    Res.panic ∉ ((run (init progs) sched).ps i).results

/-- **F-C19-4**: `Plain::try_new` takes the value lock with `try_read`, so a `get` on one thread
while another thread is inside a write — here inside `sig.update(|n| …)`, whose closure runs with
the lock write-held — finds the lock taken, yields `None`, and `Get::get` panics "tried to access a
reactive value that has already been disposed".  (The model makes `set` one atomic step, so it
shows the race only against an update whose closure spans a schedule entry; on the real code the
window also exists inside every `set` — the free-running set/get stress hit it.)
Replayed on the real code by corpus/C19/f-c19-4.ops. -/
theorem C19_sig_read_during_write_witness :
    ((run (init [[.holdWrite 5, .unhold], [.read]]) [0, 1, 1]).ps 1).results = [.panic] := by decide

theorem C19_sig_read_total_full_false : ¬ C19_sig_read_total_full := by
  intro h
  have := h [[.holdWrite 5, .unhold], [.read]] [0, 1, 1] 1
  revert this; decide

/-- non-vacuity: the sequential order reads the written value -/
example : ((run (init [[.holdWrite 5, .unhold], [.read]]) [0, 0, 1]).ps 1).results = [.val 5] := by decide

end Sig

/-! ## memo graphs: the `Check` arm, mark propagation and the lock order between memos -/
namespace Graph

/-- `a = s + 1`, `b = a + 1` -/
def chain : List Def := [{ f := .add 1, reads := [.sig] }, { f := .add 1, reads := [.memo 0] }]

/-- `zero = s * 0`, `plus1 = s + 1`, `sum = zero + plus1` (seed r2-3's graph) -/
def diamond : List Def :=
  [{ f := .mul 0, reads := [.sig] }, { f := .add 1, reads := [.sig] }, { f := .plus, reads := [.memo 0, .memo 1] }]

set_option maxRecDepth 100000 in
/-- **F-C19-6 (repaired)**: ABBA between a memo dropping its sources and its source notifying it.
Thread 0 (`set 2; b.get()`) is re-running `b` and parked at `sources:clearing`: with the old code
it holds `b`'s write lock and needs `a`'s (`remove_subscriber`).  Thread 1 (`set 3`) is in
`a.mark_subscribers_check`: it holds `a`'s read lock and needs `b`'s write lock (`b.mark_check`).
Old code: both threads blocked for ever.  Repaired code (`clear_sources` unsubscribes after
releasing its own lock): the same schedule runs to completion and every memo ends on the current
signal value.  Replayed on the real code by corpus/C19/graph.ops. -/
theorem C19_graph_abba_deadlock_witness :
    let sched : List ThreadId := [0, 0, 0, 0, 0, 0, 0, 0, 0, 0, 0, 0, 1, 0, 1]
    let progs : List (List Op) := [[.set 2, .get 1], [.set 3]]
    (let s := run (initCleanOld chain true true progs) sched
     allFinished s 2 = false ∧ (s.ts 0).inflight = true ∧ (s.ts 1).inflight = true ∧
     (s.ms 1).w = some 0 ∧ (s.ms 0).r = [1]) ∧
    (let s := run (initClean chain true true progs) (sched ++ tail 2)
     allFinished s 2 = true ∧ ((readAll s).ts 2).results = [.val 4, .val 5] ∧ s.sig = 3) := by
  decide

/-- the lock-order fact behind the repair, on the machine: with the repaired `clear_sources` the
step that unsubscribes from a source is taken with the subscriber's own lock free -/
theorem C19_graph_clear_releases_own_lock (s : State) (t m : Nat) (old : Option Nat) (rest : List Frame)
    (hf : (s.ts t).frames = .uclearLock m old :: rest) (hc : s.clearHolds = false) (s' : State)
    (he : exec s t = some s') : (s'.ms m).w = none := by
  unfold exec at he
  simp only [hf] at he
  split at he
  · cases he
  · cases he
    simp [setT, setM, upd, hc]

set_option maxRecDepth 100000 in
/-- **The `Check` arm re-reads its own state between sources (seed r2-3's schedule).**  Thread 0
gets `sum` (state Check) and has just re-run its first source `zero` (unchanged, `memo:released`)
when thread 1 gets `plus1`, which recomputes and marks `sum` dirty.  `plus1.update_if_necessary()`
then returns false for thread 0, and only `reactivity.read().state == Dirty` makes it recompute:
it answers 3, and so does everybody afterwards. -/
theorem C19_graph_check_sees_cross_thread_dirty :
    let s := run (initClean diamond true false [[.set 2, .get 2], [.get 1]])
      ([0, 0, 0, 0, 0, 0, 0, 0, 1, 1, 1, 1, 1, 1, 1, 1] ++ tail 2)
    (s.ts 0).results = [.unit, .val 3] ∧ (s.ts 1).results = [.val 3] ∧
    ((readAll s).ts 2).results = [.val 0, .val 3, .val 3] := by
  decide

set_option maxRecDepth 100000 in
/-- a `get` overlapping a `set` (F-C19-3's cause, as seen by the reader): `sum = m0 + m1`,
`m0 = s + 1`, `m1 = s + 2`; thread 0's recomputation of `sum` reads `m0` (from `s = 1`), thread 1
sets 5, thread 0 reads `m1` (from `s = 5`) and returns `2 + 7 = 9` — a value of no sequential order
(5 or 13).  `sum` is marked dirty again by the write, so the read-back gives 13.
Replayed on the real code by corpus/C19/graph.ops (`torn-read`). -/
theorem C19_graph_torn_read_witness :
    let g : List Def := [{ f := .add 1, reads := [.sig] }, { f := .add 2, reads := [.sig] },
      { f := .plus, reads := [.memo 0, .memo 1] }]
    let s := run (init g true false [[.get 2], [.set 5]]) ([0, 0, 0, 0] ++ tail 2)
    (s.ts 0).results = [.val 9] ∧ ((readAll s).ts 2).results = [.val 6, .val 7, .val 13] := by
  decide

set_option maxRecDepth 100000 in
/-- the single-threaded way into the same re-check: an unchanged intermediate read first -/
example :
    let coarse : List Def := [{ f := .add 0, reads := [.sig] }, { f := .div 100, reads := [.memo 0] },
      { f := .plus, reads := [.memo 1, .memo 0] }]
    let s := run (initClean coarse true false [[.set 2, .get 2]]) (tail 1)
    (s.ts 0).results = [.unit, .val 2] := by decide

/-! ### the async derived's own update loop under cross-thread marks -/

/-- `needs_rerun` tests and clears `Dirty` in ONE micro-step (under the derived's write lock), before
the source check starts: a `mark_dirty` that arrives while the task is inside the source check
finds the flag already consumed and sets it again, for the next iteration of the loop. -/
theorem C19_derived_needs_rerun_atomic (s : State) (t : Nat) (rest : List Frame)
    (hf : (s.ts t).frames = .dNeeds :: rest) (hd : s.der.dirty = true) :
    exec s t = some (setT { s with der := { s.der with dirty := false } } t
      { s.ts t with obs := s.defs.length :: (s.ts t).obs, ret := true, frames := .dAfter :: rest }) := by
  unfold exec
  simp [hf, hd]

set_option maxRecDepth 100000 in
/-- **seed r3-1's schedule**: derived = (a / 100) * 1000 + b with a = 1, b = 10.  Thread 0 writes
a = 2 and polls the derived's task, which is only asked to *check* and is inside the memo's
recomputation (unchanged: 0) when thread 1 writes b = 20 (the derived is marked dirty, its channel
notified).  The check answers "unchanged", the loop's next `rx.next()` finds the flag set,
`needs_rerun` finds `Dirty`: the derived runs again and ends on 20. -/
theorem C19_derived_dirty_during_check :
    let defs : List Def := [{ f := .div 100, reads := [.sig] }]
    let s := run (initDerived defs [[.set 2, .poll], [.setB 20]]) ([0, 0, 0, 1] ++ tail 2)
    allFinished s 2 = true ∧ (finalPoll s).der.value = some 20 ∧ (initDerived defs []).der.value = some 10 := by
  decide

/-- an `Effect`'s check ends with `was_marked = take(dirty)` and answers `any_changed || was_marked`
(one micro-step): a mark that arrived during the source check is never dropped -/
theorem C19_effect_check_keeps_mark (s : State) (t : Nat) (rest : List Frame)
    (hf : (s.ts t).frames = .eCheckEnd :: rest) (hd : s.der.dirty = true) :
    exec s t = some (setT { s with der := { s.der with dirty := false } } t
      { s.ts t with ret := true, frames := rest }) := by
  unfold exec
  simp [hf, hd]

set_option maxRecDepth 100000 in
/-- **seed r4-1's schedule** for an `Effect` computing (a / 100) * 1000 + b: thread 0 writes a = 2 and
polls the effect's task, which is inside its source check (inside the memo, unchanged) when thread 1
writes b = 20; the effect runs again and its last logged value is 20. -/
theorem C19_effect_dirty_during_check :
    let defs : List Def := [{ f := .div 100, reads := [.sig] }]
    let s := run (initDerived defs [[.set 2, .poll], [.setB 20]] true) ([0, 0, 0, 1] ++ tail 2)
    allFinished s 2 = true ∧ (finalPoll s).der.value = some 20 := by
  decide

/-! ### the lock discipline of the repaired machine, for all interleavings -/

/-- thread frames say: "the next thing I do with memo `m`'s lock is the store + unlock" -/
def holderReady (frames : List Frame) (m : Nat) : Bool :=
  match frames with
  | .ustore m' _ _ :: _ => m' == m
  | .yld .reactivityHeld :: .ustore m' _ _ :: _ => m' == m
  | _ => false

structure HoldsOk (s : State) : Prop where
  fc : s.clearHolds = false
  fm : s.markHolds = false
  r : ∀ m, (s.ms m).r = []
  w : ∀ m u, (s.ms m).w = some u → holderReady (s.ts u).frames m = true

/-- `S` differs from `s` in nothing the lock discipline looks at -/
def SameLocks (S s : State) : Prop :=
  S.ts = s.ts ∧ S.clearHolds = s.clearHolds ∧ S.markHolds = s.markHolds ∧
  ∀ m, (S.ms m).w = (s.ms m).w ∧ (S.ms m).r = (s.ms m).r

theorem sameLocks_refl (s : State) : SameLocks s s := ⟨rfl, rfl, rfl, fun _ => ⟨rfl, rfl⟩⟩

theorem sameLocks_setM (s : State) (m : Nat) (x : MemoSt) (hw : x.w = (s.ms m).w) (hr : x.r = (s.ms m).r) :
    SameLocks (setM s m x) s := by
  refine ⟨rfl, rfl, rfl, fun m' => ?_⟩
  simp only [setM, upd]
  split
  · subst_vars; exact ⟨hw, hr⟩
  · exact ⟨rfl, rfl⟩

/-- a step of a thread whose head frame is neither a yield nor the store: it holds no lock -/
theorem holdsOk_normal (s S : State) (t : Nat) (th' : Thread) (h : HoldsOk s) (hS : SameLocks S s)
    (hnot : ∀ m, holderReady (s.ts t).frames m = false) : HoldsOk (setT S t th') := by
  obtain ⟨hfc, hfm, hr, hw⟩ := h
  obtain ⟨h1, h2, h3, h4⟩ := hS
  refine ⟨by simp [setT, h2, hfc], by simp [setT, h3, hfm], ?_, ?_⟩
  · intro m; simp only [setT]; rw [(h4 m).2]; exact hr m
  · intro m u hu
    simp only [setT] at hu ⊢
    rw [(h4 m).1] at hu
    have hready := hw m u hu
    by_cases hut : u = t
    · subst hut; rw [hnot m] at hready; cases hready
    · simp only [upd, hut, if_false, h1]; exact hready

theorem sameLocks_sig (s : State) (v : Nat) : SameLocks { s with sig := v } s :=
  ⟨rfl, rfl, rfl, fun _ => ⟨rfl, rfl⟩⟩
theorem sameLocks_sigSubs (s : State) (l : List Nat) : SameLocks { s with sigSubs := l } s :=
  ⟨rfl, rfl, rfl, fun _ => ⟨rfl, rfl⟩⟩

theorem holdsOk_general (s S : State) (t : Nat) (th' : Thread) (h : HoldsOk s) (hts : S.ts = s.ts)
    (hc : S.clearHolds = false) (hm : S.markHolds = false) (hr : ∀ m, (S.ms m).r = [])
    (hw' : ∀ m u, (S.ms m).w = some u →
      (u ≠ t → (s.ms m).w = some u) ∧ (u = t → holderReady th'.frames m = true)) :
    HoldsOk (setT S t th') := by
  refine ⟨by simp [setT, hc], by simp [setT, hm], fun m => by simp only [setT]; exact hr m, ?_⟩
  intro m u hu
  simp only [setT] at hu ⊢
  obtain ⟨h1, h2⟩ := hw' m u hu
  by_cases hut : u = t
  · subst hut; simp only [upd, if_true]; exact h2 rfl
  · simp only [upd, hut, if_false, hts]; exact h.w m u (h1 hut)

theorem setM_w (s : State) (m m' : Nat) (x : MemoSt) :
    ((setM s m x).ms m').w = if m' = m then x.w else (s.ms m').w := by
  simp only [setM, upd]; split <;> rfl

theorem setM_r (s : State) (m m' : Nat) (x : MemoSt) :
    ((setM s m x).ms m').r = if m' = m then x.r else (s.ms m').r := by
  simp only [setM, upd]; split <;> rfl

theorem sameLocks_setM_of (S s : State) (m : Nat) (x : MemoSt) (hS : SameLocks S s)
    (hw : x.w = (S.ms m).w) (hr : x.r = (S.ms m).r) : SameLocks (setM S m x) s := by
  obtain ⟨h1, h2, h3, h4⟩ := hS
  refine ⟨h1, h2, h3, fun m' => ?_⟩
  simp only [setM, upd]
  split
  · subst_vars; rw [hw, hr]; exact h4 _
  · exact h4 m'

theorem holdsOk_yld (s : State) (t : Nat) (y : YName) (rest : List Frame) (h : HoldsOk s)
    (hfr : (s.ts t).frames = .yld y :: rest) (th' : Thread) (hf : th'.frames = rest) :
    HoldsOk (setT s t th') := by
  refine holdsOk_general s s t _ h rfl h.fc h.fm h.r ?_
  intro m u hu
  refine ⟨fun _ => hu, fun hut => ?_⟩
  subst hut
  have := h.w m u hu
  rw [hfr] at this
  rw [hf]
  simp only [holderReady] at this ⊢
  split at this <;> simp_all

theorem holdsOk_ulock (s : State) (t m new : Nat) (ch : Bool) (rest : List Frame) (h : HoldsOk s)
    (hfr : (s.ts t).frames = .ulock m new ch :: rest) (x : MemoSt) (hxw : x.w = some t) (hxr : x.r = (s.ms m).r)
    (th' : Thread) (hf : th'.frames = .yld .reactivityHeld :: .ustore m new ch :: rest) :
    HoldsOk (setT (setM s m x) t th') := by
  have hnot : ∀ m, holderReady (s.ts t).frames m = false := by intro m; simp [hfr, holderReady]
  refine holdsOk_general s _ t _ h rfl (by simp [setM, h.fc]) (by simp [setM, h.fm]) ?_ ?_
  · intro m'; rw [setM_r]; split <;> simp [h.r, hxr]
  · intro m' u hu
    rw [setM_w] at hu
    split at hu
    · subst_vars
      rw [hxw] at hu
      simp only [Option.some.injEq] at hu
      subst hu
      exact ⟨fun hne => absurd rfl hne, fun _ => by simp [hf, holderReady]⟩
    · refine ⟨fun _ => hu, fun hut => ?_⟩
      subst hut
      have := h.w m' u hu
      rw [hnot m'] at this; cases this

theorem holdsOk_ustore (s : State) (t m new : Nat) (ch : Bool) (rest : List Frame) (h : HoldsOk s)
    (hfr : (s.ts t).frames = .ustore m new ch :: rest) (x : MemoSt) (hxw : x.w = none) (hxr : x.r = (s.ms m).r)
    (th' : Thread) : HoldsOk (setT (setM s m x) t th') := by
  refine holdsOk_general s _ t _ h rfl (by simp [setM, h.fc]) (by simp [setM, h.fm]) ?_ ?_
  · intro m'; rw [setM_r]; split <;> simp [h.r, hxr]
  · intro m' u hu
    rw [setM_w] at hu
    split at hu
    · rw [hxw] at hu; cases hu
    · refine ⟨fun _ => hu, fun hut => ?_⟩
      subst hut
      have := h.w m' u hu
      rw [hfr] at this
      simp only [holderReady, beq_iff_eq] at this
      rename_i hne
      exact absurd this.symm hne

set_option maxHeartbeats 4000000 in
theorem holdsOk_exec (s s' : State) (t : Nat) (h : HoldsOk s) (he : exec s t = some s') : HoldsOk s' := by
  have hfc := h.fc
  have hfm := h.fm
  unfold exec at he
  simp only [] at he
  split at he
  · cases he
  · rename_i fr rest hfr
    split at he
    all_goals (try simp only [hfc, hfm, Bool.false_eq_true, ↓reduceIte] at he)
    all_goals (repeat' (split at he))
    all_goals (try (cases he; done))
    all_goals (
      cases he
      first
      | (apply holdsOk_yld s t _ _ h hfr <;> rfl)
      | (apply holdsOk_ulock s t _ _ _ _ h hfr <;> rfl)
      | (apply holdsOk_ustore s t _ _ _ _ h hfr <;> rfl)
      | (have hnot : ∀ m, holderReady (s.ts t).frames m = false := by intro m; simp [hfr, holderReady]
         refine holdsOk_normal _ _ _ _ h ?_ hnot
         first
         | exact sameLocks_refl _
         | exact ⟨rfl, by simp [hfc], by simp [hfm], fun _ => ⟨rfl, rfl⟩⟩
         | (apply sameLocks_setM <;> rfl)
         | (refine sameLocks_setM_of _ s _ _ ⟨rfl, by simp [hfc], by simp [hfm], fun _ => ⟨rfl, rfl⟩⟩ rfl rfl)
         | (apply sameLocks_setM
            · rename_i hcan; simp [canW] at hcan; simp [hcan.1]
            · rfl)))

theorem holdsOk_setT_frames (s : State) (t : Nat) (th' : Thread) (h : HoldsOk s)
    (hf : th'.frames = (s.ts t).frames) : HoldsOk (setT s t th') := by
  refine holdsOk_general s s t th' h rfl h.fc h.fm h.r ?_
  intro m u hu
  exact ⟨fun _ => hu, fun hut => by subst hut; rw [hf]; exact h.w m u hu⟩

theorem exec_yld (s : State) (t : Nat) (y : YName) (rest : List Frame)
    (hf : (s.ts t).frames = .yld y :: rest) :
    exec s t = some (setT s t { s.ts t with frames := rest }) := by
  unfold exec
  simp [hf]

theorem holdsOk_cont (fuel : Nat) : ∀ (s : State) (t : Nat), HoldsOk s → HoldsOk (cont fuel s t) := by
  induction fuel with
  | zero => intro s t h; exact h
  | succ f ih =>
    intro s t h
    unfold cont
    simp only []
    split
    · exact holdsOk_setT_frames s t _ h (by simp_all)
    · rename_i y rest hf
      split
      · exact holdsOk_setT_frames s t _ h rfl
      · exact ih _ t (holdsOk_exec s _ t h (exec_yld s t y rest hf))
    · split
      · exact holdsOk_setT_frames s t _ h rfl
      · rename_i s' he
        exact ih s' t (holdsOk_exec s s' t h he)

theorem holdsOk_grant (s : State) (t : Nat) (h : HoldsOk s) : HoldsOk (grant s t) := by
  unfold grant
  simp only []
  split
  · rename_i y rest hf
    exact holdsOk_cont _ _ t (holdsOk_exec s _ t h (exec_yld s t y rest hf))
  · exact holdsOk_cont _ s t h

theorem holdsOk_settlePass (s : State) : ∀ j, HoldsOk s → HoldsOk (settlePass s j) := by
  intro j
  induction j with
  | zero => intro h; exact h
  | succ j ih =>
    intro h
    unfold settlePass
    simp only []
    split
    · exact holdsOk_cont _ _ j (ih h)
    · exact ih h

theorem holdsOk_settle : ∀ (r : Nat) (s : State), HoldsOk s → HoldsOk (settle s r) := by
  intro r
  induction r with
  | zero => intro s h; exact h
  | succ r ih => intro s h; unfold settle; exact ih _ (holdsOk_settlePass s s.n h)

theorem holdsOk_step (s : State) (t : ThreadId) (h : HoldsOk s) : HoldsOk (step s t) := by
  unfold step
  simp only []
  split
  · exact h
  · exact holdsOk_settle _ _ (holdsOk_grant s t h)

theorem holdsOk_run (sched : List ThreadId) : ∀ s, HoldsOk s → HoldsOk (run s sched) := by
  induction sched with
  | nil => intro s h; exact h
  | cons t ts ih => intro s h; exact ih _ (holdsOk_step s t h)

theorem holdsOk_init (defs : List Def) (gm gl : Bool) (progs : List (List Op)) :
    HoldsOk (init defs gm gl progs) := by
  constructor <;> simp [init]

/-- a thread is *blocked*: its next micro-step waits for a lock -/
def blocked (s : State) (t : Nat) : Bool :=
  match (s.ts t).frames with
  | [] => false
  | .yld _ :: _ => false
  | _ => (exec s t).isNone

theorem notCanR (s : State) (m : Nat) (h : (!canR s m) = true) : ∃ u, (s.ms m).w = some u := by
  simp only [canR, Bool.not_eq_true', beq_eq_false_iff_ne, ne_eq] at h
  cases hw : (s.ms m).w with
  | none => exact absurd hw h
  | some u => exact ⟨u, rfl⟩

theorem notCanW (s : State) (m : Nat) (hr : (s.ms m).r = []) (h : (!canW s m) = true) :
    ∃ u, (s.ms m).w = some u := by
  cases hw : (s.ms m).w with
  | none => simp [canW, hw, hr] at h
  | some u => exact ⟨u, rfl⟩

set_option maxHeartbeats 2000000 in
/-- a micro-step only ever waits for a `reactivity` write lock that some thread holds -/
theorem exec_none_waits (s : State) (t : Nat) (hr : ∀ m, (s.ms m).r = [])
    (hf : (s.ts t).frames ≠ []) (he : exec s t = none) : ∃ m u, (s.ms m).w = some u := by
  unfold exec at he
  simp only [] at he
  split at he
  · rename_i h0; exact absurd h0 hf
  · split at he
    all_goals (repeat' (split at he))
    all_goals (try (cases he; done))
    all_goals (
      rename_i hc
      first
      | exact ⟨_, notCanR s _ hc⟩
      | exact ⟨_, notCanW s _ (hr _) hc⟩)

theorem exec_ustore_some (s : State) (t m new : Nat) (ch : Bool) (rest : List Frame)
    (hf : (s.ts t).frames = .ustore m new ch :: rest) : (exec s t).isSome = true := by
  unfold exec
  simp [hf]

/-- **No lock is held across a notification or an unsubscription (repaired code).**  In every
state the repaired memo-graph machine reaches — any graph, any programs, any number of threads,
**every** interleaving — (1) no `reactivity` read lock is held at a micro-step boundary at all
(`mark_dirty` / `mark_check` notify a snapshot, 0488c9f; `needs_update`, `inner_1`, `Track` take
and drop the lock within one micro-step), and (2) a `reactivity` write lock is held across a
micro-step boundary only by a thread whose next action is `value.write()` + store +
`drop(reactivity_lock)` (`ustore`, possibly parked at `memo:reactivity-held` just before it) —
a step that takes no `reactivity` lock.  So no thread ever waits for one memo's lock while holding
another's: the "holds-while-waiting" relation between `reactivity` locks is empty. -/
theorem C19_graph_no_lock_across_notify (defs : List Def) (gm gl : Bool) (progs : List (List Op))
    (sched : List ThreadId) :
    let s := run (init defs gm gl progs) sched
    (∀ m, (s.ms m).r = []) ∧
    (∀ m u, (s.ms m).w = some u → holderReady (s.ts u).frames m = true) := by
  have h := holdsOk_run sched _ (holdsOk_init defs gm gl progs)
  exact ⟨h.r, h.w⟩

/-- **Deadlock freedom of the repaired memo graph, all interleavings.**  Whenever a thread is
blocked (its next micro-step waits for a lock), the lock is write-held by ANOTHER thread that is
itself not blocked: it is parked at a yield point (the controller can grant it) or its next
micro-step is the store-and-unlock, which always succeeds.  Hence some thread can always move:
no set of threads running `get` / `set` on any memo DAG deadlocks (F-C19-6 and F-C19-9 repaired;
with either one unrepaired `C19_graph_abba_deadlock_witness` deadlocks). -/
theorem C19_graph_deadlock_free (defs : List Def) (gm gl : Bool) (progs : List (List Op))
    (sched : List ThreadId) (t : Nat) :
    let s := run (init defs gm gl progs) sched
    blocked s t = true →
      ∃ u m, u ≠ t ∧ (s.ms m).w = some u ∧ (s.ts u).frames ≠ [] ∧ blocked s u = false := by
  intro s hb
  have h : HoldsOk s := holdsOk_run sched _ (holdsOk_init defs gm gl progs)
  -- t's head frame is a real micro-step that returns `none`
  have hne : (s.ts t).frames ≠ [] := by
    intro h0; simp [blocked, h0] at hb
  have hex : exec s t = none := by
    unfold blocked at hb
    split at hb
    · cases hb
    · cases hb
    · simpa using hb
  obtain ⟨m, u, hw⟩ := exec_none_waits s t h.r hne hex
  have hready := h.w m u hw
  -- the holder's frames start with the store (or the yield point right before it)
  have hu : (s.ts u).frames ≠ [] ∧ blocked s u = false := by
    unfold holderReady at hready
    split at hready
    · rename_i m' new ch rest hf
      refine ⟨by simp [hf], ?_⟩
      have := exec_ustore_some s u m' new ch rest hf
      simp [blocked, hf, this]
    · rename_i m' new ch rest hf
      exact ⟨by simp [hf], by simp [blocked, hf]⟩
    · cases hready
  refine ⟨u, m, ?_, hw, hu.1, hu.2⟩
  intro hut
  subst hut
  rw [hb] at hu
  exact absurd hu.2 (by decide)

end Graph

/-! ## concurrent `notify_subs` -/
namespace Notify

/-- invariant of the repaired code: `Notifying` is owned by a call that saved a real state -/
def Inv (s : State) : Prop :=
  s.guardRestore = true ∧
  (s.dstate = .notifying → ∃ t, (s.cs t).pc = .drained ∧ (s.cs t).prev ≠ .notifying)

theorem inv_init (k : Nat) : Inv (init true k) := by
  constructor <;> simp [init]

theorem inv_step (s : State) (t : ThreadId) (h : Inv s) : Inv (step s t) := by
  obtain ⟨hg, hn⟩ := h
  unfold step
  simp only []
  cases hpc : (s.cs t).pc <;> simp only []
  · -- start
    refine ⟨hg, fun hd => ?_⟩
    obtain ⟨u, hu1, hu2⟩ := hn hd
    refine ⟨u, ?_, ?_⟩ <;> (simp only [upd]; split <;> simp_all)
  · -- entered
    refine ⟨hg, fun hd => ?_⟩
    obtain ⟨u, hu1, hu2⟩ := hn hd
    refine ⟨u, ?_, ?_⟩ <;> (simp only [upd]; split <;> simp_all)
  · -- stored: replace
    refine ⟨hg, fun _ => ?_⟩
    by_cases hd : s.dstate = .notifying
    · obtain ⟨u, hu1, hu2⟩ := hn hd
      have hut : u ≠ t := by intro h; subst h; rw [hpc] at hu1; cases hu1
      exact ⟨u, by simp [upd, hut, hu1], by simp [upd, hut, hu2]⟩
    · exact ⟨t, by simp [upd], by simp [upd, hd]⟩
  · -- drained: restore
    refine ⟨hg, ?_⟩
    simp only [hg, Bool.true_and]
    by_cases hp : (s.cs t).prev = .notifying
    · simp only [hp, beq_self_eq_true, ↓reduceIte]
      intro hd
      obtain ⟨u, hu1, hu2⟩ := hn hd
      have hut : u ≠ t := by intro h; subst h; exact hu2 hp
      exact ⟨u, by simp [upd, hut, hu1], by simp [upd, hut, hu2]⟩
    · have : ((s.cs t).prev == DSt.notifying) = false := by simpa using hp
      simp only [this, Bool.false_eq_true, ↓reduceIte]
      intro hd; exact absurd hd hp
  · -- post
    split
    · refine ⟨hg, ?_⟩
      by_cases hd : s.dstate = .notifying
      · simp only [hd, beq_self_eq_true, ↓reduceIte]
        intro _
        obtain ⟨u, hu1, hu2⟩ := hn hd
        have hut : u ≠ t := by intro h; subst h; rw [hpc] at hu1; cases hu1
        exact ⟨u, by simp [upd, hut, hu1], by simp [upd, hut, hu2]⟩
      · have : (s.dstate == DSt.notifying) = false := by simpa using hd
        simp [this]
    · exact ⟨hg, hn⟩
  · exact ⟨hg, hn⟩

theorem inv_run (sched : List ThreadId) : ∀ s, Inv s → Inv (run s sched) := by
  induction sched with
  | nil => intro s h; exact h
  | cons t ts ih => intro s h; exact ih _ (inv_step s t h)

/-- **No stuck `Notifying` (repaired code), all interleavings.**  For any number of threads
calling `notify_subs` on one async derived and every interleaving of their steps: whenever no call
is between its `replace(state, Notifying)` and its restore, the state is not `Notifying` — so a
later `mark_dirty` takes effect and the derived loads again. -/
theorem C19_notify_not_stuck (k : Nat) (sched : List ThreadId) :
    let s := run (init true k) sched
    (∀ t, (s.cs t).pc ≠ .drained) → s.dstate ≠ .notifying := by
  intro s hq hd
  obtain ⟨t, ht, _⟩ := (inv_run sched _ (inv_init k)).2 hd
  exact hq t ht

/-- **F-C19-7 (repaired)**: the derived's task (thread 0) and `derived.notify()` (thread 1) overlap:
0 replaces (saves Clean), 1 replaces (saves Notifying), 0 restores Clean, 1 restores Notifying.
Old code: everybody has returned, the state is `Notifying`, the write of the source is ignored
(`reloaded = false`).  Repaired code, same schedule: the derived reloads.  Replayed on the real
code by corpus/C19/derived.ops. -/
theorem C19_notify_stuck_witness :
    let sched : List ThreadId := [0, 0, 0, 1, 1, 1, 0, 1, 0]
    (let s := run (init false 1) sched
     (s.cs 0).pc = .done ∧ (s.cs 1).pc = .done ∧ s.dstate = .notifying ∧ s.reloaded = false) ∧
    (let s := run (init true 1) sched
     (s.cs 0).pc = .done ∧ (s.cs 1).pc = .done ∧ s.reloaded = true) := by decide

end Notify

/-! ## awaiting a loaded async derived while it is written -/
namespace AwaitW

/-- full statement: an awaiter of a loaded derived is never left parked once the writer is done -/
def C19_await_writer_no_lost_wake_full : Prop :=
  ∀ (kind polls : Nat) (sched : List ThreadId), lost (run (init kind polls) sched) = false

/-- **F-C19-8**: thread 0 is inside `derived.update(|v| ..)` (value lock write-held); thread 1 polls
the by-value future: `loading` is false, the read lock is not available, the `(_, Pending)` arm
returns `Pending` and drops the lock listener; thread 0 finishes (`notify_subs` drains an empty
waker list).  Thread 1 is never polled again although the value is there.  Replayed on the real
code by corpus/C19/derived.ops. -/
theorem C19_await_writer_lost_wake_witness :
    lost (run (init 1 2) [0, 1, 1, 0]) = true ∧ lost (run (init 2 2) [0, 1, 1, 0]) = true := by decide

theorem C19_await_writer_no_lost_wake_full_false : ¬ C19_await_writer_no_lost_wake_full := by
  intro h
  have := h 1 2 [0, 1, 1, 0]
  revert this; decide

/-- partial: the `ready()` future does not touch the value lock and is never lost this way -/
theorem C19_await_writer_ready_partial (polls : Nat) (sched : List ThreadId) :
    lost (run (init 0 polls) sched) = false := by
  have key : ∀ (sched : List ThreadId) (s : State), s.kind = 0 → s.apc ≠ .parked →
      (run s sched).apc ≠ .parked := by
    intro sched
    induction sched with
    | nil => intro s _ h; exact h
    | cons t ts ih =>
      intro s hk hp
      apply ih
      · unfold step
        match t with
        | 0 => cases hw : s.wpc <;> simp [hk]
        | 1 =>
          simp only []
          cases ha : s.apc <;> simp_all <;> (repeat' split) <;> simp_all
        | _ + 2 => simp [hk]
      · unfold step
        match t with
        | 0 => cases hw : s.wpc <;> simp [hp]
        | 1 =>
          simp only []
          cases ha : s.apc <;> simp_all <;> (repeat' split) <;> simp_all
        | _ + 2 => simp [hp]
  have := key sched (init 0 polls) (by simp [init]) (by simp [init])
  simp [lost, this]

end AwaitW

/-! ## an `ImmediateEffect` on a memo (single thread) -/
namespace Imm

/-- **F-C19-9 (repaired by 0488c9f)**: `s = 1`, `m = s * 2`, an `ImmediateEffect` reading `m`,
then `s.set(2)`.  Before the repair the memo notified its subscribers while holding its own
`reactivity` read lock; the effect ran synchronously, read the memo, and `update_if_necessary`
waited for that lock's write side on the same thread: the `set` never returned.  Now it returns
and the effect has seen 4.  Replayed on the real code by corpus/C19/imm-memo.ops (and, with the
reverse diff of 0488c9f, reported as `fail hang`). -/
theorem C19_imm_memo_hang_witness :
    let defs : List Graph.Def := [{ f := .mul 2, reads := [.sig] }]
    (exec true defs [.set 2]).hung = true ∧
    (exec false defs [.set 2]).hung = false ∧ (exec false defs [.set 2]).last = 4 := by decide

end Imm

end Leptos.Park
