import LeptosModel.Model.Stream
namespace Leptos.Stream
end Leptos.Stream
