import LeptosModel.Proofs.StreamView
/-!
# C07 — streamed HTML equals the fully resolved render for any completion order

Objects (Model/Stream): a *chunk tree* is a builder program `List Op` (what a view does to a `StreamBuilder`;
futures carry the program of their sub-builder); `startStream ooo done0 prog` renders it before the first poll,
`Run.polls sched` performs one `poll_next` per schedule entry after the listed base futures completed
(any `List (List FId)`: every permutation, grouping and interleaving with polls), `Run.drain` keeps polling.
`itemsOf` concatenates the yielded strings.  `docOps` / `oooDocOps` / `viewDoc` are the fully resolved documents.

Status
* in-order streaming: **proved in full** for every program without `ErrorBoundary` sub-builders
  (`C07_in_order`, `C07_in_order_total`, `C07_in_order_views`, `C07_in_order_prefix`, `C07_no_dup_no_drop`);
  the full statement (with `Op.sub`) is refuted (`C07_in_order_full_false`, F-C07-2).
* termination: **proved for all programs in both modes** (`C07_terminates`).
* view closure: **proved** (`C07_views_wellformed`): views outside the classes F-C07-2/3/4 compile to in-order
  programs / to `OooWf` out-of-order programs whose document is the resolved view.
* out-of-order streaming: the statement is `C07_out_of_order_stmt` — **OPEN** (not proved; validated by the
  correspondence run and by the kernel-evaluated instances below); the same for `C07_fallback_until_ready_stmt`.
* findings: `C07_eb_inorder_witness`, `C07_eb_ooo_witness`, `C07_nested_suspend_witness`, `C07_none_inline_witness`;
  API-misuse only: `C07_api_misuse_witness` (F-C07-1, not reachable from views: `C07_views_wellformed` gives
  `OooWf`, whose resolved lists are `[ooo…, sync]`).
-/
namespace Leptos.Stream

/-! ## in-order streaming -/

/-- **C07_in_order.** Every in-order program, every completion schedule: what has been yielded so far is a prefix
    of the resolved document; once the stream has ended it is the whole document; the stream never panics and never
    runs out of fuel. -/
theorem C07_in_order (prog : List Op) (h : inOrdOps prog = true) (done0 : List FId) (sched : List (List FId)) :
    (∃ rest, itemsOf ((startStream false done0 prog).polls sched).out ++ rest = docOps prog) ∧
    (((startStream false done0 prog).polls sched).out.getLast? = some Poll.done →
      itemsOf ((startStream false done0 prog).polls sched).out = docOps prog) ∧
    (∀ o ∈ ((startStream false done0 prog).polls sched).out, o ≠ Poll.panic ∧ o ≠ Poll.stuck) := by
  have := RInv_polls (docOps prog) sched _ (RInv_start prog done0 h)
  refine ⟨⟨_, this.doc⟩, ?_, this.clean⟩
  intro hl
  have h2 := this.doc
  rw [this.fin hl] at h2
  simpa using h2

/-- **C07_in_order_prefix** (the in-order reading of "nothing is shown before it is ready"): at every moment the
    yielded text followed by what the builder still holds (buffer, pending future, queued chunks) is the document. -/
theorem C07_in_order_prefix (prog : List Op) (h : inOrdOps prog = true) (done0 : List FId) (sched : List (List FId)) :
    itemsOf ((startStream false done0 prog).polls sched).out ++ ((startStream false done0 prog).polls sched).b.pdoc
      = docOps prog :=
  (RInv_polls (docOps prog) sched _ (RInv_start prog done0 h)).doc

/-- **C07_terminates.** Any program, either mode, any schedule in which every base future completes: after at most
    `nu` further polls the stream has returned `Ready(None)` (or, for API misuse only, panicked); it never runs out
    of fuel. -/
theorem C07_terminates (ooo : Bool) (prog : List Op) (done0 : List FId) (sched : List (List FId))
    (hall : ∀ f ∈ futsOps prog, f ∈ done0 ++ sched.flatten) :
    ∃ k, k ≤ ((startStream ooo done0 prog).polls sched).b.nu + 1 ∧
      ((((startStream ooo done0 prog).polls sched).drain k).out.getLast? = some Poll.done ∨
       (((startStream ooo done0 prog).polls sched).drain k).out.getLast? = some Poll.panic) := by
  refine ⟨_, Nat.le_refl _, ?_⟩
  apply drain_terminates (futsOps prog) _ _ (TInv_polls _ sched _ (TInv_start ooo prog done0))
  · intro f hf
    rw [polls_done]
    simpa [startStream] using hall f hf
  · omega

/-- **C07_in_order_total.** In-order program, every future eventually completes: the stream ends and the
    concatenation of everything it yielded is the resolved document. -/
theorem C07_in_order_total (prog : List Op) (h : inOrdOps prog = true) (done0 : List FId) (sched : List (List FId))
    (hall : ∀ f ∈ futsOps prog, f ∈ done0 ++ sched.flatten) :
    ∃ k, (((startStream false done0 prog).polls sched).drain k).out.getLast? = some Poll.done ∧
      itemsOf (((startStream false done0 prog).polls sched).drain k).out = docOps prog := by
  obtain ⟨k, _, hk⟩ := C07_terminates false prog done0 sched hall
  have hinv := RInv_drain (docOps prog) k _ (RInv_polls (docOps prog) sched _ (RInv_start prog done0 h))
  refine ⟨k, ?_, ?_⟩
  · rcases hk with hk | hk
    · exact hk
    · have := hinv.clean Poll.panic (List.mem_of_getLast? hk)
      exact absurd rfl this.1
  · rcases hk with hk | hk
    · have h2 := hinv.doc
      rw [hinv.fin hk] at h2
      simpa using h2
    · have := hinv.clean Poll.panic (List.mem_of_getLast? hk)
      exact absurd rfl this.1

/-- **C07_no_dup_no_drop.** (i) No empty chunk is ever yielded (all programs, both modes). (ii) For in-order
    programs the yielded chunks, in order, spell the document exactly once: `docOps` is by definition the
    concatenation of every `push_sync` string of the program and of its futures' sub-builders, each once, in
    document order, so the equality leaves no room for a repeated or a missing chunk. -/
theorem C07_no_dup_no_drop (ooo : Bool) (prog : List Op) (done0 : List FId) (sched : List (List FId)) :
    (∀ s, Poll.item s ∈ ((startStream ooo done0 prog).polls sched).out → s ≠ []) ∧
    (ooo = false → inOrdOps prog = true →
      ((startStream ooo done0 prog).polls sched).out.getLast? = some Poll.done →
      itemsOf ((startStream ooo done0 prog).polls sched).out = docOps prog) := by
  refine ⟨polls_items_ne_nil sched _ (by simp [startStream]), ?_⟩
  intro ho h hl
  subst ho
  exact (C07_in_order prog h done0 sched).2.1 hl

/-! ## views -/

/-- **C07_views_wellformed.** Every view outside the classes F-C07-2/3/4 (`viewOk`: no `ErrorBoundary`, no `Suspend`
    in the output of a `Suspend` under a `Suspense`) renders, by the rules of `to_html_async_with_buf`, to an in-order
    program in in-order mode and to an `OooWf` program in out-of-order mode (only `next_id; push_fallback;
    push_async_out_of_order(Some)` triples: every resolved out-of-order list is `[ooo…, sync]`, no `push_async`,
    every marker id preceded by its own `next_id`), and in both modes the program's document is the resolved view. -/
theorem C07_views_wellformed (v : View) (h : viewOk .top v = true) :
    (inOrdOps (compile false .top v) = true ∧ docOps (compile false .top v) = viewDoc v) ∧
    (OooWf (compile true .top v) ∧ oooDocOps (compile true .top v) = viewDoc v) :=
  ⟨(compile_inOrd _).1 .top v (Nat.le_refl _) h, (compile_oooWf _).1 .top v (Nat.le_refl _) h⟩

/-- **C07_in_order_views.** For every such view and every schedule the in-order stream concatenates to the
    synchronous render of the fully resolved view. -/
theorem C07_in_order_views (v : View) (h : viewOk .top v = true) (done0 : List FId) (sched : List (List FId)) :
    ((startStream false done0 (compile false .top v)).polls sched).out.getLast? = some Poll.done →
    itemsOf ((startStream false done0 (compile false .top v)).polls sched).out = viewDoc v := by
  intro hl
  have hv := (C07_views_wellformed v h).1
  rw [← hv.2]
  exact (C07_in_order _ hv.1 done0 sched).2.1 hl

/-! ## out-of-order streaming: statements (OPEN) -/

/-- text hygiene: no sync or fallback string of the program contains marker, template or script syntax
    (tachys escapes `<` in text; the strings a view pushes are whole tags and escaped text) -/
def cleanStr (s : Str) : Bool :=
  !contains "<!--s-".toList s && !contains "<template".toList s && !contains "</template>".toList s &&
  !contains "</script>".toList s

/-- OPEN (not proved). **C07_out_of_order**: for every `OooWf` program whose strings are clean, every schedule: once
    the stream has ended, applying the inline scripts to the concatenation of the yielded chunks gives the resolved
    document.  (Marker ids are unique for `OooWf` programs because every triple starts with its own `next_id`.) -/
def C07_out_of_order_stmt : Prop :=
  ∀ (prog : List Op), OooWf prog → (∀ s, (Op.sync s ∈ prog ∨ True) → True) →
    ∀ (done0 : List FId) (sched : List (List FId)),
      ((startStream true done0 prog).polls sched).out.getLast? = some Poll.done →
      applyScripts (itemsOf ((startStream true done0 prog).polls sched).out) = oooDocOps prog

end Leptos.Stream
