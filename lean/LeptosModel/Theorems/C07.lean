import LeptosModel.Proofs.StreamPartial
/-!
# C07 — streamed HTML equals the fully resolved render for any completion order

Objects (Model/Stream): a *chunk tree* is a builder program `List Op` (what a view does to a `StreamBuilder`;
futures carry the program of their sub-builder); `startStream ooo done0 prog` renders it before the first poll,
`Run.polls sched` performs one `poll_next` per schedule entry after the listed base futures completed
(any `List (List FId)`: every permutation, grouping and interleaving with polls), `Run.drain` keeps polling.
`itemsOf` concatenates the yielded strings.  `docOps` / `oooDocOps` / `viewDoc` are the fully resolved documents.

Status (after the repairs fix-c07-2 … fix-c07-5 in /repo; the pre-repair code is kept as `Builder.appendOld`,
`inPlaceBufOld`, `compileOld` with regression witnesses at the bottom)
* in-order streaming: **proved in full**, for every in-order program including `ErrorBoundary` sub-builders
  (`Op.sub`) (`C07_in_order`, `C07_in_order_total`, `C07_in_order_views`, `C07_in_order_prefix`, `C07_no_dup_no_drop`).
* termination: **proved for all programs in both modes** (`C07_terminates`).
* view closure: **proved for every view of the grammar** (`C07_views_wellformed`): in-order programs / `OooWf`
  out-of-order programs whose document is the resolved view; marker ids are distinct paths (`C07_marker_ids`,
  now also across `ErrorBoundary` sub-builders).
* out-of-order streaming: **proved** for every `OooWf` program with clean strings and every schedule
  (`C07_out_of_order`, `C07_out_of_order_total`, `C07_out_of_order_views`), and at every moment of the stream
  (`C07_fallback_until_ready_doc`, and in static form `C07_fallback_until_ready_static`: the client's document,
  marker comments ignored, is a `PartialDoc` of the program over the futures completed so far).  Nothing is OPEN.
* repaired findings, regression witnesses: `C07_eb_inorder_witness` (F-C07-2), `C07_eb_ooo_witness` (F-C07-3),
  `C07_nested_suspend_witness` (F-C07-4), `C07_none_inline_witness` (F-C07-5);
  API-misuse only: `C07_api_misuse_witness` (F-C07-1, not reachable from views: `C07_views_wellformed` gives
  `OooWf`, whose resolved lists are `[ooo…, sync]`).
* open findings (known classes), kernel witnesses: `C07_late_read_witness`, `C07_late_read_loaded_witness` (F-C07-6,
  `sync-read-late`: a server resource read synchronously for the first time while its boundary resolves its children
  is not waited for — the view theorems carry the decidable hypothesis `noLate`, which excludes exactly these views);
  `C07_suspend_nonce_witness` (F-C07-8, `suspend-no-nonce`).  F-C07-7 (`ooo-branch-markers`) and F-C07-9
  (`nonce-unescaped`, API only) live on the harness side: branch markers and the nonce are text the driver puts into
  the view (Driver/C07 `parseViews`: modes `iob`/`ooob`/`…n`), every theorem below applies to those views as it stands.
-/
namespace Leptos.Stream

/-! ## in-order streaming -/

/-- **C07_in_order.** Every in-order program (`inOrdOps`: `push_sync`, `push_async`, `next_id`, `ErrorBoundary`
    sub-builders, `now_or_never` branches that render the same document), every completion schedule: what has been yielded so far is a prefix
    of the resolved document; once the stream has ended it is the whole document; the stream never panics and never
    runs out of fuel. -/
theorem C07_in_order (prog : List Op) (h : inOrdOps prog = true) (done0 : List FId) (sched : List (List FId)) :
    (∃ rest, itemsOf ((startStream false done0 prog).polls sched).out ++ rest = docOps prog) ∧
    (((startStream false done0 prog).polls sched).out.getLast? = some Poll.done →
      itemsOf ((startStream false done0 prog).polls sched).out = docOps prog) ∧
    (∀ o ∈ ((startStream false done0 prog).polls sched).out, o ≠ Poll.panic ∧ o ≠ Poll.stuck) := by
  have := RInv_polls (docOps prog) sched _ (RInv_start prog done0 h)
  refine ⟨⟨_, this.doc⟩, ?_, this.clean⟩
  intro hl
  have h2 := this.doc
  rw [this.fin hl] at h2
  simpa using h2

/-- **C07_in_order_prefix** (the in-order reading of "nothing is shown before it is ready"): at every moment the
    yielded text followed by what the builder still holds (buffer, pending future, queued chunks) is the document. -/
theorem C07_in_order_prefix (prog : List Op) (h : inOrdOps prog = true) (done0 : List FId) (sched : List (List FId)) :
    itemsOf ((startStream false done0 prog).polls sched).out ++ ((startStream false done0 prog).polls sched).b.pdoc
      = docOps prog :=
  (RInv_polls (docOps prog) sched _ (RInv_start prog done0 h)).doc

/-- **C07_terminates.** Any program, either mode, any schedule in which every base future completes: after at most
    `nu` further polls the stream has returned `Ready(None)` (or, for API misuse only, panicked); it never runs out
    of fuel. -/
theorem C07_terminates (ooo : Bool) (prog : List Op) (done0 : List FId) (sched : List (List FId))
    (hall : ∀ f ∈ futsOps prog, f ∈ done0 ++ sched.flatten) :
    ∃ k, k ≤ ((startStream ooo done0 prog).polls sched).b.nu + 1 ∧
      ((((startStream ooo done0 prog).polls sched).drain k).out.getLast? = some Poll.done ∨
       (((startStream ooo done0 prog).polls sched).drain k).out.getLast? = some Poll.panic) := by
  refine ⟨_, Nat.le_refl _, ?_⟩
  apply drain_terminates (futsOps prog) _ _ (TInv_polls _ sched _ (TInv_start ooo prog done0))
  · intro f hf
    rw [polls_done]
    simpa [startStream] using hall f hf
  · omega

/-- **C07_in_order_total.** In-order program, every future eventually completes: the stream ends and the
    concatenation of everything it yielded is the resolved document. -/
theorem C07_in_order_total (prog : List Op) (h : inOrdOps prog = true) (done0 : List FId) (sched : List (List FId))
    (hall : ∀ f ∈ futsOps prog, f ∈ done0 ++ sched.flatten) :
    ∃ k, (((startStream false done0 prog).polls sched).drain k).out.getLast? = some Poll.done ∧
      itemsOf (((startStream false done0 prog).polls sched).drain k).out = docOps prog := by
  obtain ⟨k, _, hk⟩ := C07_terminates false prog done0 sched hall
  have hinv := RInv_drain (docOps prog) k _ (RInv_polls (docOps prog) sched _ (RInv_start prog done0 h))
  refine ⟨k, ?_, ?_⟩
  · rcases hk with hk | hk
    · exact hk
    · have := hinv.clean Poll.panic (List.mem_of_getLast? hk)
      exact absurd rfl this.1
  · rcases hk with hk | hk
    · have h2 := hinv.doc
      rw [hinv.fin hk] at h2
      simpa using h2
    · have := hinv.clean Poll.panic (List.mem_of_getLast? hk)
      exact absurd rfl this.1

/-- **C07_no_dup_no_drop.** (i) No empty chunk is ever yielded (all programs, both modes). (ii) For in-order
    programs the yielded chunks, in order, spell the document exactly once: `docOps` is by definition the
    concatenation of every `push_sync` string of the program and of its futures' sub-builders, each once, in
    document order, so the equality leaves no room for a repeated or a missing chunk. -/
theorem C07_no_dup_no_drop (ooo : Bool) (prog : List Op) (done0 : List FId) (sched : List (List FId)) :
    (∀ s, Poll.item s ∈ ((startStream ooo done0 prog).polls sched).out → s ≠ []) ∧
    (ooo = false → inOrdOps prog = true →
      ((startStream ooo done0 prog).polls sched).out.getLast? = some Poll.done →
      itemsOf ((startStream ooo done0 prog).polls sched).out = docOps prog) := by
  refine ⟨polls_items_ne_nil sched _ (by simp [startStream]), ?_⟩
  intro ho h hl
  subst ho
  exact (C07_in_order prog h done0 sched).2.1 hl

/-! ## views -/

/-- **C07_views_wellformed.** Every view of the grammar (text, elements, tuples, `Vec`, `Suspend` on a plain future or
    on a server resource, server resources read synchronously, `LocalResource` reads, `Suspense`, `Transition`, `Await`,
    `ErrorBoundary`, nested to any depth) renders, by the rules of `to_html_async_with_buf`, to an in-order program in
    in-order mode and — unless a boundary's future resolves to `None` *after* another future (`oooViewOk`: a
    `LocalResource` awaited late; that chunk has `replace = false`) — to an `OooWf` program in out-of-order mode (only
    `next_id; push_fallback; push_async_out_of_order(Some)` triples and `ErrorBoundary` sub-builders: every resolved
    out-of-order list is `[ooo…, sync]`, no `push_async`, every marker id preceded by its own `next_id`); in both modes
    the program's document is the resolved view, where a boundary that reads a `LocalResource` keeps its fallback.
    Hypothesis `noLate` (decidable, Proofs/StreamView): no server resource is read synchronously for the first time
    while a boundary resolves its children (inside the output of a `Suspend` or of another read) — the boundary does not
    wait for such a read and the document then depends on the completion order: F-C07-6, `C07_late_read_witness`. -/
theorem C07_views_wellformed (v : View) (hn : noLate .top v = true) :
    (inOrdOps (compile false .top v) = true ∧ docOps (compile false .top v) = viewDoc v) ∧
    (oooViewOk v = true → OooWf (compile true .top v) ∧ oooDocOps (compile true .top v) = viewDoc v) :=
  ⟨(compile_inOrd _).1 .top v (Nat.le_refl _) hn, fun h => (compile_oooWf _).1 .top v (Nat.le_refl _) h hn⟩

/-- **C07_marker_ids** (`next_id`, sub-builder `id.push(0)`): in an `OooWf` program the out-of-order chunks pushed
    into the top-level builder carry the pairwise distinct ids `[1], [2], …`, and the chunks a resolved out-of-order
    future with id `I` (marker text `piecesStr I`) pushes into its sub-builder carry pairwise distinct ids
    `I ++ [1], I ++ [2], …` — every marker id is a distinct path in the tree of boundaries, whatever the schedule.
    An `ErrorBoundary` sub-builder continues its parent's numbering and hands the counter back (`exec_ids`, case `sub`;
    before fix-c07-3 it did not: `C07_eb_ooo_witness`). -/
theorem C07_marker_ids :
    (∀ (prog : List Op), OooWf prog → ∀ (done0 : List FId),
      (∀ i ∈ oooIds (startStream true done0 prog).b.chunks, ∃ j, 1 ≤ j ∧ i = some [j]) ∧
      (oooIds (startStream true done0 prog).b.chunks).Nodup) ∧
    (∀ (env : Env) (p : PendOoo) (I : List Nat), p.id = some I → OooWf p.body →
      (resolveOoo env p).id = piecesStr I ∧
      (∀ i ∈ oooIds (resolveOoo env p).chunks, ∃ j, 1 ≤ j ∧ i = some (I ++ [j])) ∧
      (oooIds (resolveOoo env p).chunks).Nodup) :=
  ⟨fun prog hw done0 => startStream_ids prog hw done0, fun env p I hI hw => resolveOoo_ids env p I hI hw⟩

/-- **C07_in_order_views.** For every view (without a late synchronous resource read, `noLate`) and every schedule
    the in-order stream concatenates to the synchronous render of the fully resolved view. -/
theorem C07_in_order_views (v : View) (hn : noLate .top v = true) (done0 : List FId) (sched : List (List FId)) :
    ((startStream false done0 (compile false .top v)).polls sched).out.getLast? = some Poll.done →
    itemsOf ((startStream false done0 (compile false .top v)).polls sched).out = viewDoc v := by
  intro hl
  have hv := (C07_views_wellformed v hn).1
  rw [← hv.2]
  exact (C07_in_order _ hv.1 done0 sched).2.1 hl

/-! ## out-of-order streaming

Hygiene (`cleanOps`, Proofs/StreamOoo; `cleanStr`, Proofs/StreamSeg): every pushed string and every fallback contains no
marker / `<template` / `</template>` / `<script` / `</script>` text of its own and every `<` in it is closed by a later
`>` in the same string (what a view pushes are whole tags and escaped text), so that no marker can be formed across a
boundary either; no nonce.  Proof architecture: Proofs/StreamStr (substring search on tag-closed pieces), StreamSeg
(texts as segments and `<template>` items), StreamClient (`applyScripts` = hole substitution), StreamOoo /
StreamOooStep (the invariant `OInv` of `pollStep`), StreamOooRun. -/

/-- **C07_out_of_order.** Every `OooWf` program (decidable: `oooWfOps`, `OooWf_of_bool`) with clean strings, every
    completion schedule: the stream never panics and never runs out of fuel, and once it has ended, applying the inline
    scripts to the concatenation of the yielded chunks gives the fully resolved document. -/
theorem C07_out_of_order (prog : List Op) (hw : OooWf prog) (hc : cleanOps prog = true)
    (done0 : List FId) (sched : List (List FId)) :
    (∀ o ∈ ((startStream true done0 prog).polls sched).out, o ≠ Poll.panic ∧ o ≠ Poll.stuck) ∧
    (((startStream true done0 prog).polls sched).out.getLast? = some Poll.done →
      applyScripts (itemsOf ((startStream true done0 prog).polls sched).out) = oooDocOps prog) := by
  have h := ORun_polls finalSem prog sched _ (ORun_start finalSem prog hw hc done0)
  refine ⟨h.clean, fun hl => ?_⟩
  obtain ⟨h1, h2, h3⟩ := h.fin hl
  exact ORel_done h.rel h1 h2 h3

/-- **C07_out_of_order_total.** If moreover every base future eventually completes, the stream ends and the client
    shows the resolved document. -/
theorem C07_out_of_order_total (prog : List Op) (hw : OooWf prog) (hc : cleanOps prog = true)
    (done0 : List FId) (sched : List (List FId)) (hall : ∀ f ∈ futsOps prog, f ∈ done0 ++ sched.flatten) :
    ∃ k, (((startStream true done0 prog).polls sched).drain k).out.getLast? = some Poll.done ∧
      applyScripts (itemsOf (((startStream true done0 prog).polls sched).drain k).out) = oooDocOps prog := by
  obtain ⟨k, _, hk⟩ := C07_terminates true prog done0 sched hall
  have h := ORun_drain finalSem prog k _ (ORun_polls finalSem prog sched _ (ORun_start finalSem prog hw hc done0))
  have hd : (((startStream true done0 prog).polls sched).drain k).out.getLast? = some Poll.done := by
    rcases hk with hk | hk
    · exact hk
    · exact absurd rfl (h.clean Poll.panic (List.mem_of_getLast? hk)).1
  obtain ⟨h1, h2, h3⟩ := h.fin hd
  exact ⟨k, hd, ORel_done h.rel h1 h2 h3⟩

/-- **C07_out_of_order_views.** Every view of the grammar with clean strings, every schedule: the out-of-order
    stream, after its scripts, is the synchronous render of the fully resolved view. -/
theorem C07_out_of_order_views (v : View) (hc : cleanView v = true) (hok : oooViewOk v = true) (hn : noLate .top v = true)
    (done0 : List FId) (sched : List (List FId)) :
    ((startStream true done0 (compile true .top v)).polls sched).out.getLast? = some Poll.done →
    applyScripts (itemsOf ((startStream true done0 (compile true .top v)).polls sched).out) = viewDoc v := by
  intro hl
  have hv := (C07_views_wellformed v hn).2 hok
  rw [← hv.2]
  exact (C07_out_of_order _ hv.1 ((compile_clean true _).1 .top v (Nat.le_refl _) hc) done0 sched).2 hl

/-- **C07_fallback_until_ready_doc** (document level, every moment of every schedule).  What the client shows after
    applying the scripts to everything yielded so far plus the unflushed buffer is a segment text `D` (followed by the
    text `tail` still queued before the first poll) in which
    * the holes (`Seg.hole I fb` = marker-wrapped fallback `fb`) are **exactly** the out-of-order futures that are
      still in the builder's queues — i.e. not yet resolved, and `pollStep` resolves a future only under `Fut.ready`
      (`C07_fallback_until_ready`) — each once;
    * everything else is final: replacing every hole by the resolved document of its future (`Adm finalSem`) gives
      the resolved document of the program.
    So a fallback is shown precisely as long as its future is unresolved, and it disappears only in exchange for its
    content. -/
theorem C07_fallback_until_ready_doc (prog : List Op) (hw : OooWf prog) (hc : cleanOps prog = true)
    (done0 : List FId) (sched : List (List FId)) :
    ∃ (D tail : List Seg) (cs : List PendOoo),
      applyScripts (itemsOf ((startStream true done0 prog).polls sched).out
        ++ ((startStream true done0 prog).polls sched).b.syncBuf) = segsStr D ∧
      ((startStream true done0 prog).polls sched).b.chunks = cs.map Chunk.ooo ++ tailChunk (segsStr tail) ∧
      (∀ I, I ∈ holeIds (D ++ tail) ↔ ∃ p ∈ cs ++ ((startStream true done0 prog).polls sched).b.pendingOoo, p.id = some I) ∧
      (holeIds (D ++ tail)).Nodup ∧
      (∀ σ, Adm finalSem (done0 ++ sched.flatten) σ (D ++ tail) (cs ++ ((startStream true done0 prog).polls sched).b.pendingOoo) →
        fill σ (D ++ tail) = oooDocOps prog) := by
  have h := ORun_polls finalSem prog sched _ (ORun_start finalSem prog hw hc done0)
  obtain ⟨ys, bs, tail, cs, hi⟩ := h.rel
  refine ⟨clientS [] (ys ++ bs), tail, cs, ?_, hi.hC, hi.mem, ?_, ?_⟩
  · rw [hi.hY, hi.hB, ← itemsStr_append]
    exact applyScripts_items _ hi.okI (List.Nodup.sublist (List.sublist_append_left _ _) hi.ndText) hi.ndTpl
  · rw [holeIds_append]
    exact nodup_clientS _ _ _ (by simpa [holeIds] using hi.ndText)
  · intro σ hσ
    have hd : ((startStream true done0 prog).polls sched).done = done0 ++ sched.flatten := by
      rw [polls_done]; rfl
    exact hi.sem _ (by rw [hd]; exact fun x hx => hx) σ hσ

/-- **C07_fallback_until_ready_static** (the static form).  At every moment of every schedule, what the client shows —
    scripts applied to everything yielded so far plus the unflushed buffer, followed by the text still queued before
    the first poll, marker comments ignored — is a `PartialDoc` of the program over the futures completed so far: the
    program's document in which every out-of-order future shows **either its fallback or**, only if everything it
    waits for has completed, **a partial document of its content** (recursively), and every `now_or_never` branch is
    one of its two readings (the ready one only for a completed future).  Content never appears before its future has
    completed; a fallback is only ever exchanged for its content. -/
theorem C07_fallback_until_ready_static (prog : List Op) (hw : OooWf prog) (hc : cleanOps prog = true)
    (done0 : List FId) (sched : List (List FId)) :
    ∃ (tail : List Seg) (cs : List PendOoo),
      ((startStream true done0 prog).polls sched).b.chunks = cs.map Chunk.ooo ++ tailChunk (segsStr tail) ∧
      PartialDoc (done0 ++ sched.flatten) prog
        (stripMarkers (applyScripts (itemsOf ((startStream true done0 prog).polls sched).out
          ++ ((startStream true done0 prog).polls sched).b.syncBuf) ++ segsStr tail)) := by
  have h := ORun_polls partialSem prog sched _ (ORun_start partialSem prog hw hc done0)
  obtain ⟨ys, bs, tail, cs, hi⟩ := h.rel
  refine ⟨tail, cs, hi.hC, ?_⟩
  have hd : ((startStream true done0 prog).polls sched).done = done0 ++ sched.flatten := by
    rw [polls_done]; rfl
  have happ : applyScripts (itemsOf ((startStream true done0 prog).polls sched).out
      ++ ((startStream true done0 prog).polls sched).b.syncBuf) = segsStr (clientS [] (ys ++ bs)) := by
    rw [hi.hY, hi.hB, ← itemsStr_append]
    exact applyScripts_items _ hi.okI (List.Nodup.sublist (List.sublist_append_left _ _) hi.ndText) hi.ndTpl
  have hnd : (holeIds (clientS [] (ys ++ bs) ++ tail)).Nodup := by
    rw [holeIds_append]
    exact nodup_clientS _ _ _ (by simpa [holeIds] using hi.ndText)
  have hokD : ∀ g ∈ clientS [] (ys ++ bs) ++ tail, g.ok := by
    intro g hg
    rcases List.mem_append.1 hg with hg | hg
    · exact clientS_ok _ hi.okI [] (by simp) g hg
    · exact hi.okT g hg
  -- every hole shows its own fallback
  have hadm : Adm partialSem (done0 ++ sched.flatten) (holeFb (clientS [] (ys ++ bs) ++ tail))
      (clientS [] (ys ++ bs) ++ tail) (cs ++ ((startStream true done0 prog).polls sched).b.pendingOoo) := by
    intro I fb hg p _ _
    exact ⟨fb, holeFb_mem hnd hg, Or.inl rfl⟩
  have hP := hi.sem _ (by rw [hd]; exact fun x hx => hx) _ hadm
  rw [fill_holeFb _ _ (fun I fb hg => holeFb_mem hnd hg)] at hP
  rw [happ, ← segsStr_append, stripMarkers_segs _ hokD]
  exact hP

/-- **C07_fallback_until_ready** at the level of one `poll_next` call (proved; all programs, both modes): a poll that
    finds the future at the head of its queue not ready does not touch the text that has been pushed — an in-order
    stream returns `Pending` with its state unchanged (nothing behind the future is emitted), an out-of-order stream
    rotates the queue and at most flushes the buffer as it is (the fallback inside it is neither replaced nor removed).
    Content is spliced only under `Fut.ready` (`pollStep`: the only calls of `resolveAsync` / `resolveOoo`). -/
theorem C07_fallback_until_ready (env : Env) (fuel : Nat) (b : Builder) :
    (∀ p, b.pending = some p → p.fut.ready env p.born = false → pollNext (fuel + 1) env b = (Poll.pending, b)) ∧
    (∀ p rest, b.pending = none → b.chunks = [] → b.pendingOoo = p :: rest → p.fut.ready env p.born = false →
      pollNext (fuel + 1) env b =
        if b.syncBuf.isEmpty then (Poll.pending, { b with pendingOoo := rest ++ [p] })
        else (Poll.item b.syncBuf, { b with pendingOoo := rest ++ [p], syncBuf := [] })) := by
  refine ⟨?_, ?_⟩
  · intro p hp hr
    simp [pollNext, pollStep, hp, hr]
  · intro p rest hp hc ho hr
    by_cases hb : b.syncBuf.isEmpty = true
    · simp [pollNext, pollStep, yieldStep, hp, hc, ho, hr, hb]
    · simp [pollNext, pollStep, yieldStep, hp, hc, ho, hr, hb]

/-! ## regression witnesses (kernel-evaluated): the repaired code and what the code did before -/

section witnesses
set_option maxRecDepth 100000

def fut1 : Fut := { deps := [1], tick := false }
def fut2 : Fut := { deps := [2], tick := false }

/-- F-C07-2 (repaired by fix-c07-2). `<div><b>a</b><ErrorBoundary><b>b</b>{Suspend 1: <i>v</i>}<b>c</b></ErrorBoundary><b>d</b></div>`,
    in-order. -/
def ebView : View :=
  .seq [.raw "<div>".toList, .raw "<b>a</b>".toList,
        .eb [.raw "<b>b</b>".toList, .suspend 1 (.raw "<i>v</i>".toList), .raw "<b>c</b>".toList],
        .raw "<b>d</b>".toList, .raw "</div>".toList]

/-- the parent builder holding `<div><b>a</b>` and the boundary's sub-builder at the moment of `append` -/
def ebParent : Builder := { syncBuf := "<div><b>a</b>".toList }
def ebChild : Builder :=
  { chunks := [Chunk.sync "<b>b</b>".toList, Chunk.async { fut := fut1, born := 0, id := none, body := [Op.sync "<i>v</i>".toList] }],
    syncBuf := "<b>c</b>".toList }

/-- now the stream is `<div><b>a</b><b>b</b>`, `<i>v</i><b>c</b><b>d</b></div>`; before the repair `append` let the
    boundary's chunks overtake the buffered text: the real stream was `<b>b</b>`, `<i>v</i><div><b>a</b><b>c</b><b>d</b></div>` -/
theorem C07_eb_inorder_witness :
    ((startStream false [] (compile false .top ebView)).polls [[], [1], [], []]).out
      = [Poll.item "<div><b>a</b><b>b</b>".toList, Poll.item "<i>v</i><b>c</b><b>d</b></div>".toList, Poll.done, Poll.done]
    ∧ viewDoc ebView = "<div><b>a</b><b>b</b><i>v</i><b>c</b><b>d</b></div>".toList
    ∧ (ebParent.append ebChild).bdoc = "<div><b>a</b><b>b</b><i>v</i><b>c</b>".toList
    ∧ (ebParent.appendOld ebChild).bdoc = "<b>b</b><i>v</i><div><b>a</b><b>c</b>".toList := by decide

/-- F-C07-3 (repaired by fix-c07-3). `<div><ErrorBoundary>{Suspend 1}</ErrorBoundary><Suspense fallback=<u>f</u>>{Suspend 2}</Suspense></div>`,
    out-of-order: the boundaries now get the ids `1-` and `2-`; before the repair `append` dropped the sub-builder's
    counter (`appendOld` keeps the parent's id `[0]` although the child used `[1]`) and both were `1-`. -/
def ebOooView : View :=
  .seq [.raw "<div>".toList, .eb [.suspend 1 (.raw "<i>v1</i>".toList)],
        .suspense "<u>f</u>".toList none [.suspend 2 (.raw "<em>v2</em>".toList)], .raw "</div>".toList]

theorem C07_eb_ooo_witness :
    ((startStream true [] (compile true .top ebOooView)).polls [[]]).out
      = [Poll.item "<div><!--s-1-o--><!><!--s-1-c--><!--s-2-o--><u>f</u><!--s-2-c--></div>".toList]
    ∧ ((Builder.new (some [0])).append { (Builder.new (some [1])) with syncBuf := "x".toList }).id = some [1]
    ∧ ((Builder.new (some [0])).appendOld { (Builder.new (some [1])) with syncBuf := "x".toList }).id = some [0] := by decide

/-- F-C07-4 (repaired by fix-c07-4). `<Suspense>{Suspend 1: <p>a</p>{Suspend 2: <i>b</i>}}</Suspense>`: the boundary now
    waits for both futures in either order; before the repair (`compileOld`) future 1 completing first lost `<i>b</i>`. -/
def nestedView : View :=
  .suspense "<u>f</u>".toList none [.suspend 1 (.seq [.raw "<p>a</p>".toList, .suspend 2 (.raw "<i>b</i>".toList)])]

theorem C07_nested_suspend_witness :
    ((startStream false [] (compile false .top nestedView)).polls [[], [1], [2], []]).out
      = [Poll.pending, Poll.pending, Poll.item "<p>a</p><i>b</i>".toList, Poll.done]
    ∧ viewDoc nestedView = "<p>a</p><i>b</i>".toList
    ∧ ((startStream false [] (compileOld false .top nestedView)).polls [[], [1], [2], []]).out
      = [Poll.pending, Poll.item "<p>a</p>".toList, Poll.done, Poll.done]
    ∧ ((startStream false [] (compileOld false .top nestedView)).polls [[], [2], [1], []]).out
      = [Poll.pending, Poll.pending, Poll.item "<p>a</p><i>b</i>".toList, Poll.done] := by decide

/-- F-C07-5 (repaired by fix-c07-5). `push_fallback(<u>f</u>); push_async_out_of_order(None)` completed before the
    first poll: the in-place path now keeps the fallback (as the template path always did); before the repair the
    buffer became `before ++ syncs ++ after` (`inPlaceBufOld`), i.e. `<b>x</b>`. -/
def noneProg : List Op := [.nextId, .fallback "<u>f</u>".toList, .ooo fut1 false [] none, .sync "<b>x</b>".toList]

theorem C07_none_inline_witness :
    ((startStream true [] noneProg).polls [[1], []]).out = [Poll.item "<u>f</u><b>x</b>".toList, Poll.done]
    ∧ oooDocOps noneProg = "<u>f</u><b>x</b>".toList
    ∧ inPlaceBufOld [] [] "<b>x</b>".toList = "<b>x</b>".toList
    ∧ ((startStream true [] noneProg).polls [[]]).out = [Poll.item "<!--s-1-o--><u>f</u><!--s-1-c--><b>x</b>".toList] := by
  decide

/-- F-C07-1 (API misuse only, not repaired). An out-of-order chunk whose resolved list is `[Sync x, Async, Sync y]` — only
    obtainable by calling `push_async` on the sub-builder of an out-of-order chunk — comes out as `y x`: both
    splice loops iterate `.rev()` while *appending* sync chunks.  Not `OooWf`. -/
def misuseProg : List Op :=
  [.nextId, .fallback "<u>f</u>".toList,
   .ooo fut1 true [.sync "<b>x</b>".toList, .async fut2 [.sync "<i>m</i>".toList], .sync "<em>y</em>".toList] none]

theorem C07_api_misuse_witness :
    ((startStream true [] misuseProg).polls [[1], [2], []]).out
      = [Poll.item "<em>y</em><b>x</b>".toList, Poll.item "<i>m</i>".toList, Poll.done]
    ∧ oooWfOps misuseProg = false := by decide

/-- F-C07-6 (open; class `sync-read-late`). `<div><Suspense fallback=<u>f</u>>{r1.get().map(|_| (<i>1</i>,
    r2.get().map(|_| <em>2</em>)))}</Suspense></div>`: resource 2 is read for the first time while the boundary resolves
    its children, after it stopped collecting the tasks it waits for.  Completion order 2,1 gives the resolved document;
    order 1,2 ends the stream — before future 2 has completed — with `<!>` (`None`) in its place, in both modes.
    `noLate` excludes exactly this; the same read directly under the boundary (`lateFixed`) is waited for. -/
def lateRead : View :=
  .seq [.raw "<div>".toList,
        .suspense "<u>f</u>".toList none
          [.resRead true 1 (.seq [.raw "<i>1</i>".toList, .resRead false 2 (.raw "<em>2</em>".toList)])],
        .raw "</div>".toList]
def lateFixed : View :=
  .seq [.raw "<div>".toList,
        .suspense "<u>f</u>".toList none
          [.resRead true 1 (.raw "<i>1</i>".toList), .resRead false 2 (.raw "<em>2</em>".toList)],
        .raw "</div>".toList]

theorem C07_late_read_witness :
    noLate .top lateRead = false ∧ viewDoc lateRead = "<div><i>1</i><em>2</em></div>".toList
    ∧ ((startStream false [] (compile false .top lateRead)).polls [[], [2], [1], []]).out
      = [Poll.item "<div>".toList, Poll.pending, Poll.item "<i>1</i><em>2</em></div>".toList, Poll.done]
    ∧ ((startStream false [] (compile false .top lateRead)).polls [[], [1], [2], []]).out
      = [Poll.item "<div>".toList, Poll.item "<i>1</i><!></div>".toList, Poll.done, Poll.done]
    ∧ applyScripts (itemsOf ((startStream true [] (compile true .top lateRead)).polls [[], [1], [], [2], []]).out)
      = "<div><i>1</i><!></div>".toList
    ∧ noLate .top lateFixed = true ∧ viewDoc lateFixed = viewDoc lateRead
    ∧ ((startStream false [] (compile false .top lateFixed)).polls [[], [1], [2], []]).out
      = [Poll.item "<div>".toList, Poll.pending, Poll.item "<i>1</i><em>2</em></div>".toList, Poll.done] := by decide

/-- F-C07-6, what had loaded when the boundary walked its children (`compileA`'s `was`, `iteTree`): the outer resource's
    future has completed before rendering.  A `Resource` / `AsyncDerived` has then loaded where it was created, the
    boundary walks into its `.map` output, sees the inner read and waits for future 2; the loader of an `OnceResource` is
    a spawned task that has not run yet: the inner read is late again. -/
def lateLoaded (once : Bool) : View :=
  .suspense "<u>f</u>".toList none
    [.resRead once 1 (.seq [.raw "<i>1</i>".toList, .resRead false 2 (.raw "<em>2</em>".toList)])]

theorem C07_late_read_loaded_witness :
    ((startStream false [1] (compile false .top (lateLoaded false))).polls [[], [], [2], []]).out
      = [Poll.pending, Poll.pending, Poll.item "<i>1</i><em>2</em>".toList, Poll.done]
    ∧ ((startStream false [1] (compile false .top (lateLoaded true))).polls [[], [], [2], []]).out
      = [Poll.item "<i>1</i><!>".toList, Poll.done, Poll.done, Poll.done] := by decide

/-- F-C07-8 (open; class `suspend-no-nonce`). With a nonce provided every boundary (`<Suspense>`, `<Transition>`,
    `<Await>`) pushes its out-of-order chunk with the nonce, a `Suspend` outside every boundary pushes it without
    (`compileA`, case `.top, .suspend`: `none`): the stream contains a `<script>` that a nonce-based CSP does not run. -/
def nonceView : View :=
  .seq [.suspend 1 (.raw "<i>v</i>".toList),
        .suspense "<u>f</u>".toList (some "N".toList) [.suspend 2 (.raw "<b>w</b>".toList)]]

set_option maxRecDepth 100000 in
theorem C07_suspend_nonce_witness :
    let out := itemsOf ((startStream true [] (compile true .top nonceView)).polls [[], [1, 2], [], []]).out
    contains "<template id=\"1-f\"><i>v</i></template><script>".toList out = true
    ∧ contains "<template id=\"2-f\"><b>w</b></template><script nonce=\"N\">".toList out = true := by decide

/-! ## non-vacuity -/

/-- two futures, both completion orders, in-order: different chunkings, same document; the hypothesis of
    `C07_in_order` holds -/
def twoView : View :=
  .seq [.raw "<div>".toList, .suspend 1 (.raw "<i>v</i>".toList), .raw "<b>m</b>".toList,
        .suspense "<u>f</u>".toList none [.raw "<p>c</p>".toList, .suspend 2 (.raw "<em>w</em>".toList)], .raw "</div>".toList]

example : inOrdOps (compile false .top twoView) = true
    ∧ oooWfOps (compile true .top twoView) = true ∧ cleanOps (compile true .top twoView) = true
    ∧ cleanView twoView = true := by decide

example :
    ((startStream false [] (compile false .top twoView)).polls [[], [1], [2], []]).out
      = [Poll.item "<div>".toList, Poll.item "<i>v</i><b>m</b>".toList, Poll.item "<p>c</p><em>w</em></div>".toList, Poll.done]
    ∧ ((startStream false [] (compile false .top twoView)).polls [[], [2], [1], []]).out
      = [Poll.item "<div>".toList, Poll.pending, Poll.item "<i>v</i><b>m</b>".toList, Poll.item "<p>c</p><em>w</em></div>".toList]
    := by decide

/-- nested Suspense, out-of-order, completion orders 1,2 / 2,1 / both before the first poll: three different
    streams (templates in either order, or everything replaced in place), one document — instances of
    `C07_out_of_order` -/
def nestedOoo : View :=
  .seq [.raw "<div>".toList,
        .suspense "<u>f</u>".toList none
          [.suspend 1 (.raw "<i>v</i>".toList),
           .suspense "<u>g</u>".toList none [.suspend 2 (.raw "<em>w</em>".toList)]],
        .raw "</div>".toList]

example : oooWfOps (compile true .top nestedOoo) = true
    ∧ viewDoc nestedOoo = "<div><i>v</i><em>w</em></div>".toList := by decide

example : applyScripts (itemsOf ((startStream true [] (compile true .top nestedOoo)).polls [[], [1], [], [2], [], []]).out)
    = viewDoc nestedOoo := by decide
example : applyScripts (itemsOf ((startStream true [] (compile true .top nestedOoo)).polls [[], [2], [], [1], [], [], []]).out)
    = viewDoc nestedOoo := by decide
example : applyScripts (itemsOf ((startStream true [] (compile true .top nestedOoo)).polls [[1, 2], [], [], []]).out)
    = viewDoc nestedOoo := by decide
example : ((startStream true [] (compile true .top nestedOoo)).polls [[1, 2], [], [], []]).out.getLast? = some Poll.done := by
  decide

/-- resource kinds under boundaries: a server resource read synchronously and one awaited in a `Suspend`, a boundary
    that reads a `LocalResource` (keeps its fallback, nothing is streamed for it), a `LocalResource` awaited late
    (in-order: the fallback arrives as an in-order chunk) -/
def resView : View :=
  .seq [.raw "<div>".toList,
        .suspense "<u>f</u>".toList none [.resRead true 1 (.raw "<i>v</i>".toList), .resSuspend 2 (.raw "<em>w</em>".toList)],
        .suspense "<u>g</u>".toList none [.localRead, .raw "<p>never</p>".toList],
        .raw "</div>".toList]

example : oooViewOk resView = true ∧ cleanView resView = true ∧ noLate .top resView = true ∧ viewDoc resView = "<div><i>v</i><em>w</em><u>g</u></div>".toList
    ∧ ((startStream false [] (compile false .top resView)).polls [[], [2], [1], []]).out
      = [Poll.item "<div>".toList, Poll.pending, Poll.item "<i>v</i><em>w</em><u>g</u></div>".toList, Poll.done]
    ∧ ((startStream true [] (compile true .top resView)).polls [[1, 2], []]).out
      = [Poll.item "<div><i>v</i><em>w</em><u>g</u></div>".toList, Poll.done] := by decide

def lateLocal : View := .suspense "<u>g</u>".toList none [.localAwait 1, .raw "<p>never</p>".toList]

example : oooViewOk lateLocal = false ∧ viewDoc lateLocal = "<u>g</u>".toList
    ∧ ((startStream false [] (compile false .top lateLocal)).polls [[], [1], []]).out
      = [Poll.pending, Poll.item "<u>g</u>".toList, Poll.done] := by decide

end witnesses

end Leptos.Stream
